"""Guarded promotion of indirect calls (opt-in, spec key 'promote_icalls': [regex of mangled target names]).

Engine 'cbmc-seq' can only interleave code that LLVM inlines into a thread root; code reached through a
function pointer (std::function's invoker, OnceFunction::invoke_, ...) runs as one indivisible step.  This
pass rewrites, in the textual IR and before the inliner runs, every indirect call whose function type equals
the type of a listed target

    call R %fp(args)     ==>     call R @vf_icp_K(FTY* %fp, args)

    define internal R @vf_icp_K(FTY* %fp, params) {
      if (%fp == @target) return @target(params);      // direct: inlined into the root, preemptible
      ... (one test per listed target of that type)
      return %fp(params);                              // anything else: unchanged indirect call
    }

The rewrite preserves the program's meaning whatever the pointer holds (same idea as LLVM's profile-guided
indirect-call promotion).  Call sites with byval/sret/inalloca arguments and variadic types are left alone.
"""
import re

TYPEWORDS = {'void', 'half', 'bfloat', 'float', 'double', 'fp128', 'x86_fp80', 'ppc_fp128', 'ptr', 'label',
             'metadata', 'token', 'x86_mmx', 'x86_amx', 'opaque'}
_CLOSE = {'(': ')', '[': ']', '{': '}', '<': '>'}


def _skip_ws(s, i):
    while i < len(s) and s[i] in ' \t':
        i += 1
    return i


def _match(s, i):
    """s[i] is an opening bracket: index just past its partner (quotes respected)"""
    stack = [_CLOSE[s[i]]]
    i += 1
    while i < len(s) and stack:
        c = s[i]
        if c == '"':
            i = s.index('"', i + 1) + 1
            continue
        if c in _CLOSE:
            stack.append(_CLOSE[c])
        elif c == stack[-1]:
            stack.pop()
        i += 1
    if stack:
        raise ValueError('unbalanced')
    return i


def _type_starts(s, i):
    if i >= len(s):
        return False
    if s[i] in '%{[<':
        return True
    m = re.match(r'[A-Za-z_][\w]*', s[i:])
    if not m:
        return False
    w = m.group(0)
    return w in TYPEWORDS or re.fullmatch(r'i\d+', w) is not None


def scan_type(s, i):
    """parse one first-class / function type starting at s[i]; returns (text, end)"""
    i = _skip_ws(s, i)
    b = i
    if s[i] == '%':
        if s[i + 1] == '"':
            i = s.index('"', i + 2) + 1
        else:
            m = re.match(r'%[\w.$-]+', s[i:])
            i += m.end()
    elif s[i] in '{[<':
        i = _match(s, i)
    else:
        m = re.match(r'[A-Za-z_]\w*', s[i:])
        i += m.end()
    while True:
        j = _skip_ws(s, i)
        if j < len(s) and s[j] == '*':
            i = j + 1
        elif s.startswith('addrspace(', j):
            i = _match(s, j + len('addrspace'))
        elif j < len(s) and s[j] == '(':
            i = _match(s, j)
        else:
            break
    return re.sub(r'\s+', ' ', s[b:i]).strip(), i


def _skip_keywords(s, i):
    """skip linkage / calling convention / return attributes up to the start of the return type"""
    while True:
        i = _skip_ws(s, i)
        if _type_starts(s, i):
            return i
        m = re.match(r'[A-Za-z_]\w*', s[i:])
        if not m:
            return None
        i += m.end()
        j = _skip_ws(s, i)
        if j < len(s) and s[j] == '(':
            i = _match(s, j)
        else:
            m2 = re.match(r'\d+', s[j:])
            if m2:
                i = j + m2.end()


def split_args(s):
    out, depth, cur, i = [], 0, '', 0
    while i < len(s):
        c = s[i]
        if c == '"':
            j = s.index('"', i + 1) + 1
            cur += s[i:j]
            i = j
            continue
        if c in '([{<':
            depth += 1
        elif c in ')]}>':
            depth -= 1
        if c == ',' and depth == 0:
            out.append(cur.strip())
            cur = ''
        else:
            cur += c
        i += 1
    if cur.strip():
        out.append(cur.strip())
    return out


_BAD_ATTR = re.compile(r'\b(byval|sret|inalloca|preallocated|byref|swifterror|swiftself|nest)\b')


def _arg_types(argtxt):
    tys = []
    for a in split_args(argtxt):
        if a == '...' or _BAD_ATTR.search(a):
            return None
        t, _ = scan_type(a, 0)
        tys.append(t)
    return tys


def promote(txt, patterns):
    """returns (new IR text, report list)"""
    pats = [re.compile(p) for p in patterns]
    lines = txt.split('\n')
    targets = {}  # fty -> [(name token, ret, [param types])]
    for line in lines:
        if not line.startswith('define '):
            continue
        m = re.search(r' @("[^"]+"|[\w.$-]+)\(', line)
        if not m:
            continue
        name = m.group(1)
        if not any(p.search(name.strip('"')) for p in pats):
            continue
        try:
            i = _skip_keywords(line, len('define'))
            if i is None:
                continue
            ret, e = scan_type(line, i)
            if _skip_ws(line, e) != m.start() + 1:
                continue
            close = _match(line, m.end() - 1)
            tys = _arg_types(line[m.end():close - 1])
        except (ValueError, AttributeError):
            continue
        if tys is None:
            continue
        fty = '%s (%s)' % (ret, ', '.join(tys))
        targets.setdefault(fty, []).append(('@' + name, ret, tys))
    if not targets:
        return txt, ['promote_icalls: no target function matches']
    helper = {}
    report = []
    out = []
    callre = re.compile(r'^(\s*(?:%[\w.]+|%"[^"]+") = |\s*)((?:tail |notail )?call )')
    for line in lines:
        m = callre.match(line)
        if not m or '@' in line.split('(')[0]:
            out.append(line)
            continue
        try:
            i = _skip_keywords(line, m.end())
            if i is None:
                raise ValueError
            ret, e = scan_type(line, i)
            j = _skip_ws(line, e)
            mc = re.match(r'(%[\w.]+|%"[^"]+")\(', line[j:])
            if not mc or ret.endswith(')'):
                raise ValueError
            callee = mc.group(1)
            astart = j + mc.end()
            close = _match(line, astart - 1)
            tys = _arg_types(line[astart:close - 1])
            if tys is None:
                raise ValueError
        except (ValueError, AttributeError):
            out.append(line)
            continue
        fty = '%s (%s)' % (ret, ', '.join(tys))
        if fty not in targets:
            out.append(line)
            continue
        if fty not in helper:
            helper[fty] = '@vf_icp_%d' % len(helper)
        args = line[astart:close - 1].strip()
        out.append('%s%s %s* %s%s%s' % (line[:j], helper[fty] + '(', fty, callee, (', ' + args) if args else '', line[close - 1:]))
        report.append('%s <- %s' % (helper[fty], ', '.join(t[0] for t in targets[fty])))
    for fty, h in helper.items():
        _, ret, tys = targets[fty][0]
        params = ', '.join(['%s* %%fp' % fty] + ['%s %%a%d' % (t, k) for k, t in enumerate(tys)])
        cargs = ', '.join('%s %%a%d' % (t, k) for k, t in enumerate(tys))
        body = ['', 'define internal %s %s(%s) {' % (ret, h, params), 'entry:', '  br label %t0']
        n = len(targets[fty])
        for k, (tn, _, _) in enumerate(targets[fty]):
            body += ['t%d:' % k,
                     '  %%c%d = icmp eq %s* %%fp, %s' % (k, fty, tn),
                     '  br i1 %%c%d, label %%d%d, label %%t%d' % (k, k, k + 1),
                     'd%d:' % k]
            if ret == 'void':
                body += ['  call void %s(%s)' % (tn, cargs), '  ret void']
            else:
                body += ['  %%r%d = call %s %s(%s)' % (k, ret, tn, cargs), '  ret %s %%r%d' % (ret, k)]
        body += ['t%d:' % n]
        if ret == 'void':
            body += ['  call void %%fp(%s)' % cargs, '  ret void']
        else:
            body += ['  %%rf = call %s %%fp(%s)' % (ret, cargs), '  ret %s %%rf' % ret]
        body += ['}']
        out += body
    return '\n'.join(out), report
