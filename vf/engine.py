"""Check engine: lift -> translate -> (validate) -> witness + solver runs -> replay -> evidence."""
import os
import sys
import re
import json
import time
import shutil
import hashlib
import subprocess
import importlib.util
import resource
from concurrent.futures import ThreadPoolExecutor

from . import llir, ir2c

ROOT = os.path.dirname(os.path.dirname(os.path.abspath(__file__)))
REPO = os.environ.get('VERIF_REPO', '/repo')
WORK = os.path.join(ROOT, '.work') if os.path.realpath(REPO) == '/repo' else os.path.join(ROOT, '.work', 'mut')
RT = os.path.join(ROOT, 'rt')

CLANG_FLAGS = ['-std=c++14', '-O1', '-g0', '-DNDEBUG', '-fno-vectorize', '-fno-slp-vectorize',
               '-fno-unroll-loops', '-fno-access-control', '-fno-threadsafe-statics',
               '-Wno-everything']
RT_LOOPS = ['vf_futex_wake.0', 'vf_join_all.0', 'vf_any_stuck.0', 'vf_entry.0', 'vf_entry.1',
            'vf_entry.2']

STUBS_DOC = [
    'vf_nondet_*/vf_assume/vf_check: harness inputs, preconditions, assertions',
    'futex: WAIT parks iff word==expected (atomically), may return spuriously (bounded), WAKE n wakes '
    'min(n,#waiters) symbolically chosen waiters; a parked thread may be declared never-woken and the '
    'observer asserts that no such thread exists once all others finished',
    'operator new/malloc: fresh object, never NULL (allocation failure out of scope)',
    'abort/terminate/__throw_*: reported as violation class ub',
    'clock: arbitrary non-decreasing instants',
    'pthread_mutex: blocking lock on the first word',
]


class Inconclusive(Exception):
    pass


# named environment-model bundles a spec can ask for with 'models': [...]
MODELS = {
    'aligned_alloc': {
        'preinclude': ['shim/pre/aligned_alloc.h'],
        'intercept': {'_ZN8dispenso6detail13alignedMallocEmm': 'vf_aligned_malloc',
                      '_ZN8dispenso6detail11alignedFreeEPv': 'vf_aligned_free'},
        'doc': 'dispenso::detail::alignedMalloc/alignedFree replaced by their contract (fresh block, '
               'aligned as requested; the real address arithmetic is checked under C44)',
    },
}


def apply_models(inst):
    for m in inst.get('models', []):
        b = MODELS[m]
        inst.setdefault('preinclude', [])
        for x in b.get('preinclude', []):
            if x not in inst['preinclude']:
                inst['preinclude'].append(x)
        ic = dict(b.get('intercept', {}))
        ic.update(inst.get('intercept') or {})
        inst['intercept'] = ic


def sh(cmd, timeout=None, cwd=None, env=None, mem_gb=None):
    def lim():
        if mem_gb:
            b = int(mem_gb * (1 << 30))
            resource.setrlimit(resource.RLIMIT_AS, (b, b))
    t = time.time()
    try:
        p = subprocess.run(cmd, stdout=subprocess.PIPE, stderr=subprocess.PIPE, timeout=timeout,
                           cwd=cwd, env=env, preexec_fn=lim if mem_gb else None)
        return p.returncode, p.stdout.decode('utf8', 'replace'), p.stderr.decode('utf8', 'replace'), time.time() - t
    except subprocess.TimeoutExpired as e:
        return -9, (e.stdout or b'').decode('utf8', 'replace'), 'TIMEOUT', time.time() - t


def load_spec(pid):
    path = os.path.join(ROOT, 'harness', pid, 'spec.py')
    sp = importlib.util.spec_from_file_location('spec_' + pid, path)
    m = importlib.util.module_from_spec(sp)
    sp.loader.exec_module(m)
    return m


def repo_rev():
    rc, out, _, _ = sh(['git', '-C', REPO, 'rev-parse', '--short', 'HEAD'])
    rc2, out2, _, _ = sh(['git', '-C', REPO, 'status', '--porcelain', '--untracked-files=no'])
    return out.strip() + ('+dirty' if out2.strip() else '')


# ------------------------------------------------------------------------------------ lifting
def lift(inst, wd):
    """compile harness (+ extra repo sources) to one .ll"""
    src = os.path.join(ROOT, 'harness', inst['pid'], inst['src'])
    defs = ['-D%s=%s' % (k, v) for k, v in inst.get('defs', {}).items()]
    incs = []
    for s in inst.get('shims', []):
        incs += ['-I' + os.path.join(ROOT, 'shim', s)]
    incs += ['-I' + REPO, '-I' + os.path.join(REPO, 'dispenso', 'third-party'), '-I' + RT,
             '-I' + os.path.join(ROOT, 'harness', 'common')]
    flags = list(CLANG_FLAGS) + inst.get('cflags', [])
    for x in inst.get('preinclude', []):
        flags += ['-include', os.path.join(ROOT, x)]
    if not inst.get('exceptions'):
        flags.append('-fno-exceptions')
    lls = []
    srcs = [src] + [os.path.join(REPO, s) for s in inst.get('repo_sources', [])]
    for i, s in enumerate(srcs):
        out = os.path.join(wd, 'u%d.ll' % i)
        rc, o, e, t = sh(['clang++-14'] + flags + defs + incs + ['-S', '-emit-llvm', s, '-o', out], timeout=300)
        if rc != 0:
            raise Inconclusive('clang failed on %s: %s' % (s, e[:500]))
        lls.append(out)
    out = os.path.join(wd, 'h.ll')
    if len(lls) == 1:
        shutil.copy(lls[0], out)
    else:
        rc, o, e, t = sh(['llvm-link-14', '-S'] + lls + ['-o', out])
        if rc != 0:
            raise Inconclusive('llvm-link failed: ' + e[-2000:])
    return out


def source_functions(inst, wd):
    src = os.path.join(ROOT, 'harness', inst['pid'], inst['src'])
    defs = ['-D%s=%s' % (k, v) for k, v in inst.get('defs', {}).items()]
    incs = []
    for s_ in inst.get('shims', []):
        incs += ['-I' + (s_ if os.path.isabs(s_) else os.path.join(ROOT, 'shim', s_))]
    incs += ['-I' + REPO, '-I' + os.path.join(REPO, 'dispenso', 'third-party'), '-I' + RT,
             '-I' + os.path.join(ROOT, 'harness', 'common')]
    flags = ['-std=c++14', '-O0', '-g0', '-DNDEBUG', '-fno-access-control', '-Wno-everything'] + inst.get('cflags', [])
    for x in inst.get('preinclude', []):
        flags += ['-include', os.path.join(ROOT, x)]
    if not inst.get('exceptions'):
        flags.append('-fno-exceptions')
    out = os.path.join(wd, 'h_O0.ll')
    rc, o, e, t = sh(['clang++-14'] + flags + defs + incs + ['-S', '-emit-llvm', src, '-o', out], timeout=300)
    if rc != 0:
        return []
    names = []
    for line in open(out):
        if line.startswith('define '):
            m = re.search(r'@("?)([^"(\s]+)\1\(', line)
            if m:
                names.append(m.group(2))
    return names


def mark_noinline(txt, names):
    """add the noinline attribute to the definitions of the given functions (IR text)"""
    out = []
    for line in txt.split('\n'):
        if line.startswith('define '):
            m = re.search(r'@("?)([^"(\s]+)\1\(', line)
            if m and m.group(2) in names:
                head, sep, tail = line.partition(' personality')
                i = head.rfind(')')
                rest = head[i + 1:]
                m2 = re.match(r'\s*(local_unnamed_addr|unnamed_addr)', rest)
                j = i + 1 + (m2.end() if m2 else 0)
                line = head[:j] + ' noinline' + head[j:] + sep + tail
        out.append(line)
    return '\n'.join(out)


def seq_inline(ll, wd, keep=(), unroll=False):
    """engine 'cbmc-seq': inline everything into the thread roots with LLVM's own inliner, so that a
    root contains all its atomic operations / blocking calls directly and can be made resumable"""
    txt = open(ll).read()
    txt = re.sub(r'\bnoinline\b', '', txt)
    txt = re.sub(r'\boptnone\b', '', txt)
    if keep:
        txt = mark_noinline(txt, set(keep))
    # LLVM does not inline through aliases (C1/D1 constructor/destructor aliases): call the aliasee
    aliases = {}
    for m in re.finditer(r'^@("[^"]+"|[^\s"]+) = [^\n]*\balias [^\n]*\* @("[^"]+"|[^\s",)]+)\s*$', txt, re.M):
        aliases[m.group(1)] = m.group(2)
    if aliases:
        def sub(m):
            return '@' + aliases[m.group(1)] + m.group(2)
        pat = re.compile(r'@(' + '|'.join(re.escape(a) for a in sorted(aliases, key=len, reverse=True)) + r')(\()')
        txt = pat.sub(sub, txt)
    passes = 'cgscc(inline),function(sroa,early-cse,simplifycfg)'
    extra = []
    if unroll:
        # opt-in (spec key 'seq_unroll'): fully unroll constant-trip-count loops of the real code (e.g.
        # `for i < N` over sub-objects) so that the indices are constants; clang -O1 marks every loop
        # llvm.loop.unroll.disable, which is dropped here.  Spin loops have no constant trip count and stay.
        txt = txt.replace('!"llvm.loop.unroll.disable"', '!"vf.unroll.disable.removed"')
        passes = ('cgscc(inline),function(sroa,early-cse,simplifycfg,loop-simplify,lcssa,loop(loop-rotate),'
                  'loop-unroll,instcombine,simplifycfg)')
        extra = ['-unroll-threshold=100000', '-unroll-runtime=false', '-unroll-allow-partial=false',
                 '-unroll-allow-peeling=false']
    pre = os.path.join(wd, 'h_pre.ll')
    open(pre, 'w').write(txt)
    out = os.path.join(wd, 'h_inl.ll')
    rc, o, e, t = sh(['opt-14', '-S', '-passes=' + passes,
                      '-inline-threshold=100000000'] + extra + [pre, '-o', out], timeout=300)
    if rc != 0:
        raise Inconclusive('opt (inlining for the sequentialised encoding) failed: ' + e[-800:])
    return out


def demangle(names):
    if not names:
        return {}
    p = subprocess.run(['llvm-cxxfilt-14'], input='\n'.join(names).encode(), stdout=subprocess.PIPE)
    outs = p.stdout.decode().split('\n')
    return dict(zip(names, outs))


# ------------------------------------------------------------------------------------ cbmc
def cbmc_cmd(cfile, inst, witness, trace=False):
    unwind = inst.get('unwind', 4)
    nthr = inst.get('nthreads', 5)
    cmd = ['cbmc', cfile, '-I' + RT, '--function', 'vf_entry', '--unwind', str(unwind),
           '--no-malloc-may-fail', '--drop-unused-functions',
           '--json-ui', '--object-bits', str(inst.get('object_bits', 10))]
    us = ['%s:%d' % (l, nthr + 1) for l in RT_LOOPS
          if not (inst.get('engine') == 'cbmc-seq' and l.startswith('vf_entry'))]
    for k, v in inst.get('unwindset', {}).items():
        us.append('%s:%d' % (k, v))
    for k, v in (inst.get('_unwind_fn_resolved') or {}).items():
        if k not in inst.get('unwindset', {}):
            us.append('%s:%d' % (k, v))
    cmd += ['--unwindset', ','.join(us)]
    if not inst.get('no_unwinding_assertions') and not inst.get('spin_loops'):
        cmd.append('--unwinding-assertions')
    else:
        cmd.append('--no-unwinding-assertions')
    solver = inst.get('solver', 'cadical')
    if solver == 'kissat':
        cmd += ['--external-sat-solver', 'kissat']
    elif solver != 'minisat':
        cmd += ['--sat-solver', solver]
    for c in inst.get('checks', ['--div-by-zero-check']):
        cmd.append(c)
    if inst.get('leak_check'):
        cmd.append('--memory-leak-check')
    cmd += ['-DVF_NTHREADS=%d' % nthr]
    if inst.get('engine', 'cbmc') == 'cbmc':
        cmd += ['-DVF_SEQUENTIAL=1']
    if inst.get('engine') != 'cbmc-seq' and 'fs_array' in inst:
        # optional: arrays up to this many elements are split into per-element SSA symbols (cbmc default 64)
        cmd += ['--max-field-sensitivity-array-size', str(inst['fs_array'])]
    if inst.get('engine') == 'cbmc-seq':
        steps = inst.get('steps', 8)
        cmd += ['-DVF_SEQ=1', '-DVF_STEPS=%d' % steps, '--max-field-sensitivity-array-size',
                str(inst.get('fs_array', 4))]
        if 'preempts' in inst:
            cmd += ['-DVF_PREEMPTS=%d' % inst['preempts']]
        i = cmd.index('--unwindset')
        cmd[i + 1] += ',vf_entry.0:%d,vf_entry.1:%d,vf_others_done.0:%d,vf_all_done.0:%d,vf_any_enabled.0:%d' % (
            nthr + 1, steps + 1, nthr + 1, nthr + 1, nthr + 1)
    for k, v in inst.get('rt_defs', {}).items():
        cmd.append('-D%s=%s' % (k, v))
    if witness:
        cmd.append('-DVF_WITNESS')
    if trace:
        # trace run: unsliced by default (every logged input and visible operation is present);
        # sliced when the runtime keeps them relevant (-DVF_TRACE_RUN)
        cmd.append('--trace')
        if inst.get('_sliced_trace'):
            cmd.append('--slice-formula')
        for p in trace if isinstance(trace, (list, tuple)) else []:
            cmd += ['--property', p]
    else:
        cmd.append('--slice-formula')
    return cmd


def parse_cbmc_json(text):
    try:
        data = json.loads(text)
    except Exception:
        # truncated / non-json output
        return None, 'unparseable cbmc output: ' + text[-500:]
    results = None
    msgs = []
    for m in data:
        if 'result' in m:
            results = m['result']
        if 'messageText' in m and m.get('messageType') in ('ERROR', 'WARNING'):
            msgs.append(m['messageText'])
        if 'cProverStatus' in m:
            pass
    return results, '\n'.join(msgs)


def classify(desc):
    if desc.startswith('check: data race'):
        return 'race'
    if desc.startswith('check: '):
        return 'check'
    if desc.startswith('witness: ') or desc.startswith('reach: '):
        return 'witness'
    if desc.startswith('ub: ') or 'division by zero' in desc or 'overflow' in desc:
        return 'ub'
    if desc.startswith('rt: '):
        return 'rt'
    if 'unwinding assertion' in desc:
        return 'unwind'
    if 'dereference failure' in desc or 'memory-leak' in desc or 'memory leak' in desc or 'free' in desc \
            or 'array' in desc and 'bound' in desc or 'pointer' in desc:
        return 'mem'
    return 'other'


def extract_inputs(trace):
    """inputs logged by vf_nondet_* in order + schedule of atomic sites"""
    ins = {}
    for s in trace:
        if s.get('stepType') != 'assignment':
            continue
        lhs = s.get('lhs') or ''
        m = re.match(r'vf_inlog\[(\d+)l?\]', lhs)
        if m:
            v = s.get('value', {})
            d = v.get('data')
            b = v.get('binary')
            if b is not None:
                ins[int(m.group(1))] = int(b, 2)
            elif d is not None:
                try:
                    ins[int(m.group(1))] = int(re.sub(r'[a-zA-Z]+$', '', d))
                except ValueError:
                    pass
    if not ins:
        # scalar input log (seq engine): assignments to vf_in_last in trace order
        out = []
        for s in trace:
            if s.get('stepType') == 'assignment' and s.get('lhs') == 'vf_in_last' and not s.get('hidden'):  # hidden = static initialisation
                v = s.get('value') or {}
                try:
                    out.append(int(v['binary'], 2) if v.get('binary') is not None
                               else int(re.sub(r'[a-zA-Z]+$', '', v.get('data', ''))))
                except (ValueError, KeyError):
                    pass
        return out
    n = None
    for s in trace:
        if s.get('stepType') == 'assignment' and s.get('lhs') == 'vf_inlog_n':
            try:
                n = int(re.sub(r'[a-zA-Z]+$', '', (s.get('value') or {}).get('data', '')))
            except ValueError:
                pass
    out = []
    i = 0
    while i in ins and (n is None or i < n):
        out.append(ins[i])
        i += 1
    return out


def extract_schedule_seq(trace):
    """seq engine: every visible operation assigns the running thread to vf_vis_t"""
    sched = []
    for s in trace:
        if s.get('stepType') == 'assignment' and s.get('lhs') == 'vf_vis_t' and not s.get('hidden'):
            v = s.get('value') or {}
            try:
                t = int(v['binary'], 2) if v.get('binary') is not None else int(re.sub(r'[a-zA-Z]+$', '', v.get('data', '')))
            except (ValueError, KeyError):
                continue
            sched.append({'thread': t, 'site': -2})
    if not sched:
        # sliced trace run: only the running sum of the markers is in the trace
        prev = None
        for s in trace:
            if s.get('stepType') == 'assignment' and s.get('lhs') == 'vf_trace_vsum':
                v = s.get('value') or {}
                try:
                    cur = int(v['binary'], 2) if v.get('binary') is not None else int(re.sub(r'[a-zA-Z]+$', '', v.get('data', '')))
                except (ValueError, KeyError):
                    continue
                if prev is None or cur == prev:
                    prev = cur      # (symbolic) start value
                    continue
                sched.append({'thread': (cur - prev - 1) & 0xffffffffffffffff, 'site': -2})
                prev = cur
    return sched


def extract_schedule(trace, site_lines, cfile):
    sched = []
    base = os.path.basename(cfile)
    last = None
    for s in trace:
        sl = s.get('sourceLocation') or {}
        if not sl.get('file', '').endswith(base):
            continue
        ln = int(sl.get('line', 0))
        if ln in site_lines:
            key = (s.get('thread'), ln)
            if key != last:
                sched.append({'thread': s.get('thread'), 'site': site_lines[ln]})
                last = key
        else:
            last = None
    return sched


# ------------------------------------------------------------------------------------ instance
def prepare_instance(inst, wd):
    os.makedirs(wd, exist_ok=True)
    t0 = time.time()
    apply_models(inst)
    ll = lift(inst, wd)
    ll_orig = ll
    seq = inst.get('engine') == 'cbmc-seq'
    if seq and inst.get('promote_icalls'):
        # opt-in: guarded promotion of indirect calls to the listed targets (vf/icp.py), so that the inliner
        # can pull them into the thread roots (preemptible)
        from . import icp
        txt_, rep_ = icp.promote(open(ll).read(), inst['promote_icalls'])
        ll = os.path.join(wd, 'h_icp.ll')
        open(ll, 'w').write(txt_)
        inst['_icp_report'] = rep_
    if seq:
        ll = seq_inline(ll, wd, keep=list((inst.get('intercept') or {}).keys()) + inst.get('no_inline', []),
                        unroll=bool(inst.get('seq_unroll')))
    try:
        mod = llir.load(ll)
        roots = list(inst.get('roots', ['vf_main']))
        for extra_root in ('vf_thread_state_dispose',):
            if extra_root in mod.funcs and not mod.funcs[extra_root].is_decl and extra_root not in roots:
                roots.append(extra_root)
        inst['roots'] = roots
        src, em = ir2c.translate(mod, roots,
                                 {'exceptions': inst.get('exceptions'), 'nsw_check': inst.get('nsw_check'),
                                  'seq': seq, 'nthreads': inst.get('nthreads', 5),
                                  'intercept': inst.get('intercept'), 'rt_defs': inst.get('rt_defs', {}),
                                  'devirt': inst.get('devirt'),
                                  'typed_alloc': inst.get('typed_alloc', True),
                                  'ptrdiff': inst.get('ptrdiff')})
    except llir.Unsupported as e:
        raise Inconclusive('translator: unsupported construct: %s' % e)
    allowed = set(inst.get('allow_externals', []))
    unk = sorted(n for n in em.unknown_externals if n not in allowed)
    if unk:
        raise Inconclusive('unknown external functions (no model): ' + ', '.join(unk))
    cfile = os.path.join(wd, 'h.c')
    extra = ''
    # externals the spec explicitly allows: no effect, arbitrary result (listed in the evidence)
    for n in sorted(allowed & set(em.unknown_externals)):
        f = mod.funcs[n]
        body = '' if f.ret.kind == 'void' else ' %s r_; return r_;' % em.cty(f.ret)
        extra += '%s {%s }\n' % (em.proto(f), body)
    for x in inst.get('rt_extra', []):
        extra += '#include "%s"\n' % os.path.join(ROOT, x)
    full = src + '\n' + extra + '#include "cbmc_rt.c"\n'
    with open(cfile, 'w') as fh:
        fh.write(full)
    site_lines = {}
    for i, line in enumerate(full.split('\n'), 1):
        m = re.search(r'VF_ATOMIC_BEGIN\((\d+)\)|VF_FENCE\((\d+),', line)
        if m:
            site_lines[i] = int(m.group(1) or m.group(2))
        elif 'vf_syscall(' in line and 'int64_t vf_syscall' not in line:
            site_lines[i] = -1
    funcs = sorted(n for n in em_reachable_defined(mod, em, inst))
    # clang -O1 has already inlined most of the code under test into the harness functions; the
    # source-level functions that were encoded are recovered from an -O0 lowering of the harness TU
    # (every odr-used function is emitted there)
    try:
        funcs = sorted(set(funcs) | set(source_functions(inst, wd)))
    except Exception:
        pass
    if seq:
        # after inlining everything lives in the thread roots: report the source functions from the
        # module as it was before inlining
        try:
            mod0 = llir.load(ll_orig)
            em0 = ir2c.Emitter(mod0, {})
            f0, _ = em0.reachable(inst.get('roots', ['vf_main']) + [n for _, n in em.seq_roots])
            funcs = sorted(set(funcs) | set(n for n in f0 if not mod0.funcs[n].is_decl))
        except Exception:
            pass
    return {'cfile': cfile, 'll': ll, 'mod': mod, 'em': em, 'site_lines': site_lines,
            'functions': funcs, 'prep_s': time.time() - t0,
            'ir_instrs': sum(len(b.instrs) for n in funcs if n in mod.funcs for b in mod.funcs[n].blocks)}


def em_reachable_defined(mod, em, inst):
    funcs, _ = em.reachable(inst.get('roots', ['vf_main']))
    return [n for n in funcs if not mod.funcs[n].is_decl]


def resolve_unwind_fn(inst, cfile):
    """'unwind_fn': {function name: bound} -> bound for every loop of that (C-level) function"""
    uf = dict(inst.get('unwind_fn') or {})
    if 'VF_RACE' in inst.get('rt_defs', {}):
        # loops of the happens-before detector run over its (small, constant) tables
        n = max(int(inst['rt_defs'].get('VF_RACE_ATOMS', 8)), int(inst['rt_defs'].get('VF_RACE_PROBES', 8)),
                inst.get('nthreads', 5)) + 1
        for fn in ('vf_race_slot', 'vf_race_atom', 'vf_race_probe', 'vf_race_store', 'vf_race_load', 'vf_race_rmw', 'vf_race_fence',
                   'vf_race_spawn', 'vf_race_join', 'vf_race_write', 'vf_race_read', 'vf_race_init', 'vf_join_all'):
            uf.setdefault(fn, n)
    if not uf or '_unwind_fn_resolved' in inst:
        return
    gb = cfile[:-2] + '.gb'
    defs = [a for a in cbmc_cmd(cfile, inst, False) if a.startswith('-D')]
    rc, o, e, t = sh(['goto-cc', cfile, '-I' + RT] + defs + ['-o', gb], timeout=300)
    res = {}
    if rc == 0:
        rc, o, e, t = sh(['goto-instrument', '--show-loops', gb], timeout=300)
        for m in re.finditer(r'^Loop (\S+?)\.(\d+):', o, re.M):
            fn = m.group(1)
            if fn in uf:
                res['%s.%s' % (fn, m.group(2))] = uf[fn]
            else:
                # keys of the form 're:<regex>' match every function whose name contains the regex
                for k, v in uf.items():
                    if k.startswith('re:') and re.search(k[3:], fn):
                        res['%s.%s' % (fn, m.group(2))] = v
                        break
    inst['_unwind_fn_resolved'] = res


def run_cbmc(inst, prep, witness, trace=False):
    cmd = cbmc_cmd(prep['cfile'], inst, witness, trace)
    timeout = inst.get('timeout', 600)
    rc, out, err, t = sh(cmd, timeout=timeout, mem_gb=inst.get('mem_gb', 14))
    res = {'cmd': ' '.join(cmd), 'time_s': round(t, 2), 'rc': rc}
    if rc == -9:
        res['status'] = 'timeout'
        return res
    results, msgs = parse_cbmc_json(out)
    if results is None:
        res['status'] = 'error'
        res['detail'] = (msgs or '') + err[-1500:]
        if 'pointer handling for concurrency is unsound' in out:
            res['detail'] = 'cbmc: pointer handling for concurrency is unsound (pointer flows between threads)'
        m = re.search(r'"messageText": "([^"]*)",\s*"messageType": "ERROR"', out)
        if m:
            res['detail'] = m.group(1) + ' | ' + res['detail'][:300]
        return res
    res['status'] = 'done'
    res['results'] = results
    return res


def run_instance(inst, tier):
    wd = os.path.join(WORK, inst['pid'], inst['name'] + '-' + tier)
    if os.path.isdir(wd):
        shutil.rmtree(wd)
    rec = {'instance': inst['name'], 'engine': inst.get('engine', 'cbmc'), 'defs': inst.get('defs', {}),
           'bounds': inst.get('bounds', ''), 'unwind': inst.get('unwind', 4)}
    try:
        prep = prepare_instance(inst, wd)
    except Inconclusive as e:
        rec['status'] = 'inconclusive'
        rec['reason'] = str(e)
        return rec
    rec['functions'] = prep['functions']
    rec['ir_instrs'] = prep['ir_instrs']
    rec['atomic_sites'] = len(prep['em'].sites)
    rec['externals'] = sorted(prep['em'].externals)
    resolve_unwind_fn(inst, prep['cfile'])
    with ThreadPoolExecutor(2) as ex:
        fw = ex.submit(run_cbmc, inst, prep, True)
        fm = ex.submit(run_cbmc, inst, prep, False)
        w = fw.result()
        m = fm.result()
    rec['witness'] = {'time_s': w.get('time_s'), 'status': w['status']}
    rec['solver_time_s'] = m.get('time_s')
    rec['cmd'] = m.get('cmd')
    if w['status'] != 'done':
        rec['status'] = 'inconclusive'
        rec['reason'] = 'witness run: %s %s' % (w['status'], w.get('detail', ''))
        return rec
    wr = [r for r in w['results'] if classify(r['description']) == 'witness']
    reached = [r for r in wr if r['status'] == 'FAILURE']
    rec['witness']['markers'] = len(wr)
    rec['witness']['reached'] = len(reached)
    must = inst.get('must_reach')
    unreached = [r['description'] for r in wr if r['status'] != 'FAILURE']
    if not reached or (must == 'all' and unreached):
        rec['status'] = 'inconclusive'
        rec['reason'] = 'vacuous: witness markers not reachable: %s' % unreached[:5]
        return rec
    if m['status'] != 'done':
        rec['status'] = 'inconclusive'
        rec['reason'] = 'solver run: %s %s' % (m['status'], m.get('detail', ''))
        return rec
    props = m['results']
    rec['queries'] = len(props)
    fails = [r for r in props if r['status'] == 'FAILURE']
    if fails:
        # second run, unsliced and with traces, restricted to the failing properties
        # first a cheap trace run on the SLICED formula (inputs / schedule markers are kept relevant by
        # -DVF_TRACE_RUN, see rt/cbmc_rt.h) for harness checks; the full unsliced run otherwise
        want = [r['property'] for r in fails][:8]
        m2 = None
        if not inst.get('unsliced_trace') and all(classify(r['description']) in ('check', 'race') for r in fails[:8]):
            i2 = dict(inst)
            i2['rt_defs'] = dict(inst.get('rt_defs', {}), VF_TRACE_RUN=1)
            i2['_sliced_trace'] = True
            m2 = run_cbmc(i2, prep, False, trace=want)
            if m2['status'] != 'done' or not any(x.get('trace') for x in m2.get('results', [])):
                m2 = None
        if m2 is None:
            m2 = run_cbmc(inst, prep, False, trace=want)
        if m2['status'] == 'done':
            byid = {r['property']: r for r in m2['results']}
            confirmed = []
            for r in fails:
                r2 = byid.get(r['property'])
                if r2 is not None and r2.get('status') == 'SUCCESS':
                    # the sliced formula failed but the full (unsliced) one does not: --slice-formula
                    # dropped an assumption (e.g. a model bound) that makes the path infeasible.
                    # Not a counterexample; recorded, never reported.
                    rec.setdefault('sliced_only', []).append(r['description'])
                    continue
                if r2 is not None and r2.get('trace'):
                    r['trace'] = r2['trace']
                confirmed.append(r)
            fails = confirmed
            rec['trace_run_s'] = m2.get('time_s')
    rec['by_class'] = {}
    for r in props:
        c = classify(r['description'])
        d = rec['by_class'].setdefault(c, {'total': 0, 'failed': 0})
        d['total'] += 1
        if r['status'] == 'FAILURE':
            d['failed'] += 1
    rec['failures'] = []
    for r in fails:
        c = classify(r['description'])
        tr = r.get('trace', [])
        f = {'class': c, 'description': r['description'], 'property': r['property'], 'traced': bool(tr),
             'inputs': extract_inputs(tr),
             'schedule': (extract_schedule_seq(tr) if inst.get('engine') == 'cbmc-seq'
                          else extract_schedule(tr, prep['site_lines'], prep['cfile'])),
             'location': (r.get('sourceLocation') or {}).get('function')}
        rec['failures'].append(f)
    rec['status'] = 'violated' if fails else 'holds'
    rec['sample'] = {'instance': inst['name'], 'queries': len(props),
                     'example_obligations': [r['description'] for r in props if classify(r['description']) == 'check'][:4]}
    return rec
