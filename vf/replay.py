"""Counterexample replay against the natively compiled real code.

sequential (no schedule): harness source compiled with clang++ -fsanitize=address,undefined and the
  inputs from the solver model -> the harness's own vf_check / the sanitizer must fire.
concurrent: the analysed IR gets `call void @vf_yield(i32 k)` before every atomic instruction,
  is compiled to native code and driven by rt/native_rt.cpp's baton scheduler along the order of
  visible operations in the solver's trace.
"""
import os
import re
import json
from . import engine

ATOMIC_RE = re.compile(r'^\s+(%[-\w."]+ = )?(atomicrmw|cmpxchg|load atomic|store atomic|fence)\b')


def instrument_ll(src, dst):
    out = []
    k = 0
    need_decl = True
    for line in open(src):
        if ATOMIC_RE.match(line):
            out.append('  call void @vf_yield(i32 %d)\n' % k)
            k += 1
        if line.startswith('declare') and 'vf_yield' in line:
            need_decl = False
        out.append(line)
    if need_decl:
        out.append('\ndeclare void @vf_yield(i32)\n')
    open(dst, 'w').writelines(out)
    return k


def build_native(inst, wd, sanitize, from_ir=None):
    exe = os.path.join(wd, 'replay_san' if sanitize else 'replay_ir')
    rt = os.path.join(engine.RT, 'native_rt.cpp')
    incs = ['-I' + engine.REPO, '-I' + os.path.join(engine.REPO, 'dispenso', 'third-party'),
            '-I' + engine.RT, '-I' + os.path.join(engine.ROOT, 'harness', 'common')]
    defs = ['-D%s=%s' % (k, v) for k, v in inst.get('defs', {}).items()]
    for s in inst.get('shims', []):
        incs.insert(0, '-I' + os.path.join(engine.ROOT, 'shim', s))
    pre = []
    for x in inst.get('preinclude', []):
        pre += ['-include', os.path.join(engine.ROOT, x)]
    if from_ir:
        ll2 = os.path.join(wd, 'h_yield.ll')
        instrument_ll(from_ir, ll2)
        cmd = ['clang++-14', '-O1', '-Wno-everything', ll2, '-std=c++14', rt] + incs + \
              ['-Wl,--wrap=syscall,--wrap=malloc,--wrap=free,--wrap=_ZNSt6thread15_M_start_threadESt10unique_ptrINS_6_StateESt14default_deleteIS1_EEPFvvE,--wrap=_ZNSt6thread4joinEv,--wrap=_ZNSt6thread6detachEv,--wrap=_ZNSt6thread20hardware_concurrencyEv', '-lpthread', '-o', exe]
        for x in inst.get('native_extra', []):
            cmd.append(os.path.join(engine.ROOT, x))
    else:
        src = os.path.join(engine.ROOT, 'harness', inst['pid'], inst['src'])
        flags = ['-std=c++14', '-O1', '-g', '-DNDEBUG', '-fno-access-control', '-Wno-everything'] + list(inst.get('cflags', []))
        if sanitize:
            flags += ['-fsanitize=address,undefined', '-fno-sanitize-recover=undefined', '-fno-omit-frame-pointer']
        if not inst.get('exceptions'):
            pass  # native build keeps exceptions on; harmless
        srcs = [src, rt] + [os.path.join(engine.REPO, s) for s in inst.get('repo_sources', [])]
        for x in inst.get('native_extra', []):
            srcs.append(os.path.join(engine.ROOT, x))
        cmd = ['clang++-14'] + flags + pre + defs + incs + srcs + ['-Wl,--wrap=syscall,--wrap=malloc,--wrap=free,--wrap=_ZNSt6thread15_M_start_threadESt10unique_ptrINS_6_StateESt14default_deleteIS1_EEPFvvE,--wrap=_ZNSt6thread4joinEv,--wrap=_ZNSt6thread6detachEv,--wrap=_ZNSt6thread20hardware_concurrencyEv', '-lpthread', '-o', exe]
    rc, out, err, t = engine.sh(cmd, timeout=600)
    if rc != 0:
        return None, 'native build failed: ' + err[-1500:]
    return exe, None


def replay_failure(inst, prep_ll, wd, failure, out_path):
    """returns (reproduced: bool, detail: str); writes the replay file"""
    inputs = failure.get('inputs', [])
    sched = [e['thread'] for e in failure.get('schedule', [])]
    concurrent = any(t for t in sched)
    rec = {'property': inst['pid'], 'instance': inst['name'], 'defs': inst.get('defs', {}),
           'assertion': failure['description'], 'class': failure['class'], 'inputs': inputs,
           'schedule': sched if concurrent else [],
           'how': 'VF_REPLAY=<inputs> VF_SCHED=<schedule> ./replay (built by vf/replay.py from the harness)'}
    if concurrent:
        exe, err = build_native(inst, wd, False, from_ir=prep_ll)
    else:
        exe, err = build_native(inst, wd, True)
    if exe is None:
        rec['replay'] = err
        json.dump(rec, open(out_path, 'w'), indent=1)
        return False, err
    env = dict(os.environ)
    env['VF_REPLAY'] = ' '.join(str(x) for x in inputs) or ' '
    env['VF_SCHED'] = ' '.join(str(x) for x in sched) if concurrent else ''
    env['ASAN_OPTIONS'] = 'detect_leaks=1:abort_on_error=0:exitcode=23'
    env['UBSAN_OPTIONS'] = 'halt_on_error=1:exitcode=24'
    if inst.get('engine') == 'cbmc-seq':
        env['VF_SCHED_POINTS'] = '1'
    for k_, v_ in (inst.get('rt_defs') or {}).items():  # runtime-model options are visible to the native runtime too
        env[k_] = str(v_)
    env['VF_KEEP_GOING'] = '1'  # report every failing vf_check of the run, not only the first
    rc, out, errt, t = engine.sh([exe], timeout=60, env=env)
    tail = (errt or '')[-1200:]
    label = failure['description']
    ok = False
    cls = failure['class']
    if cls == 'check':
        lab = label[len('check: '):]
        if 'lost wake-up' in lab:
            ok = rc == 3 or rc == -9  # deadlock detected by the baton scheduler / hang
        else:
            ok = rc == 1 and ('VF_CHECK_FAILED: ' + lab[:40]) in errt
            if not ok and (rc in (23, 24) or 'ERROR: AddressSanitizer' in errt or 'runtime error:' in errt):
                # the real code, run natively on the solver's input, is stopped by ASan/UBSan before the
                # harness's own check is reached: the failure is real (reported with the sanitizer's text)
                ok = True
    elif cls == 'race':
        # A data race under the declared memory orders is language-level undefined behaviour that no
        # native run can observe (the baton scheduler itself orders all threads, so TSan is blind
        # too).  What the replay confirms is that the interleaving in which the two conflicting
        # accesses occur is realisable on the real code: the schedule runs to completion without
        # deadlock or crash.  The happens-before verdict itself is the model's.
        ok = rc in (0, 1)
    elif cls in ('mem', 'ub'):
        ok = rc in (23, 24, -11, -8, -6, 134, 136, 139) or 'ERROR: AddressSanitizer' in errt or \
            'runtime error' in errt or 'LeakSanitizer' in errt
    rec['replay'] = {'exit': rc, 'stderr_tail': tail, 'reproduced': ok}
    json.dump(rec, open(out_path, 'w'), indent=1)
    return ok, 'exit=%s %s' % (rc, tail[-300:].replace('\n', ' | '))
