"""LLVM IR -> SMT-LIB (integer mode) for loop-free arithmetic harnesses.

Every iN value is a mathematical Int kept in *signed canonical form* [-2^(N-1), 2^(N-1)).
  - operations flagged nsw/nuw (and exact) get an explicit in-range obligation ("ub: ...") and then
    use the exact integer result; unflagged operations wrap with an explicit mod 2^N;
  - unsigned comparisons / divisions go through u(x) = ite(x < 0, x + 2^N, x).
So machine semantics are preserved exactly (no 'mathematical integers standing in for machine
words'), while products and quotients stay in QF_NIA where z3 decides them quickly.
Supported: integer arithmetic, icmp, select, phi, br/condbr/switch over a DAG of blocks, calls to
defined functions (inlined symbolically), allocas accessed at constant offsets, the vf_* vocabulary.
Anything else raises Unsupported.
"""
import re
from .llir import (Unsupported, Local, GlobalRef, ConstInt, ConstNull, ConstUndef, ConstZero,
                   ConstExpr, ConstAgg, ConstStr, resolve)


def twop(n):
    return str(1 << n)


class Obl:
    def __init__(self, kind, label, cond_term, path):
        self.kind = kind  # check / ub
        self.label = label
        self.term = cond_term  # Bool term that must hold
        self.path = path  # Bool term: path condition
        self.n_assumes = None  # assumptions in force when the obligation is reached


class ObList(list):
    def __init__(self, se):
        super().__init__()
        self.se = se

    def append(self, o):
        o.n_assumes = len(self.se.assumes)
        super().append(o)


class SymExec:
    def __init__(self, mod):
        self.mod = mod
        self.decls = []  # (name, sort)
        self.inputs = []  # (const name, bits) in call order (only valid when order is static)
        self.assumes = []  # Bool terms (already guarded by path)
        self.fresh = 0
        self.reach = []  # (label, path)
        self.obls = ObList(self)

    def new(self, prefix, sort='Int'):
        self.fresh += 1
        n = '%s_%d' % (prefix, self.fresh)
        self.decls.append((n, sort))
        return n

    # ---- helpers on canonical signed ints
    def wrap(self, t, bits):
        if bits == 1:
            return '(mod %s 2)' % t
        h = twop(bits - 1)
        return '(- (mod (+ %s %s) %s) %s)' % (t, h, twop(bits), h)

    def u(self, t, bits):
        if bits == 1:
            return t
        return '(ite (< %s 0) (+ %s %s) %s)' % (t, t, twop(bits), t)

    def from_u(self, t, bits):
        if bits == 1:
            return t
        return '(ite (>= %s %s) (- %s %s) %s)' % (t, twop(bits - 1), t, twop(bits), t)

    def in_s(self, t, bits):
        return '(and (>= %s (- %s)) (< %s %s))' % (t, twop(bits - 1), t, twop(bits - 1))

    def const(self, v, bits):
        v &= (1 << bits) - 1
        if bits > 1 and v >= 1 << (bits - 1):
            v -= 1 << bits
        return str(v) if v >= 0 else '(- %d)' % -v

    # ---- evaluation of operands
    def val(self, v, env):
        if isinstance(v, Local):
            if v.name not in env:
                raise Unsupported('smt: use of undefined %%%s' % v.name)
            return env[v.name]
        if isinstance(v, ConstInt):
            return self.const(v.v, v.ty.bits)
        if isinstance(v, (ConstUndef, ConstZero)):
            if v.ty.kind == 'int':
                return '0'
            if v.ty.kind == 'struct':
                return ('agg', [self.val(type(v)(f), env) for f in v.ty.fields])
            raise Unsupported('smt: undef/zero of ' + v.ty.kind)
        if isinstance(v, ConstNull):
            return ('ptr', None, ())
        if isinstance(v, GlobalRef):
            return ('ptr', '@' + v.name, ())
        if isinstance(v, ConstExpr) and v.op in ('getelementptr', 'bitcast'):
            b = self.val(v.args[0], env)
            return b
        raise Unsupported('smt: operand %s' % type(v).__name__)

    # ---- running a function
    def run(self, fname, args, path, depth=0):
        if depth > 12:
            raise Unsupported('smt: call depth')
        f = self.mod.funcs[fname]
        if f.is_decl:
            raise Unsupported('smt: call to external ' + fname)
        env = {}
        for p, a in zip(f.params, args):
            env[p.name] = a
        order = self.topo(f)
        bcond = {f.blocks[0].name: path}
        edge = {}  # (from,to) -> cond
        rets = []
        blocks = {b.name: b for b in f.blocks}
        for bn in order:
            b = blocks[bn]
            if bn not in bcond:
                continue  # unreachable
            pc = bcond[bn]
            if len(pc) > 60:
                pn = self.new('pc', 'Bool')
                self.assumes.append('(= %s %s)' % (pn, pc))
                pc = pn
            # phis
            for ins in b.instrs:
                if ins.op != 'phi':
                    break
                term = None
                for v, lbl in reversed(ins.inc):
                    if (lbl, bn) not in edge:
                        continue
                    x = self.val(v, env) if not isinstance(v, ConstUndef) else ('0' if ins.ty.kind == 'int' else self.val(v, env))
                    if term is None:
                        term = x
                    else:
                        term = self.ite(edge[(lbl, bn)], x, term)
                env[ins.res] = self.name_it(term, ins.res)
            for ins in b.instrs:
                if ins.op == 'phi':
                    continue
                self.step(f, ins, env, pc, bn, edge, bcond, rets, depth)
        if not rets:
            return None
        out = rets[0][1]
        for c, v in rets[1:]:
            out = self.ite(c, v, out)
        return out

    def name_it(self, term, hint):
        """bind large terms to a fresh constant to keep the script linear in size"""
        if isinstance(term, tuple) or len(term) < 40:
            return term
        n = self.new('t', 'Int')
        self.assumes.append('(= %s %s)' % (n, term.strip()))
        return n

    def ite(self, c, a, b):
        if isinstance(a, tuple) and a[0] == 'agg':
            return ('agg', [self.ite(c, x, y) for x, y in zip(a[1], b[1])])
        if isinstance(a, tuple) or isinstance(b, tuple):
            if a == b:
                return a
            raise Unsupported('smt: pointer merge')
        if a == b:
            return a
        return '(ite %s %s %s)' % (c, a, b)

    def topo(self, f):
        succ = {}
        for b in f.blocks:
            t = b.instrs[-1]
            if t.op == 'br':
                succ[b.name] = [t.tgt]
            elif t.op == 'condbr':
                succ[b.name] = [t.t, t.f]
            elif t.op == 'switch':
                succ[b.name] = [t.dflt] + [l for _, l in t.cases]
            elif t.op == 'invoke':
                succ[b.name] = [t.normal]
            else:
                succ[b.name] = []
        order = []
        state = {}

        def dfs(n):
            state[n] = 1
            for s in succ[n]:
                if state.get(s) == 1:
                    raise Unsupported('smt: loop in %s (E1 handles loop-free code only)' % f.name)
                if s not in state:
                    dfs(s)
            state[n] = 2
            order.append(n)

        dfs(f.blocks[0].name)
        order.reverse()
        return order

    def add_edge(self, edge, bcond, frm, to, cond):
        edge[(frm, to)] = cond if (frm, to) not in edge else '(or %s %s)' % (edge[(frm, to)], cond)
        bcond[to] = cond if to not in bcond else '(or %s %s)' % (bcond[to], cond)

    def b2i(self, boolterm):
        return '(ite %s 1 0)' % boolterm

    def i2b(self, t):
        return '(not (= %s 0))' % t

    def step(self, f, ins, env, pc, bn, edge, bcond, rets, depth):
        op = ins.op
        if op == 'bin':
            env[ins.res] = self.name_it(self.binop(ins, env, pc), ins.res)
        elif op == 'icmp':
            env[ins.res] = self.b2i(self.icmp(ins, env))
        elif op == 'select':
            env[ins.res] = self.ite(self.i2b(self.val(ins.c, env)), self.val(ins.a, env), self.val(ins.b, env))
        elif op == 'cast':
            env[ins.res] = self.cast(ins, env)
        elif op == 'freeze':
            env[ins.res] = self.val(ins.a, env)
        elif op == 'br':
            self.add_edge(edge, bcond, bn, ins.tgt, pc)
        elif op == 'condbr':
            c = self.i2b(self.val(ins.c, env))
            cn = self.new('c', 'Bool')
            self.assumes.append('(= %s %s)' % (cn, c))
            self.add_edge(edge, bcond, bn, ins.t, '(and %s %s)' % (pc, cn))
            self.add_edge(edge, bcond, bn, ins.f, '(and %s (not %s))' % (pc, cn))
        elif op == 'switch':
            v = self.val(ins.v, env)
            others = []
            for cv, lbl in ins.cases:
                c = '(= %s %s)' % (v, self.val(cv, env))
                others.append(c)
                self.add_edge(edge, bcond, bn, lbl, '(and %s %s)' % (pc, c))
            self.add_edge(edge, bcond, bn, ins.dflt, '(and %s (not (or false %s)))' % (pc, ' '.join(others)))
        elif op == 'ret':
            rets.append((pc, self.val(ins.v, env) if ins.v is not None else None))
        elif op == 'unreachable':
            self.obls.append(Obl('ub', 'ub: unreachable reached in ' + f.name, 'false', pc))
        elif op == 'alloca':
            self.fresh += 1
            env[ins.res] = ('ptr', 'alloca%d' % self.fresh, ())
        elif op == 'gep':
            b = self.val(ins.base, env)
            path = []
            for ix in ins.idx:
                if not isinstance(ix, ConstInt):
                    raise Unsupported('smt: variable gep index')
                path.append(ix.v)
            if path and path[0] != 0:
                raise Unsupported('smt: gep with non-zero first index')
            env[ins.res] = ('ptr', b[1], self.norm(b[2] + tuple(path[1:])))
        elif op == 'store':
            p = self.val(ins.ptr, env)
            v = self.val(ins.v, env)
            self.mem_store(p, v, pc, ins.v.ty)
        elif op == 'load':
            p = self.val(ins.ptr, env)
            env[ins.res] = self.mem_load(p, ins.ty)
        elif op == 'extractvalue':
            a = self.val(ins.agg, env)
            for i in ins.idx:
                a = a[1][i]
            env[ins.res] = a
        elif op == 'insertvalue':
            a = self.val(ins.agg, env)
            env[ins.res] = self.insert(a, ins.idx, self.val(ins.v, env))
        elif op == 'call':
            self.call(f, ins, env, pc, depth)
        else:
            raise Unsupported('smt: instruction ' + op)

    def insert(self, agg, idx, v):
        items = list(agg[1])
        if len(idx) == 1:
            items[idx[0]] = v
        else:
            items[idx[0]] = self.insert(items[idx[0]], idx[1:], v)
        return ('agg', items)

    mem = None

    def norm(self, path):
        # trailing zeros are irrelevant: &s == &s.f0 == &s.f0.f0
        p = list(path)
        while p and p[-1] == 0:
            p.pop()
        return tuple(p)

    def mem_store(self, p, v, pc, ty):
        if self.mem is None:
            self.mem = {}
        if not (isinstance(p, tuple) and p[0] == 'ptr' and p[1] and p[1].startswith('alloca')):
            raise Unsupported('smt: store to non-local memory')
        if isinstance(v, tuple) and v[0] == 'agg':
            raise Unsupported('smt: aggregate store')
        k = (p[1], self.norm(p[2]))
        old = self.mem.get(k)
        self.mem[k] = v if old is None or pc == 'true' else self.ite(pc, v, old)

    def mem_load(self, p, ty):
        if not (isinstance(p, tuple) and p[0] == 'ptr' and p[1]):
            raise Unsupported('smt: load through unknown pointer')
        k = (p[1], self.norm(p[2]))
        if self.mem is None or k not in self.mem:
            raise Unsupported('smt: load of uninitialised/unknown location %s' % (k,))
        return self.mem[k]

    def binop(self, ins, env, pc):
        a, b = self.val(ins.a, env), self.val(ins.b, env)
        bits = ins.ty.bits
        o = ins.bop
        if isinstance(a, tuple) or isinstance(b, tuple):
            raise Unsupported('smt: arithmetic on pointer')
        if o in ('add', 'sub', 'mul'):
            c = {'add': '+', 'sub': '-', 'mul': '*'}[o]
            r = '(%s %s %s)' % (c, a, b)
            if 'nsw' in ins.flags:
                rn = self.name_it(r + ' ' * 40, 'r')  # force naming
                self.obls.append(Obl('ub', 'ub: signed overflow (%s nsw) in %s' % (o, self.curfn), self.in_s(rn, bits), pc))
                return rn
            if 'nuw' in ins.flags and False:
                pass
            return self.wrap(r, bits)
        if o in ('sdiv', 'srem'):
            self.obls.append(Obl('ub', 'ub: division by zero in ' + self.curfn, '(not (= %s 0))' % b, pc))
            self.obls.append(Obl('ub', 'ub: signed division overflow in ' + self.curfn,
                                 '(not (and (= %s (- %s)) (= %s (- 1))))' % (a, twop(bits - 1), b), pc))
            q = self.new('q')
            r = self.new('r')
            # truncated division: a = q*b + r, |r| < |b|, sign(r) = sign(a) or r = 0
            self.assumes.append('(=> (not (= %s 0)) (and (= %s (+ (* %s %s) %s)) (< (abs %s) (abs %s)) '
                                '(or (= %s 0) (= (< %s 0) (< %s 0)))))' % (b, a, q, b, r, r, b, r, r, a))
            return q if o == 'sdiv' else r
        if o in ('udiv', 'urem'):
            self.obls.append(Obl('ub', 'ub: division by zero in ' + self.curfn, '(not (= %s 0))' % b, pc))
            ua, ub = self.u(a, bits), self.u(b, bits)
            q = self.new('q')
            r = self.new('r')
            self.assumes.append('(=> (not (= %s 0)) (and (= %s (+ (* %s %s) %s)) (>= %s 0) (< %s %s) (>= %s 0)))'
                                % (b, ua, q, ub, r, r, r, ub, q))
            return self.from_u(q if o == 'udiv' else r, bits)
        if o == 'shl' and isinstance(ins.b, ConstInt):
            return self.wrap('(* %s %s)' % (a, twop(ins.b.v)), bits)
        if o == 'lshr' and isinstance(ins.b, ConstInt):
            return self.from_u('(div %s %s)' % (self.u(a, bits), twop(ins.b.v)), bits)
        if o == 'ashr' and isinstance(ins.b, ConstInt):
            return '(div %s %s)' % (a, twop(ins.b.v))
        if o == 'and' and isinstance(ins.b, ConstInt):
            m = ins.b.v & ((1 << bits) - 1)
            if m & (m + 1) == 0:  # low mask
                return self.from_u('(mod %s %s)' % (self.u(a, bits), m + 1), bits)
        if bits == 1:
            if o == 'and':
                return '(* %s %s)' % (a, b)
            if o == 'or':
                return '(ite (= (+ %s %s) 0) 0 1)' % (a, b)
            if o == 'xor':
                return '(mod (+ %s %s) 2)' % (a, b)
        raise Unsupported('smt: int-mode cannot encode %s (bit-level kernel: use the cbmc engine)' % o)

    curfn = ''

    def icmp(self, ins, env):
        a, b = self.val(ins.a, env), self.val(ins.b, env)
        p = ins.pred
        if isinstance(a, tuple) or isinstance(b, tuple):
            if p in ('eq', 'ne'):
                same = 'true' if (a[1:] == b[1:]) else 'false'
                return same if p == 'eq' else '(not %s)' % same
            raise Unsupported('smt: pointer compare')
        bits = ins.a.ty.bits
        if p in ('eq', 'ne'):
            t = '(= %s %s)' % (a, b)
            return t if p == 'eq' else '(not %s)' % t
        o = {'lt': '<', 'le': '<=', 'gt': '>', 'ge': '>='}[p[1:]]
        if p[0] == 's':
            return '(%s %s %s)' % (o, a, b)
        return '(%s %s %s)' % (o, self.u(a, bits), self.u(b, bits))

    def cast(self, ins, env):
        a = self.val(ins.a, env)
        c = ins.cop
        if c in ('bitcast', 'addrspacecast'):
            return a
        if isinstance(a, tuple):
            raise Unsupported('smt: cast of pointer')
        sb = ins.a.ty.bits
        db = ins.ty.bits
        if c == 'zext':
            return self.u(a, sb)
        if c == 'sext':
            if sb == 1:
                return '(- %s)' % a
            return a
        if c == 'trunc':
            if db == 1:
                return '(mod %s 2)' % a
            return self.wrap(a, db)
        raise Unsupported('smt: cast ' + c)

    def call(self, f, ins, env, pc, depth):
        cal = ins.callee
        if not isinstance(cal, GlobalRef):
            raise Unsupported('smt: indirect call')
        n = cal.name
        a = ins.args
        if n.startswith('llvm.'):
            base = n.split('.')[1]
            if base in ('lifetime', 'dbg', 'assume', 'experimental'):
                return
            if base in ('smax', 'smin', 'umax', 'umin'):
                x, y = self.val(a[0], env), self.val(a[1], env)
                bits = a[0].ty.bits
                cx, cy = (x, y) if base[0] == 's' else (self.u(x, bits), self.u(y, bits))
                o = '>' if base.endswith('max') else '<'
                env[ins.res] = '(ite (%s %s %s) %s %s)' % (o, cx, cy, x, y)
                return
            if base == 'abs':
                x = self.val(a[0], env)
                env[ins.res] = self.wrap('(abs %s)' % x, a[0].ty.bits)
                return
            if base in ('memcpy', 'memmove'):
                raise Unsupported('smt: memcpy')
            raise Unsupported('smt: intrinsic ' + n)
        if n.startswith('vf_nondet_'):
            bits = {'u8': 8, 'u16': 16, 'u32': 32, 'u64': 64, 'bool': 1}[n[len('vf_nondet_'):]]
            c = self.new('in')
            self.inputs.append((c, bits, pc))
            if bits == 1:
                self.assumes.append('(and (>= %s 0) (<= %s 1))' % (c, c))
            else:
                self.assumes.append(self.in_s(c, bits))
            env[ins.res] = c
            return
        if n == 'vf_assume':
            self.assumes.append('(=> %s %s)' % (pc, self.i2b(self.val(a[0], env))))
            return
        if n == 'vf_check':
            self.obls.append(Obl('check', 'check: ' + self.label(a[1]), self.i2b(self.val(a[0], env)), pc))
            return
        if n == 'vf_reach':
            self.reach.append((self.label(a[0]), pc))
            return
        if n in ('vf_atomic_begin', 'vf_atomic_end'):
            return
        if n in ('__assert_fail', 'abort'):
            self.obls.append(Obl('ub', 'ub: abort/assert reached in ' + f.name, 'false', pc))
            return
        if n not in self.mod.funcs or self.mod.funcs[n].is_decl:
            raise Unsupported('smt: external call ' + n)
        args = [self.val(x, env) for x in a]
        saved = self.curfn
        self.curfn = n
        r = self.run(n, args, pc, depth + 1)
        self.curfn = saved
        if ins.res is not None and r is not None:
            env[ins.res] = r

    def label(self, v):
        base = v
        while isinstance(base, ConstExpr):
            base = base.args[0]
        if isinstance(base, GlobalRef) and base.name in self.mod.globals:
            g = self.mod.globals[base.name]
            if isinstance(g.init, ConstStr):
                return re.sub(r'[^ -~]|["\\|]', '_', g.init.data.split(b'\0')[0].decode('latin1'))
        return 'label?'


def encode(mod, root='vf_main'):
    se = SymExec(mod)
    se.curfn = root
    se.run(root, [], 'true')
    return se


def script_prefix(se):
    lines = ['(set-option :produce-models true)']
    for n, s in se.decls:
        lines.append('(declare-const %s %s)' % (n, s))
    for a in se.assumes:
        lines.append('(assert %s)' % a)
    return lines
