"""LLVM IR (llir.Module) -> type-preserving C for CBMC's C front end.

All integers are unsigned C types (signed operations reinterpret explicitly), IR struct types become
C structs with the same member order (clang's IR already contains explicit padding), arrays are
wrapped in structs so they are first class, GEPs become member/array expressions, atomics become
__CPROVER_atomic sections.  Unknown constructs raise Unsupported (=> INCONCLUSIVE).
"""
import re
import hashlib
from .llir import (Unsupported, IntTy, PtrTy, ArrTy, StructTy, NamedTy, FuncTy, VoidTy, FloatTy,
                   Local, GlobalRef, ConstInt, ConstFP, ConstNull, ConstUndef, ConstZero, ConstAgg,
                   ConstStr, ConstExpr, InlineAsm, MetaVal, resolve, gep_result_type)

STD_BITS = {8: 'uint8_t', 16: 'uint16_t', 32: 'uint32_t', 64: 'uint64_t', 128: 'vf_u128'}
STD_SBITS = {8: 'int8_t', 16: 'int16_t', 32: 'int32_t', 64: 'int64_t', 128: 'vf_s128'}

# external functions the runtime model (rt/cbmc_rt.h) provides; value = C name in the runtime
RT_FUNCS = {
    'malloc': 'vf_malloc', 'free': 'vf_free', 'calloc': 'vf_calloc', 'realloc': 'vf_realloc',
    '_Znwm': 'vf_malloc', '_Znam': 'vf_malloc', '_ZdlPv': 'vf_free', '_ZdaPv': 'vf_free',
    '_ZdlPvm': 'vf_free_sized', '_ZdaPvm': 'vf_free_sized',
    '_ZnwmRKSt9nothrow_t': 'vf_malloc_nt', '_ZnamRKSt9nothrow_t': 'vf_malloc_nt',
    '_ZnwmSt11align_val_t': 'vf_malloc_al', '_ZdlPvSt11align_val_t': 'vf_free_sized',
    '_ZdlPvmSt11align_val_t': 'vf_free_sized3',
    'posix_memalign': 'vf_posix_memalign', 'aligned_alloc': 'vf_aligned_alloc',
    'abort': 'vf_abort', '_ZSt9terminatev': 'vf_abort', '__cxa_pure_virtual': 'vf_abort',
    '__assert_fail': 'vf_assert_fail', 'exit': 'vf_exit',
    '_ZSt17__throw_bad_allocv': 'vf_abort', '_ZSt20__throw_length_errorPKc': 'vf_abort1',
    '_ZSt20__throw_system_errori': 'vf_abort1i', '_ZSt25__throw_bad_function_callv': 'vf_abort',
    '_ZSt24__throw_out_of_range_fmtPKcz': 'vf_abort_va', '_ZSt19__throw_logic_errorPKc': 'vf_abort1',
    '_ZSt28__throw_bad_array_new_lengthv': 'vf_abort', '_ZSt16__throw_bad_castv': 'vf_abort',
    '_ZSt21__throw_runtime_errorPKc': 'vf_abort1', '_ZSt24__throw_invalid_argumentPKc': 'vf_abort1',
    '_ZSt20__throw_out_of_rangePKc': 'vf_abort1',
    'sched_yield': 'vf_sched_yield', 'pthread_yield': 'vf_sched_yield',
    'nanosleep': 'vf_nanosleep',
    '__cxa_guard_acquire': 'vf_guard_acquire', '__cxa_guard_release': 'vf_guard_release',
    '__cxa_guard_abort': 'vf_guard_release',
    '__cxa_atexit': 'vf_cxa_atexit', '__cxa_thread_atexit': 'vf_cxa_thread_atexit',
    'strlen': 'vf_strlen', 'strcmp': 'vf_strcmp', 'memcmp': 'vf_memcmp', 'strchr': 'vf_strchr',
    'memchr': 'vf_memchr', 'strtol': 'vf_strtol', 'strtoul': 'vf_strtoul', '__sched_cpucount': 'vf_sched_cpucount',
    '_ZNSt7__cxx1112basic_stringIcSt11char_traitsIcESaIcEE9_M_createERmm': 'vf_string_M_create',
    '__errno_location': 'vf_errno_location',
    'clock_gettime': 'vf_clock_gettime',
    '_ZNSt6chrono3_V212steady_clock3nowEv': 'vf_steady_now',
    '_ZNSt6chrono3_V212system_clock3nowEv': 'vf_steady_now',
    'pthread_mutex_lock': 'vf_mutex_lock', 'pthread_mutex_unlock': 'vf_mutex_unlock',
    'pthread_mutex_trylock': 'vf_mutex_trylock',
    '__cxa_begin_catch': 'vf_cxa_begin_catch', '__cxa_end_catch': 'vf_cxa_end_catch',
    '__cxa_rethrow': 'vf_cxa_rethrow', '__cxa_allocate_exception': 'vf_cxa_allocate_exception',
    '__cxa_throw': 'vf_cxa_throw', '__cxa_free_exception': 'vf_cxa_free_exception',
    '__gxx_personality_v0': 'vf_personality', '__clang_call_terminate': 'vf_call_terminate',
    '_Unwind_Resume': 'vf_abort1',
    '_ZSt17current_exceptionv': 'vf_current_exception',
    '_ZSt17rethrow_exceptionNSt15__exception_ptr13exception_ptrE': 'vf_rethrow_exception',
    '_ZNSt15__exception_ptr13exception_ptr9_M_addrefEv': 'vf_eptr_addref',
    '_ZNSt15__exception_ptr13exception_ptr10_M_releaseEv': 'vf_eptr_release',
    '_ZNSt15__exception_ptr13exception_ptrC1ERKS0_': 'vf_eptr_copy',
    '_ZNSt15__exception_ptr13exception_ptrD1Ev': 'vf_eptr_dtor',
    '_ZNSt15__exception_ptr13exception_ptr4swapERS0_': 'vf_eptr_swap',
    '_ZSt18uncaught_exceptionv': 'vf_uncaught_exception',
    # std::thread (libstdc++): creation records the thread, the harness runs the body as a model thread
    '_ZNSt6thread15_M_start_threadESt10unique_ptrINS_6_StateESt14default_deleteIS1_EEPFvvE': 'vf_std_thread_start',
    '_ZNSt6thread4joinEv': 'vf_std_thread_join', '_ZNSt6thread6detachEv': 'vf_std_thread_detach',
    '_ZNSt6thread20hardware_concurrencyEv': 'vf_hw_concurrency',
    '_ZNSt6thread6_StateD2Ev': 'vf_std_thread_state_dtor',
    'getenv': 'vf_getenv', 'secure_getenv': 'vf_getenv',
}
# std::thread::_State_impl<...>::_M_run (libstdc++ entry of a thread body): only ever referenced from the state
# object's vtable and never called in any engine (thread bodies are run by the harness / model threads), so the
# vtable slot points to a runtime no-op instead of dragging the whole thread body into every unresolved virtual call
THREAD_RUN_RE = re.compile(r'^_ZNSt6thread11_State_implI.*E6_M_runEv$')
# primitives after which the calling thread may have been declared dead (stuck forever)
BLOCKING = {'syscall', 'vf_block_until', 'vf_join', 'vf_futex_wait', 'pthread_mutex_lock',
            'vf_thread_exit'}
# seq mode: external calls after which a thread root may have to give up the processor
SEQ_BLOCKING = {'pthread_mutex_lock', '__cxa_guard_acquire', 'vf_block_until', 'vf_join',
                '_ZNSt6thread4joinEv', 'vf_wait_started'}
SEQ_YIELDING = {'sched_yield', 'pthread_yield'}
NORETURN_RT = {'vf_abort', 'vf_abort1', 'vf_abort1i', 'vf_abort_va', 'vf_assert_fail', 'vf_exit',
               'vf_call_terminate'}
THROWING_RT = {'__cxa_throw', '__cxa_rethrow', '_ZSt17rethrow_exceptionNSt15__exception_ptr13exception_ptrE',
               'vf_throw'}


def san(name):
    s = re.sub(r'[^A-Za-z0-9_]', '_', name)
    if s != name:
        s += '_' + hashlib.md5(name.encode()).hexdigest()[:6]
    return s


class Emitter:
    def __init__(self, mod, opts=None):
        self.mod = mod
        self.opts = opts or {}
        self.tnames = {}  # type key -> C name (structs / arrays / funcptr typedefs)
        self.tdefs = []  # (kind, key, ty, cname) in creation order
        self.out = []
        self.sites = []  # atomic sites: (id, func, op, order)
        self.externals = set()
        self.unknown_externals = set()
        self.nounwind_groups = set()
        self.exceptions = bool(self.opts.get('exceptions'))
        self.strs = {}
        self.spawns = []
        self.nsw_check = bool(self.opts.get('nsw_check'))
        # sequentialised (step machine) mode: thread roots become resumable functions
        self.seq = bool(self.opts.get('seq'))
        self.cur_root = None      # spawn index of the root being emitted (seq mode)
        self.nyield = 0
        self.root_yields = []
        self.spawn_k = {}         # id(call instr) -> spawn index (seq mode, from the pre-scan)
        self.seq_roots = []       # [(k, function name)] incl. (0, 'vf_main')

    # ------------------------------------------------------------------ types
    def ity(self, bits, signed=False):
        if bits == 1:
            return '_Bool'
        if bits in STD_BITS:
            return (STD_SBITS if signed else STD_BITS)[bits]
        return ('signed' if signed else 'unsigned') + ' __CPROVER_bitvector[%d]' % bits

    def cty(self, ty):
        k = ty.kind
        if k == 'void':
            return 'void'
        if k == 'int':
            return self.ity(ty.bits)
        if k == 'float':
            if ty.name == 'double':
                return 'double'
            if ty.name == 'float':
                return 'float'
            if ty.name == 'x86_fp80':
                return 'long double'
            raise Unsupported('float type ' + ty.name)
        if k == 'ptr':
            to = ty.to
            if to.kind == 'func':
                return self.fptr_name(to)
            if to.kind == 'void':
                return 'void*'
            r = to
            if r.kind == 'named' and self.mod.types.get(r.name) is None:
                return 'struct %s*' % self.named_cname(r.name)
            return self.cty(to) + '*'
        if k == 'named':
            return 'struct ' + self.named_cname(ty.name)
        if k == 'struct':
            return 'struct ' + self.lit_struct_name(ty)
        if k == 'arr':
            return 'struct ' + self.arr_name(ty)
        if k == 'vec':
            raise Unsupported('vector type %s' % ty.key())
        if k == 'metadata':
            return 'int'
        raise Unsupported('type kind ' + k)

    def named_cname(self, name):
        key = '%' + name
        if key not in self.tnames:
            self.tnames[key] = 'S_' + san(name)
            self.tdefs.append(('named', key, NamedTy(name), self.tnames[key]))
        return self.tnames[key]

    def lit_struct_name(self, ty):
        key = ty.key()
        if key not in self.tnames:
            self.tnames[key] = 'L_' + hashlib.md5(key.encode()).hexdigest()[:10]
            self.tdefs.append(('lit', key, ty, self.tnames[key]))
            for f in ty.fields:
                self.cty(f)
        return self.tnames[key]

    def arr_name(self, ty):
        key = ty.key()
        if key not in self.tnames:
            self.tnames[key] = 'A%d_%s' % (ty.n, hashlib.md5(key.encode()).hexdigest()[:10])
            self.tdefs.append(('arr', key, ty, self.tnames[key]))
            self.cty(ty.el)
        return self.tnames[key]

    def fptr_name(self, fty):
        key = 'fp:' + fty.key()
        if key not in self.tnames:
            self.tnames[key] = 'FP_' + hashlib.md5(key.encode()).hexdigest()[:10]
            self.tdefs.append(('fptr', key, fty, self.tnames[key]))
            self.cty(fty.ret)
            for p in fty.params:
                self.cty(p)
        return self.tnames[key]

    # layout (x86-64), used to type heap allocations
    def sizeof(self, ty):
        return self.layout(ty)[0]

    def layout(self, ty):
        k = ty.kind
        if k == 'int':
            b = max(8, 1 << (ty.bits - 1).bit_length()) // 8 if ty.bits > 1 else 1
            return b, min(b, 16)
        if k == 'float':
            return {'float': (4, 4), 'double': (8, 8), 'x86_fp80': (16, 16)}[ty.name]
        if k == 'ptr':
            return 8, 8
        if k == 'arr':
            s, a = self.layout(ty.el)
            return s * ty.n, a
        if k == 'named':
            r = self.mod.types.get(ty.name)
            if r is None:
                raise Unsupported('sizeof opaque %s' % ty.name)
            return self.layout(r)
        if k == 'struct':
            off = 0
            al = 1
            for f in ty.fields:
                s, a = self.layout(f)
                if ty.packed:
                    a = 1
                off = (off + a - 1) // a * a
                off += s
                al = max(al, a)
            off = (off + al - 1) // al * al
            return off, al
        raise Unsupported('layout of ' + k)

    def field_offset(self, sty, idx):
        off = 0
        for i, f in enumerate(sty.fields):
            s, a = self.layout(f)
            if sty.packed:
                a = 1
            off = (off + a - 1) // a * a
            if i == idx:
                return off
            off += s
        raise IndexError

    # ------------------------------------------------------------------ emit types
    def emit_types(self):
        # iterate until closure (struct bodies may introduce new types)
        done = set()
        bodies = {}
        i = 0
        while i < len(self.tdefs):
            kind, key, ty, cname = self.tdefs[i]
            i += 1
            if kind == 'named':
                r = self.mod.types.get(ty.name)
                if r is not None:
                    bodies[cname] = (r, [self.cty(f) for f in r.fields])
                else:
                    bodies[cname] = (None, None)
            elif kind == 'lit':
                bodies[cname] = (ty, [self.cty(f) for f in ty.fields])
            elif kind == 'arr':
                bodies[cname] = (ty, [self.cty(ty.el)])
        lines = []
        for kind, key, ty, cname in self.tdefs:
            if kind != 'fptr':
                lines.append('struct %s;' % cname)
        for kind, key, ty, cname in self.tdefs:
            if kind == 'fptr':
                ps = ', '.join(self.cty(p) for p in ty.params)
                if ty.vararg:
                    ps = ps + ', ...' if ps else None
                if ps is None:
                    ps = ''  # `i32 (...)*` (vptr slot type): C has no `(...)`; unspecified parameter list
                elif not ps:
                    ps = 'void'
                lines.append('typedef %s (*%s)(%s);' % (self.cty(ty.ret), cname, ps))
        # struct definitions in by-value dependency order
        emitted = set()
        order = []

        def deps(ty):
            k = ty.kind
            if k == 'named':
                return [self.named_cname(ty.name)]
            if k == 'struct':
                return [self.lit_struct_name(ty)]
            if k == 'arr':
                return [self.arr_name(ty)]
            return []

        def visit(cname, stack=()):
            if cname in emitted or cname in stack:
                return
            ty, fields = bodies.get(cname, (None, None))
            if ty is None:
                emitted.add(cname)
                return
            subs = ty.fields if ty.kind == 'struct' else [ty.el]
            for f in subs:
                for d in deps(f):
                    visit(d, stack + (cname,))
            emitted.add(cname)
            order.append(cname)

        for kind, key, ty, cname in list(self.tdefs):
            if kind != 'fptr':
                visit(cname)
        for cname in order:
            ty, fields = bodies[cname]
            if ty.kind == 'struct':
                attr = ' __attribute__((packed))' if ty.packed else ''
                if not fields:
                    lines.append('struct %s { char vf_empty[0]; };' % cname)
                else:
                    lines.append('struct %s { %s }%s;' % (
                        cname, ' '.join('%s f%d;' % (t, j) for j, t in enumerate(fields)), attr))
            else:
                lines.append('struct %s { %s a[%d]; };' % (cname, fields[0], max(ty.n, 0)))
        return lines

    # ------------------------------------------------------------------ values
    def lname(self, name):
        return 'v_' + re.sub(r'[^A-Za-z0-9_]', '_', name)

    def fname(self, name):
        if name in RT_FUNCS:
            return RT_FUNCS[name]
        if THREAD_RUN_RE.match(name):
            return 'vf_std_thread_state_run'
        if name.startswith('vf_'):
            return name
        if name == 'main':
            return 'vf_user_main'
        return 'F_' + san(name) if not re.fullmatch(r'[A-Za-z_][A-Za-z0-9_]*', name) or \
            name in C_RESERVED else name

    def gname(self, name):
        return 'G_' + san(name)

    def val(self, v, want=None):
        """C expression for an operand."""
        if isinstance(v, Local):
            return self.lname(v.name)
        if isinstance(v, ConstInt):
            bits = v.ty.bits
            x = v.v & ((1 << bits) - 1)
            if bits == 1:
                return '1' if x else '0'
            if bits <= 32:
                return '((%s)%dU)' % (self.ity(bits), x)
            if bits <= 64:
                return '((%s)%dULL)' % (self.ity(bits), x)
            hi, lo = x >> 64, x & ((1 << 64) - 1)
            return '((((vf_u128)%dULL) << 64) | (vf_u128)%dULL)' % (hi, lo)
        if isinstance(v, ConstNull):
            return '((%s)0)' % self.cty(v.ty)
        if isinstance(v, ConstUndef):
            return self.zero_expr(v.ty)
        if isinstance(v, ConstZero):
            return self.zero_expr(v.ty)
        if isinstance(v, ConstFP):
            return self.fp_lit(v)
        if isinstance(v, GlobalRef):
            return self.gref(v)
        if isinstance(v, ConstExpr):
            return self.cexpr(v)
        if isinstance(v, ConstAgg):
            return '((%s)%s)' % (self.cty(v.ty), self.init(v))
        raise Unsupported('operand %r' % type(v))

    def fp_lit(self, v):
        t = v.text
        if t.startswith('0x'):
            if t[2] in 'KLMHR':
                raise Unsupported('fp80 literal')
            bits = int(t[2:], 16)
            import struct
            d = struct.unpack('<d', struct.pack('<Q', bits))[0]
            if d != d or d in (float('inf'), float('-inf')):
                if d != d:
                    return '(0.0/0.0)'
                return '(1.0/0.0)' if d > 0 else '(-1.0/0.0)'
            s = d.hex()
            return '((%s)%s)' % (self.cty(v.ty), s)
        return '((%s)%s)' % (self.cty(v.ty), t)

    def zero_expr(self, ty):
        r = resolve(self.mod, ty) if ty.kind == 'named' else ty
        if ty.kind in ('int',):
            return '((%s)0)' % self.cty(ty)
        if ty.kind == 'float':
            return '((%s)0.0)' % self.cty(ty)
        if ty.kind == 'ptr':
            return '((%s)0)' % self.cty(ty)
        return '((%s){0})' % self.cty(ty)

    def gref(self, v):
        name = v.name
        if name in self.mod.aliases:
            return self.val(self.mod.aliases[name])
        if name in self.mod.funcs:
            f = self.mod.funcs[name]
            self.note_func_use(name)
            return '((%s)&%s)' % (self.fptr_name(f.fty), self.fname(name))
        if name in self.mod.globals:
            if self.seq and self.mod.globals[name].tls:
                return '(&%s[vf_tid])' % self.gname(name)
            return '(&%s)' % self.gname(name)
        raise Unsupported('unknown global @%s' % name)

    def note_func_use(self, name):
        f = self.mod.funcs.get(name)
        if f is not None and f.is_decl:
            self.externals.add(name)

    def cexpr(self, e):
        if e.op == 'getelementptr':
            base = e.args[0]
            return self.gep_expr(e.extra['srcty'], base, e.args[1:])
        if e.op == 'bitcast' or e.op == 'addrspacecast':
            return '((%s)%s)' % (self.cty(e.ty), self.val(e.args[0]))
        if e.op == 'ptrtoint':
            return '((%s)(uint64_t)%s)' % (self.cty(e.ty), self.val(e.args[0]))
        if e.op == 'inttoptr':
            return '((%s)(uint64_t)%s)' % (self.cty(e.ty), self.val(e.args[0]))
        if e.op in ('trunc', 'zext'):
            return '((%s)%s)' % (self.cty(e.ty), self.val(e.args[0]))
        if e.op in ('add', 'sub', 'mul', 'and', 'or', 'xor'):
            o = {'add': '+', 'sub': '-', 'mul': '*', 'and': '&', 'or': '|', 'xor': '^'}[e.op]
            return '((%s)(%s %s %s))' % (self.cty(e.ty), self.val(e.args[0]), o, self.val(e.args[1]))
        if e.op == 'icmp':
            return self.icmp_expr(e.extra['pred'], e.args[0], e.args[1])
        if e.op == 'select':
            return '(%s ? %s : %s)' % tuple(self.val(a) for a in e.args)
        raise Unsupported('constant expression ' + e.op)

    def gep_expr(self, srcty, base, idx):
        b = self.val(base)
        first = idx[0]
        if isinstance(first, ConstInt) and first.v == 0:
            expr = '(*%s)' % b
        else:
            expr = '(%s[%s])' % (b, self.sidx(first))
        ty = srcty
        for ix in idx[1:]:
            r = resolve(self.mod, ty)
            if r.kind == 'struct':
                expr += '.f%d' % ix.v
                ty = r.fields[ix.v]
            elif r.kind == 'arr':
                expr += '.a[%s]' % self.sidx(ix)
                ty = r.el
            else:
                raise Unsupported('gep into ' + r.kind)
        return '(&%s)' % expr

    def sidx(self, v):
        if isinstance(v, ConstInt):
            x = v.v
            bits = v.ty.bits
            if x >= 1 << (bits - 1):
                x -= 1 << bits
            return '%dL' % x if x >= 0 else '(%dL)' % x
        bits = v.ty.bits
        if bits == 64:
            return '(int64_t)%s' % self.val(v)
        return '(int64_t)(%s)%s' % (self.ity(bits, True), self.val(v))

    def sv(self, v):
        """operand reinterpreted as signed"""
        bits = v.ty.bits
        if bits == 1:
            return '(%s ? -1 : 0)' % self.val(v)
        return '((%s)%s)' % (self.ity(bits, True), self.val(v))

    def icmp_expr(self, pred, a, b):
        if a.ty.kind == 'ptr':
            ca, cb = '((char*)%s)' % self.val(a), '((char*)%s)' % self.val(b)
            if pred in ('eq', 'ne'):
                ca, cb = '((void*)%s)' % self.val(a), '((void*)%s)' % self.val(b)
            o = {'eq': '==', 'ne': '!=', 'ult': '<', 'ule': '<=', 'ugt': '>', 'uge': '>=',
                 'slt': '<', 'sle': '<=', 'sgt': '>', 'sge': '>='}[pred]
            return '(%s %s %s)' % (ca, o, cb)
        o = {'eq': '==', 'ne': '!=', 'ult': '<', 'ule': '<=', 'ugt': '>', 'uge': '>=',
             'slt': '<', 'sle': '<=', 'sgt': '>', 'sge': '>='}[pred]
        if pred[0] == 's':
            return '(%s %s %s)' % (self.sv(a), o, self.sv(b))
        bits = a.ty.bits
        if bits < 32 and bits != 1:
            return '((unsigned)%s %s (unsigned)%s)' % (self.val(a), o, self.val(b))
        return '(%s %s %s)' % (self.val(a), o, self.val(b))

    # ------------------------------------------------------------------ global initialisers
    def init(self, v):
        ty = v.ty
        if isinstance(v, ConstAgg):
            r = resolve(self.mod, ty)
            inner = ', '.join(self.init(e) for e in v.elems)
            if r.kind == 'arr':
                return '{ { %s } }' % inner
            return '{ %s }' % (inner if inner else '0')
        if isinstance(v, ConstStr):
            return '{ { %s } }' % ', '.join(str(b) for b in v.data)
        if isinstance(v, (ConstZero, ConstUndef)):
            if ty.kind in ('int', 'ptr', 'float'):
                return '0'
            return '{ 0 }'
        return self.val(v)

    # ------------------------------------------------------------------ functions
    def proto(self, f, name=None):
        ps = ', '.join('%s %s' % (self.cty(p.ty), self.lname(p.name)) for p in f.params)
        if f.vararg:
            ps = ps + ', ...' if ps else '...'
        if not ps:
            ps = 'void'
        return '%s %s(%s)' % (self.cty(f.ret), name or self.fname(f.name), ps)

    def compute_may_abort(self):
        """functions after whose call the thread may be dead (stuck) or unwinding."""
        mod = self.mod
        calls = {}
        direct = {}
        for f in mod.funcs.values():
            s = set()
            ind = False
            for b in f.blocks:
                for ins in b.instrs:
                    if ins.op in ('call', 'invoke'):
                        if isinstance(ins.callee, GlobalRef):
                            s.add(ins.callee.name)
                        elif isinstance(ins.callee, InlineAsm):
                            pass
                        else:
                            ind = True
            calls[f.name] = s
            direct[f.name] = ind
        seeds = set() if self.seq else set(BLOCKING)
        if self.exceptions:
            seeds |= THROWING_RT
        any_seed = any(s & seeds for s in calls.values())
        may = set(seeds)
        if any_seed:
            for f in mod.funcs.values():
                if direct[f.name] and not f.is_decl:
                    may.add(f.name)
        changed = True
        while changed:
            changed = False
            for n, s in calls.items():
                if n not in may and s & may:
                    may.add(n)
                    changed = True
        self.may_abort = may
        self.any_abort = any_seed

    def emit_function(self, f, root_k=None):
        mod = self.mod
        L = []
        w = L.append
        self.cur_root = root_k
        self.root_yields = []
        # collect local declarations
        decls = []
        phis = {}  # block -> [phi instr]
        preds_named = {}
        for b in f.blocks:
            for ins in b.instrs:
                if ins.op == 'phi':
                    phis.setdefault(b.name, []).append(ins)
                if ins.res is not None and ins.ty is not None and ins.ty.kind != 'void':
                    decls.append('%s %s;' % (self.cty(ins.ty), self.lname(ins.res)))
                if ins.op == 'alloca':
                    if ins.cnt is not None and not (isinstance(ins.cnt, ConstInt)):
                        raise Unsupported('variable-size alloca in ' + f.name)
                    n = ins.cnt.v if ins.cnt is not None else 1
                    if n == 1:
                        decls.append('%s m_%s;' % (self.cty(ins.aty), self.lname(ins.res)))
                    else:
                        decls.append('%s m_%s[%d];' % (self.cty(ins.aty), self.lname(ins.res), n))
        self.cur = f
        self.cur_phis = phis
        self.tmpn = 0
        # typed allocation: the type an allocation result is first cast to (CBMC is an order of
        # magnitude faster on typed dynamic objects than on byte arrays accessed through casts)
        self.first_cast = {}
        # opt-in (spec key 'ptrdiff'): `sub (ptrtoint a), (ptrtoint b)` is emitted as a C pointer difference, which
        # CBMC's simplifier folds to a constant for same-object pointers (it does not fold (A+8)-(A+8) on the integer casts)
        self.ptrtoint_src = {}
        if self.opts.get('ptrdiff'):
            for b in f.blocks:
                for ins in b.instrs:
                    if ins.op == 'cast' and ins.cop == 'ptrtoint' and ins.res is not None and ins.ty.kind == 'int' \
                            and ins.ty.bits == 64:
                        self.ptrtoint_src[ins.res] = ins.a
        # opt-in (rt_defs VF_PTR_ATOMICS): clang lowers std::atomic<T*>::load/store to i64 accesses + inttoptr/ptrtoint, and
        # CBMC neither propagates nor null-tests a pointer that went through an integer.  An i64 load whose every use is an
        # inttoptr is emitted as a pointer-typed load of the same location (the inttoptr results are assigned at the
        # load), an i64 store of a ptrtoint result as a pointer-typed store of the pointer.
        # opt-in (rt_defs VF_UNTAG=<2^k>): `inttoptr (and X, -2^k)` (tag bits masked off an aligned object pointer) goes
        # through vf_untag(), which resolves the address to an object registered with vf_untag_register() under a checked
        # equality (rt: assertion), so that symex sees a constant offset instead of a whole-object byte extract.
        self.ld_ptr_users = {}
        self.skip_casts = set()
        self.st_ptr_src = {}
        self.untag_and = set()
        rd_ = self.opts.get('rt_defs') or {}
        if 'VF_PTR_ATOMICS' in rd_ or 'VF_UNTAG' in rd_:
            def locals_of(x, out):
                if isinstance(x, Local):
                    out.append(x.name)
                elif isinstance(x, ConstExpr):
                    for y in x.args:
                        locals_of(y, out)
                elif isinstance(x, (list, tuple)):
                    for y in x:
                        locals_of(y, out)
            uses = {}
            defs_ = {}
            for b in f.blocks:
                for ins in b.instrs:
                    if ins.res is not None:
                        defs_[ins.res] = ins
                    ops_ = []
                    for k_, v_ in ins.__dict__.items():
                        if k_ not in ('res', 'ty', 'op'):
                            locals_of(v_, ops_)
                    for n_ in ops_:
                        uses.setdefault(n_, []).append(ins)
            if 'VF_PTR_ATOMICS' in rd_:
                for b in f.blocks:
                    for ins in b.instrs:
                        if ins.op == 'load' and ins.res is not None and ins.ty.kind == 'int' and ins.ty.bits == 64:
                            us = uses.get(ins.res, [])
                            if us and all(u.op == 'cast' and u.cop == 'inttoptr' and u.res is not None for u in us):
                                self.ld_ptr_users[ins.res] = us
                                self.skip_casts.update(u.res for u in us)
                        if ins.op == 'store' and isinstance(ins.v, Local) and ins.v.name in defs_:
                            d_ = defs_[ins.v.name]
                            if d_.op == 'cast' and d_.cop == 'ptrtoint' and d_.ty.kind == 'int' and d_.ty.bits == 64:
                                self.st_ptr_src[ins.v.name] = d_.a
            if 'VF_UNTAG' in rd_:
                mask_ = (1 << 64) - int(rd_['VF_UNTAG'])
                for b in f.blocks:
                    for ins in b.instrs:
                        if ins.op == 'bin' and ins.bop == 'and' and ins.res is not None and ins.ty.kind == 'int' and \
                                ins.ty.bits == 64 and isinstance(ins.b, ConstInt) and (ins.b.v & ((1 << 64) - 1)) == mask_:
                            self.untag_and.add(ins.res)
        if self.opts.get('typed_alloc', True):
            for b in f.blocks:
                for ins in b.instrs:
                    if ins.op == 'cast' and ins.cop == 'bitcast' and isinstance(ins.a, Local) and \
                            ins.ty.kind == 'ptr' and ins.a.name not in self.first_cast:
                        self.first_cast[ins.a.name] = ins.ty.to
            if 'VF_TYPED_SINGLETON' in (self.opts.get('rt_defs') or {}):
                # opt-in (rt_defs VF_TYPED_SINGLETON): `static T* g = new T()` -- the i8* result is never
                # cast, only stored through `bitcast (T** @g to i8**)`: type it from the global
                for b in f.blocks:
                    for ins in b.instrs:
                        if ins.op == 'store' and isinstance(ins.v, Local) and ins.v.name not in self.first_cast \
                                and isinstance(ins.ptr, ConstExpr) and ins.ptr.op == 'bitcast' \
                                and isinstance(ins.ptr.args[0], GlobalRef) \
                                and ins.ptr.args[0].name in self.mod.globals:
                            gt = self.mod.globals[ins.ptr.args[0].name].ty
                            if gt.kind == 'ptr':
                                self.first_cast[ins.v.name] = gt.to
        if self.opts.get('typed_alloc', True) and 'VF_TYPED_STORE_SLOT' in (self.opts.get('rt_defs') or {}):
            # opt-in (rt_defs VF_TYPED_STORE_SLOT): an i8* allocation result that is never cast, only stored
            # through `bitcast T** %slot to i8**` (ConcurrentObjectArena::allocateBuffer files the fresh buffer
            # in its table that way): type it from the slot
            bc = {}
            for b in f.blocks:
                for ins in b.instrs:
                    if ins.op == 'cast' and ins.cop == 'bitcast' and ins.res is not None and \
                            getattr(ins.a, 'ty', None) is not None and ins.a.ty.kind == 'ptr' and \
                            ins.a.ty.to.kind == 'ptr':
                        bc[ins.res] = ins.a.ty.to.to
            for b in f.blocks:
                for ins in b.instrs:
                    if ins.op == 'store' and isinstance(ins.v, Local) and ins.v.name not in self.first_cast \
                            and isinstance(ins.ptr, Local) and ins.ptr.name in bc:
                        self.first_cast[ins.v.name] = bc[ins.ptr.name]
        if root_k is None:
            w(self.proto(f) + ' {')
            for d in decls:
                w('  ' + d)
            for b in f.blocks:
                w(' %s: ;' % self.blabel(b.name))
                for ins in b.instrs:
                    if ins.op == 'phi':
                        continue
                    self.emit_instr(ins, b, w)
            w('}')
            return L
        # resumable thread root (step machine): locals are static, every yield point is a label the
        # function can be re-entered at through vf_pc[k]
        body = []
        wb = body.append
        for b in f.blocks:
            wb(' %s: ;' % self.blabel(b.name))
            for ins in b.instrs:
                if ins.op == 'phi':
                    continue
                self.emit_instr(ins, b, wb)
        w('void vf_root_%d(void) {' % root_k)
        for p in f.params:
            w('  static %s %s;' % (self.cty(p.ty), self.lname(p.name)))
        for d in decls:
            w('  static ' + d)
        # vf_fresh[k] is a constant for CBMC's constant propagation once the thread has certainly
        # started (the main thread always runs the first segment), so the code before the first yield
        # point is not re-analysed in every round
        w('  if (vf_fresh[%d]) { vf_fresh[%d] = 0; goto VF_START; }' % (root_k, root_k))
        w('  switch (vf_pc[%d]) {' % root_k)
        for y in self.root_yields:
            w('    case %d: goto Y_%d;' % (y, y))
        w('    default: __CPROVER_assume(0); return;')
        w('  }')
        w(' VF_START: ;')
        if f.params:
            p = f.params[0]
            w('  %s = (%s)vf_thr_arg[%d];' % (self.lname(p.name), self.cty(p.ty), root_k))
        L.extend(body)
        w('}')
        self.cur_root = None
        return L

    def seq_yield(self, w, forced=False):
        """yield point of a thread root: the scheduler may switch to another thread here"""
        self.nyield += 1
        y = self.nyield
        self.root_yields.append(y)
        k = self.cur_root
        if forced:
            w('  { vf_pc[%d] = %d; vf_paused = 1; return; } Y_%d: ;' % (k, y, y))
        else:
            w('  if (vf_preempt(%d)) { vf_pc[%d] = %d; return; } Y_%d: ;' % (k, k, y, y))
        return y

    def seq_block_check(self, w, y):
        k = self.cur_root
        w('  if (vf_blk) { vf_blk = 0; vf_pc[%d] = %d; return; }' % (k, y))

    def blabel(self, name):
        return 'B_' + re.sub(r'[^A-Za-z0-9_]', '_', name)

    def retdummy(self):
        f = self.cur
        if self.cur_root is not None:
            return '{ vf_thread_done(%d); vf_pc[%d] = -1; return; }' % (self.cur_root, self.cur_root)
        if f.ret.kind == 'void':
            return 'return;'
        return 'return %s;' % self.zero_expr(f.ret)

    def edge(self, frm, to):
        """statements performing phi assignments for edge frm->to, then goto."""
        ph = self.cur_phis.get(to, [])
        stm = []
        if ph:
            vals = []
            for p in ph:
                src = None
                for v, lbl in p.inc:
                    if lbl == frm:
                        src = v
                        break
                if src is None:
                    raise Unsupported('phi without incoming for %s in %s' % (frm, self.cur.name))
                vals.append((p, src))
            need_tmp = len(vals) > 1 and any(
                isinstance(s, Local) and any(s.name == q.res for q, _ in vals) for _, s in vals)
            if need_tmp:
                for i, (p, s) in enumerate(vals):
                    stm.append('%s pt%d_%s = %s;' % (self.cty(p.ty), i, self.lname(p.res), self.val(s)))
                for i, (p, s) in enumerate(vals):
                    stm.append('%s = pt%d_%s;' % (self.lname(p.res), i, self.lname(p.res)))
            else:
                for p, s in vals:
                    if isinstance(s, ConstUndef):
                        continue
                    stm.append('%s = %s;' % (self.lname(p.res), self.val(s)))
        stm.append('goto %s;' % self.blabel(to))
        return '{ ' + ' '.join(stm) + ' }'

    def new_site(self, ins, what):
        sid = len(self.sites)
        self.sites.append({'id': sid, 'func': self.cur.name, 'op': what,
                           'order': getattr(ins, 'order', None)})
        return sid

    def emit_instr(self, ins, b, w):
        op = ins.op
        r = self.lname(ins.res) if ins.res is not None else None
        if self.cur_root is not None and (op in ('fence', 'atomicrmw', 'cmpxchg') or
                                          (op in ('load', 'store') and ins.atomic)):
            self.seq_yield(w)
        if op == 'bin':
            w('  %s = %s;' % (r, self.bin_expr(ins)))
            if self.nsw_check and 'nsw' in ins.flags and ins.bop in ('add', 'sub', 'mul'):
                bits = ins.ty.bits
                wide = self.ity(min(128, bits * 2), True)
                o = {'add': '+', 'sub': '-', 'mul': '*'}[ins.bop]
                w('  __CPROVER_assert((%s)%s %s (%s)%s == (%s)(%s)%s, "ub: signed overflow in %s");'
                  % (wide, self.sv(ins.a), o, wide, self.sv(ins.b), wide, self.ity(bits, True), r,
                     san(self.cur.name)[:60]))
        elif op == 'fneg':
            w('  %s = -%s;' % (r, self.val(ins.a)))
        elif op == 'cast':
            if ins.res not in getattr(self, 'skip_casts', ()):  # else: assigned at the pointer-typed load
                w('  %s = %s;' % (r, self.cast_expr(ins)))
        elif op == 'icmp':
            w('  %s = %s;' % (r, self.icmp_expr(ins.pred, ins.a, ins.b)))
        elif op == 'fcmp':
            w('  %s = %s;' % (r, self.fcmp_expr(ins)))
        elif op == 'select':
            w('  %s = %s ? %s : %s;' % (r, self.val(ins.c), self.val(ins.a), self.val(ins.b)))
        elif op == 'freeze':
            w('  %s = %s;' % (r, self.val(ins.a)))
        elif op == 'br':
            w('  ' + self.edge(b.name, ins.tgt))
        elif op == 'condbr':
            w('  if (%s) %s else %s' % (self.val(ins.c), self.edge(b.name, ins.t),
                                       self.edge(b.name, ins.f)))
        elif op == 'switch':
            w('  switch (%s) {' % self.val(ins.v))
            for cv, lbl in ins.cases:
                w('    case %s: %s' % (self.val(cv), self.edge(b.name, lbl)))
            w('    default: %s' % self.edge(b.name, ins.dflt))
            w('  }')
        elif op == 'ret' and self.cur_root is not None:
            w('  ' + self.retdummy())
        elif op == 'ret':
            if ins.v is None:
                w('  return;')
            else:
                w('  return %s;' % self.val(ins.v))
        elif op == 'unreachable':
            w('  VF_UNREACHABLE("%s"); %s' % (san(self.cur.name)[:80], self.retdummy()))
        elif op == 'alloca':
            n = ins.cnt.v if ins.cnt is not None else 1
            w('  %s = %sm_%s;' % (r, '&' if n == 1 else '', r))
        elif op == 'load':
            p = self.val(ins.ptr)
            if ins.res in getattr(self, 'ld_ptr_users', {}):
                asg = ' '.join('%s = *((%s*)%s);' % (self.lname(u.res), self.cty(u.ty), p) for u in self.ld_ptr_users[ins.res])
                if ins.atomic:
                    sid = self.new_site(ins, 'load')
                    w('  VF_ATOMIC_BEGIN(%d); %s VF_ATOMIC_LOAD(%d, %s, %s); VF_ATOMIC_END(%d);'
                      % (sid, asg, sid, p, ORD[ins.order], sid))
                else:
                    w('  ' + asg)
            elif ins.atomic:
                sid = self.new_site(ins, 'load')
                w('  VF_ATOMIC_BEGIN(%d); %s = *%s; VF_ATOMIC_LOAD(%d, %s, %s); VF_ATOMIC_END(%d);'
                  % (sid, r, p, sid, p, ORD[ins.order], sid))
            elif self.guard_word(ins.ptr) is not None:
                w('  %s = (uint8_t)(%s & 255u);' % (r, self.guard_word(ins.ptr)))
            else:
                w('  %s = *%s;' % (r, p))
        elif op == 'store':
            p = self.val(ins.ptr)
            if not ins.atomic and self.guard_word(ins.ptr) is not None:
                g = self.guard_word(ins.ptr)
                w('  %s = (%s & ~(uint64_t)255u) | (uint64_t)(uint8_t)%s;' % (g, g, self.val(ins.v)))
            elif ins.atomic and isinstance(ins.v, Local) and ins.v.name in getattr(self, 'st_ptr_src', {}):
                q = self.st_ptr_src[ins.v.name]
                sid = self.new_site(ins, 'store')
                w('  VF_ATOMIC_BEGIN(%d); *((%s*)%s) = %s; VF_ATOMIC_STORE(%d, %s, %s); VF_ATOMIC_END(%d);'
                  % (sid, self.cty(q.ty), p, self.val(q), sid, p, ORD[ins.order], sid))
            elif ins.atomic:
                sid = self.new_site(ins, 'store')
                w('  VF_ATOMIC_BEGIN(%d); *%s = %s; VF_ATOMIC_STORE(%d, %s, %s); VF_ATOMIC_END(%d);'
                  % (sid, p, self.val(ins.v), sid, p, ORD[ins.order], sid))
            else:
                w('  *%s = %s;' % (p, self.val(ins.v)))
        elif op == 'fence':
            sid = self.new_site(ins, 'fence')
            w('  VF_FENCE(%d, %s);' % (sid, ORD[ins.order]))
        elif op == 'atomicrmw':
            p = self.val(ins.ptr)
            v = self.val(ins.v)
            sid = self.new_site(ins, 'rmw_' + ins.rop)
            T = self.cty(ins.ty)
            expr = {
                'xchg': v, 'add': '(%s)(*%s + %s)' % (T, p, v), 'sub': '(%s)(*%s - %s)' % (T, p, v),
                'and': '(%s)(*%s & %s)' % (T, p, v), 'or': '(%s)(*%s | %s)' % (T, p, v),
                'xor': '(%s)(*%s ^ %s)' % (T, p, v),
                'nand': '(%s)~(*%s & %s)' % (T, p, v),
                'umax': '(*%s > %s ? *%s : %s)' % (p, v, p, v),
                'umin': '(*%s < %s ? *%s : %s)' % (p, v, p, v),
            }.get(ins.rop)
            if ins.rop in ('max', 'min'):
                st = self.ity(ins.ty.bits, True)
                o = '>' if ins.rop == 'max' else '<'
                expr = '((%s)*%s %s (%s)%s ? *%s : %s)' % (st, p, o, st, v, p, v)
            if expr is None:
                raise Unsupported('atomicrmw ' + ins.rop)
            w('  VF_ATOMIC_BEGIN(%d); %s = *%s; *%s = %s; VF_ATOMIC_RMW(%d, %s, %s); VF_ATOMIC_END(%d);'
              % (sid, r, p, p, expr, sid, p, ORD[ins.order], sid))
        elif op == 'cmpxchg':
            p = self.val(ins.ptr)
            sid = self.new_site(ins, 'cmpxchg')
            cmpv, newv = self.val(ins.cmp), self.val(ins.new)
            eq = '(*%s == %s)' % (p, cmpv)
            if ins.cmp.ty.kind == 'ptr':
                eq = '((void*)*%s == (void*)%s)' % (p, cmpv)
            fail = ' && !VF_CAS_SPURIOUS_FAIL(%d)' % sid if ins.weak else ''
            w('  VF_ATOMIC_BEGIN(%d); %s.f0 = *%s; %s.f1 = %s%s; if (%s.f1) { *%s = %s; '
              'VF_ATOMIC_RMW(%d, %s, %s); } else { VF_ATOMIC_LOAD(%d, %s, %s); } VF_ATOMIC_END(%d);'
              % (sid, r, p, r, eq, fail, r, p, newv, sid, p, ORD[ins.order], sid, p,
                 ORD[ins.forder], sid))
        elif op == 'gep':
            w('  %s = %s;' % (r, self.gep_expr(ins.srcty, ins.base, ins.idx)))
        elif op == 'extractvalue':
            w('  %s = %s%s;' % (r, self.val(ins.agg), self.agg_path(ins.agg.ty, ins.idx)))
        elif op == 'insertvalue':
            if not isinstance(ins.agg, ConstUndef):
                w('  %s = %s;' % (r, self.val(ins.agg)))
            w('  %s%s = %s;' % (r, self.agg_path(ins.agg.ty, ins.idx), self.val(ins.v)))
        elif op in ('call', 'invoke'):
            self.emit_call(ins, b, w)
        elif op == 'landingpad':
            w('  %s.f0 = (uint8_t*)vf_exc_obj; %s.f1 = (uint32_t)vf_exc_sel; vf_unw = 0;' % (r, r))
        elif op == 'resume':
            w('  vf_exc_obj = (void*)%s.f0; vf_exc_sel = (int)%s.f1; vf_unw = 2; %s' % (
                self.val(ins.v), self.val(ins.v), self.retdummy()))
        else:
            raise Unsupported('emit ' + op)

    def agg_path(self, ty, idx):
        s = ''
        for ix in idx:
            r = resolve(self.mod, ty)
            if r.kind == 'struct':
                s += '.f%d' % ix
                ty = r.fields[ix]
            else:
                s += '.a[%d]' % ix
                ty = r.el
        return s

    def bin_expr(self, ins):
        a, b = self.val(ins.a), self.val(ins.b)
        ty = ins.ty
        T = self.cty(ty)
        o = ins.bop
        if ty.kind == 'float':
            c = {'fadd': '+', 'fsub': '-', 'fmul': '*', 'fdiv': '/'}.get(o)
            if c is None:
                raise Unsupported('float op ' + o)
            return '(%s %s %s)' % (a, c, b)
        if ty.kind != 'int':
            raise Unsupported('binary op on ' + ty.kind)
        bits = ty.bits
        if bits == 1:
            c = {'add': '^', 'sub': '^', 'xor': '^', 'and': '&', 'or': '|', 'mul': '&'}.get(o)
            if c is None:
                raise Unsupported('i1 op ' + o)
            return '((_Bool)((%s %s %s) & 1))' % (a, c, b)
        W = self.ity(max(bits, 32) if bits <= 64 else bits) if bits in STD_BITS else T
        if o == 'sub' and bits == 64 and getattr(self, 'ptrtoint_src', None) and isinstance(ins.a, Local) \
                and isinstance(ins.b, Local) and ins.a.name in self.ptrtoint_src and ins.b.name in self.ptrtoint_src:
            pa = '(uint8_t*)' + self.val(self.ptrtoint_src[ins.a.name])
            pb = '(uint8_t*)' + self.val(self.ptrtoint_src[ins.b.name])
            # equal pointers (incl. NULL - NULL of an empty container, which CBMC does not fold either) -> 0
            return '((uint64_t)((%s == %s) ? (int64_t)0 : (int64_t)(%s - %s)))' % (pa, pb, pa, pb)
        if o in ('add', 'sub', 'mul', 'and', 'or', 'xor'):
            c = {'add': '+', 'sub': '-', 'mul': '*', 'and': '&', 'or': '|', 'xor': '^'}[o]
            return '((%s)((%s)%s %s (%s)%s))' % (T, W, a, c, W, b)
        if o in ('udiv', 'urem'):
            c = '/' if o == 'udiv' else '%'
            return '((%s)((%s)%s %s (%s)%s))' % (T, W, a, c, W, b)
        if o in ('sdiv', 'srem'):
            c = '/' if o == 'sdiv' else '%'
            return '((%s)(%s %s %s))' % (T, self.sv(ins.a), c, self.sv(ins.b))
        if o == 'shl':
            return '((%s)((%s)%s << (%s)%s))' % (T, W, a, W, b)
        if o == 'lshr':
            return '((%s)((%s)%s >> (%s)%s))' % (T, W, a, W, b)
        if o == 'ashr':
            return '((%s)(%s >> (%s)%s))' % (T, self.sv(ins.a), W, b)
        raise Unsupported('bin ' + o)

    def cast_expr(self, ins):
        a = ins.a
        c = ins.cop
        T = self.cty(ins.ty)
        if c in ('bitcast', 'addrspacecast'):
            if a.ty.kind == 'ptr' and ins.ty.kind == 'ptr':
                return '((%s)%s)' % (T, self.val(a))
            if a.ty.kind == ins.ty.kind:
                return self.val(a)
            # int <-> float of equal size
            return 'VF_PUN(%s, %s, %s)' % (T, self.cty(a.ty), self.val(a))
        if c == 'trunc':
            if ins.ty.bits == 1:
                return '((_Bool)(%s & 1))' % self.val(a)
            return '((%s)%s)' % (T, self.val(a))
        if c == 'zext':
            return '((%s)%s)' % (T, self.val(a))
        if c == 'sext':
            if a.ty.bits == 1:
                return '((%s)(%s ? -1 : 0))' % (T, self.val(a))
            return '((%s)(%s)%s)' % (T, self.ity(ins.ty.bits, True), self.sv(a))
        if c == 'ptrtoint':
            return '((%s)(uint64_t)%s)' % (T, self.val(a))
        if c == 'inttoptr':
            if isinstance(a, Local) and a.name in getattr(self, 'untag_and', ()):
                return '((%s)vf_untag((uint64_t)%s))' % (T, self.val(a))
            return '((%s)(uint64_t)%s)' % (T, self.val(a))
        if c in ('sitofp',):
            return '((%s)%s)' % (T, self.sv(a))
        if c in ('uitofp', 'fpext', 'fptrunc'):
            return '((%s)%s)' % (T, self.val(a))
        if c == 'fptosi':
            return '((%s)(%s)%s)' % (T, self.ity(ins.ty.bits, True), self.val(a))
        if c == 'fptoui':
            return '((%s)%s)' % (T, self.val(a))
        raise Unsupported('cast ' + c)

    def fcmp_expr(self, ins):
        a, b = self.val(ins.a), self.val(ins.b)
        p = ins.pred
        base = {'eq': '==', 'ne': '!=', 'lt': '<', 'le': '<=', 'gt': '>', 'ge': '>='}
        if p == 'true':
            return '1'
        if p == 'false':
            return '0'
        if p == 'ord':
            return '(%s == %s && %s == %s)' % (a, a, b, b)
        if p == 'uno':
            return '(%s != %s || %s != %s)' % (a, a, b, b)
        if p[0] == 'o':
            if p[1:] == 'ne':
                return '(%s == %s && %s == %s && %s != %s)' % (a, a, b, b, a, b)
            return '(%s %s %s)' % (a, base[p[1:]], b)
        if p[0] == 'u':
            if p[1:] == 'ne':
                return '(%s != %s)' % (a, b)
            return '(!(%s == %s && %s == %s) || %s %s %s)' % (a, a, b, b, a, base[p[1:]], b)
        raise Unsupported('fcmp ' + p)

    # ------------------------------------------------------------------ calls
    def emit_call(self, ins, b, w):
        r = self.lname(ins.res) if ins.res is not None and ins.ty.kind != 'void' else None
        callee = ins.callee
        post = ''
        if ins.op == 'invoke':
            post_normal = self.edge(b.name, ins.normal)
            post_unw = self.edge(b.name, ins.unwind)

        def finish(may_abort):
            if ins.op == 'invoke':
                if may_abort:
                    w('  if (vf_unw == 2) %s else if (vf_unw) { %s } else %s' % (
                        post_unw, self.retdummy(), post_normal))
                else:
                    w('  ' + post_normal)
            elif may_abort:
                w('  if (vf_unw) { %s }' % self.retdummy())

        if isinstance(callee, InlineAsm):
            self.emit_asm(ins, callee, r, w)
            finish(False)
            return
        if isinstance(callee, GlobalRef):
            name = callee.name
            if name in self.mod.aliases and isinstance(self.mod.aliases[name], GlobalRef):
                name = self.mod.aliases[name].name
            if name.startswith('llvm.'):
                self.emit_intrinsic(ins, name, r, w)
                finish(False)
                return
            if name.startswith('vf_') and self.emit_vf(ins, name, r, w):
                finish(name in self.may_abort)
                return
            if name == 'syscall':
                args = ['(uint64_t)%s' % self.val(a) for a in ins.args]
                while len(args) < 7:
                    args.append('0')
                y = self.seq_yield(w) if self.cur_root is not None else None
                w('  %svf_syscall(%s);' % ((r + ' = ') if r else '', ', '.join(args)))
                if self.seq:
                    if y is not None:
                        self.seq_block_check(w, y)
                    else:
                        w('  VF_NOBLOCK();')
                    finish(False)
                else:
                    finish(True)
                return
            f = self.mod.funcs.get(name)
            if f is None:
                raise Unsupported('call to unknown @' + name)
            icpt = self.opts.get('intercept') or {}
            if name in icpt:
                # a defined function replaced by a runtime contract model (listed in the evidence)
                self.externals.add(name)
                args = [self.rt_arg(a, self.val(a)) for a in ins.args]
                rtn = icpt[name]
                if r and rtn == 'vf_aligned_malloc':
                    T = self.alloc_elem_type(ins)
                    if T is not None and 'VF_ADDR_AWARE' not in self.opts.get('rt_defs', {}):
                        w('  %s = (%s)VF_MALLOC_T(%s, %s);' % (r, self.cty(ins.ty), T, args[0]))
                        finish(False)
                        return
                call = '%s(%s)' % (rtn, ', '.join(args))
                if r:
                    call = '(%s)%s' % (self.cty(ins.ty), call) if ins.ty.kind in ('ptr', 'int') else call
                w('  %s%s;' % ((r + ' = ') if r else '', call))
                finish(False)
                return
            self.note_func_use(name)
            if f.is_decl and name not in RT_FUNCS and not name.startswith('vf_'):
                self.unknown_externals.add(name)
            args = []
            for i, a in enumerate(ins.args):
                e = self.val(a)
                if i < len(f.params) and f.is_decl and name in RT_FUNCS:
                    e = self.rt_arg(a, e)
                args.append(e)
            call = '%s(%s)' % (self.fname(name), ', '.join(args))
            if r and f.is_decl and name in RT_FUNCS:
                call = '(%s)%s' % (self.cty(ins.ty), call) if ins.ty.kind in ('ptr', 'int') else call
            if r and self.fname(name) in ('vf_malloc', 'vf_malloc_nt', 'vf_aligned_malloc') and \
                    'VF_ADDR_AWARE' not in self.opts.get('rt_defs', {}):
                T = self.alloc_elem_type(ins)
                if T is not None:
                    size = args[0]
                    w('  %s = (%s)VF_MALLOC_T(%s, %s);' % (r, self.cty(ins.ty), T, size))
                    finish(False)
                    return
            if self.seq and f.is_decl and name in SEQ_YIELDING:
                if self.cur_root is not None:
                    self.seq_yield(w, forced=True)
                w('  %s%s;' % ((r + ' = ') if r else '', call))
                finish(False)
                return
            if self.seq and f.is_decl and name in SEQ_BLOCKING:
                y = self.seq_yield(w) if self.cur_root is not None else None
                w('  %s%s;' % ((r + ' = ') if r else '', call))
                if y is not None:
                    self.seq_block_check(w, y)
                else:
                    w('  VF_NOBLOCK();')
                finish(name in self.may_abort)
                return
            w('  %s%s;' % ((r + ' = ') if r else '', call))
            finish(name in self.may_abort or self.fname(name) in NORETURN_RT and False)
            return
        # indirect
        if self.opts.get('devirt'):
            # opt-in (spec key 'devirt'): a virtual call (callee loaded from slot k of the object's vtable)
            # becomes an exact dispatch over the slot-k entries of the module's vtables
            cands = self.vcall_candidates(ins)
            if not cands:
                cands = self.fptr_candidates(ins)
            if cands is not None:
                fp = self.val(callee)
                if not cands:
                    w('  if (1) { __CPROVER_assert(0, "rt: indirect call, no function of this type has its address taken"); }')
                for i, cn in enumerate(cands):
                    cf = self.mod.funcs[cn]
                    cargs = ', '.join('(%s)%s' % (self.cty(p.ty), self.val(a)) for p, a in zip(cf.params, ins.args))
                    w('  %sif ((void*)%s == (void*)&%s) { %s%s(%s); }' % (
                        'else ' if i else '', fp, self.fname(cn), (r + ' = ') if r else '', self.fname(cn), cargs))
                if cands:
                    w('  else { __CPROVER_assert(0, "rt: indirect call target is not among the candidates (vtable slot entries / '
                      'address-taken functions of the same type)"); }')
                finish(self.any_abort)
                return
        args = ', '.join(self.val(a) for a in ins.args)
        fty = ins.fty or FuncTy(ins.ty, [a.ty for a in ins.args], False)
        w('  %s((%s)%s)(%s);' % ((r + ' = ') if r else '', self.fptr_name(fty), self.val(callee), args))
        finish(self.any_abort)

    def vcall_candidates(self, ins):
        """virtual call `load(gep(load vptr, k))(this, ...)`: defined functions found at slot k (address point 2,
        Itanium ABI) of the module's vtables whose arity matches and whose `this` class has the call's static class as
        leading base; None when the call does not have that shape"""
        f = self.cur
        defs = getattr(f, '_vf_defs', None)
        if defs is None:
            defs = {}
            for b in f.blocks:
                for i in b.instrs:
                    if i.res is not None:
                        defs[i.res] = i
            f._vf_defs = defs

        def d(v):
            return defs.get(v.name) if isinstance(v, Local) else None
        ld = d(ins.callee)
        if ld is None or ld.op != 'load' or ld.atomic:
            return None
        p = d(ld.ptr)
        k = 0
        if p is not None and p.op == 'gep' and len(p.idx) == 1 and isinstance(p.idx[0], ConstInt):
            k = p.idx[0].v
            p = d(p.base)
        if p is None or p.op != 'load' or k < 0:
            return None
        t = p.ty
        if not (t.kind == 'ptr' and t.to.kind == 'ptr' and resolve(self.mod, t.to.to).kind == 'func'):
            return None
        if not ins.args or ins.args[0].ty.kind != 'ptr':
            return None
        base = ins.args[0].ty.to

        def derives(t0, anc):
            for _ in range(8):
                if t0 == anc:
                    return True
                r0 = resolve(self.mod, t0)
                if r0.kind != 'struct' or not r0.fields:
                    return False
                t0 = r0.fields[0]
            return False
        out = []
        for gn, g in self.mod.globals.items():
            if not gn.startswith('_ZTV') or not isinstance(g.init, ConstAgg):
                continue
            for arr in g.init.elems:
                if not isinstance(arr, ConstAgg) or len(arr.elems) <= 2 + k:
                    continue
                e = arr.elems[2 + k]
                while isinstance(e, ConstExpr) and e.op == 'bitcast':
                    e = e.args[0]
                if not isinstance(e, GlobalRef) or e.name not in self.mod.funcs:
                    continue
                cf = self.mod.funcs[e.name]
                if cf.is_decl or len(cf.params) != len(ins.args) or cf.vararg:
                    continue
                if cf.params[0].ty.kind != 'ptr' or not (derives(cf.params[0].ty.to, base) or derives(base, cf.params[0].ty.to)):
                    continue
                if e.name not in out:
                    out.append(e.name)
        return out or None

    def fptr_candidates(self, ins):
        """plain indirect call: defined functions of exactly the call's LLVM function type whose address is taken
        somewhere in the module (instruction operand other than a callee, or a global initialiser)"""
        taken = getattr(self.mod, '_vf_addr_taken', None)
        if taken is None:
            taken = set()

            def scan(v):
                if isinstance(v, GlobalRef):
                    n = v.name
                    if n in self.mod.aliases and isinstance(self.mod.aliases[n], GlobalRef):
                        n = self.mod.aliases[n].name
                    if n in self.mod.funcs:
                        taken.add(n)
                elif isinstance(v, ConstExpr):
                    for a in v.args:
                        scan(a)
                elif isinstance(v, ConstAgg):
                    for a in v.elems:
                        scan(a)
            for g in self.mod.globals.values():
                if g.init is not None:
                    scan(g.init)
            for fn in self.mod.funcs.values():
                for b in fn.blocks:
                    for i in b.instrs:
                        for k, v in i.__dict__.items():
                            if k in ('a', 'b', 'c', 'v', 'ptr', 'cmp', 'new', 'base', 'agg') and v is not None:
                                scan(v)
                            elif k == 'args':
                                for x in v:
                                    scan(x)
                            elif k == 'inc':
                                for x, _ in v:
                                    scan(x)
            self.mod._vf_addr_taken = taken
        fty = ins.fty or FuncTy(ins.ty, [a.ty for a in ins.args], False)
        if fty.kind == 'ptr':
            fty = fty.to
        out = []
        for n in sorted(taken):
            cf = self.mod.funcs[n]
            if not cf.is_decl and cf.fty == fty:
                out.append(n)
        return out

    def alloc_elem_type(self, ins):
        """C type of the elements an allocation is used as (from the first bitcast of its result)"""
        to = self.first_cast.get(ins.res)
        if to is None:
            return None
        r = resolve(self.mod, to)
        if r.kind == 'int' and r.bits == 8:
            return None
        if r.kind in ('func', 'void', 'label', 'metadata'):
            return None
        if r.kind == 'named' or (to.kind == 'named' and self.mod.types.get(to.name) is None):
            return None
        try:
            if self.sizeof(to) == 0:
                return None
            return self.cty(to)
        except Exception:
            return None

    def guard_word(self, ptr):
        """opt-in (rt_defs VF_TYPED_SINGLETON): first-byte access to an i64 static-init guard variable
        (_ZGV..., -fno-threadsafe-statics) is emitted as full-width arithmetic on the global, so that CBMC's
        constant propagation sees `initialised` (byte_update on the word is not propagated)"""
        if 'VF_TYPED_SINGLETON' not in (self.opts.get('rt_defs') or {}):
            return None
        if isinstance(ptr, ConstExpr) and ptr.op == 'bitcast' and isinstance(ptr.args[0], GlobalRef):
            n = ptr.args[0].name
            g = self.mod.globals.get(n)
            if g is not None and n.startswith('_ZGV') and not g.tls and g.ty.kind == 'int' and g.ty.bits == 64 \
                    and ptr.ty.kind == 'ptr' and ptr.ty.to.kind == 'int' and ptr.ty.to.bits == 8:
                return self.gname(n)
        return None

    def rt_arg(self, a, e):
        if a.ty.kind == 'ptr':
            return '(void*)' + e
        return e

    def emit_vf(self, ins, name, r, w):
        a = ins.args
        if name == 'vf_check' or name == 'vf_reach':
            label = self.string_of(a[-1])
            if name == 'vf_check':
                w('  VF_CHECK(%s, "%s");' % (self.val(a[0]), label))
            else:
                w('  VF_REACH("%s");' % label)
            return True
        if name == 'vf_atomic_begin':
            w('  vf_in_ghost++;' if self.seq else '  __CPROVER_atomic_begin();')
            return True
        if name == 'vf_atomic_end':
            w('  vf_in_ghost--;' if self.seq else '  __CPROVER_atomic_end();')
            return True
        if name == 'vf_sched_point':
            # harness-level scheduling point (e.g. inside a ghost critical section)
            if self.seq:
                if self.cur_root is not None:
                    self.seq_yield(w)
                w('  VF_VIS(vf_tid);')
            return True
        if name == 'vf_join_all' and self.seq:
            y = self.seq_yield(w) if self.cur_root is not None else None
            w('  vf_join_all();')
            if y is not None:
                self.seq_block_check(w, y)
            else:
                w('  VF_NOBLOCK();')
            return True
        if name == 'vf_assume':
            w('  __CPROVER_assume(%s);' % self.val(a[0]))
            return True
        if name == 'vf_spawn':
            fn = a[0]
            arg = self.val(a[1])
            base = fn
            while isinstance(base, ConstExpr):
                base = base.args[0]
            if not isinstance(base, GlobalRef) or base.name not in self.mod.funcs:
                raise Unsupported('vf_spawn needs a constant function')
            self.note_func_use(base.name)
            if self.seq:
                k = self.spawn_k.get(id(ins))
                if k is None:
                    raise Unsupported('vf_spawn outside vf_main (seq mode)')
                w('  __CPROVER_assert(!vf_spawned[%d], "rt: spawn site executed twice"); '
                  'vf_thr_arg[%d] = (uint64_t)%s; vf_spawned[%d] = 1; VF_RACE_SPAWN(%d);' % (k, k, arg, k, k))
                return True
            k = len(self.spawns) + 1
            self.spawns.append((k, base.name))
            w('  __CPROVER_assert(!vf_spawned[%d], "rt: spawn site executed twice"); '
              'vf_thr_arg[%d] = (uint64_t)%s; vf_spawned[%d] = 1;' % (k, k, arg, k))
            w('  __CPROVER_ASYNC_%d: vf_te_%d();' % (k, k))
            return True
        return False

    def string_of(self, v):
        base = v
        while isinstance(base, ConstExpr):
            base = base.args[0]
        if isinstance(base, GlobalRef) and base.name in self.mod.globals:
            g = self.mod.globals[base.name]
            if isinstance(g.init, ConstStr):
                s = g.init.data.split(b'\0')[0].decode('latin1')
                return re.sub(r'[^ -~]|["\\]', '_', s)
        return 'label?'

    def emit_asm(self, ins, asm, r, w):
        t = asm.text.strip()
        if t in ('pause', 'yield', '', 'rep; nop', 'rep nop'):
            if self.cur_root is not None and t:
                self.seq_yield(w, forced=True)
            else:
                w('  VF_PAUSE();')
            return
        m = re.fullmatch(r'bsr([ql])?\s+\$1,\s*\$0', t)
        if m and r:
            a = self.val(ins.args[0])
            bits = ins.args[0].ty.bits
            w('  %s = (%s)vf_bsr%d(%s);' % (r, self.cty(ins.ty), bits, a))
            return
        m = re.fullmatch(r'bsf([ql])?\s+\$1,\s*\$0', t)
        if m and r:
            a = self.val(ins.args[0])
            bits = ins.args[0].ty.bits
            w('  %s = (%s)vf_bsf%d(%s);' % (r, self.cty(ins.ty), bits, a))
            return
        raise Unsupported('inline asm %r' % t)

    def emit_intrinsic(self, ins, name, r, w):
        a = ins.args
        base = name.split('.')[1]
        if base in ('lifetime', 'dbg', 'experimental', 'prefetch', 'stacksave', 'stackrestore',
                    'invariant', 'var', 'donothing', 'assume', 'sideeffect'):
            if base == 'stacksave' and r:
                w('  %s = 0;' % r)
            return
        if base in ('memcpy', 'memmove'):
            w('  vf_%s((void*)%s, (const void*)%s, (uint64_t)%s);' % (
                base, self.val(a[0]), self.val(a[1]), self.val(a[2])))
            return
        if base == 'memset':
            w('  vf_memset((void*)%s, %s, (uint64_t)%s);' % (self.val(a[0]), self.val(a[1]), self.val(a[2])))
            return
        if base == 'expect':
            w('  %s = %s;' % (r, self.val(a[0])))
            return
        if base in ('ctlz', 'cttz', 'ctpop'):
            bits = a[0].ty.bits
            w('  %s = (%s)vf_%s%d(%s);' % (r, self.cty(ins.ty), base, bits, self.val(a[0])))
            return
        if base in ('umax', 'umin', 'smax', 'smin'):
            x, y = (self.sv(a[0]), self.sv(a[1])) if base[0] == 's' else (self.val(a[0]), self.val(a[1]))
            o = '>' if base.endswith('max') else '<'
            w('  %s = (%s %s %s) ? %s : %s;' % (r, x, o, y, self.val(a[0]), self.val(a[1])))
            return
        if base == 'abs':
            w('  %s = (%s < 0) ? (%s)(0 - %s) : %s;' % (r, self.sv(a[0]), self.cty(ins.ty), self.val(a[0]), self.val(a[0])))
            return
        if base in ('uadd', 'usub', 'umul', 'sadd', 'ssub', 'smul') and 'with.overflow' in name:
            bits = a[0].ty.bits
            T = self.ity(bits)
            o = {'add': '+', 'sub': '-', 'mul': '*'}[base[1:]]
            if bits > 64:
                raise Unsupported('wide overflow intrinsic')
            if base[0] == 'u':
                w('  { vf_u128 t_ = (vf_u128)%s %s (vf_u128)%s; %s.f0 = (%s)t_; %s.f1 = (t_ != (vf_u128)(%s)t_); }'
                  % (self.val(a[0]), o, self.val(a[1]), r, T, r, T))
            else:
                S = self.ity(bits, True)
                w('  { vf_s128 t_ = (vf_s128)%s %s (vf_s128)%s; %s.f0 = (%s)t_; %s.f1 = (t_ != (vf_s128)(%s)t_); }'
                  % (self.sv(a[0]), o, self.sv(a[1]), r, T, r, S))
            return
        if base in ('uadd', 'usub') and 'sat' in name:
            T = self.cty(ins.ty)
            if base == 'uadd':
                w('  %s = ((%s)(%s + %s) < %s) ? (%s)~(%s)0 : (%s)(%s + %s);' % (
                    r, T, self.val(a[0]), self.val(a[1]), self.val(a[0]), T, T, T, self.val(a[0]), self.val(a[1])))
            else:
                w('  %s = (%s < %s) ? (%s)0 : (%s)(%s - %s);' % (
                    r, self.val(a[0]), self.val(a[1]), T, T, self.val(a[0]), self.val(a[1])))
            return
        if base == 'bswap':
            bits = a[0].ty.bits
            w('  %s = vf_bswap%d(%s);' % (r, bits, self.val(a[0])))
            return
        if base in ('fshl', 'fshr'):
            bits = a[0].ty.bits
            w('  %s = vf_%s%d(%s, %s, %s);' % (r, base, bits, self.val(a[0]), self.val(a[1]), self.val(a[2])))
            return
        if base == 'trap':
            w('  vf_abort();')
            return
        if base == 'is' and 'constant' in name:
            w('  %s = 0;' % r)
            return
        if base == 'objectsize':
            w('  %s = (%s)-1;' % (r, self.cty(ins.ty)))
            return
        if base in ('launder', 'strip', 'ptr', 'ssa', 'threadlocal'):
            w('  %s = %s;' % (r, self.val(a[0])))
            return
        if base in ('fabs', 'sqrt', 'floor', 'ceil', 'trunc', 'round', 'fmuladd', 'maxnum',
                    'minnum', 'copysign'):
            args = ', '.join(self.val(x) for x in a)
            w('  %s = vf_%s(%s);' % (r, base, args))
            return
        if base == 'eh' and 'typeid' in name:
            w('  %s = 1;' % r)
            return
        raise Unsupported('intrinsic ' + name)

    # ------------------------------------------------------------------ module
    def reachable(self, roots):
        seen = set()
        work = [r for r in roots if r in self.mod.funcs]
        gseen = set()

        def scan_val(v):
            if isinstance(v, GlobalRef):
                n = v.name
                if n in self.mod.aliases:
                    scan_val(self.mod.aliases[n])
                elif n in self.mod.funcs:
                    if n not in seen and not THREAD_RUN_RE.match(n):
                        work.append(n)
                elif n in self.mod.globals and n not in gseen:
                    gseen.add(n)
                    g = self.mod.globals[n]
                    if g.init is not None:
                        scan_val(g.init)
            elif isinstance(v, ConstExpr):
                for a in v.args:
                    scan_val(a)
            elif isinstance(v, ConstAgg):
                for a in v.elems:
                    scan_val(a)

        while work:
            n = work.pop()
            if n in seen:
                continue
            seen.add(n)
            f = self.mod.funcs[n]
            for b in f.blocks:
                for ins in b.instrs:
                    for k, v in ins.__dict__.items():
                        if k in ('a', 'b', 'c', 'v', 'ptr', 'cmp', 'new', 'base', 'agg', 'callee', 'cnt'):
                            if v is not None:
                                scan_val(v)
                        elif k in ('args', 'idx'):
                            for x in v:
                                if not isinstance(x, int):
                                    scan_val(x)
                        elif k == 'inc':
                            for x, _ in v:
                                scan_val(x)
                        elif k == 'cases':
                            for x, _ in v:
                                scan_val(x)
        return seen, gseen

    def emit_module(self, roots):
        mod = self.mod
        # compiler-generated helpers that are *defined* in the IR but have a runtime model (the model wins)
        # (std::exception_ptr members are inline in libstdc++ and get emitted out of line under -fno-inline)
        for n in ('__clang_call_terminate',) + tuple(k for k in RT_FUNCS if k.startswith('_ZNSt15__exception_ptr13exception_ptr')):
            f0 = mod.funcs.get(n)
            if f0 is not None and not f0.is_decl and n in RT_FUNCS:
                f0.is_decl = True
                f0.blocks = []
        self.compute_may_abort()
        funcs, globs = self.reachable(roots)
        ctors = []
        if 'llvm.global_ctors' in mod.globals:
            g = mod.globals['llvm.global_ctors']
            if isinstance(g.init, ConstAgg):
                for e in g.init.elems:
                    fn = e.elems[1]
                    while isinstance(fn, ConstExpr):
                        fn = fn.args[0]
                    if isinstance(fn, GlobalRef):
                        ctors.append(fn.name)
                        f2, g2 = self.reachable([fn.name])
                        funcs |= f2
                        globs |= g2
        body = []
        protos = []
        order = [n for n in mod.funcs if n in funcs]
        root_names = set()
        if self.seq:
            # pre-scan: spawn sites (only in vf_main) and the functions they start
            self.seq_roots = [(0, 'vf_main')]
            root_names.add('vf_main')
            fm = mod.funcs.get('vf_main')
            for b in (fm.blocks if fm else []):
                for ins in b.instrs:
                    if ins.op in ('call', 'invoke') and isinstance(ins.callee, GlobalRef) \
                            and ins.callee.name == 'vf_spawn':
                        base = ins.args[0]
                        while isinstance(base, ConstExpr):
                            base = base.args[0]
                        if not isinstance(base, GlobalRef) or base.name not in mod.funcs:
                            raise Unsupported('vf_spawn needs a constant function')
                        k = len(self.seq_roots)
                        self.spawn_k[id(ins)] = k
                        self.seq_roots.append((k, base.name))
                        root_names.add(base.name)
        for n in order:
            f = mod.funcs[n]
            if n.startswith('llvm.') or n == 'syscall':
                continue
            if f.is_decl:
                continue
            protos.append(self.proto(f) + ';')
        for n in order:
            f = mod.funcs[n]
            if f.is_decl or n.startswith('llvm.'):
                continue
            if n == 'vf_main' and self.seq:
                continue
            body.extend(self.emit_function(f))
            body.append('')
        if self.seq:
            for k, n in self.seq_roots:
                protos.append('void vf_root_%d(void);' % k)
                body.extend(self.emit_function(mod.funcs[n], root_k=k))
                body.append('')
            body.append('void vf_first(void) { vf_tid = 0; vf_root_0(); }')
            body.append('void vf_main_slot(void) { if (vf_slot_begin(0)) { vf_tid = 0; vf_root_0(); } }')
            body.append('void vf_round(void) {')
            for k, n in self.seq_roots:
                body.append('  if (vf_slot_begin(%d)) { vf_tid = %d; vf_root_%d(); }' % (k, k, k))
            body.append('}')
            body.append('const int vf_nroots = %d;' % len(self.seq_roots))
        # externals that are neither runtime nor vf vocabulary: declare (cbmc: nondet result)
        for n in sorted(self.unknown_externals):
            f = mod.funcs[n]
            protos.append(self.proto(f) + '; /* UNKNOWN EXTERNAL */')
        # harness-specific vf_* helpers implemented in the runtime model: typed prototype
        for n in sorted(self.externals):
            if n.startswith('vf_') and n not in HEADER_VF and n in mod.funcs:
                protos.append(self.proto(mod.funcs[n]) + ';')
        gl = []
        gdecl = []
        for n, g in mod.globals.items():
            if n not in globs or n.startswith('llvm.'):
                continue
            T = self.cty(g.ty)
            tls = '__thread ' if g.tls else ''
            if self.seq and g.tls:
                # one instance per model thread, selected by vf_tid
                gdecl.append('extern %s %s[VF_NTHREADS];' % (T, self.gname(n)))
                if g.init is None or isinstance(g.init, (ConstZero, ConstUndef)):
                    gl.append('%s %s[VF_NTHREADS];' % (T, self.gname(n)))
                else:
                    one = self.init(g.init)
                    gl.append('%s %s[VF_NTHREADS] = { %s };' % (
                        T, self.gname(n), ', '.join([one] * int(self.opts.get('nthreads', 5)))))
                continue
            gdecl.append('%s%s %s;' % ('extern ' + tls if True else '', T, self.gname(n)))
            if g.init is None:
                gl.append('%s%s %s; /* external global, zero */' % (tls, T, self.gname(n)))
                self.externals.add('@' + n)
            elif isinstance(g.init, (ConstZero, ConstUndef)):
                gl.append('%s%s %s;' % (tls, T, self.gname(n)))
            else:
                gl.append('%s%s %s = %s;' % (tls, T, self.gname(n), self.init(g.init)))
        types = self.emit_types()
        wr = []
        for k, fn in self.spawns:
            f = mod.funcs[fn]
            pt = self.cty(f.params[0].ty) if f.params else None
            call = '%s((%s)vf_thr_arg[%d])' % (self.fname(fn), pt, k) if pt else '%s()' % self.fname(fn)
            protos.append('void vf_te_%d(void);' % k)
            wr.append('void vf_te_%d(void) { vf_tid = %d; %s; vf_thread_done(%d); }' % (k, k, call, k))
        body.extend(wr)
        ctor_fn = ['void vf_global_ctors(void) {'] + ['  %s();' % self.fname(c) for c in ctors] + ['}']
        return '\n'.join(['/* generated by vf/ir2c.py */', '#include "cbmc_rt.h"'] + types +
                         gdecl + protos + gl + [''] + body + ctor_fn) + '\n'


HEADER_VF = {'vf_race_write', 'vf_race_read', 'vf_sched_point', 'vf_nondet_u8', 'vf_nondet_u16', 'vf_nondet_u32', 'vf_nondet_u64', 'vf_nondet_bool',
             'vf_atomic_begin', 'vf_atomic_end', 'vf_self', 'vf_join_all', 'vf_any_stuck', 'vf_is_dead',
             'vf_note', 'vf_throw', 'vf_check', 'vf_assume', 'vf_reach', 'vf_spawn', 'vf_main'}
ORD = {'unordered': 'VF_RLX', 'monotonic': 'VF_RLX', 'acquire': 'VF_ACQ', 'release': 'VF_REL',
       'acq_rel': 'VF_AR', 'seq_cst': 'VF_SC'}
C_RESERVED = {'malloc', 'free', 'memcpy', 'memset', 'memmove', 'abort', 'exit', 'main', 'syscall',
              'strlen', 'strcmp', 'memcmp', 'printf', 'assert', 'calloc', 'realloc', 'signal',
              'read', 'write', 'open', 'close', 'time', 'clock', 'rand', 'div', 'abs', 'index',
              'select', 'sleep', 'usleep', 'pipe', 'link', 'remove', 'rename', 'y0', 'y1', 'j0', 'j1'}


def translate(mod, roots, opts=None):
    em = Emitter(mod, opts)
    src = em.emit_module(roots)
    return src, em
