"""E1: integer-mode SMT engine (z3, cvc5 cross-check in the thorough tier)."""
import os
import re
import json
import time
import shutil
from . import engine, llir, ir2smt, replay


def run_solver(script, solver, timeout):
    if solver == 'z3':
        cmd = ['z3', '-in', '-T:%d' % timeout]
    else:
        cmd = ['cvc5', '--incremental', '--lang=smt2', '--tlimit=%d' % (timeout * 1000)]
    import subprocess
    t = time.time()
    try:
        p = subprocess.run(cmd, input=script.encode(), stdout=subprocess.PIPE, stderr=subprocess.PIPE,
                           timeout=timeout + 10)
        out = p.stdout.decode()
    except subprocess.TimeoutExpired:
        out = 'timeout'
    return out, time.time() - t


def build_script(se, per_query_ms, with_models=()):
    """one incremental script: for each obligation (in program order of assumptions)
       (a) reachability of its path  (b) validity."""
    L = ['(set-option :produce-models true)', '(set-option :timeout %d)' % per_query_ms]
    if per_query_ms:
        pass
    for n, s in se.decls:
        L.append('(declare-const %s %s)' % (n, s))
    done = 0
    for i, o in enumerate(se.obls):
        while done < o.n_assumes:
            L.append('(assert %s)' % se.assumes[done])
            done += 1
        L.append('(echo "Q %d reach")' % i)
        L.append('(push 1)')
        L.append('(assert %s)' % o.path)
        L.append('(check-sat)')
        L.append('(pop 1)')
        L.append('(echo "Q %d valid")' % i)
        L.append('(push 1)')
        L.append('(assert (and %s (not %s)))' % (o.path, o.term))
        L.append('(check-sat)')
        if i in with_models and se.inputs:
            L.append('(get-value (%s))' % ' '.join(n for n, _, _ in se.inputs))
        L.append('(pop 1)')
    # final: all assumptions satisfiable + reach markers
    while done < len(se.assumes):
        L.append('(assert %s)' % se.assumes[done])
        done += 1
    L.append('(echo "Q -1 reach")')
    L.append('(check-sat)')
    for j, (lab, pc) in enumerate(se.reach):
        L.append('(echo "R %d reach")' % j)
        L.append('(push 1)')
        L.append('(assert %s)' % pc)
        L.append('(check-sat)')
        L.append('(pop 1)')
    return '\n'.join(L) + '\n'


def parse_out(out):
    res = {}
    cur = None
    models = {}
    for ln in out.split('\n'):
        ln = ln.strip()
        m = re.match(r'"?([QR]) (-?\d+) (reach|valid)"?', ln)
        if m:
            cur = (m.group(1), int(m.group(2)), m.group(3))
            continue
        if ln in ('sat', 'unsat', 'unknown', 'timeout') and cur:
            res[cur] = ln
            continue
        if ln.startswith('(error'):
            res[('E', len(res), 'error')] = ln
            continue
        if cur and ln.startswith('((') or (cur in models and ln.startswith('(')):
            models.setdefault(cur, '')
            models[cur] += ' ' + ln
    return res, models


def parse_model(text):
    vals = {}
    for m in re.finditer(r'\((in_\d+) (\(- (\d+)\)|(\d+))\)', text):
        vals[m.group(1)] = -int(m.group(3)) if m.group(3) else int(m.group(4))
    return vals


def run_instance(inst, tier):
    wd = os.path.join(engine.WORK, inst['pid'], inst['name'] + '-' + tier)
    if os.path.isdir(wd):
        shutil.rmtree(wd)
    os.makedirs(wd)
    rec = {'instance': inst['name'], 'engine': 'smt-int(z3)', 'defs': inst.get('defs', {}),
           'bounds': inst.get('bounds', ''), 'unwind': 0}
    try:
        ll = engine.lift(inst, wd)
        mod = llir.load(ll)
        se = ir2smt.encode(mod, 'vf_main')
    except engine.Inconclusive as e:
        rec['status'] = 'inconclusive'
        rec['reason'] = str(e)
        return rec
    except llir.Unsupported as e:
        rec['status'] = 'inconclusive'
        rec['reason'] = 'translator: ' + str(e)
        return rec
    funcs = [n for n, f in mod.funcs.items() if not f.is_decl]
    rec['functions'] = funcs
    rec['ir_instrs'] = sum(len(b.instrs) for n in funcs for b in mod.funcs[n].blocks)
    rec['atomic_sites'] = 0
    per_q = inst.get('query_timeout_ms', 60000)
    script = build_script(se, per_q)
    open(os.path.join(wd, 'q.smt2'), 'w').write(script)
    out, t = run_solver(script, 'z3', inst.get('timeout', 600))
    res, _ = parse_out(out)
    rec['solver_time_s'] = round(t, 2)
    rec['cmd'] = 'z3 -in < %s' % os.path.join(wd, 'q.smt2')
    errs = [v for k, v in res.items() if k[0] == 'E']
    if errs or out == 'timeout':
        rec['status'] = 'inconclusive'
        rec['reason'] = 'solver: ' + (errs[0] if errs else 'timeout')
        return rec
    fails = []
    unknown = []
    vac = []
    nq = 0
    by = {}
    for i, o in enumerate(se.obls):
        r = res.get(('Q', i, 'reach'))
        v = res.get(('Q', i, 'valid'))
        nq += 2
        d = by.setdefault(o.kind, {'total': 0, 'failed': 0})
        d['total'] += 1
        if r != 'sat':
            (vac if r == 'unsat' else unknown).append(o.label)
        if v == 'sat':
            fails.append(i)
            d['failed'] += 1
        elif v != 'unsat':
            unknown.append(o.label)
    allsat = res.get(('Q', -1, 'reach'))
    rec['witness'] = {'status': 'done', 'markers': len(se.obls) + 1 + len(se.reach),
                      'reached': sum(1 for i in range(len(se.obls)) if res.get(('Q', i, 'reach')) == 'sat') +
                      (1 if allsat == 'sat' else 0), 'time_s': rec['solver_time_s']}
    rec['queries'] = nq + 1
    rec['by_class'] = by
    rec['sample'] = {'example_obligations': [o.label for o in se.obls if o.kind == 'check'][:6]}
    if allsat != 'sat':
        rec['status'] = 'inconclusive'
        rec['reason'] = 'vacuous: assumptions unsatisfiable or unknown (%s)' % allsat
        return rec
    must_reach = [lab for j, (lab, pc) in enumerate(se.reach) if res.get(('R', j, 'reach')) != 'sat']
    if must_reach:
        rec['status'] = 'inconclusive'
        rec['reason'] = 'vacuous: reach markers not reachable: %s' % must_reach
        return rec
    if unknown:
        # Integer-mode z3 proves validity quickly but is poor at *finding* NIA models.  Search for a
        # concrete counterexample with the bit-precise engine under a small value bound.
        fb = inst.get('cex_fallback')
        if fb:
            i2 = dict(inst)
            i2['engine'] = 'cbmc'
            i2['name'] = inst['name'] + '-cex'
            i2['defs'] = dict(inst.get('defs', {}), **fb.get('defs', {}))
            for k, v in fb.items():
                if k != 'defs':
                    i2[k] = v
            r2 = engine.run_instance(i2, tier)
            if r2['status'] == 'violated':
                r2['instance'] = inst['name']
                r2['engine'] = 'smt-int(z3) unknown -> cbmc bounded counterexample search'
                r2['cex_inst'] = i2
                return r2
        rec['status'] = 'inconclusive'
        rec['reason'] = 'solver answered unknown for: %s' % unknown[:4]
        return rec
    # vacuous obligations that are checks are suspicious unless the harness allows them
    vchecks = [l for l in vac if l.startswith('check: ')]
    if vchecks and not inst.get('allow_unreachable_checks'):
        rec['status'] = 'inconclusive'
        rec['reason'] = 'vacuous: obligations never reached: %s' % vchecks[:4]
        return rec
    rec['failures'] = []
    if fails:
        script2 = build_script(se, per_q, with_models=set(fails))
        out2, t2 = run_solver(script2, 'z3', inst.get('timeout', 600))
        res2, models = parse_out(out2)
        for i in fails:
            o = se.obls[i]
            mv = parse_model(models.get(('Q', i, 'valid'), ''))
            inputs = []
            for n, bits, pc in se.inputs:
                v = mv.get(n, 0)
                inputs.append(v & ((1 << bits) - 1))
            rec['failures'].append({'class': o.kind, 'description': o.label, 'property': 'smt.%d' % i,
                                    'inputs': inputs, 'schedule': [], 'location': ''})
    if tier == 'thorough' and not fails and inst.get('cross_check', True):
        out3, t3 = run_solver(script, 'cvc5', inst.get('timeout', 600))
        res3, _ = parse_out(out3)
        dis = [se.obls[i].label for i in range(len(se.obls))
               if res3.get(('Q', i, 'valid')) == 'sat']
        rec['cross_check'] = {'solver': 'cvc5', 'time_s': round(t3, 1), 'disagreements': dis,
                              'decided': sum(1 for i in range(len(se.obls)) if res3.get(('Q', i, 'valid')) == 'unsat')}
        if dis:
            rec['status'] = 'inconclusive'
            rec['reason'] = 'solvers disagree on: %s' % dis[:3]
            return rec
    rec['status'] = 'violated' if fails else 'holds'
    return rec


def replay_failure(inst, wd, failure, out_path):
    return replay.replay_failure(inst, None, wd, failure, out_path)
