"""Parser for the textual LLVM-14 IR subset that clang emits for the dispenso harnesses.

Typed pointers (LLVM 14 default) are relied upon: every value has a full type, so the C back end
can stay type preserving.  Anything the parser does not understand raises Unsupported, which the
check reports as INCONCLUSIVE (never as success).
"""
import re


class Unsupported(Exception):
    pass


# ----------------------------------------------------------------------------- types
class Ty:
    kind = '?'

    def __eq__(self, o):
        return isinstance(o, Ty) and self.key() == o.key()

    def __hash__(self):
        return hash(self.key())

    def __repr__(self):
        return self.key()


class VoidTy(Ty):
    kind = 'void'

    def key(self):
        return 'void'


class IntTy(Ty):
    kind = 'int'

    def __init__(self, bits):
        self.bits = bits

    def key(self):
        return 'i%d' % self.bits


class FloatTy(Ty):
    kind = 'float'

    def __init__(self, name):
        self.name = name

    def key(self):
        return self.name


class PtrTy(Ty):
    kind = 'ptr'

    def __init__(self, to):
        self.to = to

    def key(self):
        return self.to.key() + '*'


class ArrTy(Ty):
    kind = 'arr'

    def __init__(self, n, el):
        self.n = n
        self.el = el

    def key(self):
        return '[%d x %s]' % (self.n, self.el.key())


class VecTy(Ty):
    kind = 'vec'

    def __init__(self, n, el):
        self.n = n
        self.el = el

    def key(self):
        return '<%d x %s>' % (self.n, self.el.key())


class StructTy(Ty):
    """Literal struct type."""
    kind = 'struct'

    def __init__(self, fields, packed=False):
        self.fields = fields
        self.packed = packed

    def key(self):
        s = '{' + ','.join(f.key() for f in self.fields) + '}'
        return '<' + s + '>' if self.packed else s


class NamedTy(Ty):
    kind = 'named'

    def __init__(self, name):
        self.name = name

    def key(self):
        return '%' + self.name


class FuncTy(Ty):
    kind = 'func'

    def __init__(self, ret, params, vararg):
        self.ret = ret
        self.params = params
        self.vararg = vararg

    def key(self):
        return '%s(%s%s)' % (self.ret.key(), ','.join(p.key() for p in self.params),
                             ',...' if self.vararg else '')


class LabelTy(Ty):
    kind = 'label'

    def key(self):
        return 'label'


class MetaTy(Ty):
    kind = 'metadata'

    def key(self):
        return 'metadata'


# ----------------------------------------------------------------------------- values
class Val:
    pass


class Local(Val):
    def __init__(self, name, ty):
        self.name = name
        self.ty = ty

    def __repr__(self):
        return '%' + self.name


class GlobalRef(Val):
    def __init__(self, name, ty=None):
        self.name = name
        self.ty = ty  # pointer type, filled on resolution

    def __repr__(self):
        return '@' + self.name


class ConstInt(Val):
    def __init__(self, v, ty):
        self.v = v
        self.ty = ty

    def __repr__(self):
        return str(self.v)


class ConstFP(Val):
    def __init__(self, text, ty):
        self.text = text
        self.ty = ty


class ConstNull(Val):
    def __init__(self, ty):
        self.ty = ty


class ConstUndef(Val):
    def __init__(self, ty):
        self.ty = ty


class ConstZero(Val):
    def __init__(self, ty):
        self.ty = ty


class ConstAgg(Val):
    def __init__(self, elems, ty):
        self.elems = elems
        self.ty = ty


class ConstStr(Val):
    def __init__(self, data, ty):
        self.data = data  # bytes
        self.ty = ty


class ConstExpr(Val):
    def __init__(self, op, args, ty, extra=None):
        self.op = op
        self.args = args
        self.ty = ty
        self.extra = extra or {}


class MetaVal(Val):
    def __init__(self, text):
        self.text = text
        self.ty = MetaTy()


class InlineAsm(Val):
    def __init__(self, text, cons):
        self.text = text
        self.cons = cons
        self.ty = None


# ----------------------------------------------------------------------------- containers
class Instr:
    def __init__(self, op, res=None, ty=None, **kw):
        self.op = op
        self.res = res  # result local name or None
        self.ty = ty  # result type
        self.__dict__.update(kw)

    def __repr__(self):
        return '<%s %s>' % (self.op, self.res)


class Block:
    def __init__(self, name):
        self.name = name
        self.instrs = []


class Function:
    def __init__(self, name, ret, params, vararg, attrs):
        self.name = name
        self.ret = ret
        self.params = params  # list of Local
        self.vararg = vararg
        self.blocks = []
        self.attrs = attrs
        self.is_decl = True

    @property
    def fty(self):
        return FuncTy(self.ret, [p.ty for p in self.params], self.vararg)


class GlobalVar:
    def __init__(self, name, ty, init, const, tls, external):
        self.name = name
        self.ty = ty
        self.init = init
        self.const = const
        self.tls = tls
        self.external = external


class Module:
    def __init__(self):
        self.types = {}  # name -> StructTy or None (opaque)
        self.type_order = []
        self.globals = {}
        self.funcs = {}
        self.aliases = {}


# ----------------------------------------------------------------------------- tokenizer
TOK_RE = re.compile(r'''
   (?P<ws>\s+)
 | (?P<str>c?"(?:[^"\\]|\\.)*")
 | (?P<local>%(?:"(?:[^"\\]|\\.)*"|[-a-zA-Z$._0-9]+))
 | (?P<glob>@(?:"(?:[^"\\]|\\.)*"|[-a-zA-Z$._0-9]+))
 | (?P<meta>![-a-zA-Z$._0-9]*)
 | (?P<attr>\#[0-9]+)
 | (?P<comdatref>\$(?:"(?:[^"\\]|\\.)*"|[-a-zA-Z$._0-9]+))
 | (?P<num>-?[0-9]+\.[0-9]*(?:[eE][-+]?[0-9]+)?|0x[KLMHR]?[0-9A-Fa-f]+|-?[0-9]+)
 | (?P<dots>\.\.\.)
 | (?P<word>[a-zA-Z_][a-zA-Z0-9_.]*)
 | (?P<punct>[(){}\[\]<>,=*:])
''', re.X)


def tokenize(s):
    out = []
    pos = 0
    n = len(s)
    while pos < n:
        if s[pos] == ';':
            break
        m = TOK_RE.match(s, pos)
        if not m:
            raise Unsupported('tokenize: %r' % s[pos:pos + 40])
        pos = m.end()
        k = m.lastgroup
        if k == 'ws':
            continue
        out.append((k, m.group(k)))
    return out


def unq(name):
    """strip sigil and quotes from %"x" / @"x"."""
    name = name[1:]
    if name.startswith('"'):
        name = name[1:-1]
        name = re.sub(r'\\([0-9A-Fa-f]{2})', lambda m: chr(int(m.group(1), 16)), name)
    return name


def cstr_bytes(tok):
    body = tok[tok.index('"') + 1:-1]
    out = bytearray()
    i = 0
    while i < len(body):
        c = body[i]
        if c == '\\':
            if body[i + 1] == '\\':
                out.append(92)
                i += 2
            else:
                out.append(int(body[i + 1:i + 3], 16))
                i += 3
        else:
            out.append(ord(c))
            i += 1
    return bytes(out)


PARAM_ATTRS = {
    'noundef', 'nonnull', 'nocapture', 'readonly', 'writeonly', 'readnone', 'noalias', 'zeroext',
    'signext', 'inreg', 'returned', 'nofree', 'immarg', 'swiftself', 'nest', 'noreturn'}
PARAM_ATTRS_ARG = {'align', 'dereferenceable', 'dereferenceable_or_null'}
PARAM_ATTRS_TY = {'sret', 'byval', 'byref', 'inalloca', 'preallocated', 'elementtype'}
FAST_FLAGS = {'fast', 'nnan', 'ninf', 'nsz', 'arcp', 'contract', 'afn', 'reassoc'}
LINKAGE = {'private', 'internal', 'available_externally', 'linkonce', 'weak', 'common', 'appending',
           'extern_weak', 'linkonce_odr', 'weak_odr', 'external', 'dso_local', 'dso_preemptable',
           'hidden', 'protected', 'default', 'unnamed_addr', 'local_unnamed_addr', 'comdat',
           'fastcc', 'ccc', 'coldcc', 'noundef', 'zeroext', 'signext', 'nonnull', 'noalias'}
CAST_OPS = {'trunc', 'zext', 'sext', 'fptrunc', 'fpext', 'fptoui', 'fptosi', 'uitofp', 'sitofp',
            'ptrtoint', 'inttoptr', 'bitcast', 'addrspacecast'}
BIN_OPS = {'add', 'sub', 'mul', 'udiv', 'sdiv', 'urem', 'srem', 'shl', 'lshr', 'ashr', 'and', 'or',
           'xor', 'fadd', 'fsub', 'fmul', 'fdiv', 'frem'}
ORDERINGS = {'unordered', 'monotonic', 'acquire', 'release', 'acq_rel', 'seq_cst'}


class P:
    """token cursor"""

    def __init__(self, toks, mod, line):
        self.t = toks
        self.i = 0
        self.mod = mod
        self.line = line

    def peek(self, k=0):
        return self.t[self.i + k] if self.i + k < len(self.t) else (None, None)

    def next(self):
        tok = self.t[self.i]
        self.i += 1
        return tok

    def at_end(self):
        return self.i >= len(self.t)

    def accept(self, val):
        if self.peek()[1] == val:
            self.i += 1
            return True
        return False

    def expect(self, val):
        if not self.accept(val):
            raise Unsupported('expected %r at %r in: %s' % (val, self.peek(), self.line))

    # ---- types
    def type(self):
        k, v = self.next()
        if k == 'word':
            if v == 'void':
                t = VoidTy()
            elif re.fullmatch(r'i[0-9]+', v):
                t = IntTy(int(v[1:]))
            elif v in ('float', 'double', 'half', 'x86_fp80', 'fp128', 'bfloat'):
                t = FloatTy(v)
            elif v == 'label':
                t = LabelTy()
            elif v == 'metadata':
                t = MetaTy()
            elif v == 'opaque':
                t = None
            elif v == 'ptr':
                raise Unsupported('opaque pointers')
            else:
                raise Unsupported('type word %r in %s' % (v, self.line))
        elif k == 'local':
            t = NamedTy(unq(v))
        elif v == '{':
            t = StructTy(self._tylist('}'))
        elif v == '[':
            n = int(self.next()[1])
            self.expect('x')
            el = self.type()
            self.expect(']')
            t = ArrTy(n, el)
        elif v == '<':
            if self.peek()[1] == '{':
                self.next()
                t = StructTy(self._tylist('}'), packed=True)
                self.expect('>')
            else:
                n = int(self.next()[1])
                self.expect('x')
                el = self.type()
                self.expect('>')
                t = VecTy(n, el)
        else:
            raise Unsupported('type at %r in %s' % (v, self.line))
        # suffixes
        while True:
            if self.peek()[1] == '*':
                self.next()
                t = PtrTy(t)
            elif self.peek()[1] == 'addrspace':
                raise Unsupported('addrspace')
            elif self.peek()[1] == '(' and self._looks_like_functy():
                self.next()
                params = []
                vararg = False
                while not self.accept(')'):
                    if self.accept('...'):
                        vararg = True
                    else:
                        params.append(self.type())
                    self.accept(',')
                t = FuncTy(t, params, vararg)
            else:
                break
        return t

    def _looks_like_functy(self):
        # a '(' directly after a type is a function type only if it is followed by a type or ')' or ...
        k, v = self.peek(1)
        if v in (')', '...', '{', '[', '<'):
            return True
        if k == 'local':
            # could be %struct.X (type) or a %value — types are in module table
            return unq(v) in self.mod.types
        if k == 'word':
            return v in ('void', 'float', 'double', 'half', 'x86_fp80', 'fp128', 'label',
                         'metadata') or re.fullmatch(r'i[0-9]+', v) is not None
        return False

    def _tylist(self, close):
        out = []
        while not self.accept(close):
            out.append(self.type())
            self.accept(',')
        return out

    # ---- values
    def skip_param_attrs(self):
        while True:
            k, v = self.peek()
            if k == 'word' and v in PARAM_ATTRS:
                self.next()
            elif k == 'word' and v in PARAM_ATTRS_ARG:
                self.next()
                if self.accept('('):
                    self.next()
                    self.expect(')')
                else:
                    self.next()
            elif k == 'word' and v in PARAM_ATTRS_TY:
                self.next()
                if self.accept('('):
                    self.type()
                    self.expect(')')
            else:
                break

    def typed_value(self):
        ty = self.type()
        self.skip_param_attrs()
        return self.value(ty)

    def value(self, ty):
        k, v = self.next()
        if k == 'local':
            return Local(unq(v), ty)
        if k == 'glob':
            return GlobalRef(unq(v), ty)
        if k == 'num':
            if ty.kind == 'float':
                return ConstFP(v, ty)
            if v.startswith('0x'):
                raise Unsupported('hex int const')
            return ConstInt(int(v), ty)
        if k == 'meta':
            # metadata operand: !DIExpression() / !12 / !"str"
            text = v
            if self.peek()[1] == '(':
                depth = 0
                while True:
                    kk, vv = self.next()
                    text += vv
                    if vv == '(':
                        depth += 1
                    elif vv == ')':
                        depth -= 1
                        if depth == 0:
                            break
            elif self.peek()[0] == 'str':
                text += self.next()[1]
            elif self.peek()[1] == '{':
                depth = 0
                while True:
                    kk, vv = self.next()
                    text += vv
                    if vv == '{':
                        depth += 1
                    elif vv == '}':
                        depth -= 1
                        if depth == 0:
                            break
            return MetaVal(text)
        if k == 'str':
            return ConstStr(cstr_bytes(v), ty)
        if k == 'word':
            if v == 'true':
                return ConstInt(1, ty)
            if v == 'false':
                return ConstInt(0, ty)
            if v == 'null':
                return ConstNull(ty)
            if v in ('undef', 'poison'):
                return ConstUndef(ty)
            if v == 'zeroinitializer':
                return ConstZero(ty)
            if v == 'getelementptr':
                inb = self.accept('inbounds')
                self.expect('(')
                sty = self.type()
                self.expect(',')
                args = [self.typed_value()]
                while self.accept(','):
                    self.accept('inrange')
                    args.append(self.typed_value())
                self.expect(')')
                return ConstExpr('getelementptr', args, ty, {'srcty': sty})
            if v in CAST_OPS:
                self.expect('(')
                a = self.typed_value()
                self.expect('to')
                t2 = self.type()
                self.expect(')')
                return ConstExpr(v, [a], t2)
            if v in BIN_OPS:
                while self.peek()[1] in ('nuw', 'nsw', 'exact'):
                    self.next()
                self.expect('(')
                a = self.typed_value()
                self.expect(',')
                b = self.typed_value()
                self.expect(')')
                return ConstExpr(v, [a, b], a.ty)
            if v == 'icmp':
                pred = self.next()[1]
                self.expect('(')
                a = self.typed_value()
                self.expect(',')
                b = self.typed_value()
                self.expect(')')
                return ConstExpr('icmp', [a, b], IntTy(1), {'pred': pred})
            if v == 'select':
                self.expect('(')
                a = self.typed_value()
                self.expect(',')
                b = self.typed_value()
                self.expect(',')
                c = self.typed_value()
                self.expect(')')
                return ConstExpr('select', [a, b, c], b.ty)
            if v == 'asm':
                while self.peek()[1] in ('sideeffect', 'alignstack', 'inteldialect', 'unwind'):
                    self.next()
                text = cstr_bytes(self.next()[1]).decode()
                self.expect(',')
                cons = cstr_bytes(self.next()[1]).decode()
                return InlineAsm(text, cons)
            if v == 'dso_local_equivalent' or v == 'no_cfi':
                return self.value(ty)
            raise Unsupported('value word %r in %s' % (v, self.line))
        if v == '{' or v == '[' or v == '<':
            packed = False
            if v == '<' and self.peek()[1] == '{':
                self.next()
                packed = True
                close = '}'
            else:
                close = {'{': '}', '[': ']', '<': '>'}[v]
            elems = []
            while not self.accept(close):
                elems.append(self.typed_value())
                self.accept(',')
            if packed:
                self.expect('>')
            return ConstAgg(elems, ty)
        raise Unsupported('value at %r in %s' % (v, self.line))


# ----------------------------------------------------------------------------- module parser
def join_lines(text):
    """Join the multi-line constructs (switch tables, landingpad clauses)."""
    out = []
    lines = text.split('\n')
    i = 0
    while i < len(lines):
        ln = lines[i]
        s = ln.strip()
        if s.startswith('switch ') and s.endswith('['):
            while not lines[i].strip().endswith(']'):
                i += 1
                ln += ' ' + lines[i].strip()
        elif ' landingpad ' in ln or s.startswith('landingpad'):
            while i + 1 < len(lines) and re.match(r'\s+(cleanup|catch|filter)\b', lines[i + 1]):
                i += 1
                ln += ' ' + lines[i].strip()
        elif (' invoke ' in ln or s.startswith('invoke ')) and ' to label ' not in ln:
            # "invoke ...(args)\n          to label %ok unwind label %lp"
            if i + 1 < len(lines) and re.match(r'\s+to label\b', lines[i + 1]):
                i += 1
                ln += ' ' + lines[i].strip()
        out.append(ln)
        i += 1
    return out


def parse_module(text):
    mod = Module()
    lines = join_lines(text)
    # pass 1: type names (needed to disambiguate function types)
    for ln in lines:
        m = re.match(r'(%(?:"(?:[^"\\]|\\.)*"|[-a-zA-Z$._0-9]+)) = type ', ln)
        if m:
            mod.types[unq(m.group(1))] = None
            mod.type_order.append(unq(m.group(1)))
    cur = None
    blk = None
    for ln in lines:
        s = ln.strip()
        if not s or s.startswith(';'):
            continue
        if cur is None:
            if s.startswith(('source_filename', 'target ', 'attributes ', '!', 'module asm',
                             '$', 'uselistorder')):
                continue
            toks = tokenize(s)
            p = P(toks, mod, s)
            k, v = p.peek()
            if k == 'local' and p.peek(1)[1] == '=' and p.peek(2)[1] == 'type':
                name = unq(v)
                p.i += 3
                mod.types[name] = p.type()
                continue
            if v == 'declare' or v == 'define':
                f = parse_func_header(p)
                old = mod.funcs.get(f.name)
                if old is None or old.is_decl:
                    mod.funcs[f.name] = f
                if v == 'define':
                    f.is_decl = False
                    cur = f
                    blk = None
                continue
            if k == 'glob' and p.peek(1)[1] == '=':
                parse_global(p, mod)
                continue
            raise Unsupported('top-level: ' + s[:120])
        else:
            if s == '}':
                cur = None
                continue
            m = re.match(r'^("(?:[^"\\]|\\.)*"|[-a-zA-Z$._0-9]+):', s)
            if m:
                nm = m.group(1)
                if nm.startswith('"'):
                    nm = nm[1:-1]
                blk = Block(nm)
                cur.blocks.append(blk)
                continue
            if blk is None:
                # implicit entry block gets the next unnamed number
                blk = Block(str(len(cur.params)) if all(
                    re.fullmatch(r'[0-9]+', q.name) for q in cur.params) else '__entry')
                # robust: unnamed entry label equals number of unnamed params (clang -O1 names none)
                cur.blocks.append(blk)
            toks = tokenize(s)
            ins = parse_instr(P(toks, mod, s), mod)
            if ins is not None:
                blk.instrs.append(ins)
    return mod


def parse_func_header(p):
    p.next()  # declare/define
    while True:
        k, v = p.peek()
        if k == 'word' and (v in LINKAGE or v in PARAM_ATTRS):
            p.next()
        elif k == 'word' and v in PARAM_ATTRS_ARG:
            p.next()
            if p.accept('('):
                p.next()
                p.expect(')')
            else:
                p.next()
        else:
            break
    ret = p.type()
    k, v = p.next()
    assert k == 'glob', p.line
    name = unq(v)
    p.expect('(')
    params = []
    vararg = False
    idx = 0
    while not p.accept(')'):
        if p.accept('...'):
            vararg = True
        else:
            ty = p.type()
            p.skip_param_attrs()
            if p.peek()[0] == 'local':
                nm = unq(p.next()[1])
            else:
                nm = str(idx)
            params.append(Local(nm, ty))
            idx += 1
        p.accept(',')
    attrs = ' '.join(v for _, v in p.t[p.i:])
    return Function(name, ret, params, vararg, attrs)


def parse_global(p, mod):
    name = unq(p.next()[1])
    p.expect('=')
    tls = False
    const = False
    external = False
    is_alias = False
    while True:
        k, v = p.peek()
        if v in ('external', 'extern_weak'):
            external = True
            p.next()
        elif v == 'thread_local':
            tls = True
            p.next()
            if p.accept('('):
                p.next()
                p.expect(')')
        elif v == 'constant':
            const = True
            p.next()
            break
        elif v == 'global':
            p.next()
            break
        elif v == 'alias' or v == 'ifunc':
            is_alias = True
            p.next()
            break
        elif k == 'word' and v in LINKAGE:
            p.next()
        else:
            raise Unsupported('global decl: ' + p.line[:100])
    ty = p.type()
    if is_alias:
        p.expect(',')
        tgt = p.typed_value()
        mod.aliases[name] = tgt
        return
    init = None
    if not external and not p.at_end() and p.peek()[1] != ',':
        init = p.value(ty)
    mod.globals[name] = GlobalVar(name, ty, init, const, tls, external)


def parse_instr(p, mod):
    res = None
    if p.peek()[0] == 'local' and p.peek(1)[1] == '=':
        res = unq(p.next()[1])
        p.next()
    k, op = p.next()
    if op in ('tail', 'musttail', 'notail'):
        k, op = p.next()
    if op in BIN_OPS:
        flags = set()
        while p.peek()[1] in ('nuw', 'nsw', 'exact') or p.peek()[1] in FAST_FLAGS:
            flags.add(p.next()[1])
        a = p.typed_value()
        p.expect(',')
        b = p.value(a.ty)
        return Instr('bin', res, a.ty, bop=op, a=a, b=b, flags=flags)
    if op == 'fneg':
        while p.peek()[1] in FAST_FLAGS:
            p.next()
        a = p.typed_value()
        return Instr('fneg', res, a.ty, a=a)
    if op in CAST_OPS:
        a = p.typed_value()
        p.expect('to')
        t = p.type()
        return Instr('cast', res, t, cop=op, a=a)
    if op in ('icmp', 'fcmp'):
        while p.peek()[1] in FAST_FLAGS:
            p.next()
        pred = p.next()[1]
        a = p.typed_value()
        p.expect(',')
        b = p.value(a.ty)
        rty = IntTy(1) if a.ty.kind != 'vec' else VecTy(a.ty.n, IntTy(1))
        return Instr(op, res, rty, pred=pred, a=a, b=b)
    if op == 'select':
        while p.peek()[1] in FAST_FLAGS:
            p.next()
        c = p.typed_value()
        p.expect(',')
        a = p.typed_value()
        p.expect(',')
        b = p.typed_value()
        return Instr('select', res, a.ty, c=c, a=a, b=b)
    if op == 'phi':
        while p.peek()[1] in FAST_FLAGS:
            p.next()
        ty = p.type()
        inc = []
        while p.accept('['):
            v = p.value(ty)
            p.expect(',')
            lbl = unq(p.next()[1])
            p.expect(']')
            inc.append((v, lbl))
            p.accept(',')
        return Instr('phi', res, ty, inc=inc)
    if op == 'br':
        if p.peek()[1] == 'label':
            p.next()
            return Instr('br', tgt=unq(p.next()[1]))
        c = p.typed_value()
        p.expect(',')
        p.expect('label')
        t = unq(p.next()[1])
        p.expect(',')
        p.expect('label')
        f = unq(p.next()[1])
        return Instr('condbr', c=c, t=t, f=f)
    if op == 'switch':
        v = p.typed_value()
        p.expect(',')
        p.expect('label')
        dflt = unq(p.next()[1])
        p.expect('[')
        cases = []
        while not p.accept(']'):
            cv = p.typed_value()
            p.expect(',')
            p.expect('label')
            cases.append((cv, unq(p.next()[1])))
        return Instr('switch', v=v, dflt=dflt, cases=cases)
    if op == 'ret':
        if p.peek()[1] == 'void':
            return Instr('ret', v=None)
        return Instr('ret', v=p.typed_value())
    if op == 'unreachable':
        return Instr('unreachable')
    if op == 'resume':
        return Instr('resume', v=p.typed_value())
    if op == 'alloca':
        p.accept('inalloca')
        ty = p.type()
        cnt = None
        while p.accept(','):
            if p.peek()[1] == 'align':
                p.next()
                p.next()
            else:
                cnt = p.typed_value()
        return Instr('alloca', res, PtrTy(ty), aty=ty, cnt=cnt)
    if op == 'load':
        atomic = p.accept('atomic')
        vol = p.accept('volatile')
        ty = p.type()
        p.expect(',')
        ptr = p.typed_value()
        order = None
        if atomic:
            if p.peek()[1] == 'syncscope':
                raise Unsupported('syncscope')
            order = p.next()[1]
        return Instr('load', res, ty, ptr=ptr, atomic=atomic, order=order, volatile=vol)
    if op == 'store':
        atomic = p.accept('atomic')
        vol = p.accept('volatile')
        v = p.typed_value()
        p.expect(',')
        ptr = p.typed_value()
        order = None
        if atomic:
            order = p.next()[1]
        return Instr('store', v=v, ptr=ptr, atomic=atomic, order=order, volatile=vol)
    if op == 'fence':
        if p.peek()[1] == 'syncscope':
            p.next()
            p.expect('(')
            p.next()
            p.expect(')')
            return Instr('fence', order=p.next()[1], singlethread=True)
        return Instr('fence', order=p.next()[1], singlethread=False)
    if op == 'atomicrmw':
        p.accept('volatile')
        rop = p.next()[1]
        ptr = p.typed_value()
        p.expect(',')
        v = p.typed_value()
        order = p.next()[1]
        return Instr('atomicrmw', res, v.ty, rop=rop, ptr=ptr, v=v, order=order)
    if op == 'cmpxchg':
        weak = p.accept('weak')
        p.accept('volatile')
        ptr = p.typed_value()
        p.expect(',')
        cmp_ = p.typed_value()
        p.expect(',')
        new = p.typed_value()
        so = p.next()[1]
        fo = p.next()[1]
        return Instr('cmpxchg', res, StructTy([cmp_.ty, IntTy(1)]), ptr=ptr, cmp=cmp_, new=new,
                     order=so, forder=fo, weak=weak)
    if op == 'getelementptr':
        inb = p.accept('inbounds')
        sty = p.type()
        p.expect(',')
        base = p.typed_value()
        idx = []
        while p.accept(','):
            idx.append(p.typed_value())
        return Instr('gep', res, None, srcty=sty, base=base, idx=idx, inbounds=inb)
    if op in ('extractvalue', 'insertvalue'):
        agg = p.typed_value()
        v = None
        if op == 'insertvalue':
            p.expect(',')
            v = p.typed_value()
        idx = []
        while p.accept(','):
            idx.append(int(p.next()[1]))
        return Instr(op, res, None, agg=agg, v=v, idx=idx)
    if op in ('extractelement', 'insertelement', 'shufflevector'):
        raise Unsupported('vector instruction %s' % op)
    if op in ('call', 'invoke'):
        while True:
            k, v = p.peek()
            if k == 'word' and (v in FAST_FLAGS or v in LINKAGE or v in PARAM_ATTRS):
                p.next()
            elif k == 'word' and v in PARAM_ATTRS_ARG:
                p.next()
                if p.accept('('):
                    p.next()
                    p.expect(')')
                else:
                    p.next()
            else:
                break
        rty = p.type()
        fty = None
        if rty.kind == 'func':
            fty = rty
            rty = fty.ret
        elif rty.kind == 'ptr' and rty.to.kind == 'func' and p.peek()[1] != '(':
            # "call void (i32)* %fp(...)" does not occur in LLVM 14 output; keep for safety
            fty = rty.to
            rty = fty.ret
        callee = p.value(None)
        p.expect('(')
        args = []
        while not p.accept(')'):
            args.append(p.typed_value())
            p.accept(',')
        ins = Instr(op, res, rty, callee=callee, args=args, fty=fty)
        if op == 'invoke':
            # attrs ... to label %x unwind label %y
            while p.peek()[1] != 'to':
                p.next()
            p.next()
            p.expect('label')
            ins.normal = unq(p.next()[1])
            p.expect('unwind')
            p.expect('label')
            ins.unwind = unq(p.next()[1])
        return ins
    if op == 'landingpad':
        ty = p.type()
        cleanup = False
        catches = []
        while not p.at_end():
            k, v = p.peek()
            if v == 'cleanup':
                cleanup = True
                p.next()
            elif v == 'catch':
                p.next()
                catches.append(p.typed_value())
            elif v == 'filter':
                p.next()
                p.typed_value()
            else:
                break
        return Instr('landingpad', res, ty, cleanup=cleanup, catches=catches)
    if op == 'freeze':
        a = p.typed_value()
        return Instr('freeze', res, a.ty, a=a)
    if op == 'va_arg':
        raise Unsupported('va_arg')
    raise Unsupported('instruction %r: %s' % (op, p.line[:140]))


# ----------------------------------------------------------------------------- type utilities
def resolve(mod, ty):
    """Strip NamedTy to its definition (struct)."""
    while ty is not None and ty.kind == 'named':
        ty = mod.types.get(ty.name)
    return ty


def gep_result_type(mod, srcty, idx):
    """Type pointed to after applying GEP indices (idx are Val)."""
    ty = srcty
    for ix in idx[1:]:
        r = resolve(mod, ty)
        if r is None:
            raise Unsupported('gep into opaque')
        if r.kind == 'struct':
            if not isinstance(ix, ConstInt):
                raise Unsupported('non-constant struct index')
            ty = r.fields[ix.v]
        elif r.kind in ('arr', 'vec'):
            ty = r.el
        else:
            raise Unsupported('gep into %s' % r.kind)
    return PtrTy(ty)


def agg_index_type(mod, ty, idx):
    for ix in idx:
        r = resolve(mod, ty)
        if r.kind == 'struct':
            ty = r.fields[ix]
        elif r.kind in ('arr', 'vec'):
            ty = r.el
        else:
            raise Unsupported('aggregate index into %s' % r.kind)
    return ty


def finalize(mod):
    """Fill result types that need the type table; resolve global ref types."""
    for f in mod.funcs.values():
        for b in f.blocks:
            for ins in b.instrs:
                if ins.op == 'gep':
                    ins.ty = gep_result_type(mod, ins.srcty, ins.idx)
                elif ins.op == 'extractvalue':
                    ins.ty = agg_index_type(mod, ins.agg.ty, ins.idx)
                elif ins.op == 'insertvalue':
                    ins.ty = ins.agg.ty
    return mod


def load(path):
    with open(path) as fh:
        return finalize(parse_module(fh.read()))
