// Harness vocabulary.  A harness is ordinary C++ that includes the real dispenso headers, drives the
// real functions and states the property with vf_check().  The same source is (a) lowered through
// clang IR into C for CBMC / into SMT, where the vf_* functions become nondeterministic inputs,
// assumptions, assertions and model threads, and (b) compiled natively against rt/native_rt.cpp
// for translator validation and counterexample replay.
#pragma once
#include <cstdint>
#include <cstddef>

extern "C" {
uint8_t vf_nondet_u8();
uint16_t vf_nondet_u16();
uint32_t vf_nondet_u32();
uint64_t vf_nondet_u64();
bool vf_nondet_bool();
void vf_assume(bool c);
void vf_check(bool c, const char* label);
void vf_reach(const char* label);
void vf_spawn(void (*fn)(void*), void* arg);
void vf_atomic_begin();
void vf_atomic_end();
void vf_race_write(const void* p);  // race probes: a plain write / read of shared payload at address p
void vf_race_read(const void* p);   // (checked by the happens-before detector when the spec sets rt_defs VF_RACE)
void vf_sched_point();  // a point where the scheduler may switch threads (no other effect)
int vf_self();
void vf_join_all();
bool vf_any_stuck();
bool vf_is_dead();
void vf_throw(uint32_t id);
void vf_main();
}

#define VF_NOINLINE __attribute__((noinline))

// value in [lo, hi]
static inline uint32_t vf_range_u32(uint32_t lo, uint32_t hi) {
  uint32_t v = vf_nondet_u32();
  vf_assume(v >= lo && v <= hi);
  return v;
}
static inline uint64_t vf_range_u64(uint64_t lo, uint64_t hi) {
  uint64_t v = vf_nondet_u64();
  vf_assume(v >= lo && v <= hi);
  return v;
}
static inline uint8_t vf_range_u8(uint8_t lo, uint8_t hi) {
  uint8_t v = vf_nondet_u8();
  vf_assume(v >= lo && v <= hi);
  return v;
}

struct VfAtomic {
  VfAtomic() { vf_atomic_begin(); }
  ~VfAtomic() { vf_atomic_end(); }
};
