/* Implementation of the runtime model (see cbmc_rt.h).  Included after the generated code. */

uint64_t vf_inlog[VF_NLOG];
uint64_t vf_trace_sum;
uint64_t vf_trace_vsum;
unsigned vf_inlog_n;

#ifndef VF_SEQ
__thread int vf_unw;
__thread void *vf_exc_obj;
__thread int vf_exc_sel;
__thread int vf_tid;
__thread int vf_spur;
#else
int vf_tid;
int vf_unw_a[VF_NTHREADS];
void *vf_exc_obj_a[VF_NTHREADS];
int vf_exc_sel_a[VF_NTHREADS];
int vf_spur_a[VF_NTHREADS];
void *vf_caught_a[VF_NTHREADS];
int vf_pc[VF_NTHREADS];
_Bool vf_blk;
_Bool vf_paused;
int vf_in_ghost;
int vf_vis_t;
#endif

_Bool vf_fin[VF_NTHREADS];
_Bool vf_stuck[VF_NTHREADS];
_Bool vf_woken[VF_NTHREADS];
uint64_t vf_parked[VF_NTHREADS];
_Bool vf_spawned[VF_NTHREADS];
uint64_t vf_thr_arg[VF_NTHREADS];
#ifndef VF_SEQ
int vf_errno;
int *vf_errno_location(void) { return &vf_errno; }
#else
int vf_errno_a[VF_NTHREADS];
int *vf_errno_location(void) { return &vf_errno_a[vf_tid]; }
#define vf_errno vf_errno_a[vf_tid]
#endif

#ifdef VF_SEQ
uint64_t vf_in_last; /* trace marker: every harness input, in consumption order */
/* drawing an input is also a visible operation: the native replay hands out inputs in schedule order */
static inline uint64_t vf_log_in(uint64_t v) { VF_VIS(vf_tid); vf_in_last = v; VF_TRACE_KEEP(vf_in_last); return v; }
#else
static inline uint64_t vf_log_in(uint64_t v) {
#ifndef VF_NO_INLOG
  __CPROVER_atomic_begin();
  unsigned i = vf_inlog_n++;
  __CPROVER_assume(i < VF_NLOG);
  vf_inlog[i] = v;
  VF_TRACE_KEEP(vf_inlog[i] ^ i);
  __CPROVER_atomic_end();
#endif
  return v;
}
#endif
uint8_t vf_nondet_u8(void) { return (uint8_t)vf_log_in(nondet_u8()); }
uint16_t vf_nondet_u16(void) { return (uint16_t)vf_log_in(nondet_u16()); }
uint32_t vf_nondet_u32(void) { return (uint32_t)vf_log_in(nondet_u32()); }
uint64_t vf_nondet_u64(void) { return vf_log_in(nondet_u64()); }
_Bool vf_nondet_bool(void) { return (_Bool)vf_log_in(nondet_bool()); }
void vf_atomic_begin(void) { __CPROVER_atomic_begin(); }
void vf_atomic_end(void) { __CPROVER_atomic_end(); }
int vf_self(void) { return vf_tid; }
#ifndef VF_SEQ
_Bool vf_is_dead(void) { return vf_unw == 1; }
#else
_Bool vf_is_dead(void) { return 0; }
#endif
void vf_note(uint32_t tag, uint64_t v) { (void)tag; (void)v; }

#ifndef VF_SEQ
void vf_thread_done(int t) {
  if (vf_unw == 1) { /* stuck[] already set at the park */ }
  else {
    __CPROVER_assert(vf_unw == 0, "rt: exception escaped a thread function");
    vf_fin[t] = 1;
  }
}

/* Called by the observer: every spawned thread has either finished or declared itself stuck, and
 * the stuck ones were really never woken.  A stuck thread that nobody can wake any more is a lost
 * wake-up / deadlock, reported by the final assertion in vf_entry(). */
void vf_join_all(void) {
  for (int t = 1; t < VF_NTHREADS; t++) {
    __CPROVER_assume(!vf_spawned[t] || vf_fin[t] || vf_stuck[t]);
  }
}
_Bool vf_any_stuck(void) {
  _Bool s = 0;
  for (int t = 0; t < VF_NTHREADS; t++) s = s || vf_stuck[t];
  return s;
}

/* --- futex ---------------------------------------------------------------------------------- */
#ifndef VF_FUTEX_TIMEOUTS
#define VF_FUTEX_TIMEOUTS 0
#endif

/* park the calling thread on addr until woken; returns 1 if the thread must unwind (declared stuck) */
static _Bool vf_park(void *addr) {
  int me = vf_tid;
  /* choice: hypothesise that nobody ever wakes this thread again */
  if (nondet_bool()) {
    vf_stuck[me] = 1;
    vf_unw = 1;
    return 1;
  }
  __CPROVER_assume(vf_woken[me]);
  return 0;
}

static int64_t vf_futex_wait(uint32_t *addr, uint32_t val, void *timeout) {
  int me = vf_tid;
  _Bool parked;
  __CPROVER_atomic_begin();
  parked = (*addr == val);
  if (parked) {
    vf_parked[me] = (uint64_t)addr;
    vf_woken[me] = 0;
  }
  __CPROVER_atomic_end();
  if (!parked) {
    vf_errno = 11; /* EAGAIN */
    return -1;
  }
  if (vf_spur < VF_SPURIOUS && nondet_bool()) { /* spurious return (EINTR) */
    vf_spur++;
    vf_parked[me] = 0;
    vf_errno = 4;
    return -1;
  }
#if VF_FUTEX_TIMEOUTS
  if (timeout && nondet_bool()) {
    vf_parked[me] = 0;
    vf_errno = 110; /* ETIMEDOUT */
    return -1;
  }
#endif
  vf_park(addr);
  return 0;
}

static int64_t vf_futex_wake(uint32_t *addr, uint32_t n) {
  int64_t cnt = 0;
  int64_t avail = 0;
  __CPROVER_atomic_begin();
  for (int t = 0; t < VF_NTHREADS; t++) {
    if (vf_parked[t] == (uint64_t)addr) {
      avail++;
      /* the kernel picks which waiters to wake: symbolic */
      if ((uint64_t)cnt < (uint64_t)n && nondet_bool()) {
        vf_woken[t] = 1;
        vf_parked[t] = 0;
        cnt++;
      }
    }
  }
  __CPROVER_assume(cnt == ((uint64_t)avail < (uint64_t)n ? avail : (int64_t)n));
  __CPROVER_atomic_end();
  return cnt;
}

int64_t vf_syscall(uint64_t nr, uint64_t a1, uint64_t a2, uint64_t a3, uint64_t a4, uint64_t a5, uint64_t a6) {
  if (nr == 202) {
    uint32_t op = (uint32_t)a2 & 127u; /* strip FUTEX_PRIVATE_FLAG */
    if (op == 0) return vf_futex_wait((uint32_t *)a1, (uint32_t)a3, (void *)a4);
    if (op == 1) return vf_futex_wake((uint32_t *)a1, (uint32_t)a3);
    __CPROVER_assert(0, "rt: unsupported futex op");
  } else {
    __CPROVER_assert(0, "rt: unsupported syscall");
  }
  return -1;
}

#endif /* !VF_SEQ */

/* --- memory --------------------------------------------------------------------------------- */
uint64_t vf_last_malloc_a, vf_last_malloc_n, vf_last_free_a;
uint64_t vf_last_malloc_addr(void) { return vf_last_malloc_a; }
uint64_t vf_last_malloc_size(void) { return vf_last_malloc_n; }
uint64_t vf_last_free_addr(void) { return vf_last_free_a; }
#ifdef VF_ADDR_AWARE
/* Address-aware allocator: blocks are carved out of one arena at symbolic offsets that are multiples
 * of 16 -- all that malloc / plain operator new promise -- so the low bits of ptrtoint are meaningful
 * (the arena base has integer value with zero low bits in CBMC's pointer encoding). */
#ifndef VF_ARENA
#define VF_ARENA (1u << 18)
#endif
char vf_arena[VF_ARENA];
uint64_t vf_arena_next;
uint64_t vf_aa_live[8];
uint64_t vf_aa_nlive;
uint64_t vf_aa_allocs, vf_aa_frees;
#ifdef VF_AA_DYNAMIC
/* variant without a static arena: one fresh object per block, placed at a symbolic 16-aligned
 * offset inside it (object bases have zero low bits in CBMC's pointer encoding) */
#ifndef VF_AA_MAXGAP
#define VF_AA_MAXGAP (1u << 17)
#endif
void *vf_malloc(uint64_t n) {
  uint64_t gap = nondet_u64();
  __CPROVER_assume(gap % 16 == 0 && gap < VF_AA_MAXGAP);
  char *o = __CPROVER_allocate(n + gap, 0);
  __CPROVER_assume(o != 0);
  vf_aa_allocs++;
  vf_last_malloc_a = (uint64_t)(o + gap);
  vf_last_malloc_n = n;
  return (void *)(o + gap);
}
#else
void *vf_malloc(uint64_t n) {
  uint64_t gap = nondet_u64();
  __CPROVER_assume(gap % 16 == 0 && gap < (1u << 17));
  uint64_t off = vf_arena_next + gap;
  uint64_t sz = (n + 15) & ~(uint64_t)15;
  __CPROVER_assume(off + sz <= VF_ARENA && off + sz >= off);
  vf_arena_next = off + sz;
  vf_aa_allocs++;
  vf_last_malloc_a = (uint64_t)(vf_arena + off);
  vf_last_malloc_n = n;
  return (void *)(vf_arena + off);
}
#endif
void vf_free(void *p) { if (p) vf_aa_frees++; vf_last_free_a = (uint64_t)p; }
/* number of malloc-family calls / of non-null frees so far (address-aware model only) */
uint64_t vf_malloc_count(void) { return vf_aa_allocs; }
uint64_t vf_free_count(void) { return vf_aa_frees; }
#else
void *vf_malloc(uint64_t n) {
#ifdef VF_MALLOC_U32
  /* optional typed variant (rt_defs VF_MALLOC_U32 [+ VF_MALLOC_CAP=words]): the block is an array of
   * 32-bit words, so word-sized accesses need no byte operations; with VF_MALLOC_CAP every block has
   * that constant number of words (requests above it are an rt: failure = inconclusive) and the
   * requested size is only recorded -- harnesses using it must check their own capacity bound
   * against vf_last_malloc_size() */
  uint64_t k = (n + 3) / 4;
#ifdef VF_MALLOC_CAP
  __CPROVER_assert(k <= VF_MALLOC_CAP, "rt: allocation larger than VF_MALLOC_CAP words");
  k = VF_MALLOC_CAP;
#endif
  void *p = __CPROVER_allocate(k * sizeof(uint32_t), 0);
  __CPROVER_assume(p != 0);
  vf_last_malloc_a = (uint64_t)p;
  vf_last_malloc_n = n;
  return p;
#else
  void *p = __CPROVER_allocate(n, 0);
  __CPROVER_assume(p != 0);
  return p;
#endif
}
void vf_free(void *p) { free(p); }
#endif
void *vf_aligned_malloc(uint64_t bytes, uint64_t alignment) { return vf_malloc(bytes); }
void vf_aligned_free(void *p) { vf_free(p); }
void *vf_malloc_nt(uint64_t n, void *nt) { return vf_malloc(n); }
void *vf_malloc_al(uint64_t n, uint64_t al) { return vf_malloc(n); }
void *vf_aligned_alloc(uint64_t al, uint64_t n) { return vf_malloc(n); }
int vf_posix_memalign(void **out, uint64_t al, uint64_t n) { *out = vf_malloc(n); return 0; }
void *vf_calloc(uint64_t a, uint64_t b) { void *p = __CPROVER_allocate(a * b, 1); __CPROVER_assume(p != 0); return p; }
void vf_free_sized(void *p, uint64_t n) { vf_free(p); }
void vf_free_sized3(void *p, uint64_t n, uint64_t a) { vf_free(p); }
void vf_abort(void) { __CPROVER_assert(0, "ub: abort/terminate reached"); __CPROVER_assume(0); }
void vf_abort1(void *a) { vf_abort(); }
void vf_abort1i(int a) { vf_abort(); }
void vf_abort_va(void *a, ...) { vf_abort(); }
void vf_exit(int c) { vf_abort(); }
void vf_assert_fail(void *a, void *b, unsigned c, void *d) { __CPROVER_assert(0, "ub: assert() failed in code under test"); __CPROVER_assume(0); }
void vf_call_terminate(void *e) { vf_abort(); }
int vf_sched_yield(void) { return 0; }
int vf_nanosleep(void *req, void *rem) { return 0; } /* sleeping has no observable effect in the model */
#ifndef VF_SEQ
int vf_guard_acquire(void *g) {
  uint8_t *b = (uint8_t *)g;
  __CPROVER_atomic_begin();
  __CPROVER_assume(b[1] == 0); /* wait for a concurrent initialiser */
  _Bool need = (b[0] == 0);
  if (need) b[1] = 1;
  __CPROVER_atomic_end();
  return need;
}
void vf_guard_release(void *g) {
  uint8_t *b = (uint8_t *)g;
  __CPROVER_atomic_begin();
  b[0] = 1; b[1] = 0;
  __CPROVER_atomic_end();
}

#endif /* !VF_SEQ */
int vf_cxa_atexit(void *f, void *a, void *d) { return 0; }
#ifndef VF_HAVE_THREAD_ATEXIT
int vf_cxa_thread_atexit(void *f, void *a, void *d) { return 0; }
#endif
uint64_t vf_strlen(void *s) { uint64_t n = 0; while (((char *)s)[n]) n++; return n; }
int vf_strcmp(void *a, void *b) {
  unsigned char *x = a, *y = b;
  while (*x && *x == *y) { x++; y++; }
  return (int)*x - (int)*y;
}
int vf_memcmp(void *a, void *b, uint64_t n) {
  unsigned char *x = a, *y = b;
  for (uint64_t i = 0; i < n; i++) if (x[i] != y[i]) return (int)x[i] - (int)y[i];
  return 0;
}
void *vf_strchr(void *s, int c) {
  char *p = s;
  for (;; p++) { if (*p == (char)c) return p; if (!*p) return 0; }
}
void *vf_memchr(void *s, int c, uint64_t n) {
  unsigned char *p = s;
  for (uint64_t i = 0; i < n; i++) if (p[i] == (unsigned char)c) return p + i;
  return 0;
}
/* strtol in the C locale, base 10 only: isspace*, optional sign, digits; no digits -> 0 and *end = s;
 * out of range -> LONG_MAX / LONG_MIN and errno = ERANGE */
int64_t vf_strtol(void *s, void **end, int base) {
  const char *p = s;
  __CPROVER_assert(base == 10, "rt: strtol model supports base 10 only");
  while (*p == ' ' || (*p >= '\t' && *p <= '\r')) p++;
  _Bool neg = 0;
  if (*p == '-') { neg = 1; p++; } else if (*p == '+') p++;
  const char *d0 = p;
  uint64_t lim = neg ? ((uint64_t)1 << 63) : (((uint64_t)1 << 63) - 1);
  uint64_t v = 0;
  _Bool ovf = 0;
  while (*p >= '0' && *p <= '9') {
    uint64_t dg = (uint64_t)(*p - '0');
    if (ovf || v > (lim - dg) / 10) ovf = 1; else v = v * 10 + dg;
    p++;
  }
  if (p == d0) { if (end) *end = s; return 0; }
  if (end) *end = (void *)p;
  if (ovf) { vf_errno = 34; return neg ? INT64_MIN : INT64_MAX; }
  return neg ? (int64_t)(0 - v) : (int64_t)v;
}
/* libstdc++ std::string::_M_create(size_type& capacity, size_type old_capacity): length_error above
 * max_size, geometric growth, storage for capacity+1 chars */
void *vf_string_M_create(void *self, uint64_t *cap, uint64_t old_cap) {
  const uint64_t mx = 0x3fffffffffffffffULL;
#ifdef VF_STRING_SSO_ONLY
  /* bounded model: every std::string of the run fits the 15-char small-string buffer; a heap string
   * makes the run inconclusive instead of creating a symbolic-size heap object */
  __CPROVER_assert(0, "rt: heap-allocated std::string outside the modelled bounds (VF_STRING_SSO_ONLY)");
  __CPROVER_assume(0);
#endif
  if (*cap > mx) vf_abort();
  if (*cap > old_cap && *cap < 2 * old_cap) { *cap = 2 * old_cap; if (*cap > mx) *cap = mx; }
  return vf_malloc(*cap + 1);
}
/* glibc __sched_cpucount (CPU_COUNT): number of set bits in the first setsize bytes */
int vf_sched_cpucount(uint64_t setsize, void *set) {
  uint64_t *w = set;
  int n = 0;
  for (uint64_t i = 0; i < setsize / 8; i++) n += __builtin_popcountll(w[i]);
  return n;
}
/* cbmc 6.11 has no body for __builtin_memcpy / __builtin_memmove (the call would be a no-op with a
 * failing "no body for callee" property): use the library models of memcpy / memmove */
void *memcpy(void *, const void *, __CPROVER_size_t);
void *memmove(void *, const void *, __CPROVER_size_t);
void vf_memcpy(void *d, const void *s, uint64_t n) { memcpy(d, s, n); }
void vf_memmove(void *d, const void *s, uint64_t n) { memmove(d, s, n); }
void vf_memset(void *d, uint8_t c, uint64_t n) { __builtin_memset(d, c, n); }

/* clock: arbitrary non-decreasing instants */
int64_t vf_clock_ns;
int64_t vf_steady_now(void) {
  __CPROVER_atomic_begin();
  int64_t d = (int64_t)nondet_u64();
  __CPROVER_assume(d >= 0 && d < ((int64_t)1 << 40));
  vf_clock_ns += d;
  int64_t r = vf_clock_ns;
  __CPROVER_atomic_end();
  return r;
}
int vf_clock_gettime(int clk, void *ts) {
  int64_t t = vf_steady_now();
  ((int64_t *)ts)[0] = t / 1000000000;
  ((int64_t *)ts)[1] = t % 1000000000;
  return 0;
}
/* harness access to the model clock: ghost read (no time passes) and harness-driven time passage
 * (the amount is a harness input, so the native replay can follow it) */
uint64_t vf_clock_peek(void) { return (uint64_t)vf_clock_ns; }
void vf_clock_advance(uint64_t d) {
  __CPROVER_assume(d <= (uint64_t)(INT64_MAX - vf_clock_ns));
  vf_clock_ns += (int64_t)d;
}

/* mutex = blocking lock on the first word of the pthread_mutex_t */
#ifndef VF_SEQ
int vf_mutex_lock(void *m) {
  uint32_t *w = (uint32_t *)m;
  __CPROVER_atomic_begin();
  __CPROVER_assume(*w == 0);
  *w = 1;
  __CPROVER_atomic_end();
  return 0;
}

#endif /* !VF_SEQ */
int vf_mutex_trylock(void *m) {
  uint32_t *w = (uint32_t *)m;
  int r = 16;
  __CPROVER_atomic_begin();
  if (*w == 0) {
    *w = 1; r = 0;
#if defined(VF_SEQ) && defined(VF_RACE)
    vf_race_rmw(m, VF_ACQ);
#endif
  }
  __CPROVER_atomic_end();
  return r;
}
int vf_mutex_unlock(void *m) {
  uint32_t *w = (uint32_t *)m;
#if defined(VF_SEQ) && defined(VF_RACE)
  vf_race_store(m, VF_REL);
#endif
  __CPROVER_atomic_begin();
  *w = 0;
  __CPROVER_atomic_end();
  return 0;
}
int vf_personality(int a, int b, uint64_t c, void *d, void *e) { return 0; }
#if !(defined(VF_SEQ) && defined(VF_RACE))
void vf_race_write(void *p) { }
void vf_race_read(void *p) { }
#endif
void *vf_getenv(void *name) { return 0; }
uint64_t vf_strtoul(void *s, void *end, int base) { return (uint64_t)vf_strtol(s, end, base); }
#ifndef VF_HW
#define VF_HW 2
#endif
unsigned vf_hw_concurrency(void) { return VF_HW; }
/* std::thread: starting one only records it (and disposes of the callable state object through the
 * harness-provided hook); the thread's body is run by a model thread of the harness */
uint32_t vf_threads_started;
void vf_std_thread_state_dtor(void *st) { }
void vf_std_thread_state_run(void *st) { } /* vtable slot of std::thread::_State_impl<..>::_M_run, never called */
void vf_std_thread_start(void *thr, void *state_uptr, void *dep) {
  vf_threads_started++;
  *(uint64_t *)thr = vf_threads_started;
#if defined(VF_SEQ) && defined(VF_RACE)
  if (vf_threads_started < VF_NTHREADS) vf_race_spawn((int)vf_threads_started); /* start edge */
#endif
  void *st = *(void **)state_uptr;
  *(void **)state_uptr = 0;
#ifdef VF_HAVE_THREAD_MODEL
  vf_thread_state_dispose((uint8_t *)st); /* harness/common/thread_model.h */
#endif
}
void vf_std_thread_detach(void *thr) { *(uint64_t *)thr = 0; }
#ifndef VF_SEQ
/* sequential / par engines: worker threads are virtual (the harness performs their work) */
void vf_std_thread_join(void *thr) { *(uint64_t *)thr = 0; }
void vf_block_until(uint32_t *nonzero) { __CPROVER_assume(*nonzero != 0); }
void vf_wait_started(uint32_t n) { __CPROVER_assume(vf_threads_started >= n); }
#endif

#ifdef VF_UNTAG
uint8_t *vf_untag_obj[VF_UNTAG_MAX];
uint32_t vf_untag_n;
void vf_untag_register(uint8_t *p) {
  __CPROVER_assert(vf_untag_n < VF_UNTAG_MAX, "rt: too many vf_untag_register calls (raise VF_UNTAG_MAX)");
  if (vf_untag_n < VF_UNTAG_MAX) vf_untag_obj[vf_untag_n++] = p;
}
#endif

/* --- exceptions as opaque tokens ------------------------------------------------------------ */
#ifndef VF_SEQ
__thread void *vf_caught;
#endif
void *vf_cxa_begin_catch(void *e) { vf_caught = e; return e; }
void vf_cxa_end_catch(void) { }
void vf_cxa_rethrow(void) { vf_exc_obj = vf_caught; vf_exc_sel = 1; vf_unw = 2; }
void *vf_cxa_allocate_exception(uint64_t n) { return vf_malloc(n); }
void vf_cxa_free_exception(void *p) { }
void vf_cxa_throw(void *obj, void *ti, void *dtor) { vf_exc_obj = obj; vf_exc_sel = 1; vf_unw = 2; }
void vf_throw(uint32_t id) { vf_exc_obj = (void *)(uint64_t)(0x1000u + id); vf_exc_sel = 1; vf_unw = 2; }
void vf_current_exception(void *out) { *(void **)out = vf_caught; }
void vf_rethrow_exception(void *eptr) { vf_exc_obj = *(void **)eptr; vf_exc_sel = 1; vf_unw = 2; }
void vf_eptr_addref(void *p) { }
void vf_eptr_release(void *p) { }
void vf_eptr_copy(void *d, void *s) { *(void **)d = *(void **)s; }
void vf_eptr_dtor(void *p) { }
void vf_eptr_swap(void *a, void *b) { void *t = *(void **)a; *(void **)a = *(void **)b; *(void **)b = t; }
_Bool vf_uncaught_exception(void) { return 0; }

#ifndef VF_SEQ
/* --- entry ---------------------------------------------------------------------------------- */
void vf_global_ctors(void);
void vf_main(void);
void vf_entry(void) {
#ifdef VF_TRACE_RUN
  /* symbolic start values: no increment of the trace sums is constant-folded away */
  vf_trace_sum = nondet_u64();
  vf_trace_vsum = nondet_u64();
#endif
  vf_global_ctors();
  vf_main();
  /* observer */
  if (vf_unw == 1) { vf_unw = 0; }
  vf_join_all();
  for (int t = 0; t < VF_NTHREADS; t++) {
    /* a stuck hypothesis is only admissible if the thread was in fact never woken */
    __CPROVER_assume(!vf_stuck[t] || !vf_woken[t]);
  }
#ifdef VF_WITNESS
  __CPROVER_assert(0, "witness: end of harness reached");
#else
#ifndef VF_ALLOW_STUCK
  for (int t = 0; t < VF_NTHREADS; t++) {
    __CPROVER_assert(!vf_stuck[t], "check: thread parked forever (lost wake-up / deadlock)");
  }
#endif
#endif
}
#else
#include "seq_rt.c"
#endif
