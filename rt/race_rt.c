/* Happens-before race detector for the sequentialised engine (opt-in: rt_defs VF_RACE=1).
 *
 * The step machine explores sequentially consistent interleavings; this detector decides, for every
 * explored execution, whether the harness's *race probes* (vf_race_write / vf_race_read, placed in
 * the payload type's constructors, assignments and destructor, i.e. exactly where the code under
 * test touches plain shared data) are ordered by happens-before edges that the code's DECLARED
 * memory orders provide: release/acquire (and stronger) on the same atomic object, release
 * sequences continued by read-modify-writes, release/acquire fences, thread start/join, mutexes.
 * A relaxed access creates no edge, so weakening a publishing store or a consuming load to relaxed
 * is reported as a race even though the interleaving itself is sequentially consistent -- what
 * ThreadSanitizer would report, but for every schedule within the bound.
 * Approximation (stated in the evidence): an atomic load is taken to read from the latest store in
 * the explored order (SC); stale reads that only weak hardware shows are outside the model.
 */
/* The detector's own table accesses are in range by construction (indices come from loops over the
 * table sizes / thread ids): no bounds / overflow obligations are generated for this file. */
#pragma CPROVER check push
#pragma CPROVER check disable "bounds"
#pragma CPROVER check disable "pointer"
#pragma CPROVER check disable "signed-overflow"
#pragma CPROVER check disable "pointer-overflow"
#ifndef VF_RACE_ATOMS
#define VF_RACE_ATOMS 8    /* slots of the atomic-object table */
#endif
#ifndef VF_RACE_PROBES
#define VF_RACE_PROBES 8   /* slots of the probe table */
#endif
typedef unsigned char vf_clk;
vf_clk vf_vc[VF_NTHREADS][VF_NTHREADS];       /* vector clock of each thread */
vf_clk vf_acqpend[VF_NTHREADS][VF_NTHREADS];  /* clocks seen by relaxed loads, joined at an acquire fence */
vf_clk vf_relfence[VF_NTHREADS][VF_NTHREADS]; /* clock at the last release fence */
_Bool vf_has_relfence[VF_NTHREADS];
/* Release clocks carried by the current value of an atomic object.  vf_at_hd[a][h] is the clock of the
 * release sequence headed by thread h's latest release operation on a (0 = none); vf_at_vc[a] is the
 * join over all heads = what an acquire operation reading the current value synchronises with. */
vf_clk vf_at_hd[VF_RACE_ATOMS][VF_NTHREADS][VF_NTHREADS];
vf_clk vf_at_vc[VF_RACE_ATOMS][VF_NTHREADS];
void *vf_at_key[VF_RACE_ATOMS];   /* pointer-typed keys: equality of concrete addresses folds at symex time */
int vf_pr_wt[VF_RACE_PROBES];                 /* last writer thread, -1 none */
vf_clk vf_pr_wc[VF_RACE_PROBES];              /* its clock */
vf_clk vf_pr_rc[VF_RACE_PROBES][VF_NTHREADS]; /* last read clock per thread */
void *vf_pr_key[VF_RACE_PROBES];

/* Both tables are keyed by the exact address (linear search, entries are never removed), so two
 * objects never share an entry: a shared atomic entry would add happens-before edges (missed races),
 * a shared probe entry would invent races.  [An earlier version used direct-mapped
 * tables and cut (assume) every execution in which two probe addresses collided; with 6 probe addresses
 * in 8 slots that silently removed most executions -- a mutant-sized hole.]  A full table is reported
 * as an `rt:` failure (raise VF_RACE_ATOMS / VF_RACE_PROBES in rt_defs), never silently.
 * Cost: a table whose keys are entered at schedule-dependent times has symbolic contents, and every
 * later lookup yields a symbolic index (measured: 10x solver time).  Harnesses should therefore touch
 * every atomic object (a relaxed load) and every probe address (vf_race_read) once in vf_main BEFORE
 * the first vf_spawn, inside one `VfAtomic` scope (no preemption, see harness/C10/probe.h): the keys
 * are then constants, lookups of concrete addresses fold at symex time. */
static int vf_race_slot(void **keys, int n, void *k) {
  int r = -1;
  for (int i = 0; i < n; i++) /* entries are filled in index order: the first match or the first free one */
    if (r < 0 && (keys[i] == k || keys[i] == 0)) r = i;
  __CPROVER_assert(r >= 0, "rt: race detector table full (raise VF_RACE_ATOMS / VF_RACE_PROBES)");
  __CPROVER_assume(r >= 0);
  return r;
}
static int vf_race_atom(void *p) {
  int a = vf_race_slot(vf_at_key, VF_RACE_ATOMS, p);
  if (vf_at_key[a] == 0) vf_at_key[a] = p;
  return a;
}
static void vf_race_tick(int t) {
  __CPROVER_assume(vf_vc[t][t] < 250); /* model bound */
  vf_vc[t][t]++;
}
void vf_race_init(void) {
  for (int t = 0; t < VF_NTHREADS; t++) vf_vc[t][t] = 1;
}
/* Release sequences ([intro.races]): headed by a release operation A on M, continued by
 *  - read-modify-write operations of any thread, and
 *  - (C++11/14/17, the language level dispenso is written in) later plain stores to M by the thread
 *    that performed A.  C++20 (P0982R1) removed this second clause; define VF_RACE_CXX20 to check
 *    against the C++20 rule (reports strictly more races).
 * A plain store by thread t therefore ends the sequences headed by every OTHER thread and (pre-C++20)
 * keeps the one headed by t itself.  A relaxed store/RMW after a release fence of the same thread
 * behaves like a release operation carrying the fence's clock ([atomics.fences]). */
void vf_race_store(void *p, int o) {
  int t = vf_tid, a = vf_race_atom(p);
  _Bool rel = (o == VF_REL || o == VF_AR || o == VF_SC);
  for (int h = 0; h < VF_NTHREADS; h++)
    for (int u = 0; u < VF_NTHREADS; u++) {
      vf_clk c = 0;
      if (h == t) {
        if (rel) c = vf_vc[t][u];
        else {
#ifndef VF_RACE_CXX20
          c = vf_at_hd[a][t][u]; /* continues the release sequence headed by t's own earlier release */
#endif
          if (vf_has_relfence[t] && vf_relfence[t][u] > c) c = vf_relfence[t][u];
        }
      }
      vf_at_hd[a][h][u] = c;
    }
  for (int u = 0; u < VF_NTHREADS; u++) vf_at_vc[a][u] = vf_at_hd[a][t][u];
  vf_race_tick(t);
}
void vf_race_load(void *p, int o) {
  int t = vf_tid, a = vf_race_atom(p);
  for (int u = 0; u < VF_NTHREADS; u++) {
    vf_clk c = vf_at_vc[a][u];
    if (o == VF_ACQ || o == VF_AR || o == VF_SC) { if (c > vf_vc[t][u]) vf_vc[t][u] = c; }
    else if (c > vf_acqpend[t][u]) vf_acqpend[t][u] = c;
  }
}
void vf_race_rmw(void *p, int o) {
  int t = vf_tid, a = vf_race_atom(p);
  for (int u = 0; u < VF_NTHREADS; u++) {
    vf_clk old = vf_at_vc[a][u];
    /* acquire side */
    if (o == VF_ACQ || o == VF_AR || o == VF_SC) { if (old > vf_vc[t][u]) vf_vc[t][u] = old; }
    else if (old > vf_acqpend[t][u]) vf_acqpend[t][u] = old;
  }
  for (int u = 0; u < VF_NTHREADS; u++) {
    /* release side: an RMW continues every release sequence and may head one of its own */
    vf_clk add = 0;
    if (o == VF_REL || o == VF_AR || o == VF_SC) add = vf_vc[t][u];
    else if (vf_has_relfence[t]) add = vf_relfence[t][u];
    if (add > vf_at_hd[a][t][u]) vf_at_hd[a][t][u] = add;
    if (add > vf_at_vc[a][u]) vf_at_vc[a][u] = add;
  }
  vf_race_tick(t);
}
void vf_race_fence(int o) {
  int t = vf_tid;
  if (o == VF_ACQ || o == VF_AR || o == VF_SC)
    for (int u = 0; u < VF_NTHREADS; u++)
      if (vf_acqpend[t][u] > vf_vc[t][u]) vf_vc[t][u] = vf_acqpend[t][u];
  if (o == VF_REL || o == VF_AR || o == VF_SC) {
    for (int u = 0; u < VF_NTHREADS; u++) vf_relfence[t][u] = vf_vc[t][u];
    vf_has_relfence[t] = 1;
    vf_race_tick(t);
  }
}
void vf_race_spawn(int child) {
  int t = vf_tid;
  for (int u = 0; u < VF_NTHREADS; u++) vf_vc[child][u] = vf_vc[t][u];
  vf_vc[child][child] = 1;
  vf_race_tick(t);
}
void vf_race_join(int child) {
  int t = vf_tid;
  for (int u = 0; u < VF_NTHREADS; u++)
    if (vf_vc[child][u] > vf_vc[t][u]) vf_vc[t][u] = vf_vc[child][u];
}
static int vf_race_probe(void *p) {
  int i = vf_race_slot(vf_pr_key, VF_RACE_PROBES, p);
  if (vf_pr_key[i] == 0) {
    vf_pr_key[i] = p;
    vf_pr_wt[i] = -1;
  }
  return i;
}
void vf_race_write(void *p) {
  int t = vf_tid, i = vf_race_probe(p);
  _Bool ok = vf_pr_wt[i] < 0 || vf_pr_wt[i] == t || vf_pr_wc[i] <= vf_vc[t][vf_pr_wt[i]];
  for (int u = 0; u < VF_NTHREADS; u++)
    if (u != t && vf_pr_rc[i][u] > vf_vc[t][u]) ok = 0;
  VF_CHECK(ok, "data race: a write to shared payload is not ordered after a conflicting access by another thread (declared memory orders give no happens-before edge)");
  vf_pr_wt[i] = t;
  vf_pr_wc[i] = vf_vc[t][t];
  for (int u = 0; u < VF_NTHREADS; u++) vf_pr_rc[i][u] = 0;
}
void vf_race_read(void *p) {
  int t = vf_tid, i = vf_race_probe(p);
  _Bool ok = vf_pr_wt[i] < 0 || vf_pr_wt[i] == t || vf_pr_wc[i] <= vf_vc[t][vf_pr_wt[i]];
  VF_CHECK(ok, "data race: a read of shared payload is not ordered after the last write by another thread (declared memory orders give no happens-before edge)");
  vf_pr_rc[i][t] = vf_vc[t][t];
}
#pragma CPROVER check pop
