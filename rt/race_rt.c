/* Happens-before race detector for the sequentialised engine (opt-in: rt_defs VF_RACE=1).
 *
 * The step machine explores sequentially consistent interleavings; this detector decides, for every
 * explored execution, whether the harness's *race probes* (vf_race_write / vf_race_read, placed in
 * the payload type's constructors, assignments and destructor, i.e. exactly where the code under
 * test touches plain shared data) are ordered by happens-before edges that the code's DECLARED
 * memory orders provide: release/acquire (and stronger) on the same atomic object, release
 * sequences continued by read-modify-writes, release/acquire fences, thread start/join, mutexes.
 * A relaxed access creates no edge, so weakening a publishing store or a consuming load to relaxed
 * is reported as a race even though the interleaving itself is sequentially consistent -- what
 * ThreadSanitizer would report, but for every schedule within the bound.
 * Approximation (stated in the evidence): an atomic load is taken to read from the latest store in
 * the explored order (SC); stale reads that only weak hardware shows are outside the model.
 */
#ifndef VF_RACE_ATOMS
#define VF_RACE_ATOMS 8    /* slots of the atomic-object table (power of two) */
#endif
#ifndef VF_RACE_PROBES
#define VF_RACE_PROBES 8   /* slots of the probe table (power of two) */
#endif
typedef unsigned char vf_clk;
vf_clk vf_vc[VF_NTHREADS][VF_NTHREADS];       /* vector clock of each thread */
vf_clk vf_acqpend[VF_NTHREADS][VF_NTHREADS];  /* clocks seen by relaxed loads, joined at an acquire fence */
vf_clk vf_relfence[VF_NTHREADS][VF_NTHREADS]; /* clock at the last release fence */
_Bool vf_has_relfence[VF_NTHREADS];
vf_clk vf_at_vc[VF_RACE_ATOMS][VF_NTHREADS];  /* release clock carried by the atomic's current value */
int vf_pr_wt[VF_RACE_PROBES];                 /* last writer thread, -1 none */
vf_clk vf_pr_wc[VF_RACE_PROBES];              /* its clock */
vf_clk vf_pr_rc[VF_RACE_PROBES][VF_NTHREADS]; /* last read clock per thread */

/* Atomic objects are kept in a small direct-mapped table keyed by a hash of the address; two atomics
 * that collide share one release clock, which can only ADD happens-before edges (fewer race reports,
 * never a false one). */
static int vf_race_atom(void *p) {
  uint64_t k = (uint64_t)p;
  return (int)(((k >> 54) ^ (k >> 6) ^ (k >> 3)) & (VF_RACE_ATOMS - 1));
}
static void vf_race_tick(int t) {
  __CPROVER_assume(vf_vc[t][t] < 250); /* model bound */
  vf_vc[t][t]++;
}
void vf_race_init(void) {
  for (int t = 0; t < VF_NTHREADS; t++) vf_vc[t][t] = 1;
}
void vf_race_store(void *p, int o) {
  int t = vf_tid, a = vf_race_atom(p);
  for (int u = 0; u < VF_NTHREADS; u++) {
    vf_clk c = 0;
    if (o == VF_REL || o == VF_AR || o == VF_SC) c = vf_vc[t][u];
    else if (vf_has_relfence[t]) c = vf_relfence[t][u];
    vf_at_vc[a][u] = c; /* a plain store starts a new release sequence (or none) */
  }
  vf_race_tick(t);
}
void vf_race_load(void *p, int o) {
  int t = vf_tid, a = vf_race_atom(p);
  for (int u = 0; u < VF_NTHREADS; u++) {
    vf_clk c = vf_at_vc[a][u];
    if (o == VF_ACQ || o == VF_AR || o == VF_SC) { if (c > vf_vc[t][u]) vf_vc[t][u] = c; }
    else if (c > vf_acqpend[t][u]) vf_acqpend[t][u] = c;
  }
}
void vf_race_rmw(void *p, int o) {
  int t = vf_tid, a = vf_race_atom(p);
  for (int u = 0; u < VF_NTHREADS; u++) {
    vf_clk old = vf_at_vc[a][u];
    /* acquire side */
    if (o == VF_ACQ || o == VF_AR || o == VF_SC) { if (old > vf_vc[t][u]) vf_vc[t][u] = old; }
    else if (old > vf_acqpend[t][u]) vf_acqpend[t][u] = old;
  }
  for (int u = 0; u < VF_NTHREADS; u++) {
    /* release side: an RMW continues the release sequence and may add its own clock */
    vf_clk add = 0;
    if (o == VF_REL || o == VF_AR || o == VF_SC) add = vf_vc[t][u];
    else if (vf_has_relfence[t]) add = vf_relfence[t][u];
    if (add > vf_at_vc[a][u]) vf_at_vc[a][u] = add;
  }
  vf_race_tick(t);
}
void vf_race_fence(int o) {
  int t = vf_tid;
  if (o == VF_ACQ || o == VF_AR || o == VF_SC)
    for (int u = 0; u < VF_NTHREADS; u++)
      if (vf_acqpend[t][u] > vf_vc[t][u]) vf_vc[t][u] = vf_acqpend[t][u];
  if (o == VF_REL || o == VF_AR || o == VF_SC) {
    for (int u = 0; u < VF_NTHREADS; u++) vf_relfence[t][u] = vf_vc[t][u];
    vf_has_relfence[t] = 1;
    vf_race_tick(t);
  }
}
void vf_race_spawn(int child) {
  int t = vf_tid;
  for (int u = 0; u < VF_NTHREADS; u++) vf_vc[child][u] = vf_vc[t][u];
  vf_vc[child][child] = 1;
  vf_race_tick(t);
}
void vf_race_join(int child) {
  int t = vf_tid;
  for (int u = 0; u < VF_NTHREADS; u++)
    if (vf_vc[child][u] > vf_vc[t][u]) vf_vc[t][u] = vf_vc[child][u];
}
/* Probe addresses must be exact (a collision would invent a race): direct-mapped with the key
 * stored; executions in which two live probe addresses collide are cut (model bound). */
uint64_t vf_pr_key[VF_RACE_PROBES];
static int vf_race_probe(void *p) {
  uint64_t k = (uint64_t)p;
  int i = (int)(((k >> 54) ^ (k >> 6) ^ (k >> 2)) & (VF_RACE_PROBES - 1));
  if (vf_pr_key[i] == 0) {
    vf_pr_key[i] = k;
    vf_pr_wt[i] = -1;
  }
  __CPROVER_assume(vf_pr_key[i] == k); /* model bound */
  return i;
}
void vf_race_write(void *p) {
  int t = vf_tid, i = vf_race_probe(p);
  _Bool ok = vf_pr_wt[i] < 0 || vf_pr_wt[i] == t || vf_pr_wc[i] <= vf_vc[t][vf_pr_wt[i]];
  for (int u = 0; u < VF_NTHREADS; u++)
    if (u != t && vf_pr_rc[i][u] > vf_vc[t][u]) ok = 0;
  VF_CHECK(ok, "data race: a write to shared payload is not ordered after a conflicting access by another thread (declared memory orders give no happens-before edge)");
  vf_pr_wt[i] = t;
  vf_pr_wc[i] = vf_vc[t][t];
  for (int u = 0; u < VF_NTHREADS; u++) vf_pr_rc[i][u] = 0;
}
void vf_race_read(void *p) {
  int t = vf_tid, i = vf_race_probe(p);
  _Bool ok = vf_pr_wt[i] < 0 || vf_pr_wt[i] == t || vf_pr_wc[i] <= vf_vc[t][vf_pr_wt[i]];
  VF_CHECK(ok, "data race: a read of shared payload is not ordered after the last write by another thread (declared memory orders give no happens-before edge)");
  vf_pr_rc[i][t] = vf_vc[t][t];
}
