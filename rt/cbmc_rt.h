/* Runtime model for the generated C (CBMC C front end).  Everything here is an environment stub
 * obeying only the documented contract of the thing it replaces; the list is echoed into every
 * evidence file.  Configuration macros (set by the check per harness):
 *   VF_NTHREADS   max model threads incl. main (default 5)
 *   VF_SPURIOUS   futex spurious-return budget per thread (default 1)
 *   VF_WITNESS    reachability twin: user checks disabled, end-of-run marker must be reachable
 */
#ifndef VF_CBMC_RT_H
#define VF_CBMC_RT_H
#if defined(VF_SEQ) || defined(VF_SEQUENTIAL)
/* single CBMC thread: atomic sections are meaningless (and CBMC rejects unbalanced ones) */
#define __CPROVER_atomic_begin() ((void)0)
#define __CPROVER_atomic_end() ((void)0)
#endif
#include <stdint.h>
#include <stddef.h>
#include <stdlib.h>

typedef unsigned __int128 vf_u128;
typedef __int128 vf_s128;

#ifndef VF_NTHREADS
#define VF_NTHREADS 5
#endif
#ifndef VF_SPURIOUS
#define VF_SPURIOUS 1
#endif

/* --- nondeterminism ------------------------------------------------------------------------ */
uint8_t nondet_u8(void);
uint16_t nondet_u16(void);
uint32_t nondet_u32(void);
uint64_t nondet_u64(void);
_Bool nondet_bool(void);
int nondet_int(void);
void *nondet_ptr(void);

#ifndef VF_NLOG
#define VF_NLOG 64
#endif
/* every harness input is logged so that a counterexample can be replayed natively */
extern uint64_t vf_inlog[VF_NLOG];
extern unsigned vf_inlog_n;

/* --- per-thread state ---------------------------------------------------------------------- */
#ifndef VF_SEQ
extern __thread int vf_unw;      /* 0 normal, 1 thread declared stuck forever, 2 exception in flight */
extern __thread void *vf_exc_obj;
extern __thread int vf_exc_sel;
extern __thread int vf_tid;      /* model thread index, main = 0 */
extern __thread int vf_spur;     /* spurious futex returns used */
#else
/* Sequentialised encoding (engine 'cbmc-seq'): all model threads run inside one CBMC thread under a
 * symbolic scheduler (vf_entry); a thread root is a resumable function (see vf/ir2c.py, seq mode).
 * Per-thread runtime state lives in arrays indexed by the running thread. */
#ifndef VF_STEPS
#define VF_STEPS 8       /* execution segments (context switches + 1) explored */
#endif
#ifndef VF_PREEMPTS
#define VF_PREEMPTS VF_STEPS /* involuntary switches (at atomic operations) per execution */
#endif
extern int vf_tid;
extern int vf_unw_a[VF_NTHREADS];
extern void *vf_exc_obj_a[VF_NTHREADS];
extern int vf_exc_sel_a[VF_NTHREADS];
extern int vf_spur_a[VF_NTHREADS];
extern void *vf_caught_a[VF_NTHREADS];
#define vf_unw vf_unw_a[vf_tid]
#define vf_exc_obj vf_exc_obj_a[vf_tid]
#define vf_exc_sel vf_exc_sel_a[vf_tid]
#define vf_spur vf_spur_a[vf_tid]
#define vf_caught vf_caught_a[vf_tid]
extern int vf_pc[VF_NTHREADS];     /* resume point of each thread root; -1 = finished */
extern _Bool vf_blk;               /* set by a blocking primitive that could not complete */
extern _Bool vf_fresh[VF_NTHREADS]; /* thread root not entered yet */
extern _Bool vf_paused;            /* the running thread gave up the processor at a spin hint */
extern int vf_in_ghost;            /* inside a harness ghost-state section: no preemption */
extern int vf_vis_t;               /* trace marker: thread performing a visible operation */
_Bool vf_preempt(int k);
_Bool vf_slot_begin(int k);
#define VF_SEQUENTIAL 1
#define VF_ATOMIC_BEGIN(site) VF_VIS(vf_tid)
#define VF_ATOMIC_END(site) ((void)0)
#define VF_NOBLOCK() __CPROVER_assert(!vf_blk, "rt: blocking call inside a function that was not inlined into its thread root")
#endif

#define VF_RLX 0
#define VF_ACQ 1
#define VF_REL 2
#define VF_AR 3
#define VF_SC 4

#ifndef VF_SEQ
#ifndef VF_SEQUENTIAL
#define VF_ATOMIC_BEGIN(site) __CPROVER_atomic_begin()
#define VF_ATOMIC_END(site) __CPROVER_atomic_end()
#else
#define VF_ATOMIC_BEGIN(site) ((void)0)
#define VF_ATOMIC_END(site) ((void)0)
#endif
#endif
#if defined(VF_SEQ) && defined(VF_RACE)
void vf_race_store(void *p, int o);
void vf_race_load(void *p, int o);
void vf_race_rmw(void *p, int o);
void vf_race_fence(int o);
void vf_race_spawn(int child);
void vf_race_join(int child);
void vf_race_init(void);
#define VF_ATOMIC_LOAD(site, p, o) vf_race_load((void *)(p), (o))
#define VF_ATOMIC_STORE(site, p, o) vf_race_store((void *)(p), (o))
#define VF_ATOMIC_RMW(site, p, o) vf_race_rmw((void *)(p), (o))
#define VF_FENCE(site, o) (VF_VIS(vf_tid), vf_race_fence(o))
#endif
#if defined(VF_SEQ) && defined(VF_RACE)
#define VF_RACE_SPAWN(k) vf_race_spawn(k)
#else
#define VF_RACE_SPAWN(k) ((void)0)
#endif
void vf_race_write(void *p); /* race probes (harness vocabulary); no-ops unless VF_SEQ && VF_RACE */
void vf_race_read(void *p);
#ifndef VF_ATOMIC_LOAD
#define VF_ATOMIC_LOAD(site, p, o) ((void)0)
#define VF_ATOMIC_STORE(site, p, o) ((void)0)
#define VF_ATOMIC_RMW(site, p, o) ((void)0)
#ifdef VF_SEQ
/* a fence is a visible operation too: the native replay yields before it, so it needs a schedule entry */
#define VF_FENCE(site, o) VF_VIS(vf_tid)
#else
#define VF_FENCE(site, o) ((void)0)
#endif
#endif
#define VF_PAUSE() ((void)0)
#ifdef VF_WEAK_CAS_MAY_FAIL
#define VF_CAS_SPURIOUS_FAIL(site) nondet_bool()
#else
#define VF_CAS_SPURIOUS_FAIL(site) 0
#endif

/* Trace runs (-DVF_TRACE_RUN): a counterexample trace is wanted for the native replay.  To be able to
 * extract it from a SLICED formula (the unsliced one can be orders of magnitude bigger), every
 * logged input and every schedule marker feeds a running sum that every harness check mentions, so
 * the slicer keeps those assignments; the extra disjunct never hides a failure (the solver is free to
 * make the sum differ from the constant). */
extern uint64_t vf_trace_sum;
#ifdef VF_TRACE_RUN
#define VF_TRACE_KEEP(v) (vf_trace_sum += (uint64_t)(v) + 1)
#define VF_TRACE_DISJ || (vf_trace_sum == 0x5bd1e9955bd1e995ULL)
#else
#define VF_TRACE_KEEP(v) ((void)0)
#define VF_TRACE_DISJ
#endif
/* schedule markers are constants for CBMC (the running thread is concrete), so in a sliced trace only
 * their running sum survives: the extractor recovers each marker as the difference of successive
 * values of vf_trace_vsum */
extern uint64_t vf_trace_vsum;
#ifdef VF_TRACE_RUN
#define VF_VIS(x) (vf_vis_t = (x), vf_trace_vsum += (uint64_t)(vf_vis_t) + 1)
#undef VF_TRACE_DISJ
#define VF_TRACE_DISJ || (vf_trace_sum == 0x5bd1e9955bd1e995ULL) || (vf_trace_vsum == 0x5bd1e9955bd1e995ULL)
#else
#define VF_VIS(x) (vf_vis_t = (x))
#endif
#ifdef VF_WITNESS
#define VF_CHECK(c, label) ((void)(c))
#else
#define VF_CHECK(c, label) __CPROVER_assert((c) VF_TRACE_DISJ, "check: " label)
#endif
#ifdef VF_WITNESS
#define VF_REACH(label) __CPROVER_assert(0, "reach: " label)
#else
#define VF_REACH(label) ((void)0) /* reachability markers are decided by the witness twin only */
#endif
#define VF_UNREACHABLE(fn) do { __CPROVER_assert(0, "ub: unreachable reached in " fn); __CPROVER_assume(0); } while (0)

#define VF_PUN(T, S, v) (*(T *)&(S){v})

/* --- harness vocabulary (called from the lifted C++ harness) -------------------------------- */
uint8_t vf_nondet_u8(void);
uint16_t vf_nondet_u16(void);
uint32_t vf_nondet_u32(void);
uint64_t vf_nondet_u64(void);
_Bool vf_nondet_bool(void);
void vf_atomic_begin(void);
void vf_atomic_end(void);
int vf_self(void);
void vf_join_all(void);           /* block until every spawned thread finished or is stuck */
_Bool vf_any_stuck(void);
_Bool vf_is_dead(void);
void vf_note(uint32_t tag, uint64_t v); /* marker that shows up in traces */

/* --- threads ------------------------------------------------------------------------------- */
extern _Bool vf_fin[VF_NTHREADS];
extern _Bool vf_stuck[VF_NTHREADS];
extern _Bool vf_woken[VF_NTHREADS];
extern uint64_t vf_parked[VF_NTHREADS]; /* addresses as integers: CBMC does not track pointers written by other threads */

extern _Bool vf_spawned[VF_NTHREADS];
extern uint64_t vf_thr_arg[VF_NTHREADS];
void vf_thread_done(int t);
/* typed allocation: the object gets element type T when the size is a multiple of sizeof(T) */
#define VF_MALLOC_T(T, n) vf_nonnull(((uint64_t)(n) % sizeof(T) == 0) \
    ? __CPROVER_allocate(sizeof(T) * ((uint64_t)(n) / sizeof(T)), 0) : __CPROVER_allocate((uint64_t)(n), 0))
static inline void *vf_nonnull(void *p) { __CPROVER_assume(p != 0); return p; }
void *vf_aligned_malloc(uint64_t bytes, uint64_t alignment); /* contract of detail::alignedMalloc (C44) */
void vf_aligned_free(void *p);
uint8_t *vf_c30_pool_alloc(void *self); /* C30/C31: contract of NoLockPoolAllocator::alloc (defined in harness/C30/pool_model.c via rt_extra) */
/* --- libc / c++ runtime -------------------------------------------------------------------- */
void *vf_malloc(uint64_t n);
void *vf_malloc_nt(uint64_t n, void *);
void *vf_malloc_al(uint64_t n, uint64_t al);
void *vf_calloc(uint64_t a, uint64_t b);
void *vf_realloc(void *p, uint64_t n);
void *vf_aligned_alloc(uint64_t al, uint64_t n);
int vf_posix_memalign(void **out, uint64_t al, uint64_t n);
void vf_free(void *p);
void vf_free_sized(void *p, uint64_t n);
void vf_free_sized3(void *p, uint64_t n, uint64_t a);
void vf_abort(void);
void vf_abort1(void *);
void vf_abort1i(int);
void vf_abort_va(void *, ...);
void vf_exit(int);
void vf_assert_fail(void *, void *, unsigned, void *);
void vf_call_terminate(void *);
int vf_sched_yield(void);
int vf_nanosleep(void *req, void *rem);
int vf_guard_acquire(void *g);
void vf_guard_release(void *g);
int vf_cxa_atexit(void *f, void *a, void *d);
int vf_cxa_thread_atexit(void *f, void *a, void *d);
uint64_t vf_strlen(void *s);
int vf_strcmp(void *a, void *b);
int vf_memcmp(void *a, void *b, uint64_t n);
void *vf_strchr(void *s, int c);
void *vf_memchr(void *s, int c, uint64_t n);
int64_t vf_strtol(void *s, void **end, int base);
int vf_sched_cpucount(uint64_t setsize, void *set);
void *vf_string_M_create(void *self, uint64_t *cap, uint64_t old_cap);
int *vf_errno_location(void);
int64_t vf_syscall(uint64_t nr, uint64_t a1, uint64_t a2, uint64_t a3, uint64_t a4, uint64_t a5, uint64_t a6);
void vf_memcpy(void *d, const void *s, uint64_t n);
void vf_memmove(void *d, const void *s, uint64_t n);
void vf_memset(void *d, uint8_t c, uint64_t n);
int64_t vf_steady_now(void);
int vf_clock_gettime(int clk, void *ts);
int vf_mutex_lock(void *m);
int vf_mutex_unlock(void *m);
int vf_mutex_trylock(void *m);
int vf_personality(int, int, uint64_t, void *, void *);
/* std::thread model: the n-th started std::thread corresponds to model thread n (spawn order) */
void vf_std_thread_start(void *thr, void *state_uptr, void *dep);
void vf_std_thread_join(void *thr);
void vf_std_thread_detach(void *thr);
unsigned vf_hw_concurrency(void);
void vf_std_thread_state_dtor(void *st);
void vf_std_thread_state_run(void *st);
void *vf_getenv(void *name);
uint64_t vf_strtoul(void *s, void *end, int base);
void vf_block_until(uint32_t *nonzero); /* block the calling thread until *nonzero != 0 */
void vf_wait_started(uint32_t n);       /* block until the n-th std::thread has been started */

/* exceptions: opaque tokens */
void *vf_cxa_begin_catch(void *);
void vf_cxa_end_catch(void);
void vf_cxa_rethrow(void);
void *vf_cxa_allocate_exception(uint64_t);
void vf_cxa_free_exception(void *);
void vf_cxa_throw(void *, void *, void *);
void vf_throw(uint32_t id);
void vf_current_exception(void *out);
void vf_rethrow_exception(void *eptr_by_value);
void vf_eptr_addref(void *);
void vf_eptr_release(void *);
void vf_eptr_copy(void *, void *);
void vf_eptr_dtor(void *);
void vf_eptr_swap(void *, void *);
_Bool vf_uncaught_exception(void);

/* bit helpers */
/* loop-free, defined on 0 as LLVM defines them (ctlz(0)=width) */
static inline uint64_t vf_ctlz64(uint64_t x) {
  if (!x) return 64;
  uint64_t n = 0;
  if (!(x >> 32)) { n += 32; x <<= 32; }
  if (!(x >> 48)) { n += 16; x <<= 16; }
  if (!(x >> 56)) { n += 8; x <<= 8; }
  if (!(x >> 60)) { n += 4; x <<= 4; }
  if (!(x >> 62)) { n += 2; x <<= 2; }
  if (!(x >> 63)) { n += 1; }
  return n;
}
static inline uint32_t vf_ctlz32(uint32_t x) { return x ? (uint32_t)(vf_ctlz64(x) - 32) : 32; }
static inline uint64_t vf_cttz64(uint64_t x) {
  if (!x) return 64;
  uint64_t n = 0;
  if (!(x & 0xffffffffull)) { n += 32; x >>= 32; }
  if (!(x & 0xffff)) { n += 16; x >>= 16; }
  if (!(x & 0xff)) { n += 8; x >>= 8; }
  if (!(x & 0xf)) { n += 4; x >>= 4; }
  if (!(x & 3)) { n += 2; x >>= 2; }
  if (!(x & 1)) { n += 1; }
  return n;
}
static inline uint32_t vf_cttz32(uint32_t x) { return x ? (uint32_t)vf_cttz64(x) : 32; }
static inline uint16_t vf_cttz16(uint16_t x) { return x ? (uint16_t)vf_cttz64(x) : 16; }
static inline uint8_t vf_cttz8(uint8_t x) { return x ? (uint8_t)vf_cttz64(x) : 8; }
static inline uint16_t vf_ctlz16(uint16_t x) { return x ? (uint16_t)(vf_ctlz64(x) - 48) : 16; }
static inline uint8_t vf_ctlz8(uint8_t x) { return x ? (uint8_t)(vf_ctlz64(x) - 56) : 8; }
static inline uint32_t vf_ctpop32(uint32_t x) { return (uint32_t)__builtin_popcount(x); }
static inline uint64_t vf_ctpop64(uint64_t x) { return (uint64_t)__builtin_popcountll(x); }
static inline uint16_t vf_ctpop16(uint16_t x) { return (uint16_t)__builtin_popcount(x); }
static inline uint8_t vf_ctpop8(uint8_t x) { return (uint8_t)__builtin_popcount(x); }
static inline uint64_t vf_bsr64(uint64_t x) { return 63 - vf_ctlz64(x); }
static inline uint32_t vf_bsr32(uint32_t x) { return 31 - vf_ctlz32(x); }
static inline uint64_t vf_bsf64(uint64_t x) { return vf_cttz64(x); }
static inline uint32_t vf_bsf32(uint32_t x) { return vf_cttz32(x); }
static inline uint64_t vf_fshl64(uint64_t a, uint64_t b, uint64_t s) { s &= 63; return s ? (a << s) | (b >> (64 - s)) : a; }
static inline uint32_t vf_fshl32(uint32_t a, uint32_t b, uint32_t s) { s &= 31; return s ? (a << s) | (b >> (32 - s)) : a; }
static inline uint64_t vf_fshr64(uint64_t a, uint64_t b, uint64_t s) { s &= 63; return s ? (a << (64 - s)) | (b >> s) : b; }
static inline uint32_t vf_fshr32(uint32_t a, uint32_t b, uint32_t s) { s &= 31; return s ? (a << (32 - s)) | (b >> s) : b; }
static inline uint64_t vf_bswap64(uint64_t x) { return __builtin_bswap64(x); }
static inline uint32_t vf_bswap32(uint32_t x) { return __builtin_bswap32(x); }
static inline uint16_t vf_bswap16(uint16_t x) { return (uint16_t)((x << 8) | (x >> 8)); }
static inline double vf_fabs(double x) { return x < 0 ? -x : x; }
/* opt-in (rt_defs VF_UNTAG=<2^k>, see vf/ir2c.py): tagged-pointer support.  The harness registers the 2^k-aligned objects
 * whose addresses carry tag bits (vf_untag_register); `inttoptr (and X, -2^k)` is routed through vf_untag, which returns the
 * registered object whose address equals the masked value -- the equality is asserted (class rt), not assumed. */
#ifdef VF_UNTAG
#ifndef VF_UNTAG_MAX
#define VF_UNTAG_MAX 2
#endif
extern uint8_t *vf_untag_obj[VF_UNTAG_MAX];
extern uint32_t vf_untag_n;
void vf_untag_register(uint8_t *p);
static inline void *vf_untag(uint64_t a) {
  uint8_t *r = vf_untag_obj[0];
#if VF_UNTAG_MAX > 1
  if (vf_untag_n > 1 && (uint64_t)vf_untag_obj[1] == a) r = vf_untag_obj[1];
#endif
#if VF_UNTAG_MAX > 2
  if (vf_untag_n > 2 && (uint64_t)vf_untag_obj[2] == a) r = vf_untag_obj[2];
#endif
  __CPROVER_assert((uint64_t)r == a, "rt: masked tagged pointer is the address of an object registered with vf_untag_register");
  return r;
}
#endif

#endif
