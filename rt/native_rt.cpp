// Native runtime for (a) translator validation and (b) counterexample replay against the real,
// natively compiled code.  Inputs come from VF_REPLAY (json-ish list of integers) or a PRNG seeded
// by VF_SEED.  Threads created by vf_spawn run under a baton scheduler that follows the schedule in
// VF_SCHED (space separated model-thread ids, one per visible operation: every atomic instruction
// and every futex call calls vf_yield first -- inserted into the IR by vf/replay.py).
#include <pthread.h>
#include <atomic>
#include <cstdint>
#include <cstdio>
#include <cstdlib>
#include <cstring>
#include <cerrno>
#include <climits>
#include <vector>
#include <string>
#include <unistd.h>
#include <sys/syscall.h>

namespace {
std::vector<uint64_t> g_inputs;
size_t g_in_pos = 0;
bool g_have_replay = false;
uint64_t g_rng = 88172645463325252ull;
uint64_t g_digest = 1469598103934665603ull;
int g_check_failures = 0;

void digest(uint64_t v) {
  g_digest ^= v;
  g_digest *= 1099511628211ull;
}
uint64_t rnd() {
  g_rng ^= g_rng << 13;
  g_rng ^= g_rng >> 7;
  g_rng ^= g_rng << 17;
  return g_rng;
}
uint64_t next_input(unsigned bits) {
  uint64_t v;
  if (g_have_replay) {
    v = g_in_pos < g_inputs.size() ? g_inputs[g_in_pos] : 0;
    g_in_pos++;
  } else {
    uint64_t r = rnd();
    // bias to small / boundary values
    switch (r & 7) {
      case 0: v = (r >> 8) & 3; break;
      case 1: v = (r >> 8) & 15; break;
      case 2: v = ~0ull - ((r >> 8) & 3); break;
      case 3: v = (1ull << ((r >> 8) & 63)) - ((r >> 16) & 1); break;
      default: v = rnd(); break;
    }
    if ((r >> 40) & 1) v &= 0xff;
  }
  if (bits < 64) v &= (1ull << bits) - 1;
  digest(v);
  return v;
}

// ---------------------------------------------------------------- baton scheduler
constexpr int kMaxThreads = 16;
pthread_mutex_t g_mu = PTHREAD_MUTEX_INITIALIZER;
pthread_cond_t g_cv = PTHREAD_COND_INITIALIZER;
int g_current = 0;           // holder of the baton
int g_nthreads = 1;          // incl. main
bool g_started[kMaxThreads], g_finished[kMaxThreads];
const void* g_parked_on[kMaxThreads];
bool g_woken[kMaxThreads];
std::vector<int> g_sched;
size_t g_pos = 0;
bool g_threads_used = false;
thread_local int t_id = 0;
pthread_t g_pt[kMaxThreads];

// model clock + exact futex timeouts (rt option VF_FUTEX_TIMEOUT_EXACT, exported to the replay's
// environment): schedule entries 32+k / 64+k mean "parked thread k returns spuriously / times out"
int64_t g_clock_ns = 0;
int g_wake_kind[kMaxThreads];      // 0 woken by FUTEX_WAKE, 1 spurious (EINTR), 2 timeout
int64_t g_deadline[kMaxThreads];
bool g_timed[kMaxThreads];
int64_t g_last_ts[kMaxThreads];
uint32_t g_timed_n[kMaxThreads];
bool futex_exact() {
  static int v = -1;
  if (v < 0) { const char* e = getenv("VF_FUTEX_TIMEOUT_EXACT"); v = (e && *e && *e != '0') ? 1 : 0; }
  return v == 1;
}

bool runnable(int t) {
  return g_started[t] && !g_finished[t] && (g_parked_on[t] == nullptr || g_woken[t]);
}
void report_deadlock() {
  fprintf(stderr, "VF_DEADLOCK: all unfinished threads are parked:");
  for (int t = 0; t < g_nthreads; ++t)
    if (g_started[t] && !g_finished[t]) fprintf(stderr, " t%d", t);
  fprintf(stderr, "\n");
  fflush(stderr);
  _exit(3);
}
// pick who runs next; called with g_mu held by the current baton holder, which is about to wait.
int pick_next(int me, bool me_can_run) {
  while (g_pos < g_sched.size()) {
    int t = g_sched[g_pos];
    if (t >= 32 && t < 96 && futex_exact()) {  // spurious return / timeout of a parked futex waiter
      int tt = t & 31;
      if (tt < g_nthreads && g_parked_on[tt] != nullptr && !g_woken[tt] && !g_finished[tt]) {
        g_woken[tt] = true;
        g_wake_kind[tt] = t >= 64 ? 2 : 1;
        if (t >= 64 && g_timed[tt] && g_clock_ns < g_deadline[tt]) g_clock_ns = g_deadline[tt];
        g_pos++;
        return tt;  // the resumed waiter runs next (its return from the wait is not a visible operation)
      }
      g_pos++;
      continue;
    }
    if (t >= 0 && t < g_nthreads && runnable(t)) return t;
    if (t >= g_nthreads || t < 0 || g_finished[t]) { g_pos++; continue; }  // stale entry
    break;  // scheduled thread is parked and not woken: fall back
  }
  if (me_can_run) return me;
  for (int i = 1; i <= g_nthreads; ++i) {
    int t = (me + i) % g_nthreads;
    if (runnable(t)) return t;
  }
  return -1;
}
void wait_for_baton(int me) {
  while (g_current != me) pthread_cond_wait(&g_cv, &g_mu);
}
void pass_baton(int to) {
  g_current = to;
  pthread_cond_broadcast(&g_cv);
}
}  // namespace

extern "C" {
void vf_yield(int site) {
  if (!g_threads_used) {
    // visible operation of main before the first spawn: the model's schedule has an entry for it too
    if (g_pos < g_sched.size() && g_sched[g_pos] == 0) g_pos++;
    return;
  }
  pthread_mutex_lock(&g_mu);
  int me = t_id;
  // my next visible operation: wait until it is my turn in the schedule
  for (;;) {
    int nxt = pick_next(me, true);
    if (nxt == me) break;
    pass_baton(nxt);
    wait_for_baton(me);
  }
  if (g_pos < g_sched.size() && g_sched[g_pos] == me) g_pos++;
  pthread_mutex_unlock(&g_mu);
}

static void* thread_tramp(void* p);
struct Spawn { void (*fn)(void*); void* arg; int id; };

void vf_spawn(void (*fn)(void*), void* arg) {
  g_threads_used = true;
  pthread_mutex_lock(&g_mu);
  int id = g_nthreads++;
  if (id >= kMaxThreads) { fprintf(stderr, "too many threads\n"); _exit(2); }
  g_started[id] = true;
  Spawn* s = new Spawn{fn, arg, id};
  pthread_mutex_unlock(&g_mu);
  pthread_create(&g_pt[id], nullptr, thread_tramp, s);
}
static void* thread_tramp(void* p) {
  Spawn* s = static_cast<Spawn*>(p);
  t_id = s->id;
  pthread_mutex_lock(&g_mu);
  wait_for_baton(t_id);
  pthread_mutex_unlock(&g_mu);
  s->fn(s->arg);
  pthread_mutex_lock(&g_mu);
  g_finished[t_id] = true;
  int nxt = pick_next(t_id, false);
  if (nxt < 0) {
    bool any = false;
    for (int t = 0; t < g_nthreads; ++t) any = any || (g_started[t] && !g_finished[t]);
    if (any) report_deadlock();
    nxt = 0;
  }
  pass_baton(nxt);
  pthread_mutex_unlock(&g_mu);
  delete s;
  return nullptr;
}
// main thread: wait until all spawned threads are finished (or deadlock)
void vf_join_all() {
  if (!g_threads_used) return;
  pthread_mutex_lock(&g_mu);
  int me = t_id;
  for (;;) {
    bool all = true;
    for (int t = 1; t < g_nthreads; ++t) all = all && g_finished[t];
    if (all) break;
    g_finished[me] = true;  // main no longer competes
    int nxt = pick_next(me, false);
    g_finished[me] = false;
    if (nxt < 0) report_deadlock();
    pass_baton(nxt);
    wait_for_baton(me);
  }
  pthread_mutex_unlock(&g_mu);
}

// futex model under the baton (linked with -Wl,--wrap=syscall)
long __real_syscall(long nr, long a1, long a2, long a3, long a4, long a5, long a6);
long __wrap_syscall(long nr, long a1, long a2, long a3, long a4, long a5, long a6) {
  if (nr != SYS_futex || !g_threads_used) return __real_syscall(nr, a1, a2, a3, a4, a5, a6);
  int op = (int)a2 & 127;
  int* addr = (int*)a1;
  int me = t_id;
  vf_yield(-1);
  pthread_mutex_lock(&g_mu);
  if (op == 0) {
    g_timed[me] = false;
    if (a4 && futex_exact()) {
      const int64_t* ts = (const int64_t*)a4;
      g_timed_n[me]++;
      if (ts[0] < 0 || ts[1] < 0 || ts[1] >= 1000000000) {
        g_last_ts[me] = -1;
        pthread_mutex_unlock(&g_mu);
        errno = EINVAL;
        return -1;
      }
      int64_t rel = ts[0] > (INT64_MAX - ts[1]) / 1000000000 ? INT64_MAX : ts[0] * 1000000000 + ts[1];
      g_last_ts[me] = rel;
      g_deadline[me] = rel > INT64_MAX - g_clock_ns ? INT64_MAX : g_clock_ns + rel;
      g_timed[me] = true;
    }
    if (__atomic_load_n(addr, __ATOMIC_SEQ_CST) != (int)a3) {
      pthread_mutex_unlock(&g_mu);
      errno = EAGAIN;
      return -1;
    }
    g_parked_on[me] = addr;
    g_woken[me] = false;
    g_wake_kind[me] = 0;
    int nxt = pick_next(me, false);
    if (nxt < 0) report_deadlock();
    pass_baton(nxt);
    while (!(g_current == me && g_woken[me])) {
      if (g_current == me && !g_woken[me]) {  // handed the baton while still parked
        int n2 = pick_next(me, false);
        if (n2 < 0) report_deadlock();
        pass_baton(n2);
      }
      pthread_cond_wait(&g_cv, &g_mu);
    }
    g_parked_on[me] = nullptr;
    int kind = g_wake_kind[me];
    g_wake_kind[me] = 0;
    pthread_mutex_unlock(&g_mu);
    if (kind) {
      errno = kind == 2 ? ETIMEDOUT : EINTR;
      return -1;
    }
    return 0;
  }
  if (op == 1) {
    long n = (unsigned)a3 > (unsigned)INT_MAX ? INT_MAX : (long)(unsigned)a3;
    long cnt = 0;
    // wake in the order in which parked threads appear next in the schedule, then by id
    std::vector<int> order;
    for (size_t i = g_pos; i < g_sched.size(); ++i) {
      int t = g_sched[i];
      bool seen = false;
      for (int o : order) seen = seen || o == t;
      if (!seen && t >= 0 && t < g_nthreads) order.push_back(t);
    }
    for (int t = 0; t < g_nthreads; ++t) {
      bool seen = false;
      for (int o : order) seen = seen || o == t;
      if (!seen) order.push_back(t);
    }
    for (int t : order) {
      if (cnt >= n) break;
      if (g_parked_on[t] == addr && !g_woken[t] && !g_finished[t]) {
        g_woken[t] = true;
        cnt++;
      }
    }
    pthread_mutex_unlock(&g_mu);
    return cnt;
  }
  pthread_mutex_unlock(&g_mu);
  return __real_syscall(nr, a1, a2, a3, a4, a5, a6);
}

// malloc/free interposition (linked with -Wl,--wrap=malloc,--wrap=free) for harnesses that inspect
// the allocator's choices
void* __real_malloc(size_t);
void __real_free(void*);
static uint64_t g_last_malloc_a, g_last_malloc_n, g_last_free_a;
static uint64_t g_malloc_count, g_free_count;
void* __wrap_malloc(size_t n) {
  void* p = __real_malloc(n);
  g_last_malloc_a = (uint64_t)p;
  g_last_malloc_n = n;
  g_malloc_count++;
  return p;
}
void __wrap_free(void* p) {
  g_last_free_a = (uint64_t)p;
  if (p) g_free_count++;
  __real_free(p);
}
uint64_t vf_last_malloc_addr() { return g_last_malloc_a; }
uint64_t vf_last_malloc_size() { return g_last_malloc_n; }
uint64_t vf_last_free_addr() { return g_last_free_a; }
uint64_t vf_malloc_count() { return g_malloc_count; }
uint64_t vf_free_count() { return g_free_count; }

// std::thread model for replay (linked with --wrap): starting a std::thread only records it, exactly
// as in the solver model; its body is run by the harness's model thread n (n-th started thread).
static uint64_t g_std_threads_started;
__attribute__((no_sanitize("undefined")))  // the state is destroyed through a stand-in polymorphic type
void __wrap__ZNSt6thread15_M_start_threadESt10unique_ptrINS_6_StateESt14default_deleteIS1_EEPFvvE(
    void* thr, void** state_uptr, void*) {
  *(uint64_t*)thr = ++g_std_threads_started;
  struct VState { virtual ~VState(); };
  VState* st = (VState*)*state_uptr;
  *state_uptr = nullptr;
  delete st;
}
void __wrap__ZNSt6thread4joinEv(void* thr) {
  uint64_t id = *(uint64_t*)thr;
  if (g_threads_used && id >= 1 && id < (uint64_t)kMaxThreads) {
    for (;;) {
      pthread_mutex_lock(&g_mu);
      bool fin = g_finished[id];
      pthread_mutex_unlock(&g_mu);
      if (fin) break;
      vf_yield(-5);
      pthread_mutex_lock(&g_mu);
      fin = g_finished[id];
      if (!fin) {
        int me = t_id;
        bool was = g_finished[me];
        g_finished[me] = true;  // do not pick me while I wait
        int nxt = pick_next(me, false);
        g_finished[me] = was;
        if (nxt < 0) report_deadlock();
        pass_baton(nxt);
        wait_for_baton(me);
      }
      pthread_mutex_unlock(&g_mu);
    }
  }
  *(uint64_t*)thr = 0;
}
void __wrap__ZNSt6thread6detachEv(void* thr) { *(uint64_t*)thr = 0; }
unsigned __wrap__ZNSt6thread20hardware_concurrencyEv() { return 2; }
void vf_untag_register(void*) {}  // tagged-pointer hint for the CBMC model (rt_defs VF_UNTAG); nothing to do natively
void vf_wait_started(uint32_t n) {
  while (g_std_threads_started < n) {
    if (g_threads_used) vf_yield(-6); else break;
  }
}

static inline void in_sync() { if (g_threads_used && getenv("VF_SCHED_POINTS")) vf_yield(-7); }
uint8_t vf_nondet_u8() { in_sync(); return (uint8_t)next_input(8); }
uint16_t vf_nondet_u16() { in_sync(); return (uint16_t)next_input(16); }
uint32_t vf_nondet_u32() { in_sync(); return (uint32_t)next_input(32); }
uint64_t vf_nondet_u64() { in_sync(); return next_input(64); }
bool vf_nondet_bool() { in_sync(); return next_input(1) != 0; }
void vf_assume(bool c) {
  if (!c) {
    fflush(stdout);
    // inputs beyond the solver's trace default to 0 and may violate a later assumption: if a check
    // has already failed by then, that failure is the outcome of the replay
    _exit(g_check_failures ? 1 : 77);
  }
}
void vf_check(bool c, const char* label) {
  digest(c ? 1 : 2);
  if (!c) {
    g_check_failures++;
    fprintf(stderr, "VF_CHECK_FAILED: %s\n", label);
    fflush(stderr);
    if (!getenv("VF_KEEP_GOING")) _exit(1);
  }
}
int64_t vf_clock_peek() { return g_clock_ns; }
void vf_clock_advance(uint64_t d) {
  if (d > (uint64_t)(INT64_MAX - g_clock_ns)) { fflush(stdout); _exit(77); }
  g_clock_ns += (int64_t)d;
}
int64_t vf_futex_last_timeout_ns() { return g_last_ts[t_id]; }
uint32_t vf_futex_timed_wait_count() { return g_timed_n[t_id]; }
void vf_observe(uint64_t v) { digest(v); }
void vf_reach(const char*) {}
void vf_sched_point() { if (getenv("VF_SCHED_POINTS")) vf_yield(-3); }
void vf_block_until(uint32_t* w) {
  while (__atomic_load_n(w, __ATOMIC_SEQ_CST) == 0) {
    if (g_threads_used) vf_yield(-4); else break;
  }
}
void vf_race_write(const void*) {}
void vf_race_read(const void*) {}
void vf_atomic_begin() {}
void vf_atomic_end() {}
int vf_self() { return t_id; }
bool vf_any_stuck() { return false; }
bool vf_is_dead() { return false; }
void vf_throw(uint32_t id) { throw (int)id; }
void vf_main();
}

int main(int argc, char** argv) {
  const char* rp = getenv("VF_REPLAY");
  if (rp && *rp) {
    g_have_replay = true;
    const char* p = rp;
    while (*p) {
      while (*p && (*p < '0' || *p > '9')) ++p;
      if (!*p) break;
      g_inputs.push_back(strtoull(p, const_cast<char**>(&p), 10));
    }
  }
  if (const char* s = getenv("VF_SEED")) g_rng ^= strtoull(s, nullptr, 10) * 0x9E3779B97F4A7C15ull + 1;
  if (const char* s = getenv("VF_SCHED")) {
    const char* p = s;
    while (*p) {
      while (*p && (*p < '0' || *p > '9')) ++p;
      if (!*p) break;
      g_sched.push_back((int)strtol(p, const_cast<char**>(&p), 10));
    }
  }
  g_started[0] = true;
  vf_main();
  vf_join_all();
  printf("VF_DIGEST %016llx failures=%d\n", (unsigned long long)g_digest, g_check_failures);
  return g_check_failures ? 1 : 0;
}
