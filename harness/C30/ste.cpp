// C30, SingleThreadExecutor: every incomplete node runs exactly once, after its incomplete predecessors;
// executed nodes end up complete; complete nodes are not run.
// Real code: GraphT<N>::GraphT/addNode/~GraphT, SubgraphT<N>::addNode/~SubgraphT/getAllocator/releaseAllocator,
// Node::Node/dependsOn/run/isCompleted, BiPropNode::biPropDependsOn, SmallVector<Node*,4>::emplace_back,
// setAllNodesIncomplete, SingleThreadExecutor::operator().
// Shape: a literal per instance (VF_SHAPE = edge mask over the upper-triangular pairs, VF_BSHAPE = BiProp edges); the
// symbolic-shape variants (no VF_SHAPE) are kept for reference but exceed the time budget (see NOTES.md).
#include "graph_kit.h"

#if VF_BIPROP
using G = dispenso::BiPropGraph;
#else
using G = dispenso::Graph;
#endif

extern "C" void vf_main() {
  const uint32_t all = (1u << VF_NODES) - 1;
#ifdef VF_SHAPE
  uint32_t mask = VF_SHAPE;  // literal shape (one instance per shape)
#else
  uint32_t mask = vf_range_u32(0, (1u << VF_EDGES) - 1);
#endif
  uint32_t bmask = 0;
  G g;
  Built<G> b;
#ifdef VF_SHAPE
#ifndef VF_BSHAPE
#define VF_BSHAPE 0
#endif
  bmask = VF_BSHAPE;
  buildShape<G, VF_SHAPE, VF_BSHAPE>(g, b);
#elif VF_BIPROP || VF_NODES > 3
#if VF_BIPROP
  bmask = vf_nondet_u32();
  vf_assume((bmask & ~mask) == 0);
#endif
  buildEdges(g, b, mask, bmask);
#else
  build3(g, b, mask);
#endif
  dispenso::SingleThreadExecutor ex;

  // documented use (tests, examples): a freshly built graph is armed with setAllNodesIncomplete
  setAllNodesIncomplete(g);
  ghostReset();
  ex(g);
  checkExecution(b, mask, all);

  // everything is complete now: executing again runs nothing
  ghostReset();
  ex(g);
  checkExecution(b, mask, 0);

#if VF_REARM
  // re-arm: full evaluation again
  setAllNodesIncomplete(g);
  ghostReset();
  ex(g);
  checkExecution(b, mask, all);
#endif
}
