/* Contract of dispenso::NoLockPoolAllocator::alloc() used for graph nodes: a fresh, exclusive block of
 * chunkSize_ bytes (what property C42 establishes for the real slab carving: 128-chunk slabs, 127 pushes
 * per slab -- symbolic execution of that loop alone exceeded 15 minutes).  The block is given the
 * element type of the node class so that CBMC sees a typed object instead of a byte array. */
uint8_t *vf_c30_pool_alloc(void *self) {
  uint64_t n = *(uint64_t *)self; /* PoolAllocatorT::chunkSize_ is the first member */
#ifdef VF_C30_BIPROP
  if (n == sizeof(struct S_class_dispenso__BiPropNode_VF_C30_BIPROP_TAG))
    return (uint8_t *)vf_nonnull(__CPROVER_allocate(sizeof(struct S_class_dispenso__BiPropNode_VF_C30_BIPROP_TAG), 0));
#else
  if (n == sizeof(struct S_class_dispenso__Node_133c07))
    return (uint8_t *)vf_nonnull(__CPROVER_allocate(sizeof(struct S_class_dispenso__Node_133c07), 0));
#endif
  return (uint8_t *)vf_malloc(n);
}
