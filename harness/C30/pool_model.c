/* Contract of dispenso::NoLockPoolAllocator::alloc() as used for graph nodes: a fresh, exclusive block of
 * chunkSize_ bytes (what property C42 establishes for the real slab carving; the real function carves
 * 128-chunk slabs with 127 vector pushes per slab and places the nodes inside a 12 KB byte buffer --
 * symbolic execution of that alone did not finish in 15 minutes).  The block gets the element type of the
 * node class so that CBMC sees a typed object instead of a byte array. */
#ifndef VF_C30_NODE_T
#define VF_C30_NODE_T struct S_class_dispenso__Node_133c07
#endif
uint8_t *vf_c30_pool_alloc(void *self) {
  uint64_t n = *(uint64_t *)self; /* PoolAllocatorT::chunkSize_ is the first member */
  if (n == sizeof(VF_C30_NODE_T))
    return (uint8_t *)vf_nonnull(__CPROVER_allocate(sizeof(VF_C30_NODE_T), 0));
  return (uint8_t *)vf_malloc(n);
}
