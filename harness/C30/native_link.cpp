// Native replay only: graph_executor.cpp explicitly instantiates the ParallelFor / ConcurrentTaskSet executors, so
// the native link needs the rest of the library (not part of the encoded slice).
#include <dispenso/cpu_set.cpp>
#include <dispenso/detail/per_thread_info.cpp>
#include <dispenso/detail/quanta.cpp>
#include <dispenso/small_buffer_allocator.cpp>
#include <dispenso/task_set.cpp>
#include <dispenso/thread_pool.cpp>
#include <dispenso/thread_pool_wake.cpp>
