// smallest lifting probe: Graph with 2 nodes and one dependsOn edge, SingleThreadExecutor
#include "vf.h"
#include <dispenso/graph.h>
#include <dispenso/graph_executor.h>

static int g_runs[4];
static int g_seq[4];
static int g_clock;
template <int I>
struct Fn {
  void operator()() const {
    g_runs[I]++;
    g_seq[I] = ++g_clock;
  }
};

extern "C" void vf_main() {
  dispenso::Graph g;
  dispenso::Node& n0 = g.addNode(Fn<0>());
  dispenso::Node& n1 = g.addNode(Fn<1>());
  n1.dependsOn(n0);
  setAllNodesIncomplete(g);
  dispenso::SingleThreadExecutor ex;
  ex(g);
  vf_check(g_runs[0] == 1 && g_runs[1] == 1, "every incomplete node ran exactly once");
  vf_check(g_seq[0] < g_seq[1], "a node runs only after its incomplete predecessors finished");
  vf_check(n0.isCompleted() && n1.isCompleted(), "executed nodes end up complete");
}
