// Shared kit of the graph checks (C30, C31): ghost run log, shape builders, reference closure.
// Nodes are numbered in insertion order; an edge (i,j), i<j, means "node j depends on node i".
// Edge bit of (i,j): 3 nodes: (0,1)=bit0 (0,2)=bit1 (1,2)=bit2; 4 nodes adds (0,3)=bit3 (1,3)=bit4 (2,3)=bit5.
#pragma once
#include "vf.h"
#include <dispenso/graph.h>
#include <dispenso/graph_executor.h>

#ifndef VF_NODES
#define VF_NODES 3
#endif

// Environment stub (libstdc++.so, out of line): std::__detail::_Prime_rehash_policy::_M_need_rehash decides whether
// an unordered container grows its bucket array.  libstdc++ uses the answer only as `if (r.first) _M_rehash(r.second)`
// (hashtable.h, _M_insert_unique_node), so "no rehash needed" is an admissible answer that keeps the table consistent:
// every element stays chained in the initial single bucket.  Membership / insert results (what ForwardPropagator's
// visited_ / groups_ rely on) do not depend on the bucket count; only the iteration order of groups_ does.
namespace std {
namespace __detail {
std::pair<bool, std::size_t>
_Prime_rehash_policy::_M_need_rehash(std::size_t, std::size_t, std::size_t) const {
  return std::make_pair(false, std::size_t(0));
}
}  // namespace __detail
}  // namespace std
#define VF_EDGES (VF_NODES * (VF_NODES - 1) / 2)

static uint32_t g_runs[VF_NODES];  // ghost: how often node i ran since the last reset
static uint32_t g_seq[VF_NODES];   // ghost: global sequence number of node i's last run
static uint32_t g_clock;

template <int I>
struct Fn {
  void operator()() const {
    g_runs[I]++;
    g_seq[I] = ++g_clock;
  }
};

static inline void ghostReset() {
  for (int i = 0; i < VF_NODES; ++i) {
    g_runs[i] = 0;
    g_seq[i] = 0;
  }
  g_clock = 0;
}

constexpr int edgeBit(int i, int j) {  // i < j
  return j == 1 ? 0 : j == 2 ? 1 + i : 3 + i;
}
static inline bool hasEdge(uint32_t mask, int i, int j) {
  return (mask >> edgeBit(i, j)) & 1u;
}

template <class G>
struct Built {
  typename G::NodeType* n[VF_NODES];
};

// plain dependency or bidirectional-propagation dependency (BiPropGraph only)
static inline void link(dispenso::Node& to, dispenso::Node& from, bool) {
  to.dependsOn(from);
}
static inline void link(dispenso::BiPropNode& to, dispenso::BiPropNode& from, bool biprop) {
  if (biprop) {
    to.biPropDependsOn(from);
  } else {
    to.dependsOn(from);
  }
}

// one builder per shape: literal sizes inside (the edge tests fold at compile time)
template <class G, unsigned MASK, unsigned BMASK>
VF_NOINLINE static void buildShape(G& g, Built<G>& b) {
  b.n[0] = &g.addNode(Fn<0>());
  b.n[1] = &g.addNode(Fn<1>());
  b.n[2] = &g.addNode(Fn<2>());
#if VF_NODES > 3
  b.n[3] = &g.addNode(Fn<3>());
#endif
  if (MASK & (1u << edgeBit(0, 1))) link(*b.n[1], *b.n[0], BMASK & (1u << edgeBit(0, 1)));
  if (MASK & (1u << edgeBit(0, 2))) link(*b.n[2], *b.n[0], BMASK & (1u << edgeBit(0, 2)));
  if (MASK & (1u << edgeBit(1, 2))) link(*b.n[2], *b.n[1], BMASK & (1u << edgeBit(1, 2)));
#if VF_NODES > 3
  if (MASK & (1u << edgeBit(0, 3))) link(*b.n[3], *b.n[0], BMASK & (1u << edgeBit(0, 3)));
  if (MASK & (1u << edgeBit(1, 3))) link(*b.n[3], *b.n[1], BMASK & (1u << edgeBit(1, 3)));
  if (MASK & (1u << edgeBit(2, 3))) link(*b.n[3], *b.n[2], BMASK & (1u << edgeBit(2, 3)));
#endif
}

// symbolic shape: edge by edge on the real API (sizes become symbolic; used where the number of shapes is large)
template <class G>
static void buildEdges(G& g, Built<G>& b, uint32_t mask, uint32_t bmask) {
  b.n[0] = &g.addNode(Fn<0>());
  b.n[1] = &g.addNode(Fn<1>());
  b.n[2] = &g.addNode(Fn<2>());
#if VF_NODES > 3
  b.n[3] = &g.addNode(Fn<3>());
#endif
  for (int j = 1; j < VF_NODES; ++j) {
    for (int i = 0; i < j; ++i) {
      if (hasEdge(mask, i, j)) {
        link(*b.n[j], *b.n[i], hasEdge(bmask, i, j));
      }
    }
  }
}

template <class G>
static void build3(G& g, Built<G>& b, uint32_t mask) {  // the 8 DAG shapes on 3 nodes, plain edges
  switch (mask) {
    case 0: buildShape<G, 0, 0>(g, b); break;
    case 1: buildShape<G, 1, 0>(g, b); break;
    case 2: buildShape<G, 2, 0>(g, b); break;
    case 3: buildShape<G, 3, 0>(g, b); break;
    case 4: buildShape<G, 4, 0>(g, b); break;
    case 5: buildShape<G, 5, 0>(g, b); break;
    case 6: buildShape<G, 6, 0>(g, b); break;
    default: buildShape<G, 7, 0>(g, b); break;
  }
}

// ---- reference model (oracle) ---------------------------------------------------------------------------
// forward-dependency closure of the marked set over the shape's edge list
static inline uint32_t refClosure(uint32_t mask, uint32_t marked) {
  uint32_t c = marked;
  for (int j = 1; j < VF_NODES; ++j) {  // edges go from lower to higher index: one pass in index order suffices
    for (int i = 0; i < j; ++i) {
      if (hasEdge(mask, i, j) && ((c >> i) & 1u)) c |= 1u << j;
    }
  }
  return c;
}
// bidirectional-propagation sets = connected components of the BiProp edges; every set that intersects c joins c
static inline uint32_t refBiProp(uint32_t bmask, uint32_t c) {
  uint32_t comp[VF_NODES];
  for (int i = 0; i < VF_NODES; ++i) comp[i] = 1u << i;
  for (int r = 0; r < VF_NODES; ++r) {
    for (int j = 1; j < VF_NODES; ++j) {
      for (int i = 0; i < j; ++i) {
        if (hasEdge(bmask, i, j)) {
          uint32_t u = comp[i] | comp[j];
          comp[i] = u;
          comp[j] = u;
        }
      }
    }
  }
  uint32_t out = c;
  for (int i = 0; i < VF_NODES; ++i) {
    if (comp[i] != (1u << i) && (comp[i] & c)) out |= comp[i];
  }
  return out;
}

// ---- the C30 obligations for one execution --------------------------------------------------------------
// `expect` = set of nodes that were incomplete before the execution
template <class G>
static void checkExecution(const Built<G>& b, uint32_t mask, uint32_t expect) {
  for (int i = 0; i < VF_NODES; ++i) {
    if ((expect >> i) & 1u) {
      vf_check(g_runs[i] == 1, "every incomplete node ran exactly once");
      vf_check(b.n[i]->isCompleted(), "executed nodes end up complete");
    } else {
      vf_check(g_runs[i] == 0, "already-complete nodes are not run");
    }
  }
  for (int j = 1; j < VF_NODES; ++j) {
    for (int i = 0; i < j; ++i) {
      if (hasEdge(mask, i, j) && ((expect >> i) & 1u) && ((expect >> j) & 1u)) {
        vf_check(g_seq[i] < g_seq[j], "a node runs only after all of its incomplete predecessors finished");
      }
    }
  }
}
