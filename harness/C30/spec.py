TECHNIQUE = 'bounded symbolic execution of LLVM IR lowered to C: CBMC/SAT (cadical), sequential harness'
ASSUMPTIONS = []
OUTSIDE = ''
_SRC = ['dispenso/graph.cpp', 'dispenso/graph_executor.cpp', 'dispenso/pool_allocator.cpp']
INSTANCES = [
    {'name': 'probe2', 'src': 'probe2.cpp', 'engine': 'cbmc', 'repo_sources': _SRC,
     'models': ['aligned_alloc'], 'ptrdiff': True, 'intercept': {'_ZN8dispenso14PoolAllocatorTILb0EE5allocEv': 'vf_c30_pool_alloc'}, 'rt_extra': ['harness/C30/pool_model.c'], 'cflags': ['-DDISPENSO_NO_SMALL_BUFFER_ALLOCATOR'],
     'unwind': 4, 'nthreads': 1, 'timeout': 600, 'tiers': ['quick'],
     'bounds': '2 nodes'},
]
