TECHNIQUE = ('bounded symbolic execution of LLVM IR lowered to C: CBMC/SAT (cadical), sequential harness, one literal DAG shape per instance, ghost run log checked against the edge list')
ASSUMPTIONS = [
    'a freshly built graph is armed with setAllNodesIncomplete() before its first execution (what every test, example '
    'and benchmark of the repo does; the Node constructor leaves the predecessor counter at 0)',
    'NoLockPoolAllocator::alloc() replaced by its contract (fresh exclusive block of chunkSize_ bytes; the real slab '
    'carving is the subject of C42)',
    'detail::alignedMalloc/alignedFree replaced by their contract; DISPENSO_NO_SMALL_BUFFER_ALLOCATOR build '
    '(functor storage comes from alignedMalloc instead of the small-buffer pools, the subject of C41)',
    'node functors do not throw and do not touch the graph',
]
OUTSIDE = ('graphs with more than 3 nodes; symbolic shape selection (every instance is one literal shape: the 3-bit symbolic selector exceeded 900 s); BiPropGraph; node insertion orders in which a node depends on a '
           'later-added node; ParallelForExecutor and ConcurrentTaskSetExecutor (their lowering drags parallel_for + '
           'ThreadPool into the already heavy libstdc++ lowering; not encoded); more than one subgraph and '
           'subgraph clear/rebuild; graph move construction/assignment; functors with captures')

_SRC = ['dispenso/graph.cpp', 'dispenso/graph_executor.cpp', 'dispenso/pool_allocator.cpp']
_NODE_T = {0: 'struct S_class_dispenso__Node_133c07', 1: 'struct S_class_dispenso__BiPropNode_9f68e0'}


def _inst(name, src, nodes, biprop, tiers, unwind, bounds, timeout=900, extra=None):
    d = {'name': name, 'src': src, 'engine': 'cbmc', 'repo_sources': _SRC,
         'models': ['aligned_alloc'], 'ptrdiff': True,
         'intercept': {'_ZN8dispenso14PoolAllocatorTILb0EE5allocEv': 'vf_c30_pool_alloc'},
         'rt_extra': ['harness/C30/pool_model.c'], 'native_extra': ['harness/C30/native_link.cpp'],
         'rt_defs': {'VF_C30_NODE_T': _NODE_T[biprop]},
         'cflags': ['-DDISPENSO_NO_SMALL_BUFFER_ALLOCATOR'],
         'defs': {'VF_NODES': nodes, 'VF_BIPROP': biprop},
         'unwind': unwind, 'nthreads': 1, 'timeout': timeout, 'tiers': tiers, 'bounds': bounds}
    d.update(extra or {})
    return d


_SHAPE_TXT = {0: 'no edges', 1: '0->1', 2: '0->2', 3: 'fan-out 0->1, 0->2', 4: '1->2', 5: 'chain 0->1->2',
              6: 'fan-in 0->2, 1->2', 7: 'triangle 0->1, 0->2, 1->2'}


def _shape(k, tiers, rearm, bshape=None):
    biprop = 0 if bshape is None else 1
    name = 'ste3_s%d' % k + ('' if bshape is None else '_b%d' % bshape)
    return _inst(name, 'ste.cpp', 3, biprop, tiers, 4,
                 '%s with 3 nodes, shape %d (%s)%s, literal; SingleThreadExecutor: armed run, re-run of the completed '
                 'graph%s' % ('BiPropGraph' if biprop else 'Graph', k, _SHAPE_TXT[k],
                              '' if bshape is None else ', BiProp edge mask %d' % bshape,
                              ', setAllNodesIncomplete + full run' if rearm else ''),
                 timeout=600,
                 extra={'defs': {'VF_NODES': 3, 'VF_BIPROP': biprop, 'VF_SHAPE': k, 'VF_BSHAPE': bshape or 0,
                                 'VF_REARM': rearm}})


# quick: chain, fan-in, triangle; thorough: all 8 shapes incl. re-arming, two BiPropGraph shapes
INSTANCES = ([_shape(k, ['quick'], 0) for k in (5, 6, 7)] +
             [_shape(k, ['thorough'], 1) for k in range(8)])
# not part of the check (time out, see NOTES.md): symbolic 3-bit shape selector, 4 nodes, BiPropGraph shapes
_REFERENCE = [_shape(7, ['thorough'], 1, 5), _shape(6, ['thorough'], 1, 6)]

# Honest level: no symbolic INPUT survives the time budget for this code (libstdc++ containers, type-erased
# functors): every instance is the real code symbolically executed by CBMC on ONE literal graph program
# (shape, and for C31 the marked subset, are literals); the instances enumerate the shapes.  That is
# exploration of a finite family of concrete programs, not a solver verdict over a symbolic input space.
CATEGORY = 'exploration'
LEVEL = ('CBMC symbolic execution of the real graph / executor code on literal 3-node DAG programs, one instance per shape '
         '(and per marked subset for C31): enumeration of a small finite family, every assertion incl. memory safety decided '
         'by the solver per program. Weaker than the other checks: no symbolic inputs.')
