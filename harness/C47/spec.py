TECHNIQUE = ('bounded symbolic execution of LLVM IR lowered to C: CBMC/SAT (cadical), one real API call from a '
             'symbolic pre-state of the real ThreadPool object (virtual workers, sequential engine)')
ASSUMPTIONS = [
    'moodycamel::ConcurrentQueue replaced by its contract model (shim/moodycamel, bounded FIFO)',
    'detail::alignedMalloc/alignedFree replaced by their contract (typed fresh block)',
    'std::thread start is modelled (pool threads never run by themselves); the pool pre-state a worker could '
    'have produced is written into the private fields instead',
    'pool has >= 1 thread (the property excludes the documented inline fallback of a 0-thread pool)',
]
OUTSIDE = ('API-call granularity: the call runs atomically from the symbolic pre-state, concurrent changes of the pool '
           'state *during* the call (other producers, workers going to sleep, a concurrent resize that drops '
           'numThreads_ to 0) are not interleaved; pool sizes > 2; wake-group / steal-ring sharing factors other than '
           'the configured ones; allocation failure of the central queue')

_SRC = ['dispenso/thread_pool.cpp', 'dispenso/thread_pool_wake.cpp', 'dispenso/detail/per_thread_info.cpp',
        'dispenso/task_set.cpp']
_R16 = '_ZN8dispenso21ConcurrentObjectArenaINS_14MpmcRingBufferINS_12OnceFunctionELm16ELb1EEEmLm64EE7grow_byEm.4'
_R4 = '_ZN8dispenso21ConcurrentObjectArenaINS_14MpmcRingBufferINS_12OnceFunctionELm4ELb1EEEmLm64EE7grow_byEm.4'

_APIS = {
    0: ('pool_sched', 'ThreadPool::schedule(f, ForceQueuingTag)'),
    1: ('pool_placed', 'ThreadPool::schedulePlaced(f, ForceQueuingTag)'),
    2: ('pool_token', 'ThreadPool::schedule / schedulePlaced(ProducerToken&, f, ForceQueuingTag)'),
    3: ('ts_sched', 'TaskSet::schedule(f, ForceQueuingTag)'),
    4: ('ts_bulk', 'TaskSet::scheduleBulk(n<=3, gen, ForceQueuingTag)'),
    5: ('cts_sched', 'ConcurrentTaskSet::schedule(f, ForceQueuingTag), cost kHeavy/kLightweight symbolic'),
    6: ('cts_bulk', 'ConcurrentTaskSet::scheduleBulk(n<=3, gen, ForceQueuingTag)'),
}


def _inst(api, n, tiers):
    name, what = _APIS[api]
    return {
        'name': '%s_n%d' % (name, n), 'src': 'fq.cpp', 'engine': 'cbmc', 'shims': ['moodycamel'],
        'repo_sources': _SRC, 'rt_defs': {'VF_HAVE_THREAD_MODEL': 1}, 'models': ['aligned_alloc'],
        'allow_externals': ['_ZN8dispenso6detail27registerFineSchedulerQuantaEv'],
        'defs': {'VF_N': n, 'VF_API': api, 'VF_MQ_CAP': 4},
        'cflags': ['-DDISPENSO_TUNE_STEAL_RING_SHARING=1'],
        'unwind': 5, 'unwindset': {_R16: 17, _R4: 5}, 'timeout': 1500, 'tiers': tiers, 'must_reach': 'all',
        'bounds': ('one call of %s on a real ThreadPool(%d) (real constructor; steal-ring capacity 4 via '
                   'DISPENSO_TUNE_STEAL_RING_SHARING=1); symbolic pre-state: workRemaining_ in [-16,2^40], '
                   'poolLoadFactor_ in [0,2^40], numNotWorking_, signaling-wake on/off, central-queue hint, '
                   'steal-ring hint mask, per worker awake/asleep/asleep+claimed (real enterSleep/tryClaimSleeper), '
                   'steal-ring fill 0..4 (4 = full), one older task in the central queue (model capacity 4), caller = external '
                   'thread / worker of this pool (any ring index) / worker of another pool, inline depth 0..40, '
                   'parallel_for recursion level 0..3; task sets: load multiplier 1..8, outstanding count 0..2^20, '
                   'canceled flag symbolic; bulk count 0..3' % (what, n)),
    }


INSTANCES = []
for _api in range(7):
    INSTANCES.append(_inst(_api, 1, ['quick', 'thorough']))
for _api in range(7):
    INSTANCES.append(_inst(_api, 2, ['quick', 'thorough'] if _api in (1, 6) else ['thorough']))
