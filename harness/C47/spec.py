TECHNIQUE = ('bounded symbolic execution of LLVM IR lowered to C: CBMC/SAT (cadical), one real API call from a '
             'symbolic pre-state of the real ThreadPool object (virtual workers, sequential engine)')
ASSUMPTIONS = [
    'moodycamel::ConcurrentQueue replaced by its contract model (shim/moodycamel, bounded FIFO)',
    'detail::alignedMalloc/alignedFree replaced by their contract (typed fresh block)',
    'std::thread start is modelled (pool threads never run by themselves); the pool pre-state a worker could '
    'have produced is written into the private fields instead',
    'pool has >= 1 thread (the property excludes the documented inline fallback of a 0-thread pool)',
]
OUTSIDE = ('API-call granularity: the call runs atomically from the symbolic pre-state, concurrent changes of the pool '
           'state *during* the call (other producers, workers going to sleep, a concurrent resize that drops '
           'numThreads_ to 0) are not interleaved; pool sizes > 2; wake-group / steal-ring sharing factors other than '
           'the configured ones; allocation failure of the central queue')

_SRC = ['dispenso/thread_pool.cpp', 'dispenso/thread_pool_wake.cpp', 'dispenso/detail/per_thread_info.cpp',
        'dispenso/task_set.cpp']
_R16 = '_ZN8dispenso21ConcurrentObjectArenaINS_14MpmcRingBufferINS_12OnceFunctionELm16ELb1EEEmLm64EE7grow_byEm.4'
_R4 = '_ZN8dispenso21ConcurrentObjectArenaINS_14MpmcRingBufferINS_12OnceFunctionELm4ELb1EEEmLm64EE7grow_byEm.4'

_GROUPS = {
    0: ('pool', 'ThreadPool::schedule(f, FQ) | schedulePlaced(f, FQ) | schedule(ProducerToken&, f, FQ) | '
                'schedulePlaced(ProducerToken&, f, FQ) (symbolic choice)'),
    1: ('sched', '::schedule(f, FQ)'),
    2: ('bulk', '::scheduleBulk(n, gen, FQ)'),
}
_SETS = {0: ('ts', 'TaskSet'), 1: ('cts', 'ConcurrentTaskSet (cost kHeavy/kLightweight symbolic)')}


def _inst(grp, n, tiers, st=None, count=None):
    name, what = _GROUPS[grp]
    if st is not None:
        name = _SETS[st][0] + '_' + name
        what = _SETS[st][1] + what
    if count is not None:
        what += ' with n = %d' % count
    return {
        'name': '%s_n%d' % (name, n) + ('_c%d' % count if count is not None else ''),
        'src': 'fq.cpp', 'engine': 'cbmc', 'shims': ['moodycamel'],
        'repo_sources': _SRC, 'rt_defs': {'VF_HAVE_THREAD_MODEL': 1}, 'models': ['aligned_alloc'],
        'allow_externals': ['_ZN8dispenso6detail27registerFineSchedulerQuantaEv', '_ZN8dispenso6detail20allocSmallBufferImplEm', '_ZN8dispenso6detail22deallocSmallBufferImplEmPv'],
        'native_extra': ['harness/C47/native_stubs.cpp'],
        'defs': {'VF_N': n, 'VF_GROUP': grp, 'VF_MQ_CAP': 4, 'VF_COUNT': count or 0, 'VF_SET': st or 0},
        'cflags': ['-DDISPENSO_TUNE_STEAL_RING_SHARING=1'],
        'unwind': 3, 'nthreads': 1, 'unwindset': {_R16: 17, _R4: 5}, 'timeout': 600, 'tiers': tiers,
        'bounds': ('one call of %s on a real ThreadPool(%d) (real constructor; steal-ring capacity 4 via '
                   'DISPENSO_TUNE_STEAL_RING_SHARING=1); symbolic pre-state: workRemaining_ in [-16,2^40], '
                   'poolLoadFactor_ in [0,2^40], numNotWorking_, signaling-wake on/off, central-queue hint, '
                   'steal-ring hint mask, per worker awake/asleep/asleep+claimed (real enterSleep/tryClaimSleeper), '
                   'steal-ring fill 0..4 (4 = full), one older task in the central queue (model capacity 4), caller = external '
                   'thread / worker of this pool (any ring index) / worker of another pool, inline depth 0..40, '
                   'parallel_for recursion level 0..3; task sets: load multiplier 1..8, outstanding count 0..2^20, '
                   'canceled flag symbolic' % (what, n)),
    }


INSTANCES = [
    _inst(0, 1, ['quick', 'thorough']),
    _inst(1, 1, ['quick', 'thorough'], 0),
    _inst(1, 1, ['quick', 'thorough'], 1),
    _inst(2, 1, ['quick', 'thorough'], 0, 2),
    _inst(2, 1, ['thorough'], 1, 2),
    _inst(0, 2, ['thorough']),
    _inst(1, 2, ['thorough'], 0),
    _inst(1, 2, ['thorough'], 1),
    _inst(2, 1, ['thorough'], 0, 3),
    _inst(2, 1, ['thorough'], 1, 1),
    _inst(2, 2, ['thorough'], 0, 3),
    _inst(2, 2, ['thorough'], 1, 3),
]
