ASSUMPTIONS = ['moodycamel::ConcurrentQueue replaced by its contract model (shim/moodycamel)']
OUTSIDE = ''
INSTANCES = [
    {'name': 'pool_fq', 'src': 'pool_fq.cpp', 'engine': 'cbmc', 'shims': ['moodycamel'],
     'repo_sources': ['dispenso/thread_pool.cpp', 'dispenso/thread_pool_wake.cpp', 'dispenso/detail/per_thread_info.cpp'],
     'rt_defs': {'VF_HAVE_THREAD_MODEL': 1}, 'models': ['aligned_alloc'], 'allow_externals': ['_ZN8dispenso6detail27registerFineSchedulerQuantaEv'],
     'unwind': 3, 'unwindset': {'_ZN8dispenso21ConcurrentObjectArenaINS_14MpmcRingBufferINS_12OnceFunctionELm16ELb1EEEmLm64EE7grow_byEm.4': 17, '_ZN8dispenso21ConcurrentObjectArenaINS_14MpmcRingBufferINS_12OnceFunctionELm4ELb1EEEmLm64EE7grow_byEm.4': 5}, 'timeout': 900, 'cflags': ['-DDISPENSO_TUNE_STEAL_RING_SHARING=1'], 'bounds': 'probe'},
]
