// Native replay only: externals that the solver runs treat as allowed no-ops (spec 'allow_externals').
#include <cstddef>
#include <cstdlib>
namespace dispenso {
namespace detail {
void registerFineSchedulerQuanta() {}
char* allocSmallBufferImpl(size_t) { return static_cast<char*>(std::malloc(1024)); }
void deallocSmallBufferImpl(size_t, void* buf) { std::free(buf); }
}  // namespace detail
}  // namespace dispenso
