// Shared helpers of the pool-level harnesses (C47, C08, C01, C46).
// Everything here drives REAL dispenso code; the helpers only (a) put the pool into a symbolic
// pre-state by calling real mutators or by writing private fields (reachable through
// -fno-access-control) and (b) play "virtual worker" by calling the real consumer functions.
#pragma once
#include <dispenso/thread_pool.h>
#include <dispenso/task_set.h>
#include "vf.h"
#include "thread_model.h"

namespace pk {

using dispenso::ThreadPool;
using dispenso::OnceFunction;
using PTI = dispenso::detail::PerPoolPerThreadInfo;

// ghost: number of executions of pre-filled no-op ballast tasks
static int g_ballast_ran;
struct Ballast {
  void operator()() const { ++g_ballast_ran; }
};

// The caller's thread-local identity: an external thread, a worker of this pool (producer token and
// ring index registered exactly as threadLoopImpl does with the real registerPool), or a worker of
// some other pool.  Returns 0/1/2.
static inline unsigned symbolic_caller(ThreadPool& p, moodycamel::ProducerToken* tok, unsigned N) {
  unsigned who = vf_range_u32(0, 2);
  if (who == 1) {
    int32_t ring = (int32_t)vf_range_u32(0, N - 1);
    PTI::registerPool(&p, tok, ring);
  } else if (who == 2) {
    static char other_pool;
    PTI::registerPool(&other_pool, nullptr, (int32_t)vf_range_u32(0, 3));
  }
  return who;
}

// inline-nesting depth and parallel_for recursion level of the calling thread: any value in range
static inline void symbolic_depths(int maxDepth) {
  PTI::inlineDepth() = (int)vf_range_u32(0, (uint32_t)maxDepth);
  PTI::info().parForRecursionLevel = (int)vf_range_u32(0, 3);
}

// Load accounting and wake-state fields: arbitrary values (workRemaining_, poolLoadFactor_,
// numNotWorking_, wake mode, queue hint, steal-ring hint mask).  numThreads_ / numRings_ /
// numStealRings_ stay as the real constructor / resizeLocked left them.
static inline void symbolic_load(ThreadPool& p, unsigned N) {
  int64_t wr = (int64_t)vf_nondet_u64();
  vf_assume(wr >= -16 && wr <= (int64_t(1) << 40));
  p.workRemaining_.store((ssize_t)wr, std::memory_order_relaxed);
  int64_t lf = (int64_t)vf_nondet_u64();
  vf_assume(lf >= 0 && lf <= (int64_t(1) << 40));
  p.poolLoadFactor_.store((ssize_t)lf, std::memory_order_relaxed);
  int32_t nnw = (int32_t)vf_range_u32(0, 2 * N + 2) - 1;
  p.numNotWorking_.store(nnw, std::memory_order_relaxed);
  p.enableEpochWaiter_.store(vf_nondet_bool(), std::memory_order_relaxed);
  p.centralQueueNonEmpty_.store(vf_nondet_bool(), std::memory_order_relaxed);
  p.stealRingsWithWork_.store(vf_range_u32(0, (1u << N) - 1), std::memory_order_relaxed);
}

// Sleeper bookkeeping of the wake state: each worker independently {awake, asleep (real enterSleep),
// asleep and already claimed by a waker (real tryClaimSleeper: mask bit cleared, totalSleeping_ not
// yet decremented)}.  N >= 1.
static inline void symbolic_sleepers(ThreadPool& p, unsigned N) {
  auto* ws = p.wakeState_.load(std::memory_order_relaxed);
  if (!ws) return;
  for (unsigned i = 0; i < N; ++i) {
    unsigned st = vf_range_u32(0, 2);
    if (st >= 1) ws->enterSleep((int32_t)i);
    if (st == 2) ws->tryClaimSleeper((int32_t)i);
  }
}

// pre-fill through the real try_push: k in 0..4 ballast tasks (k may be symbolic; written without a loop
// so that no unwinding bound is involved)
#define PK_PUSH_IF(ring, cond)                                  \
  if (cond) {                                                   \
    bool ok_ = (ring).try_push(OnceFunction(Ballast()));        \
    vf_assume(ok_);                                             \
  }
static inline void fill_steal_ring(ThreadPool& p, size_t s, unsigned k) {
  PK_PUSH_IF(p.stealRings_[s], k > 0)
  PK_PUSH_IF(p.stealRings_[s], k > 1)
  PK_PUSH_IF(p.stealRings_[s], k > 2)
  PK_PUSH_IF(p.stealRings_[s], k > 3)
}
static inline void fill_ring(ThreadPool& p, size_t r, unsigned k) {
  PK_PUSH_IF(p.rings_[r], k > 0)
  PK_PUSH_IF(p.rings_[r], k > 1)
  PK_PUSH_IF(p.rings_[r], k > 2)
  PK_PUSH_IF(p.rings_[r], k > 3)
}
// central queue pre-fill: keep k a compile-time constant (a symbolic element count makes every access
// to the queue model's storage a symbolic-offset byte access, measured 10x formula size)
static inline void fill_queue(ThreadPool& p, unsigned k) {
  for (unsigned j = 0; j < k; ++j) {
    p.work_.enqueue(OnceFunction(Ballast()));
  }
}

}  // namespace pk
