// C47 (ThreadPool part): schedule(f, ForceQueuingTag) never runs f on the caller (pool with >= 1 thread).
#include <dispenso/thread_pool.h>
#include "vf.h"
#include "thread_model.h"

static int g_ran;

extern "C" void vf_main() {
  dispenso::ThreadPool pool(1);
  g_ran = 0;
  pool.schedule([]() { g_ran++; }, dispenso::ForceQueuingTag());
  vf_check(g_ran == 0, "ForceQueuingTag functor ran before schedule returned");
}
