// C47: schedule(f, ForceQueuingTag) / scheduleBulk(n, gen, ForceQueuingTag) on a ThreadPool, TaskSet or
// ConcurrentTaskSet whose pool has >= 1 thread never runs the functor before returning to the caller.
// One call of a real entry point (group VF_GROUP, member chosen symbolically) from a symbolic pre-state of the real pool object.
#include "pool_kit.h"

#ifndef VF_N
#define VF_N 1
#endif
#ifndef VF_GROUP
#define VF_GROUP 0
#endif
#ifndef VF_SET
#define VF_SET 0
#endif
#ifndef VF_COUNT
#define VF_COUNT 2
#endif
#ifndef VF_MQ_CAP
#define VF_MQ_CAP 4
#endif

static unsigned g_ran;  // bit i: functor i ran

struct Fn {
  void operator()() const { g_ran |= 1u; }
};
struct Gen {
  auto operator()(size_t i) const {
    return [i]() { g_ran |= 1u << i; };
  }
};

extern "C" void vf_main() {
  using namespace dispenso;
  // heap objects that are never destroyed: the claim is about the call alone (the drain performed by
  // ~ThreadPool / ~TaskSet belongs to C01)
  ThreadPool& pool = *new ThreadPool(VF_N);
  moodycamel::ProducerToken* wtok = new moodycamel::ProducerToken(pool.work_);

  // ---- symbolic pre-state -------------------------------------------------------------------
  pk::symbolic_sleepers(pool, VF_N);
  pk::symbolic_load(pool, VF_N);
  for (unsigned s = 0; s < VF_N; ++s) {
    pk::fill_steal_ring(pool, s, vf_range_u32(0, 4));  // 4 = full (DISPENSO_TUNE_STEAL_RING_SHARING=1)
  }
  pk::fill_queue(pool, 1);  // one older task in the central queue
  pk::symbolic_caller(pool, wtok, VF_N);
  pk::symbolic_depths(40);
  g_ran = 0;
  pk::g_ballast_ran = 0;
  const size_t q0 = pool.work_.n_;
  size_t s0 = 0;
  bool anyStealFull = false;
  for (unsigned s = 0; s < VF_N; ++s) {
    s0 += pool.stealRings_[s].size();
    anyStealFull = anyStealFull || pool.stealRings_[s].size() == 4;
  }
  size_t expected = 1;
  bool canceledBulk = false;

  // ---- the call (entry point chosen symbolically inside the instance's group) -----------------
#if VF_GROUP == 0
  switch (vf_range_u32(0, 3)) {
    case 0: pool.schedule(Fn(), ForceQueuingTag()); break;
    case 1: pool.schedulePlaced(Fn(), ForceQueuingTag()); break;
    case 2: pool.schedule(*wtok, Fn(), ForceQueuingTag()); break;
    default: pool.schedulePlaced(*wtok, Fn(), ForceQueuingTag()); break;
  }
#else
  const ssize_t mult = (ssize_t)vf_range_u32(1, 8);
#if VF_SET == 0
  TaskSet* ts = new TaskSet(pool, mult);
#else
  TaskCost cost = vf_nondet_bool() ? TaskCost::kHeavy : TaskCost::kLightweight;
  ConcurrentTaskSet* ts = new ConcurrentTaskSet(pool, cost, mult);
#endif
  ts->outstandingTaskCount_.store((ssize_t)vf_range_u32(0, 1u << 20), std::memory_order_relaxed);
  ts->canceled_.store(vf_nondet_bool(), std::memory_order_relaxed);
#if VF_GROUP == 1
  ts->schedule(Fn(), ForceQueuingTag());
#else
  // bulk: the count is an instance parameter (a symbolic count makes the element count of the queue
  // model symbolic: measured > 10 min)
  canceledBulk = ts->canceled();
  expected = VF_COUNT;
  ts->scheduleBulk((size_t)VF_COUNT, Gen(), ForceQueuingTag());
#endif
#endif

  vf_check(g_ran == 0, "ForceQueuingTag functor ran on the caller before the call returned");
  vf_check(pk::g_ballast_ran == 0, "a force-queuing call executed other queued work on the caller");

  // documented contract of the tag ("the functor will always be queued"): afterwards the functors sit in the
  // pool's containers (a canceled task set's bulk call may drop them: "no unexecuted tasks will execute")
  const size_t q1 = pool.work_.n_;
  size_t s1 = 0;
  for (unsigned s = 0; s < VF_N; ++s) {
    s1 += pool.stealRings_[s].size();
  }
  if (!canceledBulk) {
    vf_check((q1 - q0) + (s1 - s0) == expected, "force-queued functors are not all in the pool's containers after the call");
  }
  // coverage markers (decided by the witness twin; spec: must_reach all)
#if VF_GROUP != 2
  if (q1 == q0 + 1) vf_reach("functor placed in the central queue");
#endif
#if VF_GROUP == 0 || (VF_GROUP == 1 && VF_SET == 1)
  if (s1 == s0 + 1) vf_reach("functor pushed to the steal ring of a claimed sleeper");
  if (anyStealFull && q1 == q0 + 1 && pool.wakeState_.load()->totalSleeping() > 0) {
    vf_reach("sleeper present, a steal ring full, functor in the central queue");
  }
#endif
#if VF_GROUP == 2
  if (q1 == q0 + VF_COUNT) vf_reach("whole bulk queued");
  if (canceledBulk && expected > 0 && q1 == q0) vf_reach("canceled set: bulk dropped");
#endif
}
