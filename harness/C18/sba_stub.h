// Contract stub of dispenso's small-buffer pool (replaces small_buffer_allocator.cpp; the real pool is
// property C41): allocSmallBufferImpl(ordinal) returns a fresh block of (4 << ordinal) bytes,
// deallocSmallBufferImpl(ordinal, p) takes back a live block.  A ledger records the pool (ordinal) of
// every block: a block must go back to the pool it came from (small_buffer_allocator.h: "must be
// returned to the pool via deallocSmallBuffer templatized on the same block size"), once.
#pragma once
#include <cstdlib>
#include <dispenso/small_buffer_allocator.h>
#include "vf.h"

#ifndef VF_CHECK_POOL
#define VF_CHECK_POOL 1
#endif
#ifndef VF_LINK_ORDINAL
#define VF_LINK_ORDINAL 3  // 32-byte pool: then-chain links
#endif
struct Blk {
  void* p;
  size_t ordinal;
  int32_t live;
};
#ifndef VF_MAXBLK
#define VF_MAXBLK 1
#endif
enum { kMaxBlk = VF_MAXBLK };
static Blk g_blk[kMaxBlk];
static int32_t g_nblk;
static int32_t g_live_blocks;
static int32_t g_frees;
static int32_t g_links;       // blocks taken from the 32-byte pool (then-chain links)
static int32_t g_link_frees;
#ifndef VF_CHECK_BUSY
#define VF_CHECK_BUSY 0
#endif
// VF_CHECK_BUSY (single-block harnesses): g_busy[t] != 0 while model thread t is inside an operation on the shared
// state through a reference it owns (set/cleared by the harness); the block must not be released under it.
static uint8_t g_busy[4];

// Typing hints for the solver (no semantic content: the block is malloc(4 << ordinal) in every case).  The
// translator gives a dynamic object the type its address is first cast to; an object typed after the layout
// of what will live in it (then-chain link: four pointers; future shared state: vptr, result, exception_ptr,
// allowInline_, status_, refCount_, taskSetCounter_, thenChain_, functor storage) keeps CBMC's points-to sets
// of the pointers stored in it exact.  Without the hint the first cast is the vptr / next-pointer store and the
// block becomes an array of such pointers that is then accessed at other types (measured: conversion of the
// then() harness did not finish in 10 minutes; with the hint see NOTES.md).  The store into the padding word /
// the not yet initialised invoke field only keeps the cast alive through clang -O1.
struct SbaImplHead {
  void* vptr;
  uint64_t result;
  void* exception;
  uint8_t allowInline;
  uint8_t pad0[3];
  uint32_t status;
  uint32_t refCount;
  uint32_t pad1;
  void* taskSetCounter;
  void* thenChain;
};
struct SbaBlk32 {
  void* next;
  void* impl;
  void* schedulable;
  void* invoke;
};
struct SbaBlk64 {
  SbaImplHead h;
  uint64_t f0;
};
struct SbaBlk128 {
  SbaImplHead h;
  uint64_t f0;
  void* f1;
  uint64_t rest[7];
};
static_assert(sizeof(SbaBlk32) == 32 && sizeof(SbaBlk64) == 64 && sizeof(SbaBlk128) == 128, "block layouts");
#ifndef VF_SBA_TYPED
#define VF_SBA_TYPED 1
#endif

namespace dispenso {
namespace detail {
// Contract of the small-buffer pool: a fresh block of (4 << ordinal) bytes; a block goes back to the
// pool it came from, once.
char* allocSmallBufferImpl(size_t ordinal) {
  VfAtomic a;
  char* p;
#if VF_SBA_TYPED
  if (ordinal == 3) {
    SbaBlk32* b = static_cast<SbaBlk32*>(::malloc(32));
    b->invoke = nullptr;
    p = reinterpret_cast<char*>(b);
  } else if (ordinal == 4) {
    SbaBlk64* b = static_cast<SbaBlk64*>(::malloc(64));
    b->h.pad1 = 0;
    p = reinterpret_cast<char*>(b);
  } else if (ordinal == 5) {
    SbaBlk128* b = static_cast<SbaBlk128*>(::malloc(128));
    b->h.pad1 = 0;
    p = reinterpret_cast<char*>(b);
  } else
#endif
  {
    p = static_cast<char*>(::malloc(size_t{4} << ordinal));
  }
  vf_check(g_nblk < kMaxBlk, "harness bound: number of small-buffer blocks");
  if (g_nblk < kMaxBlk) {
    g_blk[g_nblk].p = p;
    g_blk[g_nblk].ordinal = ordinal;
    g_blk[g_nblk].live = 1;
    ++g_nblk;
    ++g_live_blocks;
    if (ordinal == VF_LINK_ORDINAL) {
      ++g_links;
    }
  }
  return p;
}
static inline bool blk_release(int32_t i, size_t ordinal, void* buf) {
  if (i < g_nblk && g_blk[i].p == buf && g_blk[i].live == 1) {
#if VF_CHECK_POOL
    // small_buffer_allocator.h: "must be returned to the pool via deallocSmallBuffer templatized on the same block size"
    vf_check(g_blk[i].ordinal == ordinal, "block released to a different size class than it was allocated from");
#endif
    if (g_blk[i].ordinal == VF_LINK_ORDINAL) {
      ++g_link_frees;
    }
    g_blk[i].live = 0;
    --g_live_blocks;
    ++g_frees;
    return true;
  }
  return false;
}
void deallocSmallBufferImpl(size_t ordinal, void* buf) {
  VfAtomic a;
#if VF_CHECK_BUSY
  {
    int self = vf_self();
    bool others = (self != 0 && g_busy[0]) || (self != 1 && g_busy[1]) || (self != 2 && g_busy[2]) || (self != 3 && g_busy[3]);
    vf_check(!others, "shared state released while another thread is still operating on it through its own reference");
  }
#endif
  bool found = blk_release(0, ordinal, buf) || (kMaxBlk > 1 && blk_release(1, ordinal, buf)) ||
      (kMaxBlk > 2 && blk_release(2, ordinal, buf)) || (kMaxBlk > 3 && blk_release(3, ordinal, buf)) || (kMaxBlk > 4 && blk_release(4, ordinal, buf));
  vf_check(found, "deallocSmallBuffer is called with a live block (no double release)");
  if (found) {
    ::free(buf);
  }
}
} // namespace detail
} // namespace dispenso

