// Contract stub of dispenso's small-buffer pool (replaces small_buffer_allocator.cpp; the real pool is
// property C41): allocSmallBufferImpl(ordinal) returns a fresh block of (4 << ordinal) bytes,
// deallocSmallBufferImpl(ordinal, p) takes back a live block.  A ledger records the pool (ordinal) of
// every block: a block must go back to the pool it came from (small_buffer_allocator.h: "must be
// returned to the pool via deallocSmallBuffer templatized on the same block size"), once.
#pragma once
#include <cstdlib>
#include <dispenso/small_buffer_allocator.h>
#include "vf.h"

#ifndef VF_CHECK_POOL
#define VF_CHECK_POOL 1
#endif
#ifndef VF_LINK_ORDINAL
#define VF_LINK_ORDINAL 3  // 32-byte pool: then-chain links
#endif
struct Blk {
  void* p;
  size_t ordinal;
  int32_t live;
};
#ifndef VF_MAXBLK
#define VF_MAXBLK 1
#endif
enum { kMaxBlk = VF_MAXBLK };
static Blk g_blk[kMaxBlk];
static int32_t g_nblk;
static int32_t g_live_blocks;
static int32_t g_frees;
static int32_t g_links;       // blocks taken from the 32-byte pool (then-chain links)
static int32_t g_link_frees;

namespace dispenso {
namespace detail {
// Contract of the small-buffer pool: a fresh block of (4 << ordinal) bytes; a block goes back to the
// pool it came from, once.
char* allocSmallBufferImpl(size_t ordinal) {
  VfAtomic a;
  char* p = static_cast<char*>(::malloc(size_t{4} << ordinal));
  vf_check(g_nblk < kMaxBlk, "harness bound: number of small-buffer blocks");
  if (g_nblk < kMaxBlk) {
    g_blk[g_nblk].p = p;
    g_blk[g_nblk].ordinal = ordinal;
    g_blk[g_nblk].live = 1;
    ++g_nblk;
    ++g_live_blocks;
    if (ordinal == VF_LINK_ORDINAL) {
      ++g_links;
    }
  }
  return p;
}
static inline bool blk_release(int32_t i, size_t ordinal, void* buf) {
  if (i < g_nblk && g_blk[i].p == buf && g_blk[i].live == 1) {
#if VF_CHECK_POOL
    vf_check(g_blk[i].ordinal == ordinal, "small-buffer block is returned to the pool it came from");
#endif
    if (g_blk[i].ordinal == VF_LINK_ORDINAL) {
      ++g_link_frees;
    }
    g_blk[i].live = 0;
    --g_live_blocks;
    ++g_frees;
    return true;
  }
  return false;
}
void deallocSmallBufferImpl(size_t ordinal, void* buf) {
  VfAtomic a;
  bool found = blk_release(0, ordinal, buf) || (kMaxBlk > 1 && blk_release(1, ordinal, buf)) ||
      (kMaxBlk > 2 && blk_release(2, ordinal, buf)) || (kMaxBlk > 3 && blk_release(3, ordinal, buf)) || (kMaxBlk > 4 && blk_release(4, ordinal, buf));
  vf_check(found, "deallocSmallBuffer is called with a live block (no double release)");
  if (found) {
    ::free(buf);
  }
}
} // namespace detail
} // namespace dispenso

