TECHNIQUE = ('bounded symbolic execution of LLVM IR lowered to C: CBMC/SAT (cadical), sequentialised step machine '
             '(engine cbmc-seq: symbolic scheduler over all atomic operations / futex calls), ghost invocation counters + '
             'allocation ledger')
ASSUMPTIONS = []
OUTSIDE = ''

def I(name, defs, steps, nthreads, bounds, **kw):
    d = {'name': name, 'src': 'future.cpp', 'engine': 'cbmc-seq', 'steps': steps, 'spin_loops': True, 'defs': defs,
         'unwind': 3, 'unwindset': {}, 'nthreads': nthreads, 'timeout': 400, 'leak_check': True,
         'shims': ['moodycamel'], 'seq_unroll': True, 'devirt': True, 'tiers': ['quick', 'thorough'], 'bounds': bounds}
    d.update(kw)
    return d

INSTANCES = [
    I('int_1g', {'VF_RESULT': 0, 'VF_GETTERS': 1}, 3, 3, 'x', unwind=2),
    I('int_2g', {'VF_RESULT': 0, 'VF_OPS_B': 4}, 3, 4, 'x', unwind=2),
]
