TECHNIQUE = ('bounded symbolic execution of LLVM IR lowered to C: CBMC/SAT (cadical), sequentialised step machine '
             '(engine cbmc-seq: symbolic scheduler over all atomic operations / futex calls, exact futex model), ghost '
             'invocation counters + small-buffer allocation ledger + CBMC pointer / leak checks on the shared state')
ASSUMPTIONS = [
    'small-buffer pool contract (stub harness/C18/sba_stub.h replaces small_buffer_allocator.cpp; the real pool is property C41): '
    'allocSmallBufferImpl(ordinal) returns a fresh malloc block of 4<<ordinal bytes, deallocSmallBufferImpl frees it',
    'model schedulable (template argument of the real Future constructor): schedule(f, ForceQueuingTag) stores the OnceFunction '
    'in a typed slot, schedule(f) stores it too (instances with VF_INLINE=1: or runs it at once on the caller); a model worker '
    'thread runs the stored function once, at an arbitrary time',
    'the stored type-erased closure `[this]{ run(); }` (FutureImplBase::makeOnceFunction) is resolved by the harness to a direct '
    'call of the real FutureImplBase::run() on the shared state, so that the engine can interleave inside run(); '
    'OnceFunction::operator() itself (function pointer dispatch) is property C39',
    'virtual calls (runFunc, dealloc, destructors) are dispatched exactly over the vtable slot entries present in the module '
    '(spec key devirt); the functor body and dealloc() run without preemption (they are reached through a virtual call)',
    'each thread uses its own Future copy (documented: no call on a Future object that another thread assigns or destroys)',
    'sequential consistency for all atomics',
]
OUTSIDE = ('more than 3 (quick) / 4 threads, more than one or two operations per getter; schedules needing more execution '
           'segments per thread than the stated scheduler rounds; spin/retry loops iterating more than once per segment (cut); '
           'ThreadPool / TaskSet / ConcurrentTaskSet / NewThreadInvoker as schedulables (their queues are properties C01-C11; the '
           'Future code only calls schedule()/schedulePlaced() on them) and the taskSetCounter_ path; functors that throw (exception '
           'lowering was not attempted for this code in the time available); result types other than int32_t (void / int& variants are '
           'written, VF_RESULT=1/2, but not measured); weak-memory reorderings (e.g. incRefCount uses acquire, decRef release: '
           'not stress-tested); wait_for / wait_until with a positive timeout; the macOS / Windows CompletionEventImpl variants')

RED = ['--no-standard-checks', '--pointer-check', '--div-by-zero-check']

def I(name, defs, steps, nthreads, bounds, **kw):
    d = {'name': name, 'src': 'future.cpp', 'engine': 'cbmc-seq', 'steps': steps, 'spin_loops': True, 'defs': defs,
         'unwind': 2, 'nthreads': nthreads, 'timeout': 1700, 'leak_check': True,
         'shims': ['moodycamel'], 'seq_unroll': True, 'devirt': True, 'tiers': ['quick', 'thorough'],
         'bounds': bounds + '; %d scheduler rounds (each thread <= %d execution segments, preemption before every atomic operation / '
                            'futex call); CAS retry / wait loops <= 1 iteration per segment; launch policies symbolic '
                            '(async bit, deferred bit); result value symbolic' % (steps, steps)}
    d.update(kw)
    return d

G1 = ('Future<int32_t> over the model schedulable; worker thread runs the queued run closure at an arbitrary time; getter thread: '
      'get() on its own copy then drops the copy; main drops its reference before or after the join (symbolic), then get() + '
      'address comparison if it still holds one')
SEQ = ('Future<int32_t> over the model schedulable (plain schedule() may run the closure at once on the caller: symbolic); the '
       'worker (real OnceFunction::operator() on the queued closure) and two getters run one after the other, worker position '
       'symbolic (task-granularity interleaving); each getter: get | wait | wait_for(0) | is_ready | wait_until(past) on its own '
       'copy (symbolic), then optionally get(), then drops the copy; main drops its reference early or late and get()s at the end; '
       'launch policies and result value symbolic')
INSTANCES = [
    # engine cbmc-seq with one thread and no preemption = sequential execution of the fully inlined harness
    {'name': 'seq_2g', 'src': 'future.cpp', 'engine': 'cbmc-seq', 'steps': 1, 'nthreads': 1, 'preempts': 0, 'seq_unroll': True,
     'defs': {'VF_RESULT': 0, 'VF_GETTERS': 2, 'VF_SEQ_ORDER': 1, 'VF_VIA_ONCE': 1, 'VF_INLINE': 1, 'VF_OPS_A': 0x1f, 'VF_OPS_B': 0x1f,
              'VF_MAIN_GET': 1},
     'unwind': 1, 'timeout': 1500,
     'leak_check': True, 'shims': ['moodycamel'], 'devirt': True, 'spin_loops': True, 'tiers': ['experimental'], 'bounds': SEQ},   # symex > 4 min CPU: not in a delivered tier
    I('int_1g', {'VF_RESULT': 0, 'VF_GETTERS': 1, 'VF_MAIN_GET': 0}, 2, 3, G1,
      thorough={'steps': 3, 'checks': RED, 'defs': {'VF_RESULT': 0, 'VF_GETTERS': 1, 'VF_MAIN_GET': 1}}),
    # two getters: A get(); B one of wait_for(0) / is_ready() / wait_until(past) / wait(), then optionally get()
    I('int_2g', {'VF_RESULT': 0, 'VF_OPS_B': 0x1e}, 2, 4,
      G1 + '; second getter: wait() | wait_for(0) | is_ready() | wait_until(past) (symbolic), then optionally get()',
      tiers=['experimental'], checks=RED),
    I('int_1g_inline', {'VF_RESULT': 0, 'VF_GETTERS': 1, 'VF_INLINE': 1, 'VF_CHECK_CLOSURE': 1}, 2, 3,
      G1 + '; schedule() without the forcing tag may run the closure at once on the caller (symbolic); the closure stored in the '
           'slot is compared with the shared state', tiers=['experimental'], checks=RED),
    I('void_1g', {'VF_RESULT': 1, 'VF_GETTERS': 1}, 2, 3, G1.replace('int32_t', 'void'), tiers=['experimental'], checks=RED),
    I('ref_1g', {'VF_RESULT': 2, 'VF_GETTERS': 1}, 2, 3, G1.replace('int32_t', 'int32_t&'), tiers=['experimental'], checks=RED),
]
