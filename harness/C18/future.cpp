// C18: a Future's functor runs exactly once, however many copies exist and however many threads call
// get()/wait()/wait_for()/wait_until()/is_ready(), whether the schedulable's worker or a waiter ends
// up running it; every get() returns the same result object; the shared state is released exactly
// once, after its last user.
//
// Real code: dispenso::Future<R>::{Future(F&&, Schedulable&, launch, launch), Future(const Future&),
//   ~Future, get, wait, wait_for, wait_until, is_ready}, detail::FutureBase<R> (same),
//   detail::FutureImplBase<R>::{run(), run(int), wait, waitFor, waitUntil, waitCommon, ready,
//   incRefCount, decRefCountMaybeDestroy, makeOnceFunction, tryExecuteThenChain, result},
//   detail::FutureImplSmall<N,F,R>::{runFunc, dealloc} (virtual), detail::FutureImplResultMember<R>,
//   detail::createFutureImpl, detail::CompletionEventImpl::{notify, wait, waitFor, waitUntil}
//   (linux futex variant), dispenso::OnceFunction (construction, move into the schedulable's slot),
//   allocSmallBuffer/deallocSmallBuffer (front end; the pool itself is a contract stub below).
//
// Model schedulable (template argument of the real Future constructor): `schedule(f,
// ForceQueuingTag)` stores the OnceFunction in a typed slot; `schedule(f)` either stores it or runs
// it at once on the caller (symbolic), the two behaviours a dispenso schedulable may show
// (ThreadPool::schedule runs inline when the queue is loaded, ImmediateInvoker always does).  A model
// worker thread runs the stored function at an arbitrary time.
//
// How the worker runs the stored function: the engine cannot interleave inside code reached through
// a function pointer, and OnceFunction::operator() is one (invoke_).  The closure stored by
// makeOnceFunction() is `[this]() { run(); }`; the worker checks that the slot holds exactly that
// closure (same invoke_ pointer as a reference closure built by the real makeOnceFunction()), takes
// the captured `this` from the inline buffer and calls the real FutureImplBase::run() directly, so
// every atomic operation inside run() is a scheduling point.  With VF_VIA_ONCE=1 the worker calls
// the real OnceFunction::operator() instead (run() is then one indivisible step).
//
// Symbolic: launch policies (async bit, deferred bit), inline-vs-queued behaviour of the
// schedulable, the operation kinds of both getter threads, the result value, whether main drops its
// reference before or after the threads finish, the interleaving of all atomic operations / futex
// calls of all threads.
#include <chrono>
#include <cstdlib>
#include <new>
#include <dispenso/future.h>
#include "vf.h"

#ifndef VF_RESULT
#define VF_RESULT 0  // 0: Future<int32_t>, 1: Future<void>, 2: Future<int32_t&>
#endif
#ifndef VF_VIA_ONCE
#define VF_VIA_ONCE 0
#endif
#ifndef VF_GETTERS
#define VF_GETTERS 2
#endif
#ifndef VF_OPS_A
#define VF_OPS_A 0x1  // allowed first operations of getter A (bit mask over Kind)
#endif
#ifndef VF_OPS_B
#define VF_OPS_B 0xd  // get | wait_for(0) | is_ready
#endif
#ifndef VF_THROW
#define VF_THROW 0
#endif
#ifndef VF_SEQ_ORDER
#define VF_SEQ_ORDER 0  // 1: sequential engine; main plays worker and getters one after the other (order symbolic)
#endif
#ifndef VF_MAIN_GET
#define VF_MAIN_GET 1  // 1: after the join main calls get() on its own future (if it kept it) and compares addresses
#endif

#define VF_CHECK_BUSY 1
#include "sba_stub.h"

static int g_who;  // sequential mode: the role main is playing
static inline int self_id() {
  return VF_SEQ_ORDER ? g_who : vf_self();
}
// marks the calling model thread as being inside an operation on the shared state (see sba_stub.h)
struct Busy {
  int t;
  Busy() : t(vf_self()) {
    VfAtomic a;
    g_busy[t & 3] = 1;
  }
  ~Busy() {
    VfAtomic a;
    g_busy[t & 3] = 0;
  }
};

// ------------------------------------------------------------------------------------ ghost state
static int32_t g_runs;          // invocations of the functor
static int32_t g_runner = -1;   // thread that invoked it
static int32_t g_fn_live;       // live functor objects
static int32_t g_fn_ctor;
static int32_t g_val;           // the value the functor returns
static int32_t g_target;        // Future<int&>: the object the functor returns a reference to

struct Fn {
  int32_t tag;
  explicit Fn(int32_t t) noexcept : tag(t) {
    ++g_fn_live;
    ++g_fn_ctor;
  }
  Fn(Fn&& o) noexcept : tag(o.tag) {
    ++g_fn_live;
    ++g_fn_ctor;
  }
  Fn(const Fn& o) noexcept : tag(o.tag) {
    ++g_fn_live;
    ++g_fn_ctor;
  }
  ~Fn() {
    --g_fn_live;
  }
  void body() const {
    VfAtomic a;
    ++g_runs;
    vf_check(g_runs == 1, "functor is invoked a second time");
    vf_check(tag == 77, "functor runs on a live functor object");
    g_runner = self_id();
  }
#if VF_RESULT == 0
  int32_t operator()() {
    body();
#if VF_THROW
    if (g_val < 0) vf_throw(5);
#endif
    return g_val;
  }
#elif VF_RESULT == 1
  void operator()() {
    body();
#if VF_THROW
    if (g_val < 0) vf_throw(5);
#endif
  }
#else
  int32_t& operator()() {
    body();
    return g_target;
  }
#endif
};

#if VF_RESULT == 0
using R = int32_t;
#elif VF_RESULT == 1
using R = void;
#else
using R = int32_t&;
#endif
using Fut = dispenso::Future<R>;
using Impl = dispenso::detail::FutureImplBase<R>;

// ------------------------------------------------------------------------------ model schedulable
#ifndef VF_INLINE
#define VF_INLINE 0
#endif
#ifndef VF_CHECK_CLOSURE
#define VF_CHECK_CLOSURE 0
#endif
static void inline_run(dispenso::OnceFunction& f);
struct ModelSched {
  dispenso::OnceFunction slot;
  bool full = false;
  bool inlineNow = false;  // behaviour of schedule(f) without the forcing tag
  int32_t forced = 0;
  int32_t unforced = 0;
  void schedule(dispenso::OnceFunction f) {
    ++unforced;
    if (VF_INLINE && inlineNow) {
#if VF_INLINE
      // run the closure on the caller, as ThreadPool::schedule does under load and ImmediateInvoker always:
      // same resolution of the type-erased closure as in worker() below
      inline_run(f);
#endif
    } else {
      slot = std::move(f);
      full = true;
    }
  }
  void schedule(dispenso::OnceFunction f, dispenso::ForceQueuingTag) {
    ++forced;
    slot = std::move(f);
    full = true;
  }
};
static ModelSched g_sched;

static Impl* g_impl;             // the shared state (for the harness's observations only)
static void (*g_ref_invoke)(void*, bool);
static bool g_deferred;

enum Kind { kGet = 0, kWait = 1, kWaitFor0 = 2, kIsReady = 3, kWaitUntilPast = 4, kWaitForPos = 5, kNumKinds = 6 };

#if VF_RESULT != 1
static const void* g_addr[3];  // address of the result object seen by getter i (2 = main)
#endif
static int32_t g_gets;

// one get() on the caller's own copy, with the property's observations
static void do_get(Fut& f, int who) {
#if VF_RESULT == 0
  const int32_t& r = f.get();
  VfAtomic a;
  vf_check(g_runs == 1, "get() returned although the functor has not run exactly once");
  vf_check(r == g_val, "get() returns the functor's result");
  vf_check(f.is_ready(), "get() returned but is_ready() is false (returned before the result was published)");
  g_addr[who] = &r;
#elif VF_RESULT == 1
  f.get();
  VfAtomic a;
  vf_check(g_runs == 1, "get() returned although the functor has not run exactly once");
  vf_check(f.is_ready(), "get() returned but is_ready() is false (returned before the result was published)");
  (void)who;
#else
  int32_t& r = f.get();
  VfAtomic a;
  vf_check(g_runs == 1, "get() returned although the functor has not run exactly once");
  vf_check(&r == &g_target, "get() returns the reference the functor returned");
  vf_check(f.is_ready(), "get() returned but is_ready() is false (returned before the result was published)");
  g_addr[who] = &r;
#endif
  ++g_gets;
}

#define HAS(mask, k) ((((mask) >> (k)) & 1) != 0)
template <uint32_t kMask>
static inline void getter_ops(Fut* f, uint32_t kind, bool thenGet, int who) {
  int self = self_id();
  if (kind == kGet) {
    thenGet = true;
  } else if (HAS(kMask, kWait) && kind == kWait) {
    f->wait();
    VfAtomic a;
    vf_check(g_runs == 1, "wait() returned although the functor has not run exactly once");
    vf_check(f->is_ready(), "wait() returned but is_ready() is false");
  } else if (HAS(kMask, kIsReady) && kind == kIsReady) {
    bool r = f->is_ready();
    VfAtomic a;
    if (r) {
      vf_check(g_runs == 1, "is_ready() is true although the functor has not run");
    }
    thenGet = thenGet && r;  // (get() would be fine too; this keeps a non-blocking getter)
  } else {
    std::future_status st;
    if (HAS(kMask, kWaitFor0) && kind == kWaitFor0) {
      st = f->wait_for(std::chrono::seconds(0));
    } else if (HAS(kMask, kWaitForPos) && kind == kWaitForPos) {
      st = f->wait_for(std::chrono::milliseconds(5));
    } else if (HAS(kMask, kWaitUntilPast)) {
      st = f->wait_until(std::chrono::steady_clock::time_point());  // a time point in the past
    } else {
      return;
    }
    VfAtomic a;
    if (st == std::future_status::ready) {
      vf_check(g_runs == 1, "wait_for/wait_until reported ready although the functor has not run exactly once");
      vf_check(f->is_ready(), "wait_for/wait_until reported ready but is_ready() is false");
    }
    if (!g_deferred) {
      // kNotDeferred: "we won't allow Future::wait_for and Future::wait_until to invoke the functor"
      vf_check(g_runner != self, "wait_for/wait_until invoked the functor although std::launch::deferred was not given");
    }
  }
  if (thenGet) {
    do_get(*f, who);
  }
}

// copies owned by the getter threads: constructed by main before the threads start, destroyed by
// their thread (typed storage; the Future object is one pointer)
union FutSlot {
  Fut f;
  FutSlot() {}
  ~FutSlot() {}
};
static FutSlot g_slot[3];  // 0, 1: the getters' copies, 2: main's future
static uint32_t g_kind[2];
static bool g_then_get[2];

static void getterA(void*) {
  {
    Busy b;
    getter_ops<VF_OPS_A>(&g_slot[0].f, g_kind[0], g_then_get[0], 0);
  }
  g_slot[0].f.~Fut();  // drops this thread's reference
}
static void getterB(void*) {
  {
    Busy b;
    getter_ops<VF_OPS_B>(&g_slot[1].f, g_kind[1], g_then_get[1], 1);
  }
  g_slot[1].f.~Fut();
}

static void inline_run(dispenso::OnceFunction& f) {
#if VF_VIA_ONCE
  f();
#else
  // the shared state is the block the small-buffer pool handed out last (typed pointer from the ledger)
  Impl* impl = static_cast<Impl*>(static_cast<dispenso::detail::FutureImplSmall<64, Fn, R>*>(g_blk[0].p));
#if VF_CHECK_CLOSURE
  vf_check(*reinterpret_cast<Impl**>(f.buf_) == impl, "harness: the closure captured the future's shared state");
#endif
  impl->run();
#endif
}

static void worker(void*) {
  if (!g_sched.full) {
    return;
  }
#if VF_VIA_ONCE
  g_sched.slot();
#else
  // the slot holds the closure `[this]() { run(); }` of the real makeOnceFunction(): run it
#if VF_CHECK_CLOSURE
  vf_check(g_sched.slot.invoke_ == g_ref_invoke, "harness: the scheduled function is the future's run closure");
  vf_check(*reinterpret_cast<Impl**>(g_sched.slot.buf_) == g_impl, "harness: the closure captured the future's shared state");
#endif
  {
    Busy b;  // the closure's own reference keeps the shared state alive until run() drops it as its last action
    g_impl->run();
  }
#endif
}

extern "C" void vf_main() {
  bool async = vf_nondet_bool();
  g_deferred = vf_nondet_bool();
  g_sched.inlineNow = vf_nondet_bool();
  g_kind[0] = vf_range_u32(0, kNumKinds - 1);
  g_kind[1] = vf_range_u32(0, kNumKinds - 1);
  vf_assume(((VF_OPS_A) >> g_kind[0]) & 1);
  vf_assume(((VF_OPS_B) >> g_kind[1]) & 1);
  g_then_get[0] = vf_nondet_bool();
  g_then_get[1] = vf_nondet_bool();
  bool dropEarly = vf_nondet_bool();
  g_val = (int32_t)vf_nondet_u32();
#if VF_THROW
  vf_assume(g_val >= -1);
#endif

  Fut* f0 = new (&g_slot[2].f) Fut(Fn(77), g_sched, async ? std::launch::async : dispenso::kNotAsync,
                    g_deferred ? std::launch::deferred : dispenso::kNotDeferred);
  g_impl = f0->impl_;
  vf_check(f0->valid(), "a Future constructed from a functor is valid");
  vf_check(g_sched.forced == (async ? 1 : 0) && g_sched.unforced == (async ? 0 : 1),
           "std::launch::async forces queuing, otherwise plain schedule() is used");
  if (async) {
    vf_check(g_runs == 0, "std::launch::async: functor does not run inside the constructor");
  }
#if VF_CHECK_CLOSURE
  {
    // reference closure (what makeOnceFunction() produces) -- only its invoke pointer is kept
    dispenso::OnceFunction ref = g_impl->makeOnceFunction();
    g_ref_invoke = ref.invoke_;
  }
#endif
  new (&g_slot[0].f) Fut(*f0);
#if VF_GETTERS >= 2
  new (&g_slot[1].f) Fut(*f0);
#endif

#if VF_SEQ_ORDER
  // task-granularity interleaving: the worker's run of the queued closure and the getters' operations execute one
  // after the other; the position of the worker is symbolic
  {
    uint32_t wpos = vf_range_u32(0, VF_GETTERS);
    if (dropEarly) {
      f0->~Fut();
      f0 = nullptr;
    }
    g_who = 1;
    if (wpos == 0) worker(nullptr);
    g_who = 2;
    getterA(nullptr);
    g_who = 1;
    if (wpos == 1) worker(nullptr);
#if VF_GETTERS >= 2
    g_who = 3;
    getterB(nullptr);
    g_who = 1;
    if (wpos == 2) worker(nullptr);
#endif
    g_who = 0;
  }
#else
  vf_spawn(worker, nullptr);
  vf_spawn(getterA, nullptr);
#if VF_GETTERS >= 2
  vf_spawn(getterB, nullptr);
#endif
  if (dropEarly) {
    f0->~Fut();  // main drops its reference while the others are busy
    f0 = nullptr;
  }
  vf_join_all();
#endif
  vf_reach("all threads finished");

  // quiescent.  The stored function was run by the worker (or inline by schedule()).
  vf_check(g_runs == 1, "functor ran exactly once by the time every thread finished");
  if (f0) {
    vf_check(g_live_blocks == 1 && g_frees == 0, "shared state is alive while a Future still refers to it");
    vf_check(f0->is_ready(), "future is ready after its functor ran");
#if VF_MAIN_GET
    do_get(*f0, 2);
#endif
#if VF_RESULT != 1 && VF_MAIN_GET
    for (int i = 0; i < 2; ++i) {
      if (g_addr[i]) {
        vf_check(g_addr[i] == g_addr[2], "every get() returns the same result object");
      }
    }
#endif
    f0->~Fut();
  } else {
#if VF_RESULT != 1 && VF_GETTERS >= 2
    if (g_addr[0] && g_addr[1]) {
      vf_check(g_addr[0] == g_addr[1], "every get() returns the same result object");
    }
#endif
  }
  vf_check(g_frees == 1 && g_live_blocks == 0, "shared state is released exactly once after the last reference is dropped");
  vf_check(g_fn_live == 0, "every functor object (the caller's and the stored one) is destroyed exactly once");
  vf_reach("end of harness");
}
