// C44 (alignedMalloc): for any 16-aligned placement malloc may choose, any power-of-two alignment
// up to 2^16 and any size up to 2^16, the returned address is a multiple of max(alignment, 8), the
// block [res, res+bytes) and the recovery slot [res-8, res) lie inside the malloc'ed block, and
// alignedFree hands the original pointer back to free().
#include <dispenso/platform.h>
#include "vf.h"
using namespace dispenso;

extern "C" uint64_t vf_last_malloc_addr();
extern "C" uint64_t vf_last_malloc_size();
extern "C" uint64_t vf_last_free_addr();

extern "C" void vf_main() {
  uint32_t k = vf_range_u32(0, 16);
  size_t alignment = (size_t)1 << k;
  size_t bytes = vf_range_u64(0, 1u << 16);
  void* p = detail::alignedMalloc(bytes, alignment);
  uintptr_t res = reinterpret_cast<uintptr_t>(p);
  uintptr_t base = vf_last_malloc_addr();
  uintptr_t size = vf_last_malloc_size();
  size_t eff = alignment < 8 ? 8 : alignment;
  vf_check(res % eff == 0, "alignedMalloc result is a multiple of the requested alignment");
  vf_check(res >= base + 8, "recovery slot lies inside the allocation");
  vf_check(res + bytes <= base + size, "payload lies inside the allocation");
  vf_check(size == bytes + eff, "allocation size is bytes + alignment");
  detail::alignedFree(p);
  vf_check(vf_last_free_addr() == base, "alignedFree releases the original malloc pointer");
}
