ASSUMPTIONS = ['documented domains: nextPow2 v <= 2^63; log2/countTrailingZeros v != 0; alignToCacheLine v <= UINTPTR_MAX-63',
               'bsrq/bsrl inline asm modelled as 63/31 - ctlz (x86 manual; undefined for 0, which is outside the domain)',
               'alignedMalloc: malloc may return any 16-aligned address (address-aware arena model)']
OUTSIDE = 'alignedMalloc sizes above 2^16 bytes and alignments above 2^16 (the arithmetic does not depend on magnitude, but only this range is encoded)'
INSTANCES = [
    {'name': 'bits', 'src': 'bits.cpp', 'engine': 'cbmc', 'unwind': 66, 'timeout': 600,
     'bounds': 'none: every input is a full-width symbolic word (loops: 64-iteration reference popcount, 6-iteration log2const)'},
    {'name': 'aligned_malloc', 'src': 'amalloc.cpp', 'engine': 'cbmc', 'unwind': 2, 'timeout': 600,
     'rt_defs': {'VF_ADDR_AWARE': 1, 'VF_AA_DYNAMIC': 1},
     'bounds': 'alignment 2^0..2^16, bytes 0..2^16, malloc placement any multiple of 16 below 2^17'},
]
