// C44: bit-math helpers return the mathematically specified result for every input of their domain.
// Real code: detail::nextPow2, detail::log2const(u32/u64), detail::log2(u32/u64) (bsr inline asm,
// modelled as 63/31 - ctlz), detail::countTrailingZeros, detail::countSetBits,
// detail::alignToCacheLine.  Bit-precise (SAT) -- every input is a full-width symbolic word.
#include <dispenso/platform.h>
#include <dispenso/detail/math.h>
#include <dispenso/util.h>
#include "vf.h"
using namespace dispenso;

extern "C" void vf_main() {
  {  // nextPow2: smallest power of two >= v, for 1 <= v <= 2^63; 0 -> 0 (documented)
    uint64_t v = vf_nondet_u64();
    vf_assume(v <= (1ull << 63));
    uint64_t p = detail::nextPow2(v);
    if (v == 0) {
      vf_check(p == 0, "nextPow2(0) == 0");
    } else {
      vf_check(p >= v, "nextPow2(v) >= v");
      vf_check((p & (p - 1)) == 0 && p != 0, "nextPow2(v) is a power of two");
      vf_check((p >> 1) < v, "nextPow2(v) is the smallest such power");
    }
    vf_check(dispenso::nextPow2(v) == p, "public nextPow2 agrees with detail");
  }
  {  // floor(log2 v), v != 0: 2^r <= v < 2^(r+1)
    uint64_t v = vf_nondet_u64();
    vf_assume(v != 0);
    uint32_t r = detail::log2(v);
    vf_check(r < 64 && (v >> r) == 1, "log2(u64) is floor(log2 v)");
    vf_check(detail::log2const(v) == r, "log2const(u64) == log2(u64)");
    vf_check(dispenso::log2(v) == r && dispenso::log2const(v) == r, "public log2/log2const agree");
  }
  {
    uint32_t v = vf_nondet_u32();
    vf_assume(v != 0);
    uint32_t r = detail::log2(v);
    vf_check(r < 32 && (v >> r) == 1, "log2(u32) is floor(log2 v)");
    vf_check(detail::log2const(v) == r, "log2const(u32) == log2(u32)");
  }
  {  // trailing zeros: bit r set, all lower bits clear
    uint64_t v = vf_nondet_u64();
    vf_assume(v != 0);
    int32_t r = detail::countTrailingZeros(v);
    vf_check(r >= 0 && r < 64, "ctz in range");
    vf_check(((v >> r) & 1) == 1 && (r == 0 || (v << (64 - r)) == 0), "countTrailingZeros is the index of the lowest set bit");
  }
  {  // population count against the bit-by-bit definition
    uint64_t v = vf_nondet_u64();
    int32_t c = 0;
    for (int i = 0; i < 64; ++i) {
      c += (int32_t)((v >> i) & 1);
    }
    vf_check(detail::countSetBits(v) == c, "countSetBits equals the number of one bits");
  }
  {  // alignToCacheLine: smallest multiple of the cache line >= v (no wrap domain)
    uintptr_t v = vf_nondet_u64();
    vf_assume(v <= UINTPTR_MAX - (kCacheLineSize - 1));
    uintptr_t r = dispenso::alignToCacheLine(v);
    vf_check(r % kCacheLineSize == 0 && r >= v && r - v < kCacheLineSize, "alignToCacheLine rounds up to the next line");
  }
}
