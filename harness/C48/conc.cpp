// C48: parallel_for / for_each_n never run more than max(maxThreads, 1) body invocations at the same
// time (serial operation when maxThreads is 0 or 1), for every chunking mode, wait mode, granularity.
//
// Real code: dispenso::parallel_for (stateless overloads: chunk body over (start, end) and over a
// ChunkedRange, per-index body) down to parallel_for_staticImpl / the dynamic dispatchers, and
// dispenso::for_each_n (random-access path), instantiated over the mock task set of
// ../C14/ps_common.h.  Concurrency = overlapping lifetimes of body invocations (nesting, see there);
// the mock never runs more closures at once than a pool of N threads plus the waiting caller could.
//
//   VF_API  0: parallel_for(ts, start, end, f(b,e), opts)      1: parallel_for(ts, start, end, f(i), opts)
//           2: parallel_for(ts, ChunkedRange, f(b,e), opts)    3: for_each_n(ts, ptr, n, f(elem&), opts)
#ifndef VF_API
#define VF_API 0
#endif
#include "../C14/ps_common.h"
#if VF_API == 3
#include <dispenso/for_each.h>
#endif

VF_NOINLINE static void vf_invocation() {
  VfInvocation inv;
  inv.schedulingPoint();
}

struct ChunkBody {
  void operator()(IntT b, IntT e) const {
    vf_check(b < e, "every chunk is non-empty");
    vf_invocation();
  }
};

struct IndexBody {
  void operator()(IntT) const {
    vf_invocation();
  }
};

struct ElemBody {
  void operator()(uint8_t&) const {
    vf_invocation();
  }
};

static uint8_t g_elems[VF_S + 1];

extern "C" void vf_main() {
  IntT start, end;
  vf_pick_range(start, end);
  MockTaskSet ts;
  vf_mock_init(ts);
  dispenso::ParForOptions opts = vf_pick_options();

#if VF_API == 0
  dispenso::parallel_for(ts, start, end, ChunkBody(), opts);
#elif VF_API == 1
  dispenso::parallel_for(ts, start, end, IndexBody(), opts);
#elif VF_API == 2
#if VF_MODE == 2
  {
    IntT chunk = static_cast<IntT>(vf_small(3, 1, VF_CHUNK_HI));
    dispenso::parallel_for(ts, dispenso::ChunkedRange<IntT>(start, end, chunk), ChunkBody(), opts);
  }
#else
  dispenso::parallel_for(ts, dispenso::makeChunkedRange(start, end, opts.defaultChunking), ChunkBody(), opts);
#endif
#else
  dispenso::ForEachOptions fo;
  fo.maxThreads = opts.maxThreads;
  fo.wait = opts.wait;
  dispenso::for_each_n(ts, &g_elems[0], static_cast<size_t>(end - start), ElemBody(), fo);
#endif

  if (opts.wait) {
    vf_check(ts.npending == 0, "the loop call with wait=true returns only after every scheduled task ran");
  } else {
    ts.wait();
  }
  g_done = true;

  vf_check(!g_depthCut, "harness bound: the nesting bound never stopped an available thread from starting a task");
  vf_check(g_inflight == 0, "every body invocation returned");
  // documented: "Setting maxThreads to zero or one will result in serial operation"
  int32_t mt = static_cast<int32_t>(opts.maxThreads);
  uint32_t limit = mt < 1 ? 1u : static_cast<uint32_t>(mt);
  vf_check(g_maxInflight <= limit, "never more than max(maxThreads, 1) body invocations in progress at the same time");
  if (start < end) {
    vf_check(g_calls >= 1, "non-empty range: the body was invoked");
  } else {
    vf_check(g_calls == 0, "empty range: body never invoked");
  }
}
