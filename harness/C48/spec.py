TECHNIQUE = ('bounded symbolic execution of LLVM IR lowered to C: CBMC/SAT (cadical); the real parallel_for / for_each_n '
             'instantiated over a mock TaskSetT; sequential scheduler harness in which body invocations overlap by nesting, '
             'ghost in-flight counter')
ASSUMPTIONS = [
    'mock TaskSetT contract: scheduleBulk(count, gen) builds gen(0..count-1) in order; every closure runs exactly once, to '
    'completion: before scheduleBulk returns, inside wait(), or nested inside a body invocation in progress (= on another '
    'thread, concurrently with that invocation); which closure runs where is a symbolic choice',
    'thread budget of the mock: at most numPoolThreads stored closures in progress, plus one on the calling thread while it '
    'is inside scheduleBulk()/wait() and not executing loop work itself',
    'concurrency = overlapping lifetimes with proper nesting: a closure started during a body invocation finishes before '
    'that invocation resumes; only the first 2 body invocations of a task (and of the caller) contain a scheduling point',
    'the caller is an external thread, not inside an enclosing parallel_for; allocSmallBufferImpl = malloc; '
    'CpuSet::l3CacheGroups() is empty',
]
OUTSIDE = ('instruction-level interleavings; overlap patterns that are not properly nested; pools with more than 2 threads, '
           'range sizes above the stated bound, granularity > 3; maxThreads values with the sign bit set; nested parallel '
           'loops; for_each over non-random-access iterators (C15); the overloads without a task set (always wait=true on '
           'the global pool)')

MODE = {0: 'static chunking', 1: 'adaptive (kAuto) chunking', 2: 'explicit chunk size 1..3'}
API = {0: 'parallel_for(ts, start, end, f(b,e), opts)', 1: 'parallel_for(ts, start, end, f(i), opts)',
       2: 'parallel_for(ts, ChunkedRange, f(b,e), opts)', 3: 'for_each_n(ts, pointer, n, f(elem&), {maxThreads, wait})'}


def inst(name, N, S, mode=0, wait=2, api=0, tiers=('quick', 'thorough'), timeout=900, unwind=None, thorough=None, **kw):
    defs = {'VF_N': N, 'VF_S': S, 'VF_MODE': mode, 'VF_WAIT': wait, 'VF_DEPTH': N + 1, 'VF_API': api}
    defs.update(kw)
    d = {'name': name, 'src': 'conc.cpp', 'engine': 'cbmc', 'defs': defs, 'models': ['aligned_alloc'],
         'unwind': unwind or max(S + 2, N + 3), 'timeout': timeout, 'tiers': list(tiers),
         'unwind_fn': {'re:parallel_for_dynamicMultiGroupImpl.*_clI': 1},
         'bounds': ('%s; int32 range, start %d, size 0..%d; %s; numPoolThreads = %d; maxThreads 0..%d or INT32_MAX; '
                    'minItemsPerChunk 0..%d; granularity 1..%d; wait %s; symbolic task order; up to %d body invocations in '
                    'flight (nesting)' % (
                        API[api], defs.get('VF_START', 0), S, MODE[mode], N, N + 2, defs.get('VF_MINITEMS_HI', 2),
                        defs.get('VF_GHI', 3), {0: 'false', 1: 'true', 2: 'true/false'}[wait], N + 1))}
    if thorough:
        d['thorough'] = thorough
    return d


Q = ('quick', 'thorough')
TH = ('thorough',)
EX = ('experimental',)
INSTANCES = [
    # On /repo this reports the static / no-wait / tail defect (see NOTES.md).
    inst('pf_static_n2', 2, 5, timeout=900, thorough={'timeout': 1500, 'defs': {'VF_N': 2, 'VF_S': 6, 'VF_MODE': 0, 'VF_WAIT': 2, 'VF_DEPTH': 3, 'VF_API': 0}}),
    inst('pf_range_n2', 2, 5, api=2, tiers=EX, timeout=900),
    inst('foreach_n2', 2, 3, api=3, tiers=EX, VF_SPK=1),
    inst('pf_index_n2', 2, 3, api=1, tiers=EX, VF_SPK=1),
]
