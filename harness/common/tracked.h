// Lifetime-tracked payload shared by the container harnesses.
#pragma once
#include <cstdint>
#include "vf.h"

struct VfCounters {
  int32_t live;
  int32_t ctor;
  int32_t dtor;
};
extern VfCounters g_cnt;

struct Tracked {
  int32_t v;
  explicit Tracked(int32_t x) noexcept : v(x) { ++g_cnt.live; ++g_cnt.ctor; }
  Tracked(const Tracked& o) noexcept : v(o.v) { ++g_cnt.live; ++g_cnt.ctor; }
  Tracked(Tracked&& o) noexcept : v(o.v) { o.v = -7; ++g_cnt.live; ++g_cnt.ctor; }
  Tracked& operator=(const Tracked& o) noexcept { v = o.v; return *this; }
  Tracked& operator=(Tracked&& o) noexcept { v = o.v; o.v = -7; return *this; }
  ~Tracked() {
    vf_check(g_cnt.live > 0, "destructor runs on an object that is not alive (double destroy)");
    --g_cnt.live;
    ++g_cnt.dtor;
    v = -99;
  }
};
