// std::thread model hooks shared by the pool-level harnesses (see rt/cbmc_rt.c: vf_std_thread_*).
#pragma once
#include <thread>
extern "C" __attribute__((used, weak)) void vf_thread_state_dispose(void* st) {
  delete static_cast<std::thread::_State*>(st);
}
extern "C" void vf_wait_started(uint32_t n);
