// std::thread model hooks shared by the pool-level harnesses (see rt/cbmc_rt.c: vf_std_thread_*).
#pragma once
#include <thread>
#ifdef VF_THREAD_STATE_TRIVIAL
// opt-in (define before including): the callable handed to std::thread only has trivially destructible
// captures (dispenso::ThreadPool: this, a reference, an int), so its state object is released without the
// virtual destructor call.  (CBMC resolves that call to every virtual of the state class, including
// _M_run = the whole thread body, whenever the allocation happened under a symbolic condition.)
extern "C" __attribute__((used, weak)) void vf_thread_state_dispose(void* st) {
  ::operator delete(st);
}
#else
extern "C" __attribute__((used, weak)) void vf_thread_state_dispose(void* st) {
  delete static_cast<std::thread::_State*>(st);
}
#endif
extern "C" void vf_wait_started(uint32_t n);
