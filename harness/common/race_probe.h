// Payload whose every plain access is a race probe: the happens-before detector (rt/race_rt.c,
// spec rt_defs VF_RACE=1) checks that conflicting accesses from different threads are ordered by the
// declared memory orders of the code under test.
#pragma once
#include <cstdint>
#include "vf.h"

struct RaceProbe {
  int32_t v;
  RaceProbe() noexcept : v(0) { vf_race_write(this); }
  explicit RaceProbe(int32_t x) noexcept : v(x) { vf_race_write(this); }
  RaceProbe(const RaceProbe& o) noexcept : v(o.v) { vf_race_read(&o); vf_race_write(this); }
  RaceProbe(RaceProbe&& o) noexcept : v(o.v) { vf_race_write(&o); vf_race_write(this); }
  RaceProbe& operator=(const RaceProbe& o) noexcept { vf_race_read(&o); vf_race_write(this); v = o.v; return *this; }
  RaceProbe& operator=(RaceProbe&& o) noexcept { vf_race_write(&o); vf_race_write(this); v = o.v; return *this; }
  ~RaceProbe() { vf_race_write(this); }
};
