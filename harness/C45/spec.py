TECHNIQUE = ('bounded symbolic execution of LLVM IR lowered to C: CBMC/SAT (cadical), sequentialised '
             'thread model (cbmc-seq: every interleaving of the atomic operations within the round bound), '
             'symbolic start counter (induction step over the number of ids handed out before)')
ASSUMPTIONS = ['the 64-bit id counter does not reach 2^64-1 inside the scenario (documented: ids are not reused / '
               'no wrap in the lifetime of a process)',
               'start state is a reachable one: counter = c0, ids handed out earlier are < c0']
OUTSIDE = ('more than 4 concurrently arriving new threads in one scenario (the symbolic start counter c0 makes the '
           'checked statement the induction step, so any number of earlier threads is covered; the composition of '
           'steps is an argument, not solved); counter wrap after 2^64-1 ids; thread exit / TLS destruction; '
           'weak-memory reorderings (the only shared access is one relaxed fetch_add, whose atomicity is what is used)')
INSTANCES = [
    {'name': 't2_anyc0', 'src': 'thread_id.cpp', 'engine': 'cbmc-seq', 'defs': {'VF_T': 2, 'VF_C0_FULL': 1},
     'tiers': ['thorough'],
     'repo_sources': ['dispenso/thread_id.cpp'], 'steps': 4, 'unwind': 6, 'nthreads': 3, 'spin_loops': True,
     'timeout': 1500,
     'bounds': 'main + 2 new threads, 2-3 calls each; start counter c0 = ANY 64-bit value <= 2^64-5 (fully symbolic); '
               '<= 4 scheduling rounds'},
    {'name': 't2', 'src': 'thread_id.cpp', 'engine': 'cbmc-seq', 'defs': {'VF_T': 2},
     'repo_sources': ['dispenso/thread_id.cpp'], 'steps': 4, 'unwind': 6, 'nthreads': 3, 'spin_loops': True,
     'timeout': 900,
     'bounds': 'main + 2 new threads, 2-3 threadId() calls each; start counter c0 from 8 representative values (0, 1, 5, 2^32-2, 2^32-1, 2^63-2, 2^64-256, 2^64-5); main holds an '
               'old id (< c0) or takes a new one concurrently; <= 4 scheduling rounds'},
    {'name': 't3', 'src': 'thread_id.cpp', 'engine': 'cbmc-seq', 'defs': {'VF_T': 3},
     'repo_sources': ['dispenso/thread_id.cpp'], 'steps': 4, 'unwind': 6, 'nthreads': 4, 'spin_loops': True,
     'timeout': 900,
     'bounds': 'main + 3 new threads, 2-3 calls each; 8 representative start counters; <= 4 scheduling rounds',
     'thorough': {'steps': 6, 'bounds': 'main + 3 new threads, 2-3 calls each; 8 representative start counters; <= 6 scheduling rounds'}},
    {'name': 't4', 'src': 'thread_id.cpp', 'engine': 'cbmc-seq', 'defs': {'VF_T': 4}, 'tiers': ['thorough'],
     'repo_sources': ['dispenso/thread_id.cpp'], 'steps': 6, 'unwind': 7, 'nthreads': 5, 'spin_loops': True,
     'timeout': 1500,
     'bounds': 'main + 4 new threads, 2-3 calls each; 8 representative start counters; <= 6 scheduling rounds'},
]
