// C45: threadId() is stable per thread and unique across threads.
// Real code: dispenso::threadId() (dispenso/thread_id.cpp, linked in as a repo source), its global
//            counter `nextThread` and its thread_local cache `currentThread`.
// Symbolic: the counter value c0 at the start (= any number of ids handed out earlier in the
//           process), whether the main thread already owns an id (< c0) or takes one concurrently,
//           how many calls each thread makes (1..2), the interleaving of all atomic operations.
// The check is the induction step "from any reachable state (c0 ids handed out, all < c0), N more
// threads obtain ids that are stable, pairwise distinct, >= c0 (hence distinct from every id handed
// out before) and the counter ends at c0 + #new ids"; N = VF_T (+ main).
#include <dispenso/thread_id.h>
#include "vf.h"

namespace dispenso {
extern std::atomic<uint64_t> nextThread;
}  // namespace dispenso

#ifndef VF_T
#define VF_T 2
#endif
#ifndef VF_C0_FULL
#define VF_C0_FULL 0
#endif

static uint64_t g_id[VF_T + 1];    // id observed by thread k (0 = main)
static uint8_t g_has[VF_T + 1];    // thread k has reported
static uint64_t g_c0;              // ids handed out before the scenario
static bool g_main_old;            // main obtained its id before the scenario

static void report(int k, uint64_t id) {
  VfAtomic a;
  if (g_has[k]) {
    vf_check(g_id[k] == id, "threadId() changed between two calls of the same thread");
    return;
  }
  // first report of thread k: compare with everything reported so far
  for (int j = 0; j <= VF_T; ++j) {
    if (j != k && g_has[j]) {
      vf_check(g_id[j] != id, "two threads obtained the same threadId()");
    }
  }
  if (k != 0 || !g_main_old) {
    vf_check(id >= g_c0, "a new thread obtained an id that had been handed out before");
  }
  g_id[k] = id;
  g_has[k] = 1;
}

static bool g_third[VF_T + 1];  // drawn by main before the threads start (one global input order)
template <int K>
static void worker(void*) {
  report(K, dispenso::threadId());
  if (g_third[K]) {
    report(K, dispenso::threadId());
  }
  report(K, dispenso::threadId());
}

extern "C" void vf_main() {
  // reachable start state: c0 ids were handed out earlier (all < c0); main either took its id early
  // (a real threadId() call on the fresh counter, i.e. id 0 < c0) or takes one concurrently below.
  // Room is left so that the 64-bit counter does not reach the reserved value 2^64-1 inside the
  // scenario (documented: ids are not reused / no wrap in the lifetime of a process).
  g_main_old = vf_nondet_bool();
  uint64_t mine = 0;
  if (g_main_old) {
    mine = dispenso::threadId();
  }
#if VF_C0_FULL
  g_c0 = vf_nondet_u64();
#else
  {  // representative start values: fresh process, small, 32-bit boundary, sign boundary, near the top
    static const uint64_t kStarts[8] = {0, 1, 5, 0xFFFFFFFEull, 0xFFFFFFFFull, 0x7FFFFFFFFFFFFFFEull,
                                        0xFFFFFFFFFFFFFF00ull, UINT64_MAX - 1 - (VF_T + 1)};
    g_c0 = kStarts[vf_range_u32(0, 7)];
  }
#endif
  vf_assume(g_c0 <= UINT64_MAX - 1 - (VF_T + 1));
  if (g_main_old) {
    vf_assume(mine < g_c0);  // the early id is one of the c0 ids handed out before
  }
  dispenso::nextThread.store(g_c0, std::memory_order_relaxed);
  if (g_main_old) {
    report(0, mine);
  }
  for (int k = 1; k <= VF_T; ++k) g_third[k] = vf_nondet_bool();
  vf_spawn(worker<1>, nullptr);
  vf_spawn(worker<2>, nullptr);
#if VF_T >= 3
  vf_spawn(worker<3>, nullptr);
#endif
#if VF_T >= 4
  vf_spawn(worker<4>, nullptr);
#endif
  // main calls concurrently with the workers
  report(0, dispenso::threadId());
  report(0, dispenso::threadId());
  vf_join_all();
  // quiescent: all threads reported; the counter advanced by exactly the number of new ids
  uint64_t fresh = VF_T + (g_main_old ? 0u : 1u);
  for (int k = 0; k <= VF_T; ++k) {
    vf_check(g_has[k] == 1, "every thread reported an id");
  }
  vf_check(dispenso::nextThread.load(std::memory_order_relaxed) == g_c0 + fresh,
           "the id counter advanced by exactly one per new thread");
  report(0, dispenso::threadId());
}
