/* C43 family (c) only (spec key rt_extra).  The topo instances run CBMC in path-exploration mode (--paths lifo:
 * every control path is executed on its own with full constant propagation instead of merging states at joins, so
 * that std::vector sizes / capacities / buffers stay literal on every path).  CBMC's builtin __CPROVER_deallocate
 * records the freed pointer under `if(nondet)` - a *branch*, which doubles the number of paths per free().  This is
 * the same nondeterministic choice as a branch-free conditional expression (same override as harness/C27/paths_rt.c). */
_Bool nondet_bool(void);
void __CPROVER_deallocate(void *ptr) {
  _Bool r = nondet_bool();
  __CPROVER_deallocated = r ? ptr : __CPROVER_deallocated;
}
