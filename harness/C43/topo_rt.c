/* C43 family (c) only (spec key rt_extra).  The topo instances run CBMC in path-exploration mode (--paths lifo:
 * every control path is executed on its own with full constant propagation instead of merging states at joins, so
 * that std::vector sizes / capacities / buffers stay literal on every path).  CBMC's builtin __CPROVER_deallocate
 * records the freed pointer under `if(nondet)` - a *branch*, which doubles the number of paths per free().  This is
 * the same nondeterministic choice as a branch-free conditional expression (same override as harness/C27/paths_rt.c). */
_Bool nondet_bool(void);
void __CPROVER_deallocate(void *ptr) {
  _Bool r = nondet_bool();
  __CPROVER_deallocated = r ? ptr : __CPROVER_deallocated;
}

/* memcpy/memmove of a few 32-bit words (the std::vector<int32_t> copies / range inserts of this code: <= 8 CPU ids):
 * same semantics as the built-ins, but written as word assignments, so that literal CPU ids stay literal when they
 * are read back (CBMC's built-in memmove goes through byte arrays; every later comparison of such a value would
 * fork the path exploration).  All other sizes keep the built-ins. */
#define VF_C43_WORDS 8
void vf_memmove(void *d, const void *s, uint64_t n) {
  if (n % 4 == 0 && n <= 4 * VF_C43_WORDS) {
    uint32_t tmp[VF_C43_WORDS];
    for (uint64_t i = 0; i < VF_C43_WORDS; ++i) if (i < n / 4) tmp[i] = ((const uint32_t *)s)[i];
    for (uint64_t i = 0; i < VF_C43_WORDS; ++i) if (i < n / 4) ((uint32_t *)d)[i] = tmp[i];
    return;
  }
  memmove(d, s, n);
}
void vf_memcpy(void *d, const void *s, uint64_t n) { vf_memmove(d, s, n); }
#define vf_memmove vf_memmove_rt_builtin
#define vf_memcpy vf_memcpy_rt_builtin
