/* C43 family (c) only (spec key rt_extra): memset model for the one symbolic-length fill of the run.
 * buildCpuToL3Map's `std::vector<int32_t> cpuToL3(maxCpu, -1)` is lowered by clang to memset(p, 0xff, 4 * maxCpu)
 * with maxCpu = max(hardware_concurrency, largest L3 cpu id + 1), symbolic as soon as the L3 lists hold symbolic
 * ids.  CBMC's built-in memset with a symbolic length on a symbolic-size object does not terminate in symbolic
 * execution (> 900 s); the same semantics written as a bounded word loop is cheap.  Zero fills (constant-size
 * struct initialisation in this code) keep the built-in.  A non-zero fill that is not a whole number of at most
 * VF_C43_FILL_MAX 32-bit words is an `rt:` failure (run inconclusive), never silently mis-modelled. */
#ifndef VF_C43_FILL_MAX
#define VF_C43_FILL_MAX 32
#endif
void vf_memset(void *d, uint8_t c, uint64_t n) {
  if (c == 0) {
    __builtin_memset(d, 0, n);
    return;
  }
  __CPROVER_assert(n % 4 == 0 && n / 4 <= VF_C43_FILL_MAX, "rt: non-zero memset is a whole number of <= VF_C43_FILL_MAX words");
  uint32_t w = (uint32_t)c * 0x01010101u;
  uint32_t *p = (uint32_t *)d;
  for (uint64_t i = 0; i < VF_C43_FILL_MAX; ++i) {
    if (i >= n / 4) break;
    p[i] = w;
  }
}
#define vf_memset vf_memset_rt_builtin
