// C43 (a): CpuSet set algebra.  An arbitrary symbolic 1024-bit set, one symbolic operation
// (add / addRange / remove / removeRange) with ids anywhere in the int32 range (negative, reversed
// and huge ranges included) and a symbolic probe id x:
//   contains(x) afterwards == spec(contains(x) before, op, x)
//   ids outside [0, 1024) are never contained and never change anything
//   count() == number of set bits of the backing words (before and after)
//   the two guard words around the object are untouched (no out-of-bounds write)
// The backing store is written/read directly only to make the initial set arbitrary and to count
// bits independently of contains()/count().
#include <dispenso/cpu_set.h>
#include "vf.h"
using dispenso::CpuSet;

#ifndef VF_OPS
#define VF_OPS 1
#endif
// allowed operations, bit mask: 1 add, 2 addRange, 4 remove, 8 removeRange
#ifndef VF_OPMASK
#define VF_OPMASK 15
#endif

constexpr int32_t kCap = 1024;  // documented capacity: "A CpuSet represents CPU IDs in [0, 1024)"
constexpr int kWords = kCap / 64;

static_assert(sizeof(CpuSet) == kWords * 8, "CpuSet is a 1024-bit set");

struct Guarded {
  uint64_t g0;
  CpuSet s;
  uint64_t g1;
};

static uint64_t* words(CpuSet& s) {
  return reinterpret_cast<uint64_t*>(&s.set_);
}

VF_NOINLINE static int32_t ref_popcount(CpuSet& s) {
  int32_t n = 0;
  const uint64_t* w = words(s);
  for (int i = 0; i < kWords; ++i) {
    // per-word popcount summed in word order.  (A structurally different popcount, e.g. SWAR, makes
    // the equality a 1024-input adder-tree equivalence problem that SAT does not solve in hours.)
    n += __builtin_popcountll(w[i]);
  }
  return n;
}

static bool raw_bit(CpuSet& s, int32_t x) {
  if (x < 0 || x >= kCap) return false;
  return (words(s)[x / 64] >> (x % 64)) & 1;
}

extern "C" void vf_main() {
  Guarded g;
  g.g0 = 0xA5A5A5A5A5A5A5A5ull;
  g.g1 = 0x5A5A5A5A5A5A5A5Aull;
  CpuSet& s = g.s;
  vf_check(s.count() == 0, "a default-constructed CpuSet is empty");
  for (int i = 0; i < kWords; ++i) {
    words(s)[i] = vf_nondet_u64();
  }
  const int32_t x = static_cast<int32_t>(vf_nondet_u32());

  vf_check(s.contains(x) == raw_bit(s, x), "contains(x) reads bit x of the set (false outside [0,1024))");
#ifdef VF_COUNT
  vf_check(s.count() == ref_popcount(s), "count() equals the number of set bits of an arbitrary set");
#endif

  bool expect = s.contains(x);
  for (int k = 0; k < VF_OPS; ++k) {
    const uint8_t op = vf_range_u8(0, 3);
    vf_assume((VF_OPMASK >> op) & 1);
    const int32_t a = static_cast<int32_t>(vf_nondet_u32());
    const int32_t b = static_cast<int32_t>(vf_nondet_u32());
    const bool inRep = x >= 0 && x < kCap;
#ifdef VF_MAXLEN
    // bound on the number of representable ids a range operation touches (the loop trip count)
    if (op == 1 || op == 3) {
      const int64_t lo = a > 0 ? a : 0, hi = b < kCap ? b : kCap;
      vf_assume(hi - lo <= VF_MAXLEN);
    }
#endif
    switch (op) {
      case 0:
        s.add(a);
        expect = expect || (inRep && x == a);
        break;
      case 1:
        s.addRange(a, b);
        expect = expect || (inRep && a <= x && x < b);
        break;
      case 2:
        s.remove(a);
        expect = expect && !(x == a);
        break;
      default:
        s.removeRange(a, b);
        expect = expect && !(a <= x && x < b);
        break;
    }
  }
  const bool after = s.contains(x);
  vf_check(after == expect, "contains(x) after the operation equals the set-algebra specification");
  vf_check(!after || (x >= 0 && x < kCap), "ids outside [0,1024) are never reported as members");
  vf_check(after == raw_bit(s, x), "contains(x) agrees with the backing bit after the operation");
#ifdef VF_COUNT
  vf_check(s.count() == ref_popcount(s), "count() equals the number of set bits after the operation");
#endif
  vf_check(g.g0 == 0xA5A5A5A5A5A5A5A5ull && g.g1 == 0x5A5A5A5A5A5A5A5Aull,
           "memory adjacent to the CpuSet is untouched");

  // clear() empties the set
  s.clear();
  vf_check(!s.contains(x) && s.count() == 0, "clear() removes every id");
}
