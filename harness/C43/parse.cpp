// C43 (b): detail::parseLinuxCpuList versus an independent reference reader of the Linux cpu-list
// format, for EVERY string of length <= VF_LEN over the alphabet
//   { '0'..'9', ',', '-', ' ', '\n', 'x' }        ('x' stands for "any other byte")
// and a symbolic probe id x (any int32): membership of x in the parsed set must equal membership in
// the set the string denotes (restricted to the representable ids [0,1024)).
//
// Reference grammar (sysfs "cpulist" output format, Documentation/admin-guide/cputopology.rst and
// lib/bitmap.c "%*pbl": comma separated decimal numbers and inclusive ranges lo-hi, terminated by a
// newline), plus exactly the leniencies the repo's own unit tests document (tests/cpu_set_test.cpp:
// ParseWithSpaces "1, 2", ParseTrailingComma "1,", ParseEmptyString ""):
//     list  := item { ',' item } ws*
//     item  := ws* [ num | num '-' num ]          (empty items are skipped)
//     num   := digit+ ,  value <= 2^20 ;  range lo-hi requires lo <= hi ;  ws := ' ' | '\n'
// Strings outside this grammar ("1 2", "3-1", "1-2-3", "-5", "x", ...) have no documented meaning:
// for them only memory safety, "members are representable ids" and "no digits => empty set" are
// required.  The reference is a single left-to-right pass (no strtol/strchr, no buffer mutation).
#include <dispenso/cpu_set.h>
#include "vf.h"
using dispenso::CpuSet;

#ifndef VF_LEN
#define VF_LEN 4
#endif

struct Ref {
  bool wellFormed;
  bool member;
};

static Ref ref_parse(const char* s, int32_t x) {
  enum { START, LO, DASH, HI, TRAIL };
  int st = START;
  int64_t lo = 0, hi = 0;
  bool ok = true, mem = false;
  for (int i = 0; i <= VF_LEN; ++i) {
    const char c = s[i];
    const bool end = c == '\0';
    const bool dig = c >= '0' && c <= '9';
    const bool ws = c == ' ' || c == '\n';
    const bool sep = c == ',' || end;
    const int64_t d = c - '0';
    switch (st) {
      case START:
        if (dig) {
          lo = d;
          st = LO;
        } else if (!(ws || sep)) {
          ok = false;
        }
        break;
      case LO:
        if (dig) {
          lo = lo * 10 + d;
        } else if (c == '-') {
          st = DASH;
        } else if (sep || ws) {
          mem = mem || x == lo;
          st = sep ? START : TRAIL;
        } else {
          ok = false;
        }
        break;
      case DASH:
        if (dig) {
          hi = d;
          st = HI;
        } else {
          ok = false;
        }
        break;
      case HI:
        if (dig) {
          hi = hi * 10 + d;
        } else if (sep || ws) {
          if (lo > hi) ok = false;
          mem = mem || (lo <= x && x <= hi);
          st = sep ? START : TRAIL;
        } else {
          ok = false;
        }
        break;
      default:  // TRAIL: only white space may follow
        if (!(ws || end)) ok = false;
        break;
    }
    if (lo > (1 << 20) || hi > (1 << 20)) ok = false;
    if (end || !ok) break;
  }
  Ref r;
  r.wellFormed = ok;
  r.member = mem && x >= 0 && x < 1024;
  return r;
}

VF_NOINLINE static CpuSet parse(const char* s) {
  return dispenso::detail::parseLinuxCpuList(s);
}

extern "C" void vf_main() {
  char buf[VF_LEN + 1];
  bool anyDigit = false;
  bool live = true;  // before the first NUL
  for (int i = 0; i < VF_LEN; ++i) {
    const char c = static_cast<char>(vf_nondet_u8());
    vf_assume((c >= '0' && c <= '9') || c == ',' || c == '-' || c == ' ' || c == '\n' || c == 'x' || c == '\0');
    buf[i] = c;
    if (c == '\0') live = false;
    if (live && c >= '0' && c <= '9') anyDigit = true;
  }
  buf[VF_LEN] = '\0';
  const int32_t x = static_cast<int32_t>(vf_nondet_u32());

  char orig[VF_LEN + 1];
  for (int i = 0; i <= VF_LEN; ++i) orig[i] = buf[i];

  const CpuSet set = parse(buf);
  const bool got = set.contains(x);

  bool same = true;
  for (int i = 0; i <= VF_LEN; ++i) same = same && orig[i] == buf[i];
  vf_check(same, "parseLinuxCpuList does not modify its input string");

  const Ref r = ref_parse(orig, x);
  vf_check(!r.wellFormed || got == r.member,
           "well-formed cpu-list: parsed membership equals the denoted set (in-range ids only)");
  vf_check(!got || (x >= 0 && x < 1024), "parsed set contains only representable ids");
  vf_check(anyDigit || !got, "a string without digits parses to the empty set");
}
