TECHNIQUE = ('bounded symbolic execution of LLVM IR (clang -O1 of the real dispenso/cpu_set.cpp + harness) lowered to C: '
             'CBMC/SAT (cadical); differential harnesses with a symbolic probe id against reference oracles')
ASSUMPTIONS = [
    'Linux backing store: CpuSet wraps glibc cpu_set_t (1024 bits, CPU_SET/CPU_CLR/CPU_ISSET macros lowered as is); '
    'CPU_COUNT -> __sched_cpucount is modelled as the sum of per-word popcounts over the given byte size',
    'strtol modelled per ISO C in the C locale for base 10 (isspace*, optional sign, digits, saturating, endptr); strchr/strlen per ISO C',
    'parse: every std::string of the run fits the 15-char small-string buffer (VF_STRING_SSO_ONLY; a heap string would make the run inconclusive)',
    'cpu-list reference grammar: sysfs cpulist output format (comma separated decimal ids and inclusive lo-hi ranges with lo <= hi, '
    'optional trailing newline/space) plus the leniencies documented by tests/cpu_set_test.cpp (white space before an item, empty items); '
    'other strings only have to be handled memory-safely and must yield representable ids only',
]
OUTSIDE = ('range operations touching more than 8 (quick) / 32 (thorough) representable ids when start and end are both symbolic '
           '(SAT cost grows steeply with the number of symbolic-index bit writes: 16 ids ~80 s, 32 ids ~17 min, 64 ids > 10 min for one op alone, 1024 ids > 20 GB); '
           'cpu-list strings longer than 3 characters (length 4 did not finish in 1700 s / 5.4 GB) and therefore ids >= 10 inside ranges, '
           'ids above 2^20 (parseIntClamped rejects them: "0-2000000" parses to the empty set, by design of kMaxReasonableCpuId); '
           'the portable (Windows/macOS) bitset backend; '
           'buildGroupsFromCacheTopology (family c): the harness groups.cpp is written but the lowered libstdc++ vector/sort code with '
           'symbolic sizes exceeds 20 GB in CBMC even for 2 L2 groups x 2 CPUs, so this part of the property is NOT decided here')

RANGE_LOOPS = ['_ZN8dispenso6CpuSet8addRangeEii', '_ZN8dispenso6CpuSet11removeRangeEii']
PARSE_LOOP = '_ZN8dispenso6detail12_GLOBAL__N_116parseAndAddRangeEPcRNS_6CpuSetE.0'


def _range_unwind(n):
    return {'%s.%d' % (f, k): n for f in RANGE_LOOPS for k in (0, 1)}


BUILD = '_ZN8dispenso6detail28buildGroupsFromCacheTopologyERKSt6vectorINS_10CacheGroupESaIS2_EES6_i'

INSTANCES = [
    {'name': 'algebra_point', 'src': 'algebra.cpp', 'engine': 'cbmc', 'repo_sources': ['dispenso/cpu_set.cpp'],
     'defs': {'VF_OPS': 1, 'VF_OPMASK': 5, 'VF_COUNT': 1}, 'unwind': 18, 'unwindset': _range_unwind(1), 'timeout': 900,
     'bounds': 'arbitrary 1024-bit initial set, one add(a) or remove(a) with arbitrary int32 a, arbitrary int32 probe id; '
               'count() compared with the bit count before and after; default construction and clear()',
     'thorough': {'defs': {'VF_OPS': 2, 'VF_OPMASK': 5, 'VF_COUNT': 1}}},
    {'name': 'algebra_range', 'src': 'algebra.cpp', 'engine': 'cbmc', 'repo_sources': ['dispenso/cpu_set.cpp'],
     'defs': {'VF_OPS': 1, 'VF_OPMASK': 10, 'VF_MAXLEN': 8}, 'unwind': 18, 'timeout': 900,
     'bounds': 'arbitrary 1024-bit initial set, one addRange(a,b) or removeRange(a,b) with arbitrary int32 a and b (negative, '
               'reversed, huge, straddling 0 and 1024) such that at most 8 representable ids lie in [a,b); arbitrary int32 probe id',
     'thorough': {'defs': {'VF_OPS': 1, 'VF_OPMASK': 10, 'VF_MAXLEN': 16}, 'timeout': 1700,
                  'bounds': 'as quick with at most 16 representable ids in [a,b)'}},
    {'name': 'algebra_range32', 'src': 'algebra.cpp', 'engine': 'cbmc', 'repo_sources': ['dispenso/cpu_set.cpp'],
     'defs': {'VF_OPS': 1, 'VF_OPMASK': 10, 'VF_MAXLEN': 32}, 'unwind': 34, 'timeout': 1700, 'tiers': ['thorough'],
     'bounds': 'as algebra_range with at most 32 representable ids in [a,b)'},
    {'name': 'parse', 'src': 'parse.cpp', 'engine': 'cbmc', 'repo_sources': ['dispenso/cpu_set.cpp'],
     'defs': {'VF_LEN': 3}, 'unwind': 5, 'unwindset': {PARSE_LOOP: 11}, 'timeout': 1200,
     'rt_defs': {'VF_STRING_SSO_ONLY': 1},
     'bounds': 'every NUL-terminated string of length <= 3 over {0-9 , - space newline x}, arbitrary int32 probe id'},
    # family (c): written, not decidable within the resource limits (see OUTSIDE / NOTES.md); kept for a future round
    {'name': 'groups', 'src': 'groups.cpp', 'engine': 'cbmc', 'repo_sources': ['dispenso/cpu_set.cpp'],
     'defs': {'VF_NL2': 2, 'VF_NCPU': 4}, 'unwind': 6, 'timeout': 900, 'tiers': ['experimental'],
     'bounds': '<= 2 L2 groups x <= 2 cpus, <= 2 L3 groups'},
    {'name': 'topo_dev', 'src': 'topo.cpp', 'engine': 'cbmc', 'repo_sources': ['dispenso/cpu_set.cpp'],
     'defs': {'VF_S0': 2, 'VF_S1': 2, 'VF_S2': 2}, 'unwind': 8, 'unwind_fn': {BUILD: 20, 'vf_memmove': 9, 're:scanGroup': 40, 'vf_main': 20}, 'ptrdiff': True, 'checks': ['--div-by-zero-check', '--paths', 'lifo'], 'solver': 'minisat', 'rt_extra': ['harness/C43/topo_rt.c'], 'timeout': 900, 'tiers': ['dev'], 'mem_gb': 10,
     'bounds': 'dev'},
]
