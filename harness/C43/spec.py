TECHNIQUE = ('bounded symbolic execution of LLVM IR (clang -O1 of the real dispenso/cpu_set.cpp + harness) lowered to C: '
             'CBMC/SAT (cadical); differential harnesses with a symbolic probe id against reference oracles; grouping: literal topology shapes with '
             'symbolic L3 membership and maxGroupSize, CBMC path exploration (--paths lifo, minisat per path)')
ASSUMPTIONS = [
    'Linux backing store: CpuSet wraps glibc cpu_set_t (1024 bits, CPU_SET/CPU_CLR/CPU_ISSET macros lowered as is); '
    'CPU_COUNT -> __sched_cpucount is modelled as the sum of per-word popcounts over the given byte size',
    'strtol modelled per ISO C in the C locale for base 10 (isspace*, optional sign, digits, saturating, endptr); strchr/strlen per ISO C',
    'parse: every std::string of the run fits the 15-char small-string buffer (VF_STRING_SSO_ONLY; a heap string would make the run inconclusive)',
    'cpu-list reference grammar: sysfs cpulist output format (comma separated decimal ids and inclusive lo-hi ranges with lo <= hi, '
    'optional trailing newline/space) plus the leniencies documented by tests/cpu_set_test.cpp (white space before an item, empty items); '
    'other strings only have to be handled memory-safely and must yield representable ids only',
    'grouping (topo_*): physical cache hierarchy - L2 atoms disjoint, duplicate free and listed by increasing first CPU id, L3 groups disjoint, '
    'all CPUs of an atom in the same L3 group or in none, ids non-negative; the L3 lists may name further CPUs that belong to no L2 atom '
    '(the harness uses such placeholder ids to keep the list lengths literal); std::thread::hardware_concurrency() = 2 (framework model)',
    'grouping (topo_*): memcpy/memmove of <= 8 32-bit words are modelled as word assignments instead of CBMC built-ins (harness/C43/topo_rt.c, '
    'same semantics); CBMC standard pointer/bounds checks stay enabled; --paths lifo explores every control path separately',
]
OUTSIDE = ('range operations touching more than 8 (quick) / 32 (thorough) representable ids when start and end are both symbolic '
           '(SAT cost grows steeply with the number of symbolic-index bit writes: 16 ids ~80 s, 32 ids ~17 min, 64 ids > 10 min for one op alone, 1024 ids > 20 GB); '
           'cpu-list strings longer than 3 characters (length 4 did not finish in 1700 s / 5.4 GB) and therefore ids >= 10 inside ranges, '
           'ids above 2^20 (parseIntClamped rejects them: "0-2000000" parses to the empty set, by design of kMaxReasonableCpuId); '
           'the portable (Windows/macOS) bitset backend; '
           'buildGroupsFromCacheTopology (family c): topologies with more than 3 L2 atoms or more than 2 CPUs per atom, more than 3 L3 groups, '
           'empty L2 atoms, L2 lists not sorted by first CPU id, CPU ids other than the literal 2k / 2k+1 layout, L3 lists that name CPUs '
           'twice or an L2 atom straddling two L3 groups (the code only looks at the first CPU of an atom), negative ids (would index '
           'the cpu->L3 table out of bounds); 3-atom shapes other than 1/1/1 and 2/2/2; states are not merged (path exploration), '
           'the merged encoding of even 2 atoms x 2 CPUs needs > 18 GB')

RANGE_LOOPS = ['_ZN8dispenso6CpuSet8addRangeEii', '_ZN8dispenso6CpuSet11removeRangeEii']
PARSE_LOOP = '_ZN8dispenso6detail12_GLOBAL__N_116parseAndAddRangeEPcRNS_6CpuSetE.0'


def _range_unwind(n):
    return {'%s.%d' % (f, k): n for f in RANGE_LOOPS for k in (0, 1)}


BUILD = '_ZN8dispenso6detail28buildGroupsFromCacheTopologyERKSt6vectorINS_10CacheGroupESaIS2_EES6_i'

def _topo(name, shape, tiers, timeout):
    n = 3 if shape[2] else 2
    return {'name': name, 'src': 'topo.cpp', 'engine': 'cbmc', 'repo_sources': ['dispenso/cpu_set.cpp'],
            'defs': {'VF_S0': shape[0], 'VF_S1': shape[1], 'VF_S2': shape[2]},
            'unwind': 8, 'unwind_fn': {BUILD: 20, 'vf_memmove': 9, 're:scanGroup': 40, 'vf_main': 20},
            'ptrdiff': True, 'checks': ['--div-by-zero-check', '--paths', 'lifo'], 'solver': 'minisat',
            'rt_extra': ['harness/C43/topo_rt.c'], 'timeout': timeout, 'tiers': tiers, 'mem_gb': 10,
            'bounds': 'buildGroupsFromCacheTopology: literal shape of %d L2 atoms with %s CPUs (ids 2k, 2k+1, increasing); symbolic: '
                      'the L3 group of every atom (none or one of 3 groups: all %d membership vectors) and maxGroupSize '
                      '(any int32); hardware_concurrency() = 2' % (n, '/'.join(str(x) for x in shape[:n]), 4 ** n)}


INSTANCES = [
    {'name': 'algebra_point', 'src': 'algebra.cpp', 'engine': 'cbmc', 'repo_sources': ['dispenso/cpu_set.cpp'],
     'defs': {'VF_OPS': 1, 'VF_OPMASK': 5, 'VF_COUNT': 1}, 'unwind': 18, 'unwindset': _range_unwind(1), 'timeout': 900,
     'bounds': 'arbitrary 1024-bit initial set, one add(a) or remove(a) with arbitrary int32 a, arbitrary int32 probe id; '
               'count() compared with the bit count before and after; default construction and clear()',
     'thorough': {'defs': {'VF_OPS': 2, 'VF_OPMASK': 5, 'VF_COUNT': 1}}},
    {'name': 'algebra_range', 'src': 'algebra.cpp', 'engine': 'cbmc', 'repo_sources': ['dispenso/cpu_set.cpp'],
     'defs': {'VF_OPS': 1, 'VF_OPMASK': 10, 'VF_MAXLEN': 8}, 'unwind': 18, 'timeout': 900,
     'bounds': 'arbitrary 1024-bit initial set, one addRange(a,b) or removeRange(a,b) with arbitrary int32 a and b (negative, '
               'reversed, huge, straddling 0 and 1024) such that at most 8 representable ids lie in [a,b); arbitrary int32 probe id',
     'thorough': {'defs': {'VF_OPS': 1, 'VF_OPMASK': 10, 'VF_MAXLEN': 16}, 'timeout': 1700,
                  'bounds': 'as quick with at most 16 representable ids in [a,b)'}},
    {'name': 'algebra_range32', 'src': 'algebra.cpp', 'engine': 'cbmc', 'repo_sources': ['dispenso/cpu_set.cpp'],
     'defs': {'VF_OPS': 1, 'VF_OPMASK': 10, 'VF_MAXLEN': 32}, 'unwind': 34, 'timeout': 1700, 'tiers': ['thorough'],
     'bounds': 'as algebra_range with at most 32 representable ids in [a,b)'},
    {'name': 'parse', 'src': 'parse.cpp', 'engine': 'cbmc', 'repo_sources': ['dispenso/cpu_set.cpp'],
     'defs': {'VF_LEN': 3}, 'unwind': 5, 'unwindset': {PARSE_LOOP: 11}, 'timeout': 1200,
     'rt_defs': {'VF_STRING_SSO_ONLY': 1},
     'bounds': 'every NUL-terminated string of length <= 3 over {0-9 , - space newline x}, arbitrary int32 probe id'},
    # family (c): written, not decidable within the resource limits (see OUTSIDE / NOTES.md); kept for a future round
    {'name': 'groups', 'src': 'groups.cpp', 'engine': 'cbmc', 'repo_sources': ['dispenso/cpu_set.cpp'],
     'defs': {'VF_NL2': 2, 'VF_NCPU': 4}, 'unwind': 6, 'timeout': 900, 'tiers': ['experimental'],
     'bounds': '<= 2 L2 groups x <= 2 cpus, <= 2 L3 groups'},
    # family (c), decided: one instance per literal topology shape, CBMC in path-exploration mode (see topo.cpp / topo_rt.c)
    _topo('topo_22', (2, 2, 0), ['quick', 'thorough'], 600),
    _topo('topo_111', (1, 1, 1), ['quick', 'thorough'], 1500),
    _topo('topo_222', (2, 2, 2), ['thorough'], 1700),
    _topo('topo_12', (1, 2, 0), ['thorough'], 600),
    _topo('topo_21', (2, 1, 0), ['thorough'], 600),
]
