TECHNIQUE = ('bounded symbolic execution of LLVM IR (clang -O1 of the real cpu_set.cpp + harness) lowered to C: '
             'CBMC/SAT (cadical); differential harnesses with a symbolic probe id against reference oracles')
ASSUMPTIONS = [
    'Linux backing store: CpuSet wraps glibc cpu_set_t (1024 bits); CPU_COUNT -> __sched_cpucount modelled as popcount of the words',
    'strtol modelled per ISO C / C locale for base 10 (isspace*, optional sign, digits, saturating); strchr per ISO C',
]
OUTSIDE = 'filled in below'
INSTANCES = [
    {'name': 'algebra', 'src': 'algebra.cpp', 'engine': 'cbmc', 'repo_sources': ['dispenso/cpu_set.cpp'],
     'defs': {'VF_OPS': 1}, 'unwind': 1026, 'timeout': 900,
     'bounds': 'arbitrary 1024-bit initial set, 1 operation out of add/addRange/remove/removeRange with both '
               'arguments arbitrary int32, arbitrary int32 probe id; no bound on range length (loops unwound to 1025)',
     'thorough': {'defs': {'VF_OPS': 2}, 'timeout': 1700}},
]
