// C43 (c): detail::buildGroupsFromCacheTopology on every synthetic topology with
//   <= VF_NL2 L2 groups of 0..2 CPUs each (CPU ids pairwise distinct, in [0, VF_NCPU), any order),
//   <= 2 L3 groups given by a symbolic map cpu -> {none, L3#0, L3#1},
//   any int32 maxGroupSize (negative, zero, huge), hardware_concurrency() == 2 (framework model).
// Topology preconditions (physical cache hierarchy, stated in ASSUMPTIONS): L2 groups are disjoint
// and duplicate free, L3 groups are disjoint, all CPUs of one L2 group share the same L3 (or none),
// CPU ids are non-negative.
// Checked on the result:
//   * partition: every CPU of every L2 group occurs exactly once over all thread groups, nothing else occurs
//   * no L2 group is split over two thread groups
//   * no thread group contains CPUs of two different known L3 groups
//   * every thread group has 1..max(maxGroupSize, largest L2 group) CPUs, sorted ascending
//   * affinityMask of a thread group contains exactly its CPUs
#include <dispenso/cpu_set.h>
#include "vf.h"
using dispenso::CacheGroup;
using dispenso::CpuSet;
using dispenso::ThreadGroup;

#ifndef VF_NL2
#define VF_NL2 3
#endif
#ifndef VF_NCPU
#define VF_NCPU 6
#endif

// std::thread::hardware_concurrency() is the framework's environment model (constant 2), so the
// cpu -> L3 lookup table is max(2, largest L3 cpu id + 1) long and CPUs beyond it take the
// "unmapped" branch of l3IndexForCpu.
VF_NOINLINE static std::vector<ThreadGroup> build(
    const std::vector<CacheGroup>& l2, const std::vector<CacheGroup>& l3, int32_t mgs) {
  return dispenso::detail::buildGroupsFromCacheTopology(l2, l3, mgs);
}

// (helpers are separate functions so that CBMC's per-frame loop counters are not shared by nested loops)
VF_NOINLINE static void fillL3(CacheGroup& grp, const int32_t* l3of, int32_t g) {
  grp.cacheId = g;
  grp.cpus.reserve(VF_NCPU);
  for (int c = 0; c < VF_NCPU; ++c) {
    const int32_t id = c;
    if (l3of[c] == g) grp.cpus.push_back(id);
  }
}

struct Obs {
  int32_t l3of[VF_NCPU];
  bool used[VF_NCPU];
  int32_t groupOf[VF_NCPU];
  int32_t p, cap, occurrences, sum;
  bool bad;
};

VF_NOINLINE static void checkGroup(const ThreadGroup& tg, int32_t t, Obs& o) {
  const int32_t n = static_cast<int32_t>(tg.cpus.size());
  vf_check(n >= 1, "thread groups are never empty");
  vf_check(n <= o.cap, "thread group size <= max(maxGroupSize, largest L2 group)");
  o.sum += n;
  int32_t known = -1;
  bool inGroup = false;
  for (int32_t i = 0; i < n && i < 2 * VF_NL2; ++i) {
    const int32_t c = tg.cpus[i];
    const bool valid = c >= 0 && c < VF_NCPU;
    vf_check(valid && o.used[valid ? c : 0], "thread groups contain only CPUs of the L2 groups");
    if (!valid) {
      o.bad = true;
      return;
    }
    if (i > 0) vf_check(tg.cpus[i - 1] < c, "CPUs of a thread group are sorted ascending");
    if (c == o.p) {
      ++o.occurrences;
      inGroup = true;
    }
    o.groupOf[c] = t;
    if (o.l3of[c] >= 0) {
      vf_check(known < 0 || known == o.l3of[c], "a thread group never mixes two known L3 groups");
      known = o.l3of[c];
    }
  }
  vf_check(tg.affinityMask.contains(o.p) == inGroup, "affinityMask contains exactly the CPUs of its thread group");
}

extern "C" void vf_main() {
  // --- symbolic topology
  int32_t l3of[VF_NCPU];
  for (int c = 0; c < VF_NCPU; ++c) {
    l3of[c] = static_cast<int32_t>(vf_range_u8(0, 2)) - 1;  // -1 none, 0, 1
  }
  bool used[VF_NCPU];
  for (int c = 0; c < VF_NCPU; ++c) used[c] = false;

  std::vector<CacheGroup> l2(VF_NL2);
  int32_t ghost[VF_NL2][2];
  int32_t gsz[VF_NL2];
  int32_t total = 0, largest = 0;
  for (int j = 0; j < VF_NL2; ++j) {
    l2[j].cacheId = j;
    l2[j].cpus.reserve(2);
    const uint8_t n = vf_range_u8(0, 2);
    gsz[j] = n;
    for (int k = 0; k < 2; ++k) {
      ghost[j][k] = -1;
      if (k < n) {
        const uint8_t c = vf_range_u8(0, VF_NCPU - 1);
        vf_assume(!used[c]);
        used[c] = true;
        if (k == 1) vf_assume(l3of[c] == l3of[ghost[j][0]]);  // one L2 lies inside one L3
        ghost[j][k] = c;
        l2[j].cpus.push_back(c);
      }
    }
    total += n;
    if (n > largest) largest = n;
  }
  std::vector<CacheGroup> l3(2);
  fillL3(l3[0], l3of, 0);
  fillL3(l3[1], l3of, 1);
  const int32_t mgs = static_cast<int32_t>(vf_nondet_u32());
  const int32_t cap = mgs > largest ? mgs : largest;

  // --- real code
  const std::vector<ThreadGroup> out = build(l2, l3, mgs);

  // --- checks
  Obs o;
  for (int c = 0; c < VF_NCPU; ++c) {
    o.l3of[c] = l3of[c];
    o.used[c] = used[c];
    o.groupOf[c] = -1;
  }
  o.p = vf_range_u8(0, VF_NCPU - 1);  // probe cpu
  o.cap = cap;
  o.occurrences = 0;
  o.sum = 0;
  o.bad = false;
  vf_check(out.size() <= VF_NL2, "at most one thread group per L2 group");
  for (size_t t = 0; t < out.size() && t < VF_NL2; ++t) {
    checkGroup(out[t], static_cast<int32_t>(t), o);
    if (o.bad) return;
  }
  vf_check(o.sum == total, "thread groups hold as many CPUs as the L2 groups");
  vf_check(o.occurrences == (used[o.p] ? 1 : 0), "every L2 CPU occurs in exactly one thread group, once");
  const uint8_t j = vf_range_u8(0, VF_NL2 - 1);  // probe L2 group
  if (gsz[j] == 2) {
    vf_check(o.groupOf[ghost[j][0]] == o.groupOf[ghost[j][1]], "an L2 group is never split over two thread groups");
  }
}
