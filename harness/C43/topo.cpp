// C43 (c): detail::buildGroupsFromCacheTopology on literal topology *shapes* with symbolic L3 membership
// and symbolic maxGroupSize.
//
// One instance = one shape: VF_S0, VF_S1, VF_S2 = number of CPUs of L2 atom 0, 1, 2 (literals 1..2; VF_S2 == 0:
// the shape has only two atoms).  CPU ids are literal and increasing: atom k = {2k} or {2k, 2k+1}, so the
// L2 list is sorted by first CPU id as the real callers provide it.  Everything that shapes the heap
// (number of atoms, CPUs per atom, number and length of the L3 lists) is a literal; symbolic are
//   * l3of[k] in {-1 (no L3 information), 0, 1, 2}: the L3 group of atom k (2 bits per atom), and
//   * maxGroupSize (any int32, or VF_MGS_LO..VF_MGS_HI when those are defined).
// The three L3 lists always have one slot per L2 CPU: slot (g, c) holds c when atom(c) belongs to L3 group g
// and otherwise a placeholder CPU id 8 + 8g + c that belongs to no L2 atom (a CPU whose L2 information is
// missing); so the lists are disjoint, duplicate free and of literal length whatever the membership is.
// The instances run CBMC in path-exploration mode (--paths lifo, spec 'checks'): the function's flush decisions
// fork the exploration instead of merging vector states (the merged encoding has symbolic-size reallocations and
// exceeds 18 GB even for two atoms); on every path sizes, capacities and buffers are literals, ids and
// maxGroupSize stay symbolic and the per-path SAT queries decide the checks.
// Topology preconditions (physical cache hierarchy): L2 atoms disjoint and duplicate free, L3 groups
// disjoint, all CPUs of one atom in the same L3 group (or in none), non-negative ids.
//
// Checked on the result, through the real std::vector / CpuSet accessors:
//   * partition: every CPU of every L2 atom occurs in exactly one thread group, exactly once, and the
//     thread groups hold nothing else
//   * no L2 atom is split over two thread groups
//   * no thread group contains atoms of two different known L3 groups
//   * every thread group has 1..max(maxGroupSize, largest atom) CPUs
//   * ThreadGroup::cpus is sorted ascending ("CPU IDs in this group (sorted)") and affinityMask contains
//     exactly the CPUs of its group (checked for every L2 CPU id and every placeholder-free id < 8)
#include <dispenso/cpu_set.h>
#include "vf.h"
using dispenso::CacheGroup;
using dispenso::CpuSet;
using dispenso::ThreadGroup;

#ifndef VF_S0
#define VF_S0 2
#endif
#ifndef VF_S1
#define VF_S1 2
#endif
#ifndef VF_S2
#define VF_S2 2
#endif
#ifndef VF_NL3
#define VF_NL3 3
#endif

constexpr int kNA = VF_S2 > 0 ? 3 : 2;
constexpr int kSize[3] = {VF_S0, VF_S1, VF_S2};
constexpr int kTotal = VF_S0 + VF_S1 + VF_S2;
constexpr int kLargest = (VF_S0 > VF_S1 ? (VF_S0 > VF_S2 ? VF_S0 : VF_S2) : (VF_S1 > VF_S2 ? VF_S1 : VF_S2));
constexpr int kIds = 8;  // ids 0..7 are reserved for L2 CPUs (atom k owns 2k, 2k+1)

static_assert(VF_S0 >= 1 && VF_S0 <= 2 && VF_S1 >= 1 && VF_S1 <= 2 && VF_S2 >= 0 && VF_S2 <= 2, "shape");

VF_NOINLINE static std::vector<ThreadGroup> build(
    const std::vector<CacheGroup>& l2, const std::vector<CacheGroup>& l3, int32_t mgs) {
  return dispenso::detail::buildGroupsFromCacheTopology(l2, l3, mgs);
}

static inline bool isL2Cpu(int32_t c) {
  return c >= 0 && c < 2 * kNA && (c % 2 == 0 || kSize[c / 2] == 2);
}

VF_NOINLINE static void fillL2(CacheGroup& grp, int k) {
  grp.cacheId = k;
  grp.cpus.reserve(2);
  grp.cpus.push_back(2 * k);
  if (kSize[k] == 2) grp.cpus.push_back(2 * k + 1);
}

VF_NOINLINE static void fillL3(CacheGroup& grp, const int32_t* l3of, int32_t g) {
  grp.cacheId = 100 + g;
  grp.cpus.reserve(kTotal);
  for (int c = 0; c < 2 * kNA; ++c) {
    if (!isL2Cpu(c)) continue;
    grp.cpus.push_back(l3of[c / 2] == g ? c : kIds + kIds * g + c);
  }
}

struct Obs {
  int32_t occ[kIds];
  int32_t groupOf[kIds];
  int32_t sum;
};

// The checks are written branch-free on everything read back from the result (bitwise &, | and conditional
// *values* only): the instances run CBMC in path-exploration mode, where every branch on a non-literal value
// would fork the exploration.  Loop bounds and indices are literals.

// one thread group (t literal in the caller)
VF_NOINLINE static void scanGroup(const ThreadGroup& tg, int32_t t, int32_t cap, Obs& o) {
  const int32_t n = static_cast<int32_t>(tg.cpus.size());
  vf_check(n >= 1, "thread groups are never empty");
  vf_check(n <= cap, "thread group size <= max(maxGroupSize, largest L2 group)");
  vf_check(n <= kTotal, "a thread group holds at most all L2 CPUs");
  if (n < 1 || n > kTotal) return;  // (already reported; keeps the reads below inside the vector)
  o.sum += n;
  int32_t in[kIds];
  for (int c = 0; c < kIds; ++c) in[c] = 0;
  int32_t prev = -1;
  for (int32_t i = 0; i < kTotal; ++i) {
    const int32_t live = static_cast<int32_t>(i < n);
    const int32_t c = tg.cpus[static_cast<size_t>(i * live)];
    int32_t valid = 0;
    for (int r = 0; r < 2 * kNA; ++r) {
      if (!isL2Cpu(r)) continue;  // literal
      const int32_t hit = live & static_cast<int32_t>(c == r);
      valid |= hit;
      o.occ[r] += hit;
      o.groupOf[r] = (t & -hit) | (o.groupOf[r] & ~(-hit));  // hit ? t : old, without a branch
      in[r] |= hit;
    }
    vf_check((1 - live) | valid, "thread groups contain only CPUs of the L2 groups");
    vf_check((1 - live) | static_cast<int32_t>(prev < c), "CPUs of a thread group are sorted ascending");
    prev = (c & -live) | (prev & ~(-live));
  }
  for (int c = 0; c < kIds; ++c) {
    vf_check(static_cast<int32_t>(tg.affinityMask.contains(c)) == in[c],
             "affinityMask contains exactly the CPUs of its thread group");
  }
}

extern "C" void vf_main() {
  // --- symbolic part of the topology: L3 membership of each atom, maxGroupSize (drawn up front)
  int32_t l3of[3] = {-1, -1, -1};
#ifdef VF_L3LIT  // debugging aid only: literal membership, decimal digits (atom 0 = lowest digit), digit 0 = none
  for (int k = 0, d = VF_L3LIT; k < kNA; ++k, d /= 10) l3of[k] = d % 10 - 1;
#else
  for (int k = 0; k < kNA; ++k) l3of[k] = static_cast<int32_t>(vf_range_u8(0, VF_NL3)) - 1;
#endif
#ifdef VF_MGS_LO
  const int32_t mgs = static_cast<int32_t>(vf_range_u32(VF_MGS_LO, VF_MGS_HI));
#else
  const int32_t mgs = static_cast<int32_t>(vf_nondet_u32());
#endif
  const int32_t cap = mgs > kLargest ? mgs : kLargest;

  // --- literal part
  std::vector<CacheGroup> l2(kNA);
  for (int k = 0; k < kNA; ++k) fillL2(l2[k], k);
  std::vector<CacheGroup> l3(VF_NL3);
  for (int g = 0; g < VF_NL3; ++g) fillL3(l3[g], l3of, g);

  // --- real code
  const std::vector<ThreadGroup> out = build(l2, l3, mgs);

  // --- checks
  Obs o;
  for (int c = 0; c < kIds; ++c) {
    o.occ[c] = 0;
    o.groupOf[c] = -1;
  }
  o.sum = 0;
  const size_t ng = out.size();
  vf_check(ng >= 1 && ng <= static_cast<size_t>(kNA), "between one thread group and one per L2 group");
  if (ng > static_cast<size_t>(kNA)) return;
  for (int t = 0; t < kNA; ++t) {
    if (static_cast<size_t>(t) < ng) scanGroup(out[static_cast<size_t>(t)], t, cap, o);
  }
  vf_check(o.sum == kTotal, "thread groups hold as many CPUs as the L2 groups");
  for (int c = 0; c < 2 * kNA; ++c) {
    if (isL2Cpu(c)) vf_check(o.occ[c] == 1, "every L2 CPU occurs in exactly one thread group, once");
  }
  for (int k = 0; k < kNA; ++k) {
    if (kSize[k] == 2)
      vf_check(o.groupOf[2 * k] == o.groupOf[2 * k + 1], "an L2 group is never split over two thread groups");
  }
  for (int a = 0; a < kNA; ++a) {
    for (int b = a + 1; b < kNA; ++b) {
      const int32_t together = static_cast<int32_t>(o.groupOf[2 * a] == o.groupOf[2 * b]) &
          static_cast<int32_t>(l3of[a] >= 0) & static_cast<int32_t>(l3of[b] >= 0);
      vf_check((1 - together) | static_cast<int32_t>(l3of[a] == l3of[b]), "a thread group never mixes two known L3 groups");
    }
  }
}
