TECHNIQUE = 'symbolic execution of LLVM IR into integer-mode SMT-LIB with explicit wrap/no-wrap obligations; z3 (cvc5 cross-check)'
ASSUMPTIONS = ['items >= 0, chunks >= 1, g >= 1, g | items, items + chunks*g and rangeStart + items fit in ssize_t (the property\'s stated domain)']
OUTSIDE = 'symbolic granularity (z3 4.8/5.1 and cvc5 answer unknown on the resulting NIA queries; granularities 2,3,4,5,7,8,16,64 are checked as separate instances); inputs whose intermediate results overflow ssize_t (excluded by the property); narrow IntegerT instances of the mapper are covered under C12'
CEX = {'defs': {'VF_BOUND': 40}, 'unwind': 2, 'timeout': 300}
INSTANCES = [
    {'name': 'plain', 'src': 'chunk.cpp', 'engine': 'smt', 'defs': {'VF_GRANULAR': 0}, 'query_timeout_ms': 20000, 'cex_fallback': CEX,
     'bounds': 'none: full 64-bit domain under the stated no-overflow precondition; symbolic chunk index'},
] + [
    {'name': 'granular_g%d' % g, 'src': 'chunk.cpp', 'engine': 'smt', 'defs': {'VF_GRANULAR': 1, 'VF_G': g},
     'query_timeout_ms': 20000, 'timeout': 900, 'cex_fallback': CEX,
     'tiers': ['quick', 'thorough'] if g in (2, 3, 8) else ['thorough'],
     'bounds': 'full 64-bit items/chunks/start/index; granularity fixed to %d in this instance' % g}
    for g in (2, 3, 4, 5, 7, 8, 16, 64)
]
