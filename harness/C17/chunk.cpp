// C17: static chunking arithmetic partitions ranges exactly (full 64-bit domain, integer-mode SMT).
// Real code: detail::staticChunkSize, detail::staticChunkSizeGranular,
//            detail::StaticChunkMapper<ssize_t>::operator() (constructed exactly as
//            parallel_for_staticImpl does, par_for_static.h:86-105), for_each_n's offset arithmetic.
#include <dispenso/platform.h>
#include <dispenso/parallel_for.h>
#include "vf.h"

using dispenso::ssize_t;
using dispenso::detail::StaticChunking;

extern "C" void vf_main() {
  ssize_t items = (ssize_t)vf_nondet_u64();
  ssize_t chunks = (ssize_t)vf_nondet_u64();
  uint32_t g = vf_nondet_u32();
  ssize_t rangeStart = (ssize_t)vf_nondet_u64();
  ssize_t idx = (ssize_t)vf_nondet_u64();
  const ssize_t kMax = INT64_MAX;
  vf_assume(items >= 0 && chunks >= 1 && g >= 1);
#if VF_GRANULAR
#ifdef VF_G
  g = VF_G;  // concrete granularity instance (symbolic g: the NIA queries come back unknown)
#endif
  vf_assume(g >= 2);
  vf_assume(items % (ssize_t)g == 0);
#else
  vf_assume(g == 1);
#endif
  // "within ssize_t without overflow": items + chunks*g and rangeStart + items representable
  vf_assume(chunks <= kMax / (ssize_t)g);
  vf_assume(items <= kMax - chunks * (ssize_t)g);
  vf_assume(rangeStart <= kMax - items - chunks * (ssize_t)g && rangeStart >= -kMax + items);
  vf_assume(idx >= 0 && idx < chunks);
#ifdef VF_BOUND  // bounded counterexample search (bit-precise engine) when the NIA query is not decided
  vf_assume(items <= VF_BOUND && chunks <= VF_BOUND && rangeStart >= -VF_BOUND && rangeStart <= VF_BOUND);
#endif

#if VF_GRANULAR
  StaticChunking c = dispenso::detail::staticChunkSizeGranular(items, chunks, g);
#else
  StaticChunking c = dispenso::detail::staticChunkSize(items, chunks);
#endif
  ssize_t t = c.transitionTaskIndex;
  ssize_t big = c.ceilChunkSize;
  ssize_t step = (ssize_t)g;
  vf_check(t > 0 && t <= chunks, "0 < transitionTaskIndex <= chunks");
  vf_check(big >= 0 && (items == 0 || big >= step), "ceil chunk size is non-negative and non-empty when there are items");
  vf_check(big % step == 0, "ceil chunk is a multiple of the granularity");
  vf_check(t == chunks || big - step >= 0, "floor chunks are non-negative");
  // Sum of sizes (closed form): t chunks of `big` first, then chunks-t of `big - step`.
  vf_check(t * big + (chunks - t) * (big - step) == items, "chunk sizes sum to the item count");

  // boundaries exactly as parallel_for_staticImpl derives them
  bool perfectlyChunked = t == chunks;
  ssize_t smallChunk = big - (perfectlyChunked ? 0 : step);
  dispenso::detail::StaticChunkMapper<ssize_t> m{chunks, big, smallChunk,
                                                 perfectlyChunked ? chunks : t, rangeStart,
                                                 rangeStart + items};
  std::pair<ssize_t, ssize_t> b = m(idx);
  ssize_t expectSize = idx < t ? big : big - step;
  vf_check(b.second - b.first == expectSize, "chunk idx has the stated size (larger chunks first)");
  vf_check(b.first >= rangeStart && b.second <= rangeStart + items, "chunk lies inside the range");
  if (idx == 0) {
    vf_check(b.first == rangeStart, "first chunk starts at the range start");
  }
  if (idx == chunks - 1) {
    vf_check(b.second == rangeStart + items, "last chunk ends at the range end");
  } else {
    std::pair<ssize_t, ssize_t> n = m(idx + 1);
    vf_check(n.first == b.second, "chunk idx+1 starts where chunk idx ends");
  }
  // closed form of the start: what for_each_n accumulates iteratively
  ssize_t before = idx < t ? idx * big : t * big + (idx - t) * (big - step);
  vf_check(b.first == rangeStart + before, "start equals the sum of the preceding chunk sizes");
}
