// C38 (a): SmallVector<T, N> behaves like a vector: a symbolic history of VF_OPS operations over two
// SmallVector<Elem, VF_N> objects is compared, after every step, with a ghost fixed-capacity array
// (values + size), and the lifetime counters of harness/common/tracked.h must agree with the sizes
// (live objects == a.size() + b.size(); no destructor on a dead object; ctor == dtor at the end).
//
// Real code: every public member of dispenso::SmallVector (small_vector.h): ctor(), ctor(count),
//   ctor(count, value), ctor(initializer_list), copy ctor, move ctor, dtor, copy=, move=, operator[],
//   front, back, data, begin/end (const and non-const), cbegin/cend, empty, size, capacity, reserve,
//   clear, push_back(const&), push_back(&&), emplace_back, pop_back, resize(count),
//   resize(count, value), erase(pos) and the private growToHeap/ensureCapacity/destroyAll.
// Symbolic: operation kind, values, counts, positions of each of the VF_OPS steps and the way the two
//   objects A and B are first constructed.  A receives every operation; B is the partner of the
//   two-vector operations (copy / move in both directions) and starts in any constructor-reachable state.
#include <new>
#include <utility>
#include <dispenso/small_vector.h>
#include "tracked.h"

#ifndef VF_N
#define VF_N 2
#endif
#ifndef VF_OPS
#define VF_OPS 3
#endif
#ifndef VF_MAX
#define VF_MAX 6  // largest size any vector reaches
#endif
#ifndef VF_INIT_A
#define VF_INIT_A 4  // constructors used for the initial A: 0..VF_INIT_A of (default, count, count+value, ilist, copy of B)
#endif
#ifndef VF_INIT_B
#define VF_INIT_B 3
#endif
#ifndef VF_KINDS
#define VF_KINDS 18  // number of operation kinds enabled (prefix of the list in step())
#endif

VfCounters g_cnt;

// default-constructible element built on the shared lifetime-tracked payload
// (the default value is a small positive number on purpose: the translator lowers the inline/heap
// union to its pointer-bearing member, and CBMC does not preserve integer bit patterns with high bits
// set, such as -1, when they are stored over a pointer-typed field -- see NOTES.md, false alarms)
#define DEFAULT_V 101  // values chosen by the harness are 0..100
struct Elem {
  Tracked t;
  Elem() noexcept : t(DEFAULT_V) {}
  explicit Elem(int32_t x) noexcept : t(x) {}
};

using Vec = dispenso::SmallVector<Elem, VF_N>;

struct Ghost {
  int32_t v[VF_MAX + 1];
  uint32_t n;
  uint64_t bytes;  // size of the heap block the vector currently owns, when the model recorded it (else 0)
};

// typed storage for the two vectors (no implicit construction / destruction)
union Slot {
  Vec v;
  Slot() {}
  ~Slot() {}
};
static Slot sa, sb;
#define A (sa.v)
#define B (sb.v)

extern "C" uint64_t vf_last_malloc_addr();
extern "C" uint64_t vf_last_malloc_size();

static int32_t val() { return (int32_t)vf_range_u32(0, 100); }

static void agree(Vec* p, Ghost& g) {
  const Vec& c = *p;
  // the bounded allocator model hands out constant-size blocks and only records the requested size:
  // the capacity the vector believes in must fit the block it asked for
  if (c.isInline()) {
    g.bytes = 0;
  } else {
    if ((uint64_t)(uintptr_t)c.data() == vf_last_malloc_addr()) g.bytes = vf_last_malloc_size();
    if (g.bytes != 0) {
      vf_check(c.capacity() * sizeof(Elem) <= g.bytes, "heap capacity fits the block that was requested from operator new");
    }
  }
  vf_check(c.size() == g.n, "size() agrees with the reference vector");
  vf_check(c.empty() == (g.n == 0), "empty() agrees with the reference vector");
  vf_check(c.capacity() >= c.size() && c.capacity() >= VF_N, "capacity() >= max(size(), N)");
  vf_check(c.end() - c.begin() == (std::ptrdiff_t)g.n && c.cend() - c.cbegin() == (std::ptrdiff_t)g.n &&
               p->end() - p->begin() == (std::ptrdiff_t)g.n,
           "end() - begin() == size()");
  vf_check(p->data() == p->begin() && c.data() == c.cbegin(), "data() is begin()");
  // contents through iteration
  Vec::const_iterator it = c.begin();
  for (uint32_t i = 0; i < g.n && i <= VF_MAX; ++i) {
    vf_check(it[i].t.v == g.v[i], "iteration from begin() yields the reference contents");
  }
  // contents through operator[] at a symbolic probe index
  if (g.n > 0 && c.size() == g.n) {
    uint32_t k = vf_range_u32(0, VF_MAX - 1);
    if (k < g.n) {
      vf_check((*p)[k].t.v == g.v[k] && c[k].t.v == g.v[k], "operator[] yields the reference contents");
      vf_check(&(*p)[k] == p->data() + k, "operator[] addresses data()+pos");
    }
    vf_check(p->front().t.v == g.v[0] && c.front().t.v == g.v[0], "front() is the first reference element");
    vf_check(p->back().t.v == g.v[g.n - 1] && c.back().t.v == g.v[g.n - 1],
             "back() is the last reference element");
  }
}

static void gpush(Ghost& g, int32_t x) {
  g.v[g.n] = x;
  g.n++;
}
static void gresize(Ghost& g, uint32_t cnt, int32_t x) {
  for (uint32_t i = g.n; i < cnt && i <= VF_MAX; ++i) g.v[i] = x;
  g.n = cnt;
}

// ---------------------------------------------------------------------------------------------
// The history is explored as a tree: every operation kind (and every shape-changing count) is its
// own branch that continues with the rest of the history *without re-joining*, so that sizes and
// storage modes stay concrete along each branch of the symbolic execution while element values,
// positions and the value-only choices stay symbolic.  [[clang::nomerge]] keeps the optimiser from
// folding the per-branch continuations back into one.
template <int D>
static void run(Ghost& ga, Ghost& gb);

template <int D>
VF_NOINLINE static void after(Ghost& ga, Ghost& gb) {
  agree(&A, ga);
  agree(&B, gb);
  vf_check(g_cnt.live == (int32_t)(ga.n + gb.n),
           "live elements == sum of sizes (nothing leaked, nothing destroyed early or twice)");
  run<D - 1>(ga, gb);
}

// Inner levels of the tree: VF_FULL == 0 explores only four state-building kinds (push, resize to N+1,
// B = A, initializer-list construction), VF_FULL == 1 eight (plus resize to N / MAX, reserve(N+1), push
// on B), VF_FULL == 2 every kind.  The last level always explores every kind.
#ifndef VF_FULL
#define VF_FULL 0
#endif
// an excluded branch: infeasible for the solver, and not continued by the symbolic execution
#define SKIP             \
  {                      \
    vf_assume(false);    \
    return;              \
  }
#define LAST_ONLY \
  if (D > 1 && VF_FULL < 2) SKIP
#define WIDE_ONLY \
  if (D > 1 && VF_FULL < 1) SKIP

#define NEXT                                  \
  {                                           \
    [[clang::nomerge]] after<D>(ga, gb);      \
    return;                                   \
  }

static void finish(Ghost& ga, Ghost& gb) {
  A.~Vec();
  B.~Vec();
  vf_check(g_cnt.live == 0, "every element is destroyed by the time both vectors are gone");
  vf_check(g_cnt.ctor == g_cnt.dtor, "constructions and destructions balance");
}

static void op_push(Vec& v, Ghost& gv) {
  int32_t x = val();
  uint32_t how = vf_range_u32(0, 2);
  if (how == 0) {
    Elem e(x);
    v.push_back(e);
  } else if (how == 1) {
    Elem e(x);
    v.push_back(std::move(e));
  } else {
    Elem& r = v.emplace_back(x);
    vf_check(&r == &v.back() && r.t.v == x, "emplace_back returns the new last element");
  }
  gpush(gv, x);
}
static void op_resize(Vec& v, Ghost& gv, uint32_t cnt) {
  if (vf_nondet_bool()) {
    v.resize((size_t)cnt);
    gresize(gv, cnt, DEFAULT_V);
  } else {
    int32_t x = val();
    Elem e(x);
    v.resize((size_t)cnt, e);
    gresize(gv, cnt, x);
  }
}
static void op_reserve(Vec& v, uint32_t c) {
  size_t before = v.capacity();
  v.reserve(c);
  vf_check(v.capacity() >= c, "capacity() >= n after reserve(n)");
  vf_check(v.capacity() >= before, "reserve never shrinks the capacity");
}
static void op_ctor_count(Vec* at, Ghost& g, uint32_t cnt) {
  g.n = 0;
  g.bytes = 0;
  if (vf_nondet_bool()) {
    gresize(g, cnt, DEFAULT_V);
    new (at) Vec((size_t)cnt);
  } else {
    int32_t x = val();
    gresize(g, cnt, x);
    Elem e(x);
    new (at) Vec((size_t)cnt, e);
  }
}
static void op_ctor_ilist(Vec* at, Ghost& g) {
  int32_t x = val(), y = val(), z = val();
  g.n = 0;
  g.bytes = 0;
  gpush(g, x);
  gpush(g, y);
  gpush(g, z);
  new (at) Vec({Elem(x), Elem(y), Elem(z)});
}
static void op_write(Vec& v, Ghost& gv) {
  int32_t x = val();
  uint32_t how = vf_range_u32(0, 3);
  uint32_t k = vf_range_u32(0, VF_MAX - 1);
  vf_assume(k < gv.n);
  if (how == 0) {
    v[k].t.v = x;
    gv.v[k] = x;
  } else if (how == 1) {
    v.front().t.v = x;
    gv.v[0] = x;
  } else if (how == 2) {
    v.back().t.v = x;
    gv.v[gv.n - 1] = x;
  } else {
    uint32_t i = 0;
    for (Vec::iterator it = v.begin(); it != v.end() && i < VF_MAX; ++it, ++i) {
      it->t.v = x;
      gv.v[i] = x;
    }
  }
}

// shape-changing counts explored concretely
#define C_MID (VF_N + 1 <= VF_MAX ? VF_N + 1 : VF_MAX)

template <int D>
VF_NOINLINE static void run(Ghost& ga, Ghost& gb) {
  uint32_t op = vf_range_u32(0, 24);
  switch (op) {
    case 0:  // push_back(const&) / push_back(&&) / emplace_back
      if (ga.n >= VF_MAX) SKIP;
      op_push(A, ga);
      NEXT;
    case 1:  // pop_back
      LAST_ONLY;
      if (ga.n == 0) SKIP;
      A.pop_back();
      ga.n--;
      NEXT;
    case 2: {  // erase(pos), symbolic position
      LAST_ONLY;
      if (ga.n == 0) SKIP;
      uint32_t k = vf_range_u32(0, VF_MAX - 1);
      vf_assume(k < ga.n);
      Vec::iterator r = A.erase(A.cbegin() + k);
      vf_check(r == A.begin() + k, "erase returns the iterator following the erased element");
      for (uint32_t i = k; i + 1 < ga.n && i < VF_MAX; ++i) ga.v[i] = ga.v[i + 1];
      ga.n--;
      NEXT;
    }
    case 3:  // resize(count[, value]) to 0 / N / N+1 / MAX
      LAST_ONLY;
      op_resize(A, ga, 0);
      NEXT;
    case 4:
      WIDE_ONLY;
      op_resize(A, ga, VF_N);
      NEXT;
    case 5:
      op_resize(A, ga, C_MID);
      NEXT;
    case 6:
      WIDE_ONLY;
      op_resize(A, ga, VF_MAX);
      NEXT;
    case 7:  // reserve(1 / N+1 / MAX+1)
      LAST_ONLY;
      op_reserve(A, 1);
      NEXT;
    case 8:
      WIDE_ONLY;
      op_reserve(A, VF_N + 1);
      NEXT;
    case 9:
      LAST_ONLY;
      op_reserve(A, VF_MAX + 1);
      NEXT;
    case 10:  // clear
      LAST_ONLY;
      A.clear();
      ga.n = 0;
      vf_check(A.capacity() == VF_N, "clear() returns to inline storage (capacity() == N)");
      NEXT;
    case 11:  // copy assignment A = B
      LAST_ONLY;
      A = B;
      ga = gb;
      ga.bytes = 0;
      NEXT;
    case 12:  // copy assignment B = A
      B = A;
      gb = ga;
      gb.bytes = 0;
      NEXT;
    case 13:  // move assignment A = move(B): source is left empty
      LAST_ONLY;
      A = std::move(B);
      ga = gb;
      gb.n = 0;
      NEXT;
    case 14:  // move assignment B = move(A)
      LAST_ONLY;
      B = std::move(A);
      gb = ga;
      ga.n = 0;
      NEXT;
    case 15:  // destroy + move construct A from B
      LAST_ONLY;
      A.~Vec();
      new (&A) Vec(std::move(B));
      ga = gb;
      gb.n = 0;
      NEXT;
    case 16:  // destroy + copy construct A from B
      LAST_ONLY;
      A.~Vec();
      new (&A) Vec(B);
      ga = gb;
      ga.bytes = 0;
      NEXT;
    case 17:  // self copy / self move assignment (guarded by this != &other in the real code)
      LAST_ONLY;
      if (vf_nondet_bool()) {
        A = A;
      } else {
        A = std::move(A);
      }
      NEXT;
    case 18:  // destroy + default construct
      LAST_ONLY;
      A.~Vec();
      new (&A) Vec();
      ga.n = 0;
      NEXT;
    case 19:  // destroy + construct with count N / N+1 (default or value-filled)
      LAST_ONLY;
      A.~Vec();
      op_ctor_count(&A, ga, VF_N);
      NEXT;
    case 20:
      LAST_ONLY;
      A.~Vec();
      op_ctor_count(&A, ga, C_MID);
      NEXT;
    case 21:  // destroy + construct from an initializer list of three
      A.~Vec();
      op_ctor_ilist(&A, ga);
      NEXT;
    case 22:  // writes through operator[] / front() / back() / iterators
      LAST_ONLY;
      if (ga.n == 0) SKIP;
      op_write(A, ga);
      NEXT;
    case 23:  // push on the partner vector
      WIDE_ONLY;
      if (gb.n >= VF_MAX) SKIP;
      op_push(B, gb);
      NEXT;
    default:  // history ends early
      [[clang::nomerge]] finish(ga, gb);
      return;
  }
}
template <>
VF_NOINLINE void run<0>(Ghost& ga, Ghost& gb) {
  finish(ga, gb);
}

extern "C" void vf_main() {
  Ghost ga, gb;
  ga.n = gb.n = 0;
  ga.bytes = gb.bytes = 0;
  for (int i = 0; i <= VF_MAX; ++i) {
    ga.v[i] = 0;
    gb.v[i] = 0;
  }
  new (&A) Vec();
  new (&B) Vec();
  run<VF_OPS>(ga, gb);
}
