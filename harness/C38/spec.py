TECHNIQUE = ('bounded symbolic execution of LLVM IR lowered to C: CBMC/SAT (cadical); sequential history harness '
             'against a ghost array + lifetime counters, and an address-aware allocator model for alignment')
ASSUMPTIONS = [
    'documented preconditions: pop_back/erase/front/back only on a non-empty vector, erase position and operator[] index < size()',
    'plain ::operator new / malloc may return any 16-aligned address (address-aware allocator model); '
    'the SmallVector object itself is placed at an address aligned for its type (the compiler guarantees this for '
    'automatic and static objects)',
    'allocation never fails',
]
OUTSIDE = ('histories longer than the stated number of operations; vector sizes above 6; more than two vectors; inline '
           'capacities other than 1, 2, 4 (alignment: 1, 2); element types other than the lifetime-tracked int payload and '
           'the alignas(32)/alignas(64) payloads; exceptions thrown by element constructors')


def hist(n, mq, mx):
    kinds = ('25 kinds: push_back const&/&&/emplace_back, pop_back, erase at any position, resize(c)/resize(c,value) with c in '
             '{0,N,N+1,MAX}, reserve(c) with c in {1,N+1,MAX+1}, clear, copy/move assignment in both directions, self '
             'assignment, destroy + default/count/count+value/initializer-list/copy/move construction, writes through '
             'operator[]/front/back/iterators, push on B')
    bq = ('two SmallVector<Elem,%d> objects A and B, initially empty; every history of one state-building operation (push, '
          'resize to N+1, B = A, initializer-list construction) followed by one operation of '
          'any kind (%s), explored as a tree; element values and positions symbolic; sizes <= %d' % (n, kinds, mx))
    bt = ('two SmallVector<Elem,%d> objects A and B, initially empty; every history of two operations of any kind (%s), '
          'explored as a tree; element values and positions symbolic; sizes <= %d' % (n, kinds, mx))
    return {'name': 'history_n%d' % n, 'src': 'history.cpp', 'engine': 'cbmc',
            'defs': {'VF_N': n, 'VF_OPS': 2, 'VF_MAX': mq, 'VF_FULL': 0}, 'unwind': mq + 2, 'timeout': 900,
            'rt_defs': {'VF_MALLOC_U32': 1, 'VF_MALLOC_CAP': 8}, 'leak_check': True, 'bounds': bq,
            'thorough': {'defs': {'VF_N': n, 'VF_OPS': 2, 'VF_MAX': mx, 'VF_FULL': 2}, 'unwind': mx + 2, 'timeout': 1700,
                         'bounds': bt}}


def align(a, n):
    def b(full):
        return ('SmallVector<alignas(%d) payload,%d>: inline fill, inline->heap growth, reserve on empty + resize%s; '
                'concrete sizes <= %d; plain operator new places every block at ANY 16-aligned address (symbolic)'
                % (a, n, ', heap->heap growth by push and by resize, pop, clear back to inline' if full else '', 2 * n + 2))
    return {'name': 'align%d_n%d' % (a, n), 'src': 'align.cpp', 'engine': 'cbmc',
            'defs': {'VF_ALIGN': a, 'VF_N': n, 'VF_OPS': 1}, 'unwind': 2 * n + 4, 'timeout': 900,
            'rt_defs': {'VF_ADDR_AWARE': 1, 'VF_AA_DYNAMIC': 1}, 'bounds': b(False),
            'thorough': {'defs': {'VF_ALIGN': a, 'VF_N': n, 'VF_OPS': 2}, 'timeout': 1700, 'bounds': b(True)}}


INSTANCES = [
    hist(1, 3, 4),
    hist(2, 4, 5),
    hist(4, 5, 6),
    align(32, 2),
    align(64, 1),
]
