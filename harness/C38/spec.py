TECHNIQUE = ('bounded symbolic execution of LLVM IR lowered to C: CBMC/SAT (cadical); sequential history harness '
             'against a ghost array + lifetime counters, and an address-aware allocator model for alignment')
ASSUMPTIONS = [
    'documented preconditions: pop_back/erase/front/back only on a non-empty vector, erase position and operator[] index < size()',
    'plain ::operator new / malloc may return any 16-aligned address (address-aware allocator model); '
    'the SmallVector object itself is placed at an address aligned for its type (the compiler guarantees this for '
    'automatic and static objects)',
    'allocation never fails',
]
OUTSIDE = ('histories longer than the stated number of operations; vector sizes above 6; more than two vectors; inline '
           'capacities other than 1, 2, 4 (alignment: 1, 2); element types other than the lifetime-tracked int payload and '
           'the alignas(32)/alignas(64) payloads; exceptions thrown by element constructors')


HIST_FLAGS = ['--div-by-zero-check']
HIST_RT = {'VF_MALLOC_U32': 1, 'VF_MALLOC_CAP': 16}


def hist(n, ops_q, ops_t, max_q, max_t):
    def b(ops, mx):
        return ('two SmallVector<Elem,%d> objects A and B, both initially empty; every history of up to %d operations out '
                'of 25 kinds (push_back const&/&&/emplace_back, pop_back, erase at any position, resize(c)/resize(c,value) '
                'with c in {0,N,N+1,MAX}, reserve(c) with c in {1,N+1,MAX+1}, clear, copy/move assignment in both directions, '
                'self assignment, destroy + default/count/count+value/initializer-list/copy/move construction, writes '
                'through operator[]/front/back/iterators, push on B), explored as a tree; element values and positions '
                'symbolic; sizes <= %d' % (n, ops, mx))
    return {'name': 'history_n%d' % n, 'src': 'history.cpp', 'engine': 'cbmc',
            'defs': {'VF_N': n, 'VF_OPS': ops_q, 'VF_MAX': max_q}, 'unwind': max_q + 2, 'timeout': 280,
            'checks': HIST_FLAGS, 'rt_defs': HIST_RT, 'leak_check': True, 'bounds': b(ops_q, max_q),
            'thorough': {'defs': {'VF_N': n, 'VF_OPS': ops_t, 'VF_MAX': max_t}, 'unwind': max_t + 2, 'timeout': 1700,
                         'bounds': b(ops_t, max_t)}}


def align(a, n, ops_q, max_q, ops_t, max_t):
    def b(ops, mx):
        return ('SmallVector<alignas(%d) payload,%d>; %d symbolic operations out of reserve/push_back/emplace_back/resize/'
                'pop_back with symbolic counts; sizes <= %d; plain operator new places each block at any 16-aligned address'
                % (a, n, ops, mx))
    return {'name': 'align%d_n%d' % (a, n), 'src': 'align.cpp', 'engine': 'cbmc',
            'defs': {'VF_ALIGN': a, 'VF_N': n, 'VF_OPS': ops_q, 'VF_MAX': max_q}, 'unwind': max_q + 2, 'timeout': 280,
            'rt_defs': {'VF_ADDR_AWARE': 1, 'VF_AA_DYNAMIC': 1}, 'bounds': b(ops_q, max_q),
            'thorough': {'defs': {'VF_ALIGN': a, 'VF_N': n, 'VF_OPS': ops_t, 'VF_MAX': max_t}, 'unwind': max_t + 2,
                         'timeout': 1700, 'bounds': b(ops_t, max_t)}}


INSTANCES = [
    hist(1, 2, 3, 4, 4),
    hist(2, 2, 3, 5, 5),
    hist(4, 2, 3, 6, 6),
    align(32, 2, 2, 3, 3, 4),
    align(64, 1, 2, 3, 3, 4),
]
