// C38 (b): every element of a SmallVector<T, N> lives at an address that is a multiple of alignof(T),
// in inline storage and in heap storage, for over-aligned element types.
//
// Real code: dispenso::SmallVector<Over, VF_N>::{ctor, reserve, push_back, emplace_back, resize,
//   pop_back, data, size, capacity, dtor} with growToHeap/ensureCapacity (small_vector.h).
// Allocator model: address-aware (rt_defs VF_ADDR_AWARE + VF_AA_DYNAMIC): plain ::operator new may
//   return ANY 16-aligned address -- all that the default new alignment (16 on x86-64) promises.
// Symbolic: the placement chosen by the allocator for every block (any multiple of 16), the probed
//   element, optional steps.  Sizes are concrete: the scenario walks through every storage transition
//   (inline, inline->heap, heap->heap by push and by resize, reserve on empty, clear back to inline).
//
// Native replay: the SmallVector code and this harness are compiled with the UBSan alignment check
// switched off (pragma below; it has no effect on the IR that is analysed), so that the harness's
// own vf_check reports the misaligned element instead of UBSan stopping the run at the first
// placement-new into misaligned storage.
#include <cstdint>
#include <new>
#include <utility>
#include "vf.h"
#pragma clang attribute push(__attribute__((no_sanitize("alignment"))), apply_to = function)
#include <dispenso/small_vector.h>

#if defined(__has_feature)
#if __has_feature(address_sanitizer)
// Native replay build only (the analysed IR is compiled without sanitizers and never sees this).
// ASan's allocator happens to hand out generously aligned blocks, which would hide the placement the
// solver found.  This replacement ::operator new is conforming -- it honours the default new
// alignment of 16 -- and places every block at an address = 16 (mod 64), as glibc's malloc routinely
// does (observed on this machine: operator new(96) -> 0x...af10, operator new(64) -> 0x...9eb0).
#include <cstdlib>
void* operator new(std::size_t n) {
  char* raw = static_cast<char*>(std::malloc(n + 128));
  uintptr_t a = ((reinterpret_cast<uintptr_t>(raw) + 8 + 63) & ~static_cast<uintptr_t>(63)) + 16;
  *reinterpret_cast<void**>(a - 8) = raw;
  return reinterpret_cast<void*>(a);
}
void operator delete(void* p) noexcept {
  if (p) std::free(*reinterpret_cast<void**>(reinterpret_cast<uintptr_t>(p) - 8));
}
void operator delete(void* p, std::size_t) noexcept { operator delete(p); }
#endif
#endif

#ifndef VF_ALIGN
#define VF_ALIGN 32
#endif
#ifndef VF_N
#define VF_N 2
#endif
#ifndef VF_OPS
#define VF_OPS 1  // 1: first transitions only (quick); 2: also heap->heap growth, resize past capacity, clear
#endif
#ifndef VF_MAX
#define VF_MAX (2 * VF_N + 2)
#endif

struct alignas(VF_ALIGN) Over {
  int32_t v;
  Over() noexcept : v(-1) {}
  explicit Over(int32_t x) noexcept : v(x) {}
};
static_assert(alignof(Over) == VF_ALIGN && sizeof(Over) == VF_ALIGN, "over-aligned payload");

using Vec = dispenso::SmallVector<Over, VF_N>;
// The vector objects are placed at addresses that are aligned for Vec and for nothing more (a typed
// holder shifts them by 1..3 times alignof(Vec) from a maximally aligned base): if
// alignof(SmallVector<T,N>) were smaller than alignof(T), inline elements would be misaligned.
template <int K>
struct alignas(512) Holder {
  unsigned char pad[alignof(Vec) * K];
  Vec v;
};
static Holder<1> g_h1[2];
static Holder<2> g_h2[2];
static Holder<3> g_h3[2];
static Vec* place(int which) {
  uint32_t k = vf_range_u32(1, 3);
  if (k == 1) return &g_h1[which].v;
  if (k == 2) return &g_h2[which].v;
  return &g_h3[which].v;
}

VF_NOINLINE static void check_elements(Vec& v, uint32_t n) {
  vf_check(v.size() == n, "size() follows the operations");
  vf_check(reinterpret_cast<uintptr_t>(v.data()) % alignof(Over) == 0,
           "data() is aligned for the element type (inline or heap storage)");
  if (n > 0) {
    uint32_t k = vf_range_u32(0, VF_MAX - 1);
    vf_assume(k < n);
    // computed from data() as an integer: a check on &v[k] itself is folded away by the compiler,
    // which is entitled to assume that a reference to Over is aligned
    vf_check((reinterpret_cast<uintptr_t>(v.data()) + k * sizeof(Over)) % alignof(Over) == 0,
             "every element address is a multiple of alignof(T)");
  }
}

// Two vectors walk through every storage transition with concrete sizes (so that the allocation
// sizes are constants for the solver); what is symbolic is the placement the allocator chooses for
// every block, the element probed, and which of the optional steps are taken.
extern "C" void vf_main() {
  Vec& v = *place(0);  // any address aligned for Vec
  vf_check(reinterpret_cast<uintptr_t>(&v) % alignof(Vec) == 0, "harness: the vector object is aligned");
  uint32_t n = 0;
  check_elements(v, n);
  // inline storage: N elements
  for (uint32_t i = 0; i < VF_N; ++i) {
    if (i & 1) {
      v.emplace_back((int32_t)i);
    } else {
      Over e((int32_t)i);
      v.push_back(e);
    }
    n++;
    check_elements(v, n);
  }
  // inline -> heap (growToHeap(2N) moving N elements)
  v.emplace_back(7);
  n++;
  check_elements(v, n);
#if VF_OPS >= 2
  // fill the heap block, then heap -> heap (growToHeap(4N))
  for (uint32_t i = VF_N + 1; i < 2 * VF_N; ++i) {
    v.emplace_back((int32_t)i);
    n++;
  }
  check_elements(v, n);
  v.emplace_back(9);
  n++;
  check_elements(v, n);
  if (vf_nondet_bool()) {
    v.pop_back();
    n--;
    check_elements(v, n);
  }
#endif
  // reserve on an empty vector: heap storage before any element exists, then resize into it
  Vec& w = *place(1);
  w.reserve(VF_N + 1);
  vf_check(w.capacity() >= VF_N + 1, "capacity() >= n after reserve(n)");
  check_elements(w, 0);
  w.resize(VF_N + 1);
  check_elements(w, VF_N + 1);
#if VF_OPS >= 2
  // resize past the reserved capacity: heap -> heap through ensureCapacity
  w.resize(VF_N + 2);
  check_elements(w, VF_N + 2);
  // clear returns to (aligned) inline storage
  w.clear();
  check_elements(w, 0);
  w.emplace_back(1);
  check_elements(w, 1);
#endif
  w.clear();
  v.clear();
}
#pragma clang attribute pop
