// C38 (b): every element of a SmallVector<T, N> lives at an address that is a multiple of alignof(T),
// in inline storage and in heap storage, for over-aligned element types.
//
// Real code: dispenso::SmallVector<Over, VF_N>::{ctor, reserve, push_back, emplace_back, resize,
//   pop_back, data, size, capacity, dtor} with growToHeap/ensureCapacity (small_vector.h).
// Allocator model: address-aware (rt_defs VF_ADDR_AWARE + VF_AA_DYNAMIC): plain ::operator new may
//   return ANY 16-aligned address -- all that the default new alignment (16 on x86-64) promises.
// Symbolic: the operation sequence (VF_OPS steps out of reserve / push / emplace / resize / pop), the counts, and the placement chosen by the allocator.
//
// Native replay: the SmallVector code and this harness are compiled with the UBSan alignment check
// switched off (pragma below; it has no effect on the IR that is analysed), so that the harness's
// own vf_check reports the misaligned element instead of UBSan stopping the run at the first
// placement-new into misaligned storage.
#include <cstdint>
#include <new>
#include <utility>
#include "vf.h"
#pragma clang attribute push(__attribute__((no_sanitize("alignment"))), apply_to = function)
#include <dispenso/small_vector.h>

#ifndef VF_ALIGN
#define VF_ALIGN 32
#endif
#ifndef VF_N
#define VF_N 2
#endif
#ifndef VF_OPS
#define VF_OPS 3
#endif
#ifndef VF_MAX
#define VF_MAX 4
#endif

struct alignas(VF_ALIGN) Over {
  int32_t v;
  Over() noexcept : v(-1) {}
  explicit Over(int32_t x) noexcept : v(x) {}
};
static_assert(alignof(Over) == VF_ALIGN && sizeof(Over) == VF_ALIGN, "over-aligned payload");

using Vec = dispenso::SmallVector<Over, VF_N>;
static_assert(alignof(Vec) >= VF_ALIGN, "the vector object itself is over-aligned (inline storage)");

static void check_elements(Vec& v, uint32_t n) {
  vf_check(v.size() == n, "size() follows the operations");
  vf_check(reinterpret_cast<uintptr_t>(v.data()) % alignof(Over) == 0,
           "data() is aligned for the element type (inline or heap storage)");
  if (n > 0) {
    uint32_t k = vf_range_u32(0, VF_MAX - 1);
    vf_assume(k < n);
    // computed from data() as an integer: a check on &v[k] itself is folded away by the compiler,
    // which is entitled to assume that a reference to Over is aligned
    vf_check((reinterpret_cast<uintptr_t>(v.data()) + k * sizeof(Over)) % alignof(Over) == 0,
             "every element address is a multiple of alignof(T)");
  }
}

extern "C" void vf_main() {
  Vec v;  // automatic object: the compiler places it at an address aligned for Vec
  vf_check(reinterpret_cast<uintptr_t>(&v) % alignof(Vec) == 0, "harness: the vector object is aligned");
  uint32_t n = 0;
  check_elements(v, n);
  for (int s = 0; s < VF_OPS; ++s) {
    uint32_t op = vf_range_u32(0, 4);
    switch (op) {
      case 0: {  // reserve: heap storage without any element yet
        uint32_t c = vf_range_u32(0, VF_MAX + 1);
        v.reserve(c);
        vf_check(v.capacity() >= c, "capacity() >= n after reserve(n)");
        break;
      }
      case 1: {  // push_back(const&)
        vf_assume(n < VF_MAX);
        Over e((int32_t)n);
        v.push_back(e);
        n++;
        break;
      }
      case 2: {  // emplace_back
        vf_assume(n < VF_MAX);
        v.emplace_back((int32_t)n);
        n++;
        break;
      }
      case 3: {  // resize
        uint32_t c = vf_range_u32(0, VF_MAX);
        v.resize(c);
        n = c;
        break;
      }
      default:  // pop_back
        vf_assume(n > 0);
        v.pop_back();
        n--;
        break;
    }
    check_elements(v, n);
  }
}
#pragma clang attribute pop
