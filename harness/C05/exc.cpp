// C05 - task exceptions are captured and rethrown exactly once.
// Real TaskSet (VF_SET=0) / ConcurrentTaskSet (VF_SET=1, VF_COST) from /repo, compiled unchanged
// (with exceptions enabled) against the contract ThreadPool of harness/C04/shim, sequential engine
// with a virtual worker.  Two task bodies (ids 0,1); a symbolic subset of them throws (vf_throw(id):
// natively `throw (int)id`, in the model an exception token).  They are submitted either as two
// single calls, each symbolically schedule(f) or schedule(f, ForceQueuingTag), or as one
// scheduleBulk(2, gen) / scheduleBulk(2, gen, ForceQueuingTag) call (VF_OPMASK enables shapes:
// bit 0 schedule(f), 1 schedule(f,FQ), 2 bulk, 3 bulk FQ); every call and every virtual-worker step
// is wrapped in try/catch.  Then <= VF_NWAIT symbolic completion calls (wait() or tryWait(k<=2),
// virtual-worker steps in between), one more wait(), and the destructor (which calls wait() again).
// Oracle (ghost): g_pending = id of the first exception thrown under the set's capture (i.e. not
// propagated directly to the scheduling caller) and not yet delivered.
// Assertions: only schedule(f) may propagate, and only its own functor's exception (documented);
// nothing escapes into the pool worker; a completion call throws only if an exception is pending,
// it throws exactly the first captured one, and only when all tasks have completed; a wait() /
// tryWait()==true that observes completion without throwing means nothing is pending (not dropped);
// afterwards nothing is pending, so any further throw is a double delivery; wait() always comes
// back with outstanding count 0; the count equals the number of queued tasks at every quiescent point
// (throwing never breaks completion accounting); the destructor does not terminate the program.
//
// VF_NEST=1 - overlapping task bodies (two throwers in flight at the same time): every body has one
// marked scheduling point between its start and its throw/finish; there (symbolic choice per body,
// drawn up front) *another pool worker* takes one queued task of the pool and runs it to completion
// (runOther: plain nested call of pool.tryExecuteNext(), as harness/C14 and harness/C27 model
// overlap on the sequential engine).  The nested task's lifetime lies inside the outer one's: the
// outer task started before the nested one threw, and throws (second recording attempt in
// trySetCurrentException) after the nested one's exception was published.  The nested task runs as
// on a fresh pool thread (thread-local task-set stack empty, saved/restored around it); its own
// packageTask wrapper catches what it throws, so the outer body continues - as in the real library.
// Thread budget: a nested run needs a free pool worker (tasks in flight on workers < VF_POOL_N); the
// outer body is run either by the virtual worker step of the harness (then VF_POOL_N >= 2 is needed)
// or by the owner thread inside wait()/tryWait()/an inline schedule(f).  Nesting depth 1.
#include <exception>
#include "../C04/ts_kit.h"

#ifndef VF_SET
#define VF_SET 1
#endif
#ifndef VF_COST
#define VF_COST 1
#endif
#ifndef VF_OPMASK
#define VF_OPMASK 15
#endif
#ifndef VF_WSTEPS
#define VF_WSTEPS 1
#endif
#ifndef VF_NWAIT
#define VF_NWAIT 1
#endif
#ifndef VF_CTX
#define VF_CTX 1
#endif
#ifndef VF_NEST
#define VF_NEST 0
#endif

#if VF_SET == 0
using Set = dispenso::TaskSet;
#define SET_ARGS pool, dispenso::ParentCascadeCancel::kOff, mult
#else
using Set = dispenso::ConcurrentTaskSet;
#define SET_ARGS                                      \
  pool, dispenso::ParentCascadeCancel::kOff, mult, \
      (VF_COST ? dispenso::TaskCost::kHeavy : dispenso::TaskCost::kLightweight)
#endif

static uint8_t g_start[2], g_fin[2], g_threw[2];
static uint32_t g_throwMask;
static int g_pending;         // oracle: first captured, not yet delivered exception id (-1 none)
static uint32_t g_delivered;  // exceptions delivered by wait()/tryWait()
static uint32_t g_direct;     // exceptions propagated directly by schedule(f)

#if VF_NEST
namespace dispenso {
namespace detail {
extern DISPENSO_THREAD_LOCAL int32_t g_taskStackSize;  // task_set.cpp: depth of this thread's task-set stack
}
}  // namespace dispenso
static dispenso::ThreadPool* g_poolp;
static uint32_t g_nestMask;  // bit id: at body id's scheduling point another worker runs a queued task
static uint32_t g_depth;     // nesting depth of runOther
static uint32_t g_busy;      // tasks in flight on (virtual) pool workers
static uint32_t g_nested;    // nested runs that executed a task (= overlaps that happened)

// Another pool worker takes one queued task and runs it to completion while the calling body is in
// the middle of its execution.
VF_NOINLINE static void runOther() {
  if (g_depth >= 1 || g_busy >= VF_POOL_N) {
    return;
  }
  ++g_depth;
  ++g_busy;
  int32_t savedStack = dispenso::detail::g_taskStackSize;
  dispenso::detail::g_taskStackSize = 0;  // a different thread: its own (empty) task-set stack
  bool escaped = false;
  bool ran = false;
  try {
    // = pool.tryExecuteNext() of the contract pool (popMatching + run + workRemaining_), except that
    // the task holder is not deleted: `delete t` here (virtual deleting-destructor dispatch + free
    // under a symbolic guard, liveness of the holder becomes symbolic for every later access) costs
    // 8.1 M variables / 210 s solver instead of 1.3 M / 35 s.  The holder's payload (TBody) is trivial.
    dispenso::vfpool::TaskBase* t = g_poolp->popMatching(dispenso::vfpool::kCentral, 0, false);
    if (t) {
      t->run();
      ran = true;
      g_poolp->workRemaining_.fetch_add(-1, std::memory_order_relaxed);
    }
  } catch (...) {
    escaped = true;
  }
  vf_check(!escaped, "an exception escaped a packaged task into the pool worker");
  vf_check(dispenso::detail::g_taskStackSize == 0, "a packaged task left the worker's task-set stack unbalanced");
  dispenso::detail::g_taskStackSize = savedStack;
  if (ran) {
    g_nested++;
  }
  --g_busy;
  --g_depth;
}
#endif

// id of the exception being handled (call inside a catch block).  Model: the exception object is the
// token 0x1000 + id (rt/cbmc_rt.c vf_throw); native: the thrown int.
static uint32_t caughtId() {
  std::exception_ptr e = std::current_exception();
  void* obj = e._M_exception_object;
  uintptr_t u = (uintptr_t)obj;
  if (u >= 0x1000 && u < 0x1040) {
    return (uint32_t)(u - 0x1000);
  }
  return (uint32_t) * static_cast<int*>(obj);
}

// user-provided copy constructor on purpose (keeps the packaged closure {this, f} out of memcpy)
struct TBody {
  uint32_t id;
  explicit TBody(uint32_t i) : id(i) {}
  TBody(const TBody& o) : id(o.id) {}
  void operator()() const {
    g_start[id]++;
#if VF_NEST
    uint32_t before = (uint32_t)g_threw[0] + g_threw[1];
    if ((g_nestMask >> id) & 1) {
      runOther();  // scheduling point: this body is in flight while another task runs start to end
    }
#endif
    if ((g_throwMask >> id) & 1) {
      g_threw[id]++;
      if (g_pending < 0) {
        g_pending = (int)id;
      }
#if VF_NEST
      if ((uint32_t)g_threw[0] + g_threw[1] == before + 2) {
        vf_reach("second thrower: started before the first one threw, throws after it was recorded");
      }
#endif
      vf_throw(id);
    }
    g_fin[id]++;
  }
};

struct TGen {
  TBody operator()(size_t i) const {
    return TBody((uint32_t)i);
  }
};

VF_NOINLINE static uint32_t queuedInPool(dispenso::ThreadPool& pool) {
  uint32_t q = 0;
  for (uint32_t i = 0; i < VF_PQ_CAP; ++i) {
    if (i < pool.n_ && pool.slot_[i] != nullptr) {
      ++q;
    }
  }
  return q;
}

VF_NOINLINE static void quiescent(Set& ts, dispenso::ThreadPool& pool) {
  vf_check(
      ts.outstandingTaskCount_.load() == (ssize_t)queuedInPool(pool),
      "outstanding count equals the number of queued, not yet executed tasks of the set");
}

VF_NOINLINE static void worker(dispenso::ThreadPool& pool) {
  bool escaped = false;
#if VF_NEST
  ++g_busy;  // the virtual worker occupies one pool thread while it runs a task
#endif
  try {
    tskit::workerRun(pool, VF_WSTEPS);
  } catch (...) {
    escaped = true;
  }
#if VF_NEST
  --g_busy;
#endif
  vf_check(!escaped, "an exception escaped a packaged task into the pool worker");
}

VF_NOINLINE static void submitOne(Set& ts, uint32_t id) {
  uint32_t op = vf_range_u32(0, 1);
  vf_assume((VF_OPMASK >> op) & 1);
  int saved = g_pending;
  bool direct = false;
  uint32_t tok = 99;
  try {
    if (op == 0) {
      ts.schedule(TBody(id));
    } else {
      ts.schedule(TBody(id), dispenso::ForceQueuingTag());
    }
  } catch (...) {
    direct = true;
    tok = caughtId();
  }
  if (direct) {
    vf_check(op == 0, "an exception escaped schedule(f, ForceQueuingTag) to the scheduling caller");
    vf_check(
        tok == id && g_threw[id] == 1,
        "schedule(f) propagated something other than its own functor's exception");
    // propagated to the caller, not captured by the set (with VF_NEST an exception captured from a
    // nested task during this call stays pending: the directly propagated throw is the last event of
    // the call, so it was first only if nothing else was pending)
    if (g_pending == (int)id) {
      g_pending = saved;
    }
    g_direct++;
  }
}

VF_NOINLINE static void submitBulk(Set& ts) {
  uint32_t op = vf_range_u32(2, 3);
  vf_assume((VF_OPMASK >> op) & 1);
  bool escaped = false;
  try {
    if (op == 2) {
      ts.scheduleBulk(2, TGen());
    } else {
      ts.scheduleBulk(2, TGen(), dispenso::ForceQueuingTag());
    }
  } catch (...) {
    escaped = true;
  }
  vf_check(!escaped, "an exception escaped scheduleBulk to the scheduling caller");
}

// one completion call: kind 0 wait(), 1 tryWait(k)
VF_NOINLINE static void completion(Set& ts, uint32_t kind, uint32_t k) {
  bool thrown = false;
  bool ret = false;
  uint32_t tok = 99;
  try {
    ret = kind ? ts.tryWait((size_t)k) : ts.wait();
  } catch (...) {
    thrown = true;
    tok = caughtId();
  }
  ssize_t out = ts.outstandingTaskCount_.load();
  if (thrown) {
    vf_check(g_pending >= 0, "wait()/tryWait() threw although no captured exception was pending (delivered twice)");
    vf_check((int)tok == g_pending, "wait()/tryWait() rethrew something other than the first captured exception");
    vf_check(out == 0, "wait()/tryWait() rethrew before all tasks had completed");
    g_pending = -1;
    g_delivered++;
  } else if (kind == 0) {
    vf_check(out == 0, "wait() returned with outstanding tasks");
    vf_check(g_pending < 0, "wait() observed completion but did not rethrow the captured exception");
    vf_check(ret == (g_delivered > 0), "wait() returns whether the set was cancelled (by a captured exception)");
  } else if (ret) {
    vf_check(out == 0, "tryWait() returned true with outstanding tasks");
    vf_check(g_pending < 0, "tryWait() observed completion but did not rethrow the captured exception");
    vf_check(g_delivered == 0, "tryWait() returned true on a set cancelled by an exception");
  } else {
    vf_check(out != 0 || g_delivered > 0, "tryWait() returned false although all tasks completed and nothing was captured");
    vf_check(out != 0 || g_pending < 0, "tryWait() observed completion but did not rethrow the captured exception");
  }
}

extern "C" void vf_main() {
  dispenso::ThreadPool pool(VF_POOL_N);
  tskit::CallerCtx ctx(pool);
  ssize_t mult = (ssize_t)vf_range_u32(1, 4);
  g_throwMask = vf_range_u32(0, 3);
#if VF_NEST
  g_poolp = &pool;
  g_nestMask = vf_range_u32(0, 3);
#endif
  g_pending = -1;
  g_delivered = 0;
  g_direct = 0;
  {
    Set ts(SET_ARGS);
#if VF_CTX
    ctx.makeSymbolic(pool);
#endif
    bool bulk = ((VF_OPMASK & 3) == 0) || (((VF_OPMASK >> 2) & 3) != 0 && vf_nondet_bool());
    if (!bulk) {
      submitOne(ts, 0);
      quiescent(ts, pool);
      worker(pool);
      quiescent(ts, pool);
      submitOne(ts, 1);
    } else {
      submitBulk(ts);
    }
    quiescent(ts, pool);
    worker(pool);
    quiescent(ts, pool);
    for (uint32_t r = 0; r < VF_NWAIT; ++r) {
      if (vf_nondet_bool()) {
        uint32_t kind = vf_range_u32(0, 1);
        completion(ts, kind, vf_range_u32(0, 2));
        quiescent(ts, pool);
        worker(pool);
      }
    }
    completion(ts, 0, 0);
    vf_check(g_pending < 0, "a captured exception is still undelivered after wait()");
    // every body ran at most once; a body that did not throw finished
    uint32_t p = vf_range_u32(0, 1);
    vf_check(g_start[p] <= 1, "a task body ran more than once");
    vf_check(g_start[p] == g_fin[p] + g_threw[p], "a task body neither finished nor threw");
    vf_check(
        g_delivered + g_direct <= (uint32_t)g_threw[0] + g_threw[1],
        "more exceptions delivered than thrown");
    vf_reach("before the destructor");
  }
  vf_reach("end of exception scenario");
}
