TECHNIQUE = ('bounded symbolic execution of LLVM IR lowered to C: CBMC/SAT (cadical), sequential engine, real task sets (exceptions '
             'enabled, invoke/landingpad lowered to an exception-token model) on a contract ThreadPool with virtual workers')
ASSUMPTIONS = [
    'dispenso::ThreadPool replaced by its contract model harness/C04/shim/dispenso/thread_pool.h (inline-or-queue decisions '
    'of the pool arbitrary; ForceQueuingTag queues unless the pool has 0 threads; tryExecuteNext* run one queued task; '
    'FIFO per source); the real task_set.h / detail/task_set_impl.h / task_set.cpp are compiled unchanged against it',
    'exception model (DESIGN.md 2.5): an exception is an opaque token; every handler matches (the code under test only uses '
    'catch (...)); std::exception_ptr holds the token; std::current_exception / std::rethrow_exception move tokens',
    'wait()/tryWait()/schedule callers are serial (documented contract)',
    'instances *_nest: a task that runs nested inside another body stands for a task executed by another pool thread during that body: it '
    'sees an empty thread-local task-set stack (saved/restored by the harness); the packaged-task wrapper reads no other thread-local state',
]
OUTSIDE = ('interleaving at task granularity: bodies run one after another, or (instances *_nest) overlap by LIFO nesting at one scheduling '
           'point per body (a second task runs start to end inside the first, depth 1, 2 tasks); switches between the atomic operations '
           'inside trySetCurrentException / testAndResetException (a second thrower arriving while the guard is kSetting, wait() reading '
           'the guard during that window), a body throwing while wait() is between its counter load and testAndResetException are outside; '
           'exception types, RTTI matching and nested handlers are outside (tokens); the destructor reached with an undelivered exception '
           '(wait() throws inside a noexcept destructor -> std::terminate) is not part of the property and is excluded by a final wait(); '
           'more than 2 tasks; futures')

_POOL = {
    'engine': 'cbmc', 'shims': ['moodycamel', '../harness/C04/shim'], 'exceptions': True,
    'repo_sources': ['dispenso/detail/per_thread_info.cpp', 'dispenso/task_set.cpp'],
    'spin_loops': True, 'checks': ['--no-standard-checks', '--div-by-zero-check', '--bounds-check'],
    'timeout': 1500, 'must_reach': 'all',
}
_NEST = ('; OVERLAPPING BODIES: every body has one scheduling point between its start and its throw/finish where (symbolic choice per body) '
         'another pool worker runs one queued task to completion (nested execution, depth 1, needs a free pool thread: tasks in flight on '
         'workers < pool size; the outer body runs on the virtual worker or on the owner inside wait()/tryWait()/inline schedule(f)), so '
         'two throwers that were both in flight are covered: outer starts, nested starts, nested throws and is recorded, outer throws')
_SHAPES = {0: 'schedule(f)', 1: 'schedule(f, ForceQueuingTag)', 2: 'scheduleBulk(2, gen)', 3: 'scheduleBulk(2, gen, ForceQueuingTag)'}


def exc(setk, pool, cost=1, mask=15, nwait=1, wsteps=1, ctx=1, nest=0, tiers=('thorough',), tag='', xdefs=None):
    name = '%s%s_p%d_m%d_w%d%s%s' % ('ts' if setk == 0 else 'cts', '' if setk == 0 else ('H' if cost else 'L'), pool, mask, nwait,
                                   '_nest' if nest else '', tag)
    defs = {'VF_SET': setk, 'VF_POOL_N': pool, 'VF_COST': cost, 'VF_OPMASK': mask, 'VF_NWAIT': nwait, 'VF_WSTEPS': wsteps,
            'VF_CTX': ctx, 'VF_NEST': nest, 'VF_MQ_CAP': 1, 'VF_PQ_CAP': 2}
    defs.update(xdefs or {})
    shapes = ', '.join(_SHAPES[k] for k in range(4) if (mask >> k) & 1)
    b = ('%s%s on the contract pool with %d threads; 2 task bodies of which a symbolic subset throws; submitted as two single calls or '
         'one bulk call out of {%s} from a symbolic load pre-state (load multiplier 1..4%s); <=%d virtual-worker step(s) after each call; '
         'then <=%d symbolic completion calls (wait() / tryWait(k<=2)), wait(), destructor; every call wrapped in try/catch; '
         'task-granularity interleaving (sequential engine, virtual workers)'
         % ('TaskSet' if setk == 0 else 'ConcurrentTaskSet', '' if setk == 0 else (' kHeavy (placed route)' if cost else ' kLightweight'),
            pool, shapes, ', caller is/is not a pool thread, inline depth 0..33, 0..4096 other pool tasks pending' if ctx else '',
            wsteps, nwait))
    if nest:
        b += _NEST
    d = dict(_POOL)
    loops, outer = 3, 2
    d.update({'name': name, 'src': 'exc.cpp', 'defs': defs, 'bounds': b, 'tiers': list(tiers), 'unwind': 3,
              'unwind_fn': {'_ZN8dispenso10ThreadPool11popMatchingEjjb': loops, '_ZN8dispenso10ThreadPoolC2Emm': loops,
                            '_ZL12queuedInPoolRN8dispenso10ThreadPoolE': loops,
                            '_ZN8dispenso17ConcurrentTaskSet7tryWaitEm': 4, '_ZN8dispenso7TaskSet7tryWaitEm': 4,
                            '_ZN8dispenso10ThreadPoolD2Ev': 2},
              'unwindset': dict([('_ZN8dispenso17ConcurrentTaskSet4waitEv.%d' % i, v) for i, v in enumerate([outer, loops, loops, outer])] +
                                [('_ZN8dispenso7TaskSet4waitEv.%d' % i, v) for i, v in enumerate([outer, loops, outer, loops, loops, outer])])})
    return d


_Q = ('quick', 'thorough')
INSTANCES = [
    exc(1, 1, cost=1, mask=3, tiers=_Q),
    exc(1, 2, cost=1, mask=2, nest=1, ctx=0, tiers=_Q),
    exc(0, 1, mask=2, nest=1, ctx=0),
    exc(1, 1, cost=1, mask=3, nest=1),
    # exc(0,1,mask=2,nest=1,ctx=0) and exc(1,1,mask=3,nest=1): thorough, validated on /repo (112 s / 91 s wall)
    # thorough tier (defined, not run in this round): other set kind / pool sizes / bulk shapes / two completion calls
    exc(0, 1, mask=3), exc(1, 1, cost=0, mask=3), exc(1, 2, cost=1, mask=12), exc(0, 2, mask=12), exc(1, 2, cost=0, mask=12),
    exc(0, 0, mask=15), exc(1, 0, cost=1, mask=15), exc(1, 1, cost=1, mask=3, nwait=2), exc(0, 1, mask=15, nwait=2),
]
