// C20: timed waits of CompletionEvent -- "ready" means the event is completed, "timeout" means the
// requested time has elapsed (on the model clock).  Also extends C21: CompletionEvent::wait/notify.
//
// Real code: dispenso::CompletionEvent::{notify, wait, waitFor, waitUntil, completed},
//            detail::CompletionEventImpl::{notify, wait, waitFor, waitUntil} (Linux futex path),
//            including the std::chrono conversions (integer duration -> duration<double> seconds,
//            time_point - Clock::now()) and the double -> timespec conversion.
// Threads: thread 0 (vf_main) joins; optional notifier thread; 1-2 waiter threads.
// Symbolic: the requested timeout (see VF_MODEn), time passage (harness-driven clock advances by
// symbolic amounts + the scheduler timing out a timed futex wait by advancing the model clock to
// the wait's deadline: rt option VF_FUTEX_TIMEOUT_EXACT), the interleaving of all atomic
// operations / futex calls, which waiter a wake picks, spurious futex returns.
//
// Waiter modes (VF_MODE1 / VF_MODE2).  Bit-precise double arithmetic over a wide symbolic range is not
// tractable for SAT (multiplier/divider reasoning), so a symbolic timeout is drawn from *windows*:
// value = base[i] + r with i symbolic over a table of magnitudes (negative, around zero, sub-us,
// around 1 ms, across the 1 s boundary, 1.5 s, 1 day, the largest magnitudes) and r symbolic in
// [0, 2^VF_WBITS).
//   0 waitFor(std::chrono::nanoseconds(n))        n from the ns window table
//   1 waitFor(std::chrono::milliseconds(n))       n from the ms window table, R = n * 10^6
//   2 waitFor(std::chrono::duration<double>(x))   x = one of 2^VF_WBITS consecutive doubles above a base double
//   3 waitUntil(VfClock::time_point(A))           A symbolic absolute instant of the model clock (ns window table)
//   4 wait()                                      (C21 extension)
//   6 waitFor(std::chrono::microseconds(n))       n from the us window table, R = n * 1000
//   7 waitUntil(std::chrono::steady_clock::time_point(A))  real steady_clock instantiation
#include <chrono>
#include <new>
#include <dispenso/completion_event.h>
#include "vf.h"

extern "C" int64_t vf_clock_peek();            // model clock, ghost read
extern "C" void vf_clock_advance(uint64_t d);  // harness-driven time passage
extern "C" int64_t vf_futex_last_timeout_ns();  // relative timeout (ns) of the caller's last timed futex wait
extern "C" uint32_t vf_futex_timed_wait_count();  // number of timed futex waits the caller has started

#ifndef VF_MODE1
#define VF_MODE1 0
#endif
#ifndef VF_MODE2
#define VF_MODE2 -1
#endif
#ifndef VF_NOTIFY
#define VF_NOTIFY 1
#endif
#ifndef VF_CONV
#define VF_CONV 0
#endif
#ifndef VF_WBITS
#define VF_WBITS 8
#endif
#define VF_W (1ll << VF_WBITS)
#ifndef VF_ADV
#define VF_ADV (1ull << 40)  // largest single harness clock advance (ns)
#endif

static void vf_now_ghost(int64_t t);
// The model clock as a std::chrono clock: reading it lets an arbitrary amount of time pass first.
struct VfClock {
  using duration = std::chrono::nanoseconds;
  using rep = duration::rep;
  using period = duration::period;
  using time_point = std::chrono::time_point<VfClock, duration>;
  static constexpr bool is_steady = true;
  static time_point now() noexcept {
    uint64_t d = vf_nondet_u64();
    vf_assume(d < VF_ADV);
    vf_clock_advance(d);
    const int64_t t = vf_clock_peek();
    vf_now_ghost(t);
    return time_point(duration(t));
  }
};

static dispenso::CompletionEvent* E;
alignas(dispenso::CompletionEvent) static char storage[sizeof(dispenso::CompletionEvent)];

static inline bool ghost_done() {  // plain read of the status word: no scheduling point
  return E->impl_.status_._M_i == 1;
}

static int g_ret[3];  // per waiter: 0 not returned, 1 returned true, 2 returned false

static void time_passes() {
  uint64_t d = vf_nondet_u64();
  vf_assume(d < VF_ADV);
  vf_clock_advance(d);
}

// Requested timeout / deadline.  VF_CONV=1: from the window table centre[i] / unit + r - W/2 (the
// numeric conversion claim needs bit-precise double reasoning, tractable only over windows);
// VF_CONV=0: any value with |value * unit| <= 2^53 ns.
static int64_t sym_timeout(int64_t unit) {
#if VF_CONV
  static const int64_t centre_ns[9] = {
      -(1ll << 52), -1000000000ll, 0, 1000000ll, 1000000000ll, 1500000007ll, 86400000000000ll,
      123456789012345ll, (1ll << 52)};
  const uint32_t i = vf_range_u32(0, 8);
  const int64_t r = (int64_t)vf_range_u64(0, VF_W - 1);
  return centre_ns[i] / unit + r - VF_W / 2;
#else
  const int64_t v = (int64_t)vf_nondet_u64();
  vf_assume(v >= -((1ll << 53) / unit) && v <= (1ll << 53) / unit);
  return v;
#endif
}

// 1 ns of truncation toward zero in the double -> timespec conversion, + up to 0.5 ns of rounding when
// >= 2^50 ns are converted to double seconds (see NOTES.md)
static inline int64_t tol_ns(int64_t R) { return R < (1ll << 50) ? 1 : 2; }

// The timeout claim "false => at least the requested time R has elapsed" is decided in two halves that
// meet at the timespec the real code hands to the kernel (ghost of the futex model):
//   (a) false => a timed futex wait with relative timeout ts was started no earlier than `from` and the
//       model clock has advanced by >= ts since -- or no wait was started and R <= 0;
//   (b) ts >= R - tol (VF_CONV instances; bit-precise double arithmetic).
static void post(int w, bool r, int64_t from, int64_t R, bool pre) {
  VfAtomic a;
  const int64_t el = vf_clock_peek() - from;
  const bool done = ghost_done();
  vf_check(!r || done, "timed wait returned true although the event is not completed");
  vf_check(r || !pre, "timed wait returned false although the event was completed before the call");
  if (!r) {
    const int64_t ts = vf_futex_last_timeout_ns();
    if (vf_futex_timed_wait_count() == 0) {
      vf_check(R <= 0, "timeout reported without waiting although the requested time is positive");
    } else {
      vf_check(ts >= 0 && el >= ts, "timeout reported before the time handed to the kernel had elapsed");
#if VF_CONV
      vf_check(ts >= R - tol_ns(R), "the timespec handed to the kernel is shorter than the requested time");
#endif
    }
  }
  g_ret[w] = r ? 1 : 2;
}

static int64_t g_now[3];  // ghost: the instant VfClock::now() returned to waiter w
static void vf_now_ghost(int64_t t) { g_now[vf_self()] = t; }  // waiter w is model thread w

template <int MODE>
static void waiter(int w) {
  int64_t t0;
  bool pre;
  if (MODE == 0 || MODE == 1 || MODE == 6) {
    const int64_t unit = MODE == 0 ? 1 : (MODE == 1 ? 1000000 : 1000);
    const int64_t n = sym_timeout(unit);
    { VfAtomic a; t0 = vf_clock_peek(); pre = ghost_done(); }
    bool r;
    if (MODE == 0) r = E->waitFor(std::chrono::nanoseconds(n));
    else if (MODE == 1) r = E->waitFor(std::chrono::milliseconds(n));
    else r = E->waitFor(std::chrono::microseconds(n));
    post(w, r, t0, n * unit, pre);
  } else if (MODE == 2) {
    union { uint64_t u; double d; } pun;
#if VF_CONV
    // 2^VF_WBITS consecutive doubles around: -1 s, +0 (denormals), 1 ns, 0.5 ms, 1 s, 1.5 s, 1 day,
    // 2^52 ns, 9.2e9 s (the end of the model clock's int64 ns range), 2^62 s
    static const uint64_t base_bits[10] = {
        0xbff0000000000000ull, 0x0ull + VF_W / 2, 0x3e112e0be826d695ull, 0x3f40624dd2f1a9fcull,
        0x3ff0000000000000ull, 0x3ff8000000000000ull, 0x40f5180000000000ull, 0x41512e0be826d695ull,
        0x420122e6e0000000ull, 0x43d0000000000000ull - VF_W / 2};
    const uint32_t i = vf_range_u32(0, 9);
    pun.u = base_bits[i] + vf_range_u64(0, VF_W - 1) - VF_W / 2;
#else
    pun.u = vf_nondet_u64();  // any finite double below 2^62 s in magnitude
    vf_assume(pun.d > -4611686018427387904.0 && pun.d < 4611686018427387904.0);
#endif
    const double x = pun.d;
    { VfAtomic a; t0 = vf_clock_peek(); pre = ghost_done(); }
    const bool r = E->waitFor(std::chrono::duration<double>(x));
    {
      VfAtomic a;
      const int64_t el = vf_clock_peek() - t0;
      vf_check(!r || ghost_done(), "timed wait returned true although the event is not completed");
      vf_check(r || !pre, "timed wait returned false although the event was completed before the call");
      if (!r) {
        const int64_t ts = vf_futex_last_timeout_ns();
        if (vf_futex_timed_wait_count() == 0) {
          vf_check(x <= 0.0, "timeout reported without waiting although the requested time is positive");
        } else {
          vf_check(ts >= 0 && el >= ts, "timeout reported before the time handed to the kernel had elapsed");
#if VF_CONV
          // requested time in ns evaluated in double (rounding to nearest: error <= 0.5 ns below 2^52 ns)
          const double req = x * 1e9;
          if (req < 4503599627370496.0) {  // 2^52
            vf_check((double)(ts + 2) >= req,
                     "the timespec handed to the kernel is shorter than the requested time (double seconds)");
          } else if (req < 9.2e18) {
            // larger timeouts: allow the relative rounding error of the oracle's own multiplication
            vf_check((double)ts >= req * (1.0 - 1.0 / 1099511627776.0),
                     "the timespec handed to the kernel is shorter than the requested (large) time");
          } else {
            vf_check((double)ts >= 9.19e18, "a timeout beyond the int64 ns range is handed to the kernel shortened");
          }
#endif
        }
      }
      g_ret[w] = r ? 1 : 2;
    }
  } else if (MODE == 3) {
    const int64_t A = sym_timeout(1);  // absolute deadline (the model clock starts at 0)
    { VfAtomic a; t0 = vf_clock_peek(); pre = ghost_done(); g_now[w] = t0; }
    const bool r = E->waitUntil(VfClock::time_point(std::chrono::nanoseconds(A)));
    // the wait starts after Clock::now() returned g_now[w]; requested relative time = A - g_now[w]
    post(w, r, g_now[w], A - g_now[w], pre);
  } else if (MODE == 7) {
    // real steady_clock instantiation: its now() is the runtime's clock (advances by an arbitrary amount
    // per reading); only the completion half of the property is asserted here
    const int64_t A = sym_timeout(1);
    { VfAtomic a; pre = ghost_done(); }
    const bool r = E->waitUntil(std::chrono::steady_clock::time_point(std::chrono::nanoseconds(A)));
    VfAtomic a;
    vf_check(!r || ghost_done(), "timed wait returned true although the event is not completed");
    vf_check(r || !pre, "timed wait returned false although the event was completed before the call");
    g_ret[w] = r ? 1 : 2;
  } else if (MODE == 4) {
    E->wait();
    VfAtomic a;
    vf_check(ghost_done(), "wait returned although the event is not completed");
    vf_check(E->completed(), "completed() is false after wait() returned");
    g_ret[w] = 1;
  }
}

static void t_w1(void*) { waiter<VF_MODE1>(1); }
#if VF_MODE2 >= 0
static void t_w2(void*) { waiter<VF_MODE2>(2); }
#endif
#if VF_NOTIFY
static void t_notify(void*) {
  time_passes();
  E->notify();
}
#endif

extern "C" void vf_main() {
  E = new (storage) dispenso::CompletionEvent();
  vf_spawn(t_w1, nullptr);
#if VF_MODE2 >= 0
  vf_spawn(t_w2, nullptr);
#endif
#if VF_NOTIFY
  vf_spawn(t_notify, nullptr);
#endif
  vf_join_all();
#if VF_NOTIFY
  vf_check(E->completed(), "completed() is false after notify() returned");
#endif
  vf_check(g_ret[1] != 0, "waiter 1 did not return");
}
