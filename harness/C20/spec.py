TECHNIQUE = ('bounded symbolic execution of LLVM IR lowered to C: CBMC/SAT (cadical), bit-precise IEEE double arithmetic; '
             'sequentialised step machine (symbolic scheduler over all atomic operations / futex calls) with a model clock and an '
             'exact futex-timeout model (a timed wait expires only once the model clock has reached its deadline)')
ASSUMPTIONS = [
    'the timeout is finite and its magnitude is below 2^62 seconds (NaN, infinities and >= 2^63 s make static_cast<time_t> undefined)',
    'the event is not reset while waits are in flight (documented)',
]
OUTSIDE = ('numeric conversion half (timespec >= requested - 1..2 ns): timeout values between the stated windows; NaN / infinite / >= 2^63 s '
           'durations; more than 2 waiters; more scheduling rounds / spurious returns than stated; weak-memory reorderings (the step machine is '
           'sequentially consistent); Future<T>/FutureBase forwarding wrappers, createFutureImpl, then-chains; non-Linux CompletionEventImpl '
           'variants; the steady_clock instantiation is checked for the completion half only; upper bounds on the waiting time (a spurious '
           'return restarts the full timeout) are not part of the property')

EXACT = {'VF_FUTEX_TIMEOUT_EXACT': 1, 'VF_SPURIOUS': 1}

def _ce(name, m1, m2, notify, steps, tiers=('quick', 'thorough'), extra=None, **kw):
    nthr = 2 + (1 if m2 >= 0 else 0) + (1 if notify else 0)
    defs = {'VF_MODE1': m1, 'VF_MODE2': m2, 'VF_NOTIFY': notify}
    defs.update(extra or {})
    d = {'name': name, 'src': 'ce_timed.cpp', 'engine': 'cbmc-seq', 'defs': defs, 'steps': steps,
         'unwind': 3, 'nthreads': nthr, 'spin_loops': True, 'timeout': 1500, 'rt_defs': dict(EXACT),
         'tiers': list(tiers), 'bounds': ''}
    d.update(kw)
    return d

MODE = {0: 'waitFor(nanoseconds)', 1: 'waitFor(milliseconds)', 2: 'waitFor(duration<double>)', 3: 'waitUntil(model-clock time_point)',
        4: 'wait()', 6: 'waitFor(microseconds)', 7: 'waitUntil(steady_clock time_point)'}

def ce(name, m1, m2, steps, tiers=('quick', 'thorough'), tsteps=None):
    d = _ce(name, m1, m2, 1, steps, tiers)
    d['bounds'] = ('1 notifier thread (symbolic clock advance, then notify) + waiter %s%s; timeout: any value with |t| <= 2^53 ns '
                   '(double: any finite double, |t| < 2^62 s); every interleaving of the atomic operations / futex calls within %d%s '
                   'scheduling rounds; <= 1 spurious futex return per thread; a timed futex wait expires only when the model clock '
                   'has reached its deadline; wait loops unwound 3x per segment'
                   % (MODE[m1], (' + waiter ' + MODE[m2]) if m2 >= 0 else '', steps, (' (thorough: %d)' % tsteps) if tsteps else ''))
    if tsteps:
        d['thorough'] = {'steps': tsteps}
    return d

def conv(name, m1, wbits, twbits, tiers=('quick', 'thorough')):
    # VF_ADV: clock advance inside VfClock::now() limited to the window size (the relative time A - now() feeds the FP conversion)
    d = _ce(name, m1, -1, 0, 3, tiers, extra={'VF_CONV': 1, 'VF_WBITS': wbits, 'VF_ADV': '(1ull<<%d)' % wbits})
    d['bounds'] = ('1 waiter %s, no notifier (the wait can only end by timeout or spuriously); timeout from 9-10 windows of 2^%d '
                   '(thorough: 2^%d) consecutive values around -2^52 ns, -1 s, 0, 1 ms, 1 s, 1.5 s, 1 day, 1.4 days, 2^52 ns '
                   '(double: consecutive doubles around -1 s, 0/denormals, 1 ns, 0.5 ms, 1 s, 1.5 s, 1 day, 2^52 ns, 9.2e9 s, 2^62 s); '
                   'bit-precise IEEE double arithmetic; 3 scheduling rounds' % (MODE[m1], wbits, twbits))
    d['thorough'] = {'defs': dict(d['defs'], VF_WBITS=twbits, VF_ADV='(1ull<<%d)' % twbits)}
    return d

INSTANCES = [
    ce('ce_for_ns', 0, -1, 4, tsteps=6),
    ce('ce_for_dbl', 2, -1, 4, ('thorough',), tsteps=6),
    ce('ce_until', 3, -1, 4, tsteps=6),
    ce('ce_for_and_wait', 0, 4, 4, tsteps=5),
    ce('ce_until_steady', 7, -1, 4, ('thorough',)),
    ce('ce_ms_and_until', 1, 3, 4, ('thorough',)),
    ce('ce_us_and_dbl', 6, 2, 4, ('thorough',)),
    {'name': 'fut_for', 'src': 'future_timed.cpp', 'engine': 'cbmc-seq', 'defs': {'VF_MODE1': 0}, 'steps': 4, 'unwind': 3,
     'nthreads': 3, 'spin_loops': True, 'timeout': 1500, 'rt_defs': dict(EXACT), 'shims': ['moodycamel'], 'allow_externals': ['_ZN8dispenso6detail22deallocSmallBufferImplEmPv'], 'native_extra': ['harness/C20/native_stubs.cpp'],
     'tiers': ['quick', 'thorough'], 'thorough': {'steps': 6},
     'bounds': 'concrete FutureImplBase<int>; symbolic allowInline_; runner thread (symbolic clock advance, then run()) + waiter '
               'waitFor(nanoseconds(t)), |t| <= 2^53; every interleaving within 4 (thorough: 6) scheduling rounds; <= 1 spurious '
               'futex return per thread; exact futex timeouts; the virtual runFunc() executes without preemption'},
    {'name': 'fut_until', 'src': 'future_timed.cpp', 'engine': 'cbmc-seq', 'defs': {'VF_MODE1': 3}, 'steps': 4, 'unwind': 3,
     'nthreads': 3, 'spin_loops': True, 'timeout': 1500, 'rt_defs': dict(EXACT), 'shims': ['moodycamel'], 'allow_externals': ['_ZN8dispenso6detail22deallocSmallBufferImplEmPv'], 'native_extra': ['harness/C20/native_stubs.cpp'],
     'tiers': ['thorough'],
     'bounds': 'as fut_for with waitUntil(model-clock time_point(t))'},
    conv('conv_ns', 0, 8, 12),
    conv('conv_dbl', 2, 8, 12),
    conv('conv_until', 3, 6, 10, ('thorough',)),
    conv('conv_ms', 1, 8, 12, ('thorough',)),
    conv('conv_us', 6, 8, 12, ('thorough',)),
]

# the native replay of these instances also needs the model-clock / futex-timeout ghosts, which only a
# full (unsliced) trace contains
for _i in INSTANCES:
    _i['unsliced_trace'] = True
