// Native replay only: external that the solver run treats as an allowed no-op (spec 'allow_externals').
// It is referenced from FutureImplBase::ThenChain::scheduleDestroyAndGetNext, which is unreachable in
// the C20 harness (no then-chain is ever attached to the future).
#include <cstddef>
#include <cstdlib>
namespace dispenso {
namespace detail {
void deallocSmallBufferImpl(size_t, void*) { std::abort(); }
}  // namespace detail
}  // namespace dispenso
