// C20: timed waits of Future -- FutureImplBase::{waitFor, waitUntil, waitCommon, run(int), run(), ready}
// over a tiny concrete FutureImplBase<int> (runFunc = set the result, dealloc = nothing): no thread pool,
// no small-buffer allocator.  Future<T>::wait_for / wait_until are one-line forwards to these
// (future_impl.h:595-603) and are not instantiated here.
//
// Threads: thread 0 joins; "runner" = the pool thread executing the scheduled OnceFunction body
// (FutureImplBase::run()); 1 waiter calling waitFor / waitUntil.
// Symbolic: allowInline_ (deferred policy), the timeout (any |t| <= 2^53 ns), time passage, the
// interleaving, spurious futex returns, futex timeouts (exact model).
// Checks: ready => status is kReady and the functor has completed; timeout => as in ce_timed.cpp half (a);
// the functor runs exactly once, and on the waiter's thread only if allowInline_.
#include <chrono>
#include <new>
#include <dispenso/future.h>
#include "vf.h"

extern "C" int64_t vf_clock_peek();
extern "C" void vf_clock_advance(uint64_t d);
extern "C" int64_t vf_futex_last_timeout_ns();
extern "C" uint32_t vf_futex_timed_wait_count();

#ifndef VF_MODE1
#define VF_MODE1 0  // 0 waitFor(nanoseconds), 3 waitUntil(model clock)
#endif
#ifndef VF_ADV
#define VF_ADV (1ull << 40)
#endif

static int g_runs;         // completed executions of the functor
static int g_ran_on = -1;  // model thread that executed it
static int64_t g_now;
static bool g_allow;

struct VfClock {
  using duration = std::chrono::nanoseconds;
  using rep = duration::rep;
  using period = duration::period;
  using time_point = std::chrono::time_point<VfClock, duration>;
  static constexpr bool is_steady = true;
  static time_point now() noexcept {
    uint64_t d = vf_nondet_u64();
    vf_assume(d < VF_ADV);
    vf_clock_advance(d);
    g_now = vf_clock_peek();
    return time_point(duration(g_now));
  }
};

using Base = dispenso::detail::FutureImplBase<int>;
struct MockImpl final : Base {
  void runFunc() override {
    this->setAsResult(7);
    g_runs++;
    g_ran_on = vf_self();
  }
  void dealloc() override {}
  ~MockImpl() override {}
};
static MockImpl* F;
alignas(MockImpl) static char storage[sizeof(MockImpl)];

static inline int ghost_status() { return F->status_.status_._M_i; }

static void t_waiter(void*) {
  int64_t t0, R;
  bool pre;
  const int64_t v = (int64_t)vf_nondet_u64();
  vf_assume(v >= -(1ll << 53) && v <= (1ll << 53));
  { VfAtomic a; t0 = vf_clock_peek(); pre = ghost_status() == Base::kReady; g_now = t0; }
  std::future_status st;
  if (VF_MODE1 == 0) {
    st = F->waitFor(std::chrono::nanoseconds(v));
    R = v;
  } else {
    st = F->waitUntil(VfClock::time_point(std::chrono::nanoseconds(v)));
    t0 = g_now;
    R = v - g_now;
  }
  VfAtomic a;
  const bool r = st == std::future_status::ready;
  vf_check(r || st == std::future_status::timeout, "timed wait returned neither ready nor timeout");
  vf_check(!r || (ghost_status() == Base::kReady && g_runs == 1),
           "future timed wait returned ready although the future is not ready");
  vf_check(!r || F->ready(), "ready() is false after a timed wait returned ready");
  vf_check(r || !pre, "future timed wait returned timeout although the future was ready before the call");
  vf_check(g_ran_on != 1 || g_allow, "a timed wait ran the functor although the future is not deferred");
  if (!r) {
    const int64_t el = vf_clock_peek() - t0;
    const int64_t ts = vf_futex_last_timeout_ns();
    if (vf_futex_timed_wait_count() == 0) {
      vf_check(R <= 0, "timeout reported without waiting although the requested time is positive");
    } else {
      vf_check(ts >= 0 && el >= ts, "timeout reported before the time handed to the kernel had elapsed");
    }
  }
}

static void t_runner(void*) {
  uint64_t d = vf_nondet_u64();
  vf_assume(d < VF_ADV);
  vf_clock_advance(d);
  F->run();
}

extern "C" void vf_main() {
  F = new (storage) MockImpl();
  g_allow = vf_nondet_bool();
  F->setAllowInline(g_allow);
  vf_spawn(t_waiter, nullptr);
  vf_spawn(t_runner, nullptr);
  vf_join_all();
  vf_check(g_runs == 1, "the functor did not run exactly once");
  vf_check(F->ready(), "the future is not ready after run() returned");
  vf_check(F->refCount_.load() == 1, "run() did not drop exactly the pool's reference");
}
