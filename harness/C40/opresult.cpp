// C40: OpResult behaves like an optional and every contained object is destroyed exactly once.
// Real code: detail::OpResult<Tracked>::{ctor(), ctor(U&&), copy ctor, move ctor, copy=, move=,
//            emplace, ~OpResult, has_value, value}.
// Symbolic: a history of VF_OPS operations (kind, which of two objects is the target, values).
#include <new>
#include <utility>
#include <dispenso/detail/op_result.h>
#include "tracked.h"

VfCounters g_cnt;
using Opt = dispenso::detail::OpResult<Tracked>;

struct Ghost { bool has; int32_t v; };

alignas(Opt) static char sa[sizeof(Opt)];
alignas(Opt) static char sb[sizeof(Opt)];

static void agree(Opt* o, const Ghost& g, const char*) {
  vf_check(o->has_value() == g.has, "has_value() agrees with the reference optional");
  if (g.has && o->has_value()) {
    vf_check(o->value().v == g.v, "value() agrees with the reference optional");
  }
}

extern "C" void vf_main() {
  Opt* o[2];
  Ghost g[2];
  // initial construction: empty or from a value
  for (int i = 0; i < 2; ++i) {
    if (vf_nondet_bool()) {
      int32_t x = (int32_t)vf_range_u32(0, 100);
      o[i] = new (i ? sb : sa) Opt(Tracked(x));
      g[i] = {true, x};
    } else {
      o[i] = new (i ? sb : sa) Opt();
      g[i] = {false, 0};
    }
  }
  for (int step = 0; step < VF_OPS; ++step) {
    uint32_t op = vf_range_u32(0, 6);
    int t = vf_nondet_bool() ? 1 : 0;  // target
    int s = 1 - t;                      // source
    switch (op) {
      case 0: {  // emplace
        int32_t x = (int32_t)vf_range_u32(0, 100);
        Tracked& r = o[t]->emplace(x);
        vf_check(&r == &o[t]->value() && r.v == x, "emplace returns the new contained object");
        g[t] = {true, x};
        break;
      }
      case 1:  // copy assignment
        *o[t] = *o[s];
        g[t] = g[s];
        break;
      case 2:  // move assignment: target takes the value; source may stay engaged (moved-from) or empty
        *o[t] = std::move(*o[s]);
        g[t] = g[s];
        g[s].has = o[s]->has_value();
        g[s].v = -7;
        break;
      case 3:  // destroy + copy construct
        o[t]->~Opt();
        o[t] = new (t ? sb : sa) Opt(*o[s]);
        g[t] = g[s];
        break;
      case 4:  // destroy + move construct
        o[t]->~Opt();
        o[t] = new (t ? sb : sa) Opt(std::move(*o[s]));
        g[t] = g[s];
        g[s].has = o[s]->has_value();
        g[s].v = -7;
        break;
      case 5:  // self copy assignment
        *o[t] = *o[t];
        break;
      default:  // destroy + default construct
        o[t]->~Opt();
        o[t] = new (t ? sb : sa) Opt();
        g[t] = {false, 0};
        break;
    }
    agree(o[0], g[0], "");
    agree(o[1], g[1], "");
    vf_check(g_cnt.live == (g[0].has ? 1 : 0) + (g[1].has ? 1 : 0),
             "live contained objects == engaged OpResults (nothing leaked, nothing destroyed early)");
  }
  o[0]->~Opt();
  o[1]->~Opt();
  vf_check(g_cnt.live == 0, "every contained object is destroyed by the time both OpResults are gone");
  vf_check(g_cnt.ctor == g_cnt.dtor, "constructions and destructions balance");
}
