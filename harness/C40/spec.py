ASSUMPTIONS = ['a moved-from OpResult may be left engaged (like std::optional) or disengaged; the reference model follows whatever has_value() reports for the source']
OUTSIDE = 'histories longer than the stated number of operations; more than two objects; element types other than the lifetime-tracked int payload'
INSTANCES = [
    {'name': 'history', 'src': 'opresult.cpp', 'engine': 'cbmc', 'defs': {'VF_OPS': 3}, 'unwind': 5,
     'timeout': 900, 'bounds': 'two OpResult<Tracked> objects, each initially empty or engaged; 3 symbolic operations (7 kinds x target choice x value)',
     'thorough': {'defs': {'VF_OPS': 5}, 'unwind': 7}},
]
