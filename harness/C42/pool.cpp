// C42: PoolAllocator hands out exclusive chunks within its slabs.
// Real code (dispenso/pool_allocator.{h,cpp}, linked in as a second translation unit):
//   PoolAllocatorT<kThreadSafe>::{ctor, alloc, dealloc, clear, totalChunkCapacity, dtor}
//   VF_TS=0 -> NoLockPoolAllocator, VF_TS=1 -> PoolAllocator (spin-lock word exercised from one thread).
// Per instance (concrete): chunkSize VF_CS, chunks per slab VF_CPA, slab slack VF_SLACK (allocSize =
//   VF_CPA*VF_CS+VF_SLACK need not be a multiple of chunkSize).
// Symbolic: placement of every slab inside the backing arena (any byte gap 0..15, so slabs are not
//   chunk-aligned in absolute terms) and a history of up to VF_OPS operations
//   alloc / dealloc(of a symbolically chosen live chunk) / clear / stop, then destruction.
// The harness-provided allocFunc/deallocFunc log every slab (address, size, released count); the ghost
// state keeps the set of live chunks.  Nothing below re-implements the allocator.
#include <new>
#include <dispenso/pool_allocator.h>
#include "vf.h"

#ifndef VF_TS
#define VF_TS 0
#endif
#ifndef VF_OPS
#define VF_OPS 6
#endif
#ifndef VF_CS
#define VF_CS 16
#endif
#ifndef VF_CPA
#define VF_CPA 2
#endif
#ifndef VF_SLACK
#define VF_SLACK 0
#endif

using Pool = dispenso::PoolAllocatorT<(VF_TS != 0)>;

constexpr uint32_t kMaxSlabs = VF_OPS;  // a slab is obtained at most once per alloc()
constexpr size_t kMaxAllocSize = 3 * 64 + 63;
constexpr size_t kMaxGap = 15;
static char g_arena[kMaxSlabs * (kMaxAllocSize + kMaxGap) + 64];

struct Slab {
  uintptr_t base;
  size_t size;
  uint32_t released;
};

struct Ghost {
  // configuration
  size_t cs;         // chunk size
  size_t cpa;        // chunks per slab
  size_t allocSize;  // slab size
  // slab log
  Slab slab[kMaxSlabs];
  uint32_t nslab;
  size_t arenaNext;
  size_t capacity;  // nslab * cpa, maintained incrementally
  uint32_t allocCalls;
  uint32_t deallocCalls;
  bool destroying;
  // chunk ownership
  char* chunk[VF_OPS];
  bool live[VF_OPS];
  uint32_t nchunk;
  size_t nlive;
};
static Ghost G;

static bool chunkInSlab(uintptr_t p, const Slab& s) {
  return p >= s.base && p + G.cs <= s.base + s.size;
}

static void* slabAlloc(size_t n) {
  vf_check(n == G.allocSize, "allocFunc is asked for exactly allocSize bytes");
  // Every chunk of every slab obtained so far is handed out and not yet returned: only then is a new
  // slab needed.  In particular the slabs recycled by clear() are used up first.
  vf_check(G.nlive == G.capacity,
           "allocFunc is called only when no chunk of an existing slab is free (slabs are reused first)");
  vf_check(G.nslab < kMaxSlabs, "no more slabs are obtained than alloc() calls were made");
  if (G.nslab >= kMaxSlabs || n > kMaxAllocSize) {
    // only reachable after one of the checks above failed; keep the harness itself in bounds
    return g_arena;
  }
  size_t gap = vf_range_u32(0, kMaxGap);
  size_t off = G.arenaNext + gap;
  G.arenaNext = off + n;
  char* p = g_arena + off;
  Slab& s = G.slab[G.nslab];
  s.base = reinterpret_cast<uintptr_t>(p);
  s.size = n;
  s.released = 0;
  G.nslab++;
  G.allocCalls++;
  G.capacity += G.cpa;
  return p;
}

static void slabFree(void* ptr) {
  uintptr_t p = reinterpret_cast<uintptr_t>(ptr);
  G.deallocCalls++;
  bool found = false;
  for (uint32_t i = 0; i < kMaxSlabs; ++i) {
    if (i < G.nslab && G.slab[i].base == p) {
      found = true;
      vf_check(G.slab[i].released == 0, "a slab is passed to deallocFunc at most once");
      G.slab[i].released++;
      for (uint32_t j = 0; j < VF_OPS; ++j) {
        if (j < G.nchunk && G.live[j] && !G.destroying) {
          vf_check(!chunkInSlab(reinterpret_cast<uintptr_t>(G.chunk[j]), G.slab[i]),
                   "a slab is not released while one of its chunks is still live");
        }
      }
    }
  }
  vf_check(found, "deallocFunc receives only slab pointers obtained from allocFunc");
}

// obligations on a chunk freshly returned by alloc()
static void checkNewChunk(char* ptr) {
  uintptr_t p = reinterpret_cast<uintptr_t>(ptr);
  bool inside = false;
  for (uint32_t i = 0; i < kMaxSlabs; ++i) {
    if (i < G.nslab && G.slab[i].released == 0 && chunkInSlab(p, G.slab[i])) {
      inside = true;
      vf_check(((p - G.slab[i].base) & (G.cs - 1)) == 0,
               "chunk starts at a multiple of chunkSize from its slab's base");
    }
  }
  vf_check(inside, "chunk [p, p+chunkSize) lies inside a live slab obtained from allocFunc");
  for (uint32_t j = 0; j < VF_OPS; ++j) {
    if (j < G.nchunk && G.live[j]) {
      uintptr_t q = reinterpret_cast<uintptr_t>(G.chunk[j]);
      vf_check(p + G.cs <= q || q + G.cs <= p,
               "chunk does not overlap a chunk that is still live (not handed out twice)");
    }
  }
}

alignas(Pool) static char g_poolStorage[sizeof(Pool)];

// returns false if the history cannot be continued (lock word left set: the next operation would spin forever)
static bool afterOp(Pool* pool) {
  vf_check(pool->totalChunkCapacity() == G.capacity,
           "totalChunkCapacity() == slabs obtained x chunks per slab");
  vf_check(G.deallocCalls == 0, "no slab is released before destruction");
#if VF_TS
  bool unlocked = pool->backingAllocLock_.load(std::memory_order_relaxed) == 0;
  vf_check(unlocked, "the spin-lock word is released when an operation returns");
  return unlocked;
#else
  return true;
#endif
}

// end of a history: destroy the pool, then every slab must have been released exactly once
static void finish(Pool* pool) {
  G.destroying = true;
  pool->~Pool();
  for (uint32_t i = 0; i < kMaxSlabs; ++i) {
    if (i < G.nslab) {
      vf_check(G.slab[i].released == 1, "destruction releases every slab exactly once via deallocFunc");
    }
  }
  vf_check(G.deallocCalls == G.allocCalls, "deallocFunc calls == allocFunc calls after destruction");
}

// The history is explored as a tree: every node picks the next operation symbolically and each choice
// continues in its own subtree (no re-convergence before the end), so that the symbolic executor keeps
// the allocator's control state (vector sizes, which slab is current) path-precise while addresses,
// sizes, gaps and the chunk chosen for dealloc stay symbolic data.
template <int kLeft>
struct History {
  VF_NOINLINE static void run(Pool* pool) {
    uint32_t op = vf_range_u32(0, 3);
    if (op == 0) {
      char* p = pool->alloc();
      checkNewChunk(p);
      G.chunk[G.nchunk] = p;
      G.live[G.nchunk] = true;
      G.nchunk++;
      G.nlive++;
      if (afterOp(pool)) History<kLeft - 1>::run(pool);
    } else if (op == 1) {
      if (G.nlive == 0) {
        vf_assume(false);  // nothing to dealloc: not a history
        return;
      }
      uint32_t idx = vf_range_u32(0, VF_OPS - 1);
      vf_assume(idx < G.nchunk && G.live[idx]);
      pool->dealloc(G.chunk[idx]);
      G.live[idx] = false;
      G.nlive--;
      if (afterOp(pool)) History<kLeft - 1>::run(pool);
    } else if (op == 2) {
      pool->clear();
      // "Effectively dealloc all previously allocated chunks": none of them is live any more and
      // (documented precondition) none of them is passed to dealloc() afterwards.
      for (uint32_t j = 0; j < VF_OPS; ++j) G.live[j] = false;
      G.nlive = 0;
      if (afterOp(pool)) History<kLeft - 1>::run(pool);
    } else {
      finish(pool);  // shorter history
    }
  }
};
template <>
struct History<0> {
  VF_NOINLINE static void run(Pool* pool) { finish(pool); }
};

extern "C" void vf_main() {
  // The configuration is concrete per instance (VF_CS / VF_CPA / VF_SLACK): chunksPerAlloc_ =
  // allocSize / chunkSize steers the allocator's control flow and its vector capacities.
  G.cs = VF_CS;
  G.cpa = VF_CPA;
  G.allocSize = (size_t)VF_CPA * VF_CS + VF_SLACK;
  static_assert(VF_SLACK < VF_CS, "slack must be smaller than a chunk");
  Pool* pool = new (g_poolStorage) Pool(G.cs, G.allocSize, slabAlloc, slabFree);
  vf_check(pool->chunksPerAlloc_ == G.cpa, "chunksPerAlloc_ == allocSize / chunkSize");
  vf_check(pool->totalChunkCapacity() == 0, "a new pool reports capacity 0");
  History<VF_OPS>::run(pool);
}
