TECHNIQUE = 'bounded symbolic execution of LLVM IR lowered to C: CBMC/SAT (cadical), sequential history harness with slab-logging allocFunc/deallocFunc and a ghost chunk-ownership map'
ASSUMPTIONS = [
    'chunkSize <= allocSize (at least one chunk per slab); chunkSize > allocSize makes chunksPerAlloc_ 0 and is treated as a precondition violation',
    'documented precondition of clear(): no chunk allocated before clear() is passed to dealloc() afterwards',
    'dealloc() is only called with chunks obtained from alloc() of the same pool that are currently live',
    'allocFunc returns disjoint slabs of the requested size (any byte placement inside a backing arena) and never fails',
]
OUTSIDE = ('histories longer than the stated number of operations; chunk sizes other than 16/32/64 and more than 3 chunks per slab; '
           'concurrent use of PoolAllocator from 2+ threads (spin-lock mutual exclusion) -- to be covered by a separate cbmc-par/E3 instance by the lead; '
           'allocFunc failure (nullptr); more than one pool sharing the backing functions')
_COMMON = {'src': 'pool.cpp', 'engine': 'cbmc', 'repo_sources': ['dispenso/pool_allocator.cpp'],
           'leak_check': True, 'timeout': 1500}
INSTANCES = [
    dict(_COMMON, name='nolock_history', defs={'VF_TS': 0, 'VF_OPS': 6, 'VF_MINCPA': 2}, unwind=8,
         bounds='NoLockPoolAllocator: chunkSize in {16,32,64}, 2-3 chunks per slab, slab slack 0..chunkSize-1, slab placement gap 0..15 bytes, '
                'every history of <= 6 operations from alloc / dealloc(any live chunk) / clear, then destruction',
         thorough={'defs': {'VF_TS': 0, 'VF_OPS': 8, 'VF_MINCPA': 1}, 'unwind': 10,
                   'bounds': 'NoLockPoolAllocator: chunkSize in {16,32,64}, 1-3 chunks per slab, slab slack 0..chunkSize-1, slab placement gap 0..15 bytes, '
                             'every history of <= 8 operations from alloc / dealloc(any live chunk) / clear, then destruction'}),
    dict(_COMMON, name='locked_history', defs={'VF_TS': 1, 'VF_OPS': 6, 'VF_MINCPA': 2}, unwind=8,
         bounds='PoolAllocator (kThreadSafe=true, real fetch_or/store on the lock word) used from one thread: same space as nolock_history, <= 6 operations',
         thorough={'defs': {'VF_TS': 1, 'VF_OPS': 8, 'VF_MINCPA': 1}, 'unwind': 10,
                   'bounds': 'PoolAllocator (kThreadSafe=true) used from one thread: same space as nolock_history thorough, <= 8 operations'}),
]
