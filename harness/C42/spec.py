TECHNIQUE = ('bounded symbolic execution of LLVM IR lowered to C: CBMC/SAT (cadical), sequential history-tree harness with '
             'slab-logging allocFunc/deallocFunc and a ghost chunk-ownership map')
ASSUMPTIONS = [
    'chunkSize <= allocSize (at least one chunk per slab); chunkSize > allocSize makes chunksPerAlloc_ 0 and is treated as a precondition violation',
    'documented precondition of clear(): no chunk allocated before clear() is passed to dealloc() afterwards',
    'dealloc() is only called with chunks obtained from alloc() of the same pool that are currently live',
    'allocFunc returns disjoint slabs of the requested size (any byte placement inside a backing arena) and never fails',
]
OUTSIDE = ('histories longer than 3 operations (see NOTES.md: the std::vector<char*> heap encoding does not scale further in CBMC); '
           'chunk sizes other than 16/32/64, 1 chunk per slab or more than 3, slack values other than 0 and chunkSize-1; '
           'concurrent use of PoolAllocator from 2+ threads (spin-lock mutual exclusion) -- left for a separate concurrent instance by the lead; '
           'allocFunc failure (nullptr); several pools sharing the backing functions')


def _inst(ts, cs, cpa, slack, tiers):
    name = '%s_cs%d_x%d_s%d' % ('locked' if ts else 'nolock', cs, cpa, slack)
    return {'name': name, 'src': 'pool.cpp', 'engine': 'cbmc', 'repo_sources': ['dispenso/pool_allocator.cpp'],
            'leak_check': True, 'timeout': 300, 'unwind': 8, 'object_bits': 12, 'tiers': tiers,
            'defs': {'VF_TS': ts, 'VF_OPS': 3, 'VF_CS': cs, 'VF_CPA': cpa, 'VF_SLACK': slack},
            'bounds': '%s, chunkSize %d, %d chunk(s) per slab, allocSize %d; slab placement gap 0..15 bytes symbolic; every history of <= 3 '
                      'operations from alloc / dealloc(any live chunk) / clear, followed by destruction'
                      % ('PoolAllocator (kThreadSafe=true, real fetch_or/store on the lock word, one thread)' if ts
                         else 'NoLockPoolAllocator', cs, cpa, cs * cpa + slack)}


_QUICK = {(0, 16, 2, 0), (0, 32, 3, 31), (0, 64, 2, 63), (0, 16, 3, 15), (1, 32, 2, 0), (1, 64, 3, 63)}
INSTANCES = []
for _ts in (0, 1):
    for _cs in (16, 32, 64):
        for _cpa in (2, 3):  # 1 chunk per slab: every alloc() reallocates backingAllocs_; CBMC times out (NOTES.md)
            for _slack in (0, _cs - 1):
                _q = (_ts, _cs, _cpa, _slack) in _QUICK
                INSTANCES.append(_inst(_ts, _cs, _cpa, _slack, ['quick', 'thorough'] if _q else ['thorough']))
