// C09 (protocol kernel): the first statements of ~ThreadPool / resizeLocked / setSignalingWake
// (stop every worker, then PoolWakeState::wakeAll) make every worker leave its loop without any futex
// timeout, wherever the worker is (spinning, between enterSleep and the futex wait, parked, parked with
// its sleep bit already claimed by an earlier submission's claimAndWakeOne).
// Real code under test: detail::PoolWakeState / detail::EpochWaiter; the worker loop and the
// submission glue are transcriptions (see ../C07/wake_kernel.h).
// Symbolic: interleaving of all atomic steps, which waiters a futex wake picks, per worker the start
// point (top of the loop / after enterSleep) and the preferRing hint, spurious futex returns (bounded).
//
// -D VF_HIST: 0 no earlier submission; 1 one schedule() before the shutdown; 2 one schedulePlaced();
//             3 scheduleBulkToRings(count); 4 scheduleBulkEnqueue(count)
// -D VF_START: 0 every worker starts at the top of its loop; 1 after enterSleep (parked / about to
//             call the futex); 2 symbolic per worker
#define K_NO_TEARDOWN 1
#include "../C07/wake_kernel.h"

#ifndef VF_HIST
#define VF_HIST 0
#endif
#ifndef VF_START
#define VF_START 2
#endif

// harness teardown is not used here: the code under test must get every worker out
VF_NOINLINE static void k_teardown() {}

extern "C" void vf_main() {
  for (int i = 0; i < VF_N; ++i) {
#if VF_START == 2
    g_start_parking[i] = vf_nondet_bool();
#else
    g_start_parking[i] = VF_START != 0;
#endif
  }
  k_build();
  K_SPAWN_WORKERS();
  // remaining inputs are drawn after the spawns (the native replay runtime synchronises inputs with the
  // schedule only once threads exist); a worker that starts earlier uses `false`, one of the two values
  for (int i = 0; i < VF_N; ++i) {
    g_prefer0[i] = vf_nondet_bool();
  }
#if VF_LIVE_CENTRAL
  k_hint_store(vf_nondet_bool());
#endif
  int32_t count = 1;
#if (VF_HIST == 3 || VF_HIST == 4) && VF_N > 1
  count = (int32_t)vf_range_u32(1, VF_N);
#endif

  // an earlier submission by the (single) producer; its tasks may or may not have been started when
  // the shutdown begins (g_submit_done stays 0: no ledger-triggered teardown)
  { VfAtomic a; g_submitted = VF_HIST ? (uint32_t)count : 0; }
#if VF_HIST == 1
  k_schedule();
#elif VF_HIST == 2
  k_schedulePlaced();
#elif VF_HIST == 3
  k_bulkToRings(count);
#elif VF_HIST == 4
  k_bulkEnqueue(count);
#endif

  // ~ThreadPool / resizeLocked(n) / setSignalingWake(): stop all, wakeAll, (drain), join
  k_shutdown_prefix();
#if VF_LIVE_CENTRAL && VF_HIST
  {  // while (tryExecuteNext()) {}  -- the destructor drains the central queue itself
    bool last = false;
    if (k_pop_central()) k_run(-1, last);
  }
#endif
  vf_join_all();   // thread_.join() for every worker: blocks forever if a worker stays parked
  vf_check(g_exited == VF_N, "every worker of the old configuration has left its loop when join returns");
}
