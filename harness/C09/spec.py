TECHNIQUE = 'bounded symbolic execution of LLVM IR lowered to C: CBMC/SAT over a sequentialised step machine (symbolic round-robin scheduler, exact futex blocking, deadlock detection)'
ASSUMPTIONS = ['kernel instances (kernel_shutdown.cpp): the worker loop (threadLoopImpl parking part, waitOnThread, PerThreadData::stop/running) and '
               'the shutdown prefix of ~ThreadPool/resizeLocked (stop all; wakeAll; join) are harness transcriptions over ghost containers; '
               'the probe sequence of tryFindAndExecuteWork is one atomic ghost step; only detail::PoolWakeState / detail::EpochWaiter are real',
               'moodycamel::ConcurrentQueue replaced by its contract model (shim/moodycamel)',
               'std::thread start/join modelled: the n-th started std::thread is model thread n running the real worker loop',
               'futex timeouts never fire (the property excludes the sleep backstop)',
               'detail::alignedMalloc/alignedFree replaced by their contract (checked under C44)']
OUTSIDE = ('pools with more than 2 threads; more rounds / longer spins than stated; weak-memory reorderings (SC atomics: in particular the '
           'store-buffering shape stop()/sleepMask-load vs enterSleep/running()-load is not explored); regressions inside the transcribed '
           'ThreadPool glue of the kernel instances (worker loop, submission paths): only PoolWakeState / EpochWaiter are the real lifted code there')
KIT = {'engine': 'cbmc-seq', 'shims': ['moodycamel'], 'models': ['aligned_alloc'],
       'repo_sources': ['dispenso/thread_pool.cpp', 'dispenso/thread_pool_wake.cpp', 'dispenso/detail/per_thread_info.cpp'],
       'rt_defs': {'VF_HAVE_THREAD_MODEL': 1},
       'allow_externals': ['_ZN8dispenso6detail27registerFineSchedulerQuantaEv'],
       'cflags': ['-DDISPENSO_TUNE_STEAL_RING_SHARING=1', '-DDISPENSO_TUNE_FIXED_SPIN_ITERS=2',
                  '-DDISPENSO_TUNE_SPIN_CHECK_INTERVAL=1', '-DDISPENSO_TUNE_QUEUE_CHECK_INTERVAL=1'],
       'no_inline': ['_ZL5buildv'], 'unwind_fn': {'_ZL5buildv': 17},
       'unwindset': {'_ZN8dispenso21ConcurrentObjectArenaINS_14MpmcRingBufferINS_12OnceFunctionELm16ELb1EEEmLm64EE7grow_byEm.4': 17, '_ZN8dispenso21ConcurrentObjectArenaINS_14MpmcRingBufferINS_12OnceFunctionELm4ELb1EEEmLm64EE7grow_byEm.4': 5},
       'spin_loops': True, 'unwind': 3, 'timeout': 900}
INSTANCES = [
    # full real worker loop: CBMC's symbolic execution does not finish (> 25 min); kept for reference, not part of any default tier
    dict(KIT, name='destroy_wake_n1', src='shutdown.cpp', defs={'VF_N': 1, 'VF_WAKE': 1, 'VF_TASKS': 0}, nthreads=2, steps=4,
         tiers=['experimental'],
         bounds='pool of 1 worker (signalling wake), destructor at an arbitrary point of the worker loop; 4 rounds'),
]

# ---- protocol kernels (the documented fallback of DESIGN.md C09): real PoolWakeState/EpochWaiter, transcribed glue
WAKE_FNS = ['_ZN8dispenso6detail13PoolWakeState15claimAndWakeOneEv', '_ZN8dispenso6detail13PoolWakeState15cascadeWakeSeedEi',
            '_ZN8dispenso6detail13PoolWakeState9wakeRangeEi', '_ZN8dispenso6detail13PoolWakeState7wakeAllEv',
            '_ZN8dispenso6detail13PoolWakeState11cascadeWakeEi']
KERNEL = {'engine': 'cbmc-seq', 'src': 'kernel_shutdown.cpp', 'models': ['aligned_alloc'],
          'repo_sources': ['dispenso/thread_pool_wake.cpp'],
          # out of line = executed as one step: harness build and the producer-side REAL wake functions;
          # the worker-side REAL functions (enterSleep, exitSleep, waitFor, current) are inlined (every atomic is a switch point)
          'no_inline': ['_ZL7k_buildv', '_ZL10k_teardownv', '_ZL13k_cascadeWakei', '_ZL12k_enterSleepi', '_ZL11k_exitSleepi'] + WAKE_FNS,
          'unwind_fn': dict({'_ZL7k_buildv': 6}, **{f: 5 for f in WAKE_FNS}),
          'spin_loops': True, 'unwind': 3, 'timeout': 420, 'rt_defs': {'VF_SPURIOUS': 1}}
LIVE = {0: (0, 0, 0), 1: (1, 0, 0), 2: (1, 0, 1), 3: (0, 1, 0), 4: (1, 0, 0)}


def kernel(name, hist, n, g, steps, start, bounds, tiers=('quick', 'thorough'), **kw):
    lc, lr, ls = LIVE[hist]
    defs = {'VF_HIST': hist, 'VF_N': n, 'VF_G': g, 'VF_START': start,
            'VF_LIVE_CENTRAL': lc, 'VF_LIVE_RING': lr, 'VF_LIVE_STEAL': ls}
    defs.update(kw.pop('defs', {}))
    d = dict(KERNEL, name=name, defs=defs, nthreads=n + 1, steps=steps, tiers=list(tiers),
             bounds='protocol kernel: %d workers, wake group size %d, %s; <= 1 spurious futex return per worker; %d scheduler rounds'
                    % (n, g, bounds, steps))
    d.update(kw)
    return d


INSTANCES += [
    kernel('kernel_stop_n1', 0, 1, 1, 2, 1, 'worker after enterSleep (parked or about to call the futex); stop + wakeAll at any point; '
           'enterSleep/exitSleep one step each', defs={'VF_COARSE_SLEEP': 1}, preempts=2, timeout=1500),
    kernel('kernel_stop_spin_n1', 0, 1, 1, 2, 0, 'worker at the top of its loop (spinning); stop + wakeAll at any point; '
           'enterSleep/exitSleep one step each', defs={'VF_COARSE_SLEEP': 1}, preempts=2, timeout=1500),
    kernel('kernel_stop_n2', 0, 2, 2, 3, 2, 'each worker at the top of its loop or after enterSleep (symbolic); stop + wakeAll at any point',
           tiers=('thorough',)),
    kernel('kernel_stop_after_schedule_n2', 1, 2, 2, 3, 1,
           'both workers parked; one schedule() (claimAndWakeOne) by the producer, then stop + wakeAll; enterSleep/exitSleep one step each',
           defs={'VF_COARSE_SLEEP': 1}, preempts=3, timeout=1700, rt_defs={'VF_SPURIOUS': 0}, tiers=('thorough',)),
]
