TECHNIQUE = 'bounded symbolic execution of LLVM IR lowered to C: CBMC/SAT over a sequentialised step machine (symbolic round-robin scheduler, exact futex blocking, deadlock detection)'
ASSUMPTIONS = ['moodycamel::ConcurrentQueue replaced by its contract model (shim/moodycamel)',
               'std::thread start/join modelled: the n-th started std::thread is model thread n running the real worker loop',
               'futex timeouts never fire (the property excludes the sleep backstop)',
               'detail::alignedMalloc/alignedFree replaced by their contract (checked under C44)']
OUTSIDE = 'pools with more than 2 threads; more rounds / longer spins than stated; weak-memory reorderings (SC atomics)'
KIT = {'engine': 'cbmc-seq', 'shims': ['moodycamel'], 'models': ['aligned_alloc'],
       'repo_sources': ['dispenso/thread_pool.cpp', 'dispenso/thread_pool_wake.cpp', 'dispenso/detail/per_thread_info.cpp'],
       'rt_defs': {'VF_HAVE_THREAD_MODEL': 1},
       'allow_externals': ['_ZN8dispenso6detail27registerFineSchedulerQuantaEv'],
       'cflags': ['-DDISPENSO_TUNE_STEAL_RING_SHARING=1', '-DDISPENSO_TUNE_FIXED_SPIN_ITERS=2',
                  '-DDISPENSO_TUNE_SPIN_CHECK_INTERVAL=1', '-DDISPENSO_TUNE_QUEUE_CHECK_INTERVAL=1'],
       'no_inline': ['_ZL5buildv'], 'unwind_fn': {'_ZL5buildv': 17},
       'unwindset': {'_ZN8dispenso21ConcurrentObjectArenaINS_14MpmcRingBufferINS_12OnceFunctionELm16ELb1EEEmLm64EE7grow_byEm.4': 17, '_ZN8dispenso21ConcurrentObjectArenaINS_14MpmcRingBufferINS_12OnceFunctionELm4ELb1EEEmLm64EE7grow_byEm.4': 5},
       'spin_loops': True, 'unwind': 3, 'timeout': 900}
INSTANCES = [
    dict(KIT, name='destroy_wake_n1', src='shutdown.cpp', defs={'VF_N': 1, 'VF_WAKE': 1, 'VF_TASKS': 0}, nthreads=2, steps=4,
         bounds='pool of 1 worker (signalling wake), destructor at an arbitrary point of the worker loop; 4 rounds'),
]
