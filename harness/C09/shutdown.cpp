// C09: ThreadPool destruction completes for any state of the worker threads, without relying on the
// idle-sleep backstop (futex timeouts never fire in this model).
// Real code: ThreadPool::{ThreadPool, ~ThreadPool, threadLoopImpl<true|false>, tryFindAndExecuteWork,
//   waitOnThread, tryExecuteNext, ...}, detail::PoolWakeState::{enterSleep, exitSleep, wakeAll, ...},
//   detail::EpochWaiter::{waitFor, bump...}.  Workers are model threads running the real loop.
#include <new>
#include <dispenso/thread_pool.h>
#include "vf.h"
#include "thread_model.h"

using dispenso::ThreadPool;
static ThreadPool* P;
static int g_ran;

static void worker0(void*) {
  vf_wait_started(1);
#if VF_WAKE
  P->threadLoopWake(P->threads_[0], 0);
#else
  P->threadLoopPoll(P->threads_[0], 0);
#endif
}
#if VF_N >= 2
static void worker1(void*) {
  vf_wait_started(2);
#if VF_WAKE
  P->threadLoopWake(P->threads_[1], 1);
#else
  P->threadLoopPoll(P->threads_[1], 1);
#endif
}
#endif

// Construction runs out of line = without preemption (the workers can only start once it returned;
// interleavings of the constructor's tail with the first steps of a worker are outside the bound).
VF_NOINLINE static void build() {
  P = new ThreadPool(VF_N);  // class operator new -> alignedMalloc (typed object in the model)
#if !VF_WAKE
  P->setSignalingWake(false, 100);
#endif
}

extern "C" void vf_main() {
  vf_spawn(worker0, nullptr);
#if VF_N >= 2
  vf_spawn(worker1, nullptr);
#endif
  build();
#if VF_TASKS
  for (int i = 0; i < VF_TASKS; ++i) {
    P->schedule([]() { g_ran++; }, dispenso::ForceQueuingTag());
  }
#endif
  delete P;
  vf_check(g_ran == VF_TASKS, "every task handed to the pool ran exactly once by the end of the destructor");
}
