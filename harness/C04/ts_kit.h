// Shared helpers for the task-set harnesses (C04 / C02 / C05): real TaskSet/ConcurrentTaskSet
// (task_set.h, detail/task_set_impl.h, task_set.cpp) on the contract ThreadPool of
// shim/dispenso/thread_pool.h, sequential engine with *virtual workers*: the harness plays pool
// worker by calling the pool's consumer functions between API calls (task-granularity interleaving).
#pragma once
#include <dispenso/task_set.h>
#include "vf.h"

#ifndef VF_POOL_N
#define VF_POOL_N 1
#endif

// Small-buffer allocator contract (replaces small_buffer_allocator.cpp; the real allocator is
// property C41): a fresh block of at least 4 << ordinal bytes / give it back.  Only reached by
// functors too large for OnceFunction's inline buffer (the cascade-wake wrapper of the ring fast path).
namespace dispenso {
namespace detail {
char* allocSmallBufferImpl(size_t ordinal) {
  return static_cast<char*>(::malloc(size_t{4} << ordinal));
}
void deallocSmallBufferImpl(size_t, void* buf) {
  ::free(buf);
}
}  // namespace detail
}  // namespace dispenso

namespace tskit {

using dispenso::ThreadPool;

// One consumer step of a virtual pool worker / foreign waiter, through the pool's consumer interface
// (the same functions TaskSet::wait / ConcurrentTaskSet::wait use): how 0 central queue, 1 rings.
VF_NOINLINE static bool workerStep(ThreadPool& pool, uint32_t how) {
  if (how == 0) {
    return pool.tryExecuteNext();
  }
  size_t start = 0;
  return pool.tryExecuteNextFromRings(start);
}

// Up to `maxSteps` symbolic worker steps.
VF_NOINLINE static void workerRun(ThreadPool& pool, uint32_t maxSteps) {
  for (uint32_t s = 0; s < maxSteps; ++s) {
    if (!vf_nondet_bool()) {
      break;
    }
    workerStep(pool, vf_range_u32(0, 1));
  }
}

// Caller identity / load pre-state.  Makes the calling context symbolic: an external thread or (as
// if) a pool thread of `pool` (isPoolRecursive), any inline depth (canInlineSchedule true/false),
// any amount of other work pending in the pool (workRemaining_).
struct CallerCtx {
  moodycamel::ProducerToken ptoken;
  ssize_t extraWork;
  explicit CallerCtx(ThreadPool& pool) : ptoken(pool.work_), extraWork(0) {}

  void makeSymbolic(ThreadPool& pool) {
    if (vf_nondet_bool()) {
      // the caller is pool worker `ring` (what threadLoopImpl registers)
      int32_t ring = VF_POOL_N > 1 ? (int32_t)vf_range_u32(0, VF_POOL_N - 1) : 0;
      dispenso::detail::PerPoolPerThreadInfo::registerPool(&pool, &ptoken, VF_POOL_N > 0 ? ring : -1);
    }
    uint32_t depth = vf_range_u32(0, dispenso::detail::kMaxInlineDepth + 1);
    dispenso::detail::PerPoolPerThreadInfo::inlineDepth() = (int)depth;
    uint32_t w = vf_range_u32(0, 4096);
    extraWork = (ssize_t)w;
    pool.workRemaining_.fetch_add(extraWork, std::memory_order_relaxed);
  }
  // the other work drains / the caller leaves the nested inline frames
  void restore(ThreadPool& pool) {
    pool.workRemaining_.fetch_sub(extraWork, std::memory_order_relaxed);
    extraWork = 0;
    dispenso::detail::PerPoolPerThreadInfo::inlineDepth() = 0;
    dispenso::detail::PerPoolPerThreadInfo::registerPool(nullptr, nullptr, -1);
  }
};

}  // namespace tskit
