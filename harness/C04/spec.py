TECHNIQUE = 'bounded symbolic execution of LLVM IR lowered to C: CBMC/SAT (cadical), sequential engine, real ThreadPool + task sets with virtual workers (task-granularity interleaving)'
ASSUMPTIONS = ['moodycamel::ConcurrentQueue replaced by its contract model (shim/moodycamel)']
OUTSIDE = ''

_POOL = {
    'engine': 'cbmc', 'shims': ['moodycamel'],
    'repo_sources': ['dispenso/thread_pool.cpp', 'dispenso/thread_pool_wake.cpp',
                     'dispenso/detail/per_thread_info.cpp', 'dispenso/task_set.cpp'],
    'rt_defs': {'VF_HAVE_THREAD_MODEL': 1}, 'models': ['aligned_alloc'],
    'allow_externals': ['_ZN8dispenso6detail27registerFineSchedulerQuantaEv'],
    'cflags': ['-DDISPENSO_TUNE_STEAL_RING_SHARING=1', '-DDISPENSO_DISABLE_CASCADE_WAKERANGE'],
    'unwind': 3, 'spin_loops': True, 'timeout': 400,
    'unwindset': {
        '_ZN8dispenso21ConcurrentObjectArenaINS_14MpmcRingBufferINS_12OnceFunctionELm16ELb1EEEmLm64EE7grow_byEm.4': 17,
        '_ZN8dispenso21ConcurrentObjectArenaINS_14MpmcRingBufferINS_12OnceFunctionELm4ELb1EEEmLm64EE7grow_byEm.4': 5,
    },
}


def inst(name, src, defs, bounds, tiers=('quick', 'thorough'), **kw):
    d = dict(_POOL)
    d.update({'name': name, 'src': src, 'defs': defs, 'bounds': bounds, 'tiers': list(tiers)})
    d.update(kw)
    return d


INSTANCES = [
    inst('v0', 'probe_min2.cpp', {'VF_POOL_N': 1, 'VF_MQ_CAP': 4, 'VF_VAR': 0}, 'probe', timeout=3),
    inst('v1', 'probe_min2.cpp', {'VF_POOL_N': 1, 'VF_MQ_CAP': 4, 'VF_VAR': 1}, 'probe', timeout=3),
    inst('v2', 'probe_min2.cpp', {'VF_POOL_N': 1, 'VF_MQ_CAP': 4, 'VF_VAR': 2}, 'probe', timeout=3),
]
