TECHNIQUE = 'bounded symbolic execution of LLVM IR lowered to C: CBMC/SAT (cadical), sequential engine, real ThreadPool + task sets with virtual workers (task-granularity interleaving)'
ASSUMPTIONS = [
    'dispenso::ThreadPool replaced by its contract model harness/C04/shim/dispenso/thread_pool.h (inline-or-queue decisions '
    'of the pool arbitrary; ForceQueuingTag queues unless the pool has 0 threads; tryExecuteNext* run one queued task; '
    'FIFO per source; <= VF_PQ_CAP queued tasks per run); the real task_set.h / detail/task_set_impl.h / task_set.cpp are '
    'compiled unchanged against it',
    'moodycamel::ProducerToken from the contract shim (identifies the producer only)',
    'wait()/tryWait()/schedule callers are serial (documented contract); cancel() precedes the call under test',
]
OUTSIDE = ('task-granularity interleaving only: cancel() racing *inside* a scheduling call or inside a task wrapper (between its '
           'canceled_ load and the body) is outside; real ThreadPool internals (rings, steal rings, wake protocol) are abstracted by '
           'the contract pool; cancellation caused by a captured exception (trySetCurrentException) is exercised under C05; '
           'cascade depth 1; bulk counts <= 3; futures/continuations bound to the set are outside')

import os
_HERE = os.path.dirname(os.path.abspath(__file__))

_POOL = {
    'engine': 'cbmc', 'shims': ['moodycamel', '../harness/C04/shim'],
    'repo_sources': ['dispenso/detail/per_thread_info.cpp', 'dispenso/task_set.cpp'],
    'unwind': 4, 'spin_loops': True, 'timeout': 1500,
}


def inst(name, src, defs, bounds, tiers=('quick', 'thorough'), **kw):
    d = dict(_POOL)
    d.update({'name': name, 'src': src, 'defs': defs, 'bounds': bounds, 'tiers': list(tiers)})
    d.update(kw)
    return d


_U2 = {'unwind': 2, 'unwindset': {'_ZN8dispenso10ThreadPool11popMatchingEjjb.0': 3, '_ZN8dispenso10ThreadPoolC2Emm.0': 3}}
_U4 = {'unwind': 4, 'unwindset': {'_ZN8dispenso10ThreadPool11popMatchingEjjb.0': 5, '_ZN8dispenso10ThreadPoolC2Emm.0': 5}}
_OPN = {0: 'schedule(f)', 1: 'schedule(f, ForceQueuingTag)', 2: 'scheduleBulk(n<=3, gen)', 3: 'scheduleBulk(n<=3, gen, ForceQueuingTag)'}
_HOWN = {0: 'cancel()', 1: 'cascading parent cancelled before the child was constructed', 2: 'cancel() of the cascading parent'}
_FINN = {0: 'wait() + destructor', 1: 'tryWait(k<=4) + destructor', 2: '<=2 virtual-worker steps, wait(), destructor'}


def canc(setk, op, pool, cost=1, how=0, fin=0, tiers=('thorough',)):
    name = '%s%s_op%d_p%d_h%d_f%d' % ('ts' if setk == 0 else 'cts', '' if setk == 0 else ('H' if cost else 'L'), op, pool, how, fin)
    bulk = op >= 2
    defs = {'VF_SET': setk, 'VF_OP': op, 'VF_POOL_N': pool, 'VF_COST': cost, 'VF_HOW': how, 'VF_FIN': fin,
            'VF_MQ_CAP': 1, 'VF_PQ_CAP': 4 if bulk else 2}
    b = ('%s%s on the contract pool with %d threads; set cancelled by %s; one call %s from a symbolic load pre-state '
         '(load multiplier 1..4, 0..64 in-flight tasks of the set, 0..4096 other pool tasks pending, caller is/is not '
         'a pool thread, inline depth 0..33%s); then %s; task-granularity interleaving (sequential engine, virtual workers)'
         % ('TaskSet' if setk == 0 else 'ConcurrentTaskSet', '' if setk == 0 else (' kHeavy (placed route)' if cost else ' kLightweight'),
            pool, _HOWN[how], _OPN[op],
            '; skipRecheck and poolRecursiveLoadFactor in {1.0,1.5,3.0} symbolic' if (setk == 1 and op == 0) else '',
            _FINN[fin]))
    kw = dict(_U4 if bulk else _U2)
    return inst(name, 'cancelled.cpp', defs, b, tiers=tiers, must_reach='all', **kw)


def ordr(setk, pool, cost=1, how=0, tiers=('thorough',)):
    name = 'ord_%s%s_p%d_h%d' % ('ts' if setk == 0 else 'cts', '' if setk == 0 else ('H' if cost else 'L'), pool, how)
    defs = {'VF_SET': setk, 'VF_POOL_N': pool, 'VF_COST': cost, 'VF_HOW': how, 'VF_MQ_CAP': 1, 'VF_PQ_CAP': 2}
    b = ('%s on the contract pool with %d threads: 1-2 force-queued tasks (single, two singles, bulk of 2), <=1 '
         'virtual-worker step, then %s, <=2 worker steps, wait(), destructor; task-granularity interleaving'
         % ('TaskSet' if setk == 0 else 'ConcurrentTaskSet', pool, _HOWN[how]))
    return inst(name, 'ordered.cpp', defs, b, tiers=tiers, must_reach='all', unwind=3,
                unwindset={'_ZN8dispenso10ThreadPool11popMatchingEjjb.0': 3, '_ZN8dispenso10ThreadPoolC2Emm.0': 3})


_Q = ('quick', 'thorough')
INSTANCES = [
    # quick tier: both set kinds, the inline-fallback entry points, bulk, cascade, ordering
    canc(1, 0, 1, cost=1, tiers=_Q), canc(1, 2, 2, cost=1, tiers=_Q), canc(0, 0, 1, tiers=_Q),
    # measured too slow for the quick tier on the shared machine (SAT phase > 400 s under load): thorough only
    canc(1, 0, 1, cost=0), canc(0, 2, 2, how=2), ordr(1, 1),
    # thorough tier: remaining entry points / pool sizes / cancel causes / completion calls
    canc(1, 0, 0, cost=1), canc(1, 0, 2, cost=0), canc(1, 0, 1, cost=1, how=1), canc(1, 0, 1, cost=0, how=2, fin=2),
    canc(1, 1, 1, cost=1), canc(1, 1, 0, cost=0), canc(1, 1, 2, cost=1, fin=1),
    canc(1, 2, 1, cost=0), canc(1, 2, 0, cost=1), canc(1, 3, 1, cost=1), canc(1, 3, 2, cost=0, how=2),
    canc(0, 0, 0), canc(0, 0, 2, how=1, fin=2), canc(0, 1, 1), canc(0, 1, 0, fin=1), canc(0, 2, 1), canc(0, 2, 0),
    canc(0, 3, 1), canc(0, 3, 2, how=1),
    ordr(0, 1), ordr(0, 2, how=2), ordr(1, 2, cost=0, how=2),
]
