#include "ts_kit.h"
static int g_ran;
extern "C" void vf_main() {
  dispenso::ThreadPool pool(VF_POOL_N);
  g_ran = 0;
#if VF_VAR >= 1
  dispenso::ConcurrentTaskSet ts(pool, dispenso::TaskCost::kLightweight);
#endif
#if VF_VAR <= 1
  pool.schedule([]() { g_ran++; }, dispenso::ForceQueuingTag());
#elif VF_VAR == 2
  ts.schedule([]() { g_ran++; }, dispenso::ForceQueuingTag());
#endif
  vf_check(g_ran == 0, "ran in schedule");
  vf_reach("end");
}
