// C04 "one call from a cancelled pre-state": one scheduling entry point (VF_OP) of TaskSet
// (VF_SET=0) / ConcurrentTaskSet (VF_SET=1, TaskCost VF_COST: 0 kLightweight, 1 kHeavy = the
// private schedulePlaced / scheduleBulkImplPlaced route) on the contract ThreadPool (shim/dispenso/thread_pool.h) of VF_POOL_N threads
// (virtual workers), with the set already cancelled (VF_HOW: 0 cancel(); 1 a ParentCascadeCancel::kOn
// parent that was cancelled before the child was constructed; 2 ... after) and an arbitrary load
// pre-state (caller is / is not a pool thread, inline depth, pool work pending, in-flight tasks of
// the set, load multiplier): the task body never runs - not during the call (queue path and every
// inline fallback), not when wait() / tryWait() / the virtual worker / the destructor processes
// what was queued - and wait() reports the cancellation (returns true; tryWait returns false),
// outstanding count back to 0.
// VF_OP: 0 schedule(f) (ConcurrentTaskSet: symbolic skipRecheck + poolRecursiveLoadFactor),
//        1 schedule(f, ForceQueuingTag), 2 scheduleBulk(n, gen) n in 1..VF_BULK_MAX,
//        3 scheduleBulk(n, gen, ForceQueuingTag).
// VF_FIN: 0 wait() then destructor; 1 tryWait(k) then destructor; 2 virtual-worker steps then wait().
#include "ts_kit.h"

#if VF_SET == 0
using Set = dispenso::TaskSet;
#else
using Set = dispenso::ConcurrentTaskSet;
#endif
using dispenso::ParentCascadeCancel;

#ifndef VF_HOW
#define VF_HOW 0
#endif
#ifndef VF_OP
#define VF_OP 0
#endif
#ifndef VF_FIN
#define VF_FIN 0
#endif
#ifndef VF_COST
#define VF_COST 1
#endif
#ifndef VF_BULK_MAX
#define VF_BULK_MAX 3
#endif

static int g_ran;
static int g_ranBeforeDtor;

struct Gen {
  auto operator()(size_t) const {
    return []() { g_ran++; };
  }
};

VF_NOINLINE static void callUnderTest(Set& ts) {
#if VF_OP == 0
#if VF_SET == 0
  ts.schedule([]() { g_ran++; });
#else
  bool skipRecheck = vf_nondet_bool();
  uint32_t fsel = vf_range_u32(0, 2);
  float factor = fsel == 0 ? 1.0f : (fsel == 1 ? dispenso::kDefaultPoolRecursiveLoadFactor : 3.0f);
  ts.schedule([]() { g_ran++; }, skipRecheck, factor);
#endif
#elif VF_OP == 1
  ts.schedule([]() { g_ran++; }, dispenso::ForceQueuingTag());
#else
  // bulk counts are case-split so that each call has a concrete count (lets the symbolic executor
  // prune the ring paths that the count excludes)
#if VF_OP == 2
#define BULK(n) ts.scheduleBulk(n, Gen())
#else
#define BULK(n) ts.scheduleBulk(n, Gen(), dispenso::ForceQueuingTag())
#endif
  uint32_t n = vf_range_u32(1, VF_BULK_MAX);
  if (n == 1) {
    BULK(1);
  } else if (n == 2) {
    BULK(2);
  } else {
    BULK(3);
  }
#endif
}

#if VF_SET == 0
#define SET_ARGS(cascade) pool, cascade, mult
#else
#define SET_ARGS(cascade) \
  pool, cascade, mult, (VF_COST ? dispenso::TaskCost::kHeavy : dispenso::TaskCost::kLightweight)
#endif

VF_NOINLINE static void scenario(dispenso::ThreadPool& pool, Set& ts, tskit::CallerCtx& ctx) {
  vf_check(ts.canceled(), "canceled() is true after cancel() / cancel() of the cascading parent");

  // arbitrary load pre-state
  ssize_t inflight = (ssize_t)vf_range_u32(0, 64);  // tasks of this set running elsewhere
  ts.outstandingTaskCount_.fetch_add(inflight, std::memory_order_relaxed);
  ctx.makeSymbolic(pool);

  callUnderTest(ts);
  vf_check(g_ran == 0, "task body ran inside the scheduling call on a cancelled set");

  const int ranInCall = g_ran;  // later checks are relative: each violation is attributed once

  ctx.restore(pool);
  ts.outstandingTaskCount_.fetch_sub(inflight, std::memory_order_relaxed);

#if VF_FIN == 2
  tskit::workerRun(pool, 2);
  vf_check(g_ran == ranInCall, "virtual worker ran the body of a task scheduled to a cancelled set");
#endif
#if VF_FIN == 1
  bool done = ts.tryWait((size_t)vf_range_u32(0, 4));
  vf_check(!done, "tryWait() on a cancelled set returns false");
#else
  bool c = ts.wait();
  vf_check(c, "wait() on a cancelled set returns true");
  vf_check(ts.outstandingTaskCount_.load() == 0, "outstanding count is 0 after wait()");
#endif
  vf_check(g_ran == ranInCall, "wait()/tryWait() ran the body of a task scheduled to a cancelled set");
  g_ranBeforeDtor = g_ran;
}

extern "C" void vf_main() {
  dispenso::ThreadPool pool(VF_POOL_N);
  tskit::CallerCtx ctx(pool);
  g_ran = 0;
  ssize_t mult = (ssize_t)vf_range_u32(1, 4);
#if VF_HOW == 0
  {
    Set ts(SET_ARGS(ParentCascadeCancel::kOff));
    ts.cancel();
    scenario(pool, ts, ctx);
  }
#else
  {
    Set parent(SET_ARGS(ParentCascadeCancel::kOff));
    // the child is constructed "inside a task of parent" (what packageTask's wrapper establishes)
    dispenso::detail::pushThreadTaskSet(&parent);
#if VF_HOW == 1
    parent.cancel();
#endif
    {
      Set ts(SET_ARGS(ParentCascadeCancel::kOn));
      dispenso::detail::popThreadTaskSet();
#if VF_HOW == 2
      parent.cancel();
#endif
      scenario(pool, ts, ctx);
    }
  }
#endif
  vf_check(g_ran == g_ranBeforeDtor, "the destructor ran the body of a task scheduled to a cancelled set");
  vf_reach("end of cancelled scenario");
}
