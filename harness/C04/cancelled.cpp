// C04 "one call from a cancelled pre-state": for every scheduling entry point of TaskSet (VF_SET=0)
// / ConcurrentTaskSet (VF_SET=1, both TaskCost routes) on a real ThreadPool of VF_POOL_N threads
// (virtual workers), with the set already cancelled (cancel(), or a ParentCascadeCancel::kOn parent
// that was cancelled before / after the child was constructed) and an arbitrary load pre-state
// (caller is/is not a pool thread, inline depth, pool work pending, in-flight tasks of the set):
// the task body never runs - not during the call (queue path and every inline fallback), not when
// the virtual worker / wait() / tryWait() / the destructor processes what was queued - and wait()
// reports the cancellation (returns true; tryWait returns false), outstanding count back to 0.
#include "ts_kit.h"

#if VF_SET == 0
using Set = dispenso::TaskSet;
#else
using Set = dispenso::ConcurrentTaskSet;
#endif
using dispenso::ParentCascadeCancel;

static int g_ran;

struct Gen {
  auto operator()(size_t) const {
    return []() { g_ran++; };
  }
};

#ifndef VF_HOW
#define VF_HOW 0
#endif
#ifndef VF_OPS_LO
#define VF_OPS_LO 0
#endif
#ifndef VF_OPS_HI
#define VF_OPS_HI 3
#endif

VF_NOINLINE static void callUnderTest(Set& ts, uint32_t op) {
  switch (op) {
    case 0:
#if VF_SET == 0
      ts.schedule([]() { g_ran++; });
#else
    {
      bool skipRecheck = vf_nondet_bool();
      uint32_t fsel = vf_range_u32(0, 2);
      float factor = fsel == 0 ? 1.0f : (fsel == 1 ? dispenso::kDefaultPoolRecursiveLoadFactor : 3.0f);
      ts.schedule([]() { g_ran++; }, skipRecheck, factor);
    }
#endif
      break;
    case 1:
      ts.schedule([]() { g_ran++; }, dispenso::ForceQueuingTag());
      break;
    case 2:
      ts.scheduleBulk((size_t)vf_range_u32(1, 3), Gen());
      break;
    default:
      ts.scheduleBulk((size_t)vf_range_u32(1, 3), Gen(), dispenso::ForceQueuingTag());
      break;
  }
}

extern "C" void vf_main() {
  dispenso::ThreadPool pool(VF_POOL_N);
  tskit::CallerCtx ctx(pool);
  g_ran = 0;

  ssize_t mult = (ssize_t)vf_range_u32(1, 4);
  // how the set got cancelled (compile-time: keeps the parent/child list structure concrete):
  // 0 cancel(); 1 cascading parent cancelled before the child was constructed; 2 after
  const uint32_t how = VF_HOW;
#if VF_SET == 0
  Set parent(pool, ParentCascadeCancel::kOff, mult);
#else
  dispenso::TaskCost cost = vf_nondet_bool() ? dispenso::TaskCost::kHeavy : dispenso::TaskCost::kLightweight;
  Set parent(pool, ParentCascadeCancel::kOff, mult, cost);
#endif
  if (how != 0) {
    // the child is constructed "inside a task of parent" (what packageTask's wrapper establishes)
    dispenso::detail::pushThreadTaskSet(&parent);
  }
  if (how == 1) {
    parent.cancel();
  }
  {
#if VF_SET == 0
    Set ts(pool, how != 0 ? ParentCascadeCancel::kOn : ParentCascadeCancel::kOff, mult);
#else
    Set ts(pool, how != 0 ? ParentCascadeCancel::kOn : ParentCascadeCancel::kOff, mult, cost);
#endif
    if (how != 0) {
      dispenso::detail::popThreadTaskSet();
    }
    if (how == 0) {
      ts.cancel();
    }
    if (how == 2) {
      parent.cancel();
    }
    vf_check(ts.canceled(), "canceled() is true after cancel() / cancel() of the cascading parent");

    // arbitrary load pre-state
    ssize_t inflight = (ssize_t)vf_range_u32(0, 64);  // tasks of this set running elsewhere
    ts.outstandingTaskCount_.fetch_add(inflight, std::memory_order_relaxed);
    ctx.makeSymbolic(pool);

    uint32_t op = vf_range_u32(VF_OPS_LO, VF_OPS_HI);
    callUnderTest(ts, op);
    vf_check(g_ran == 0, "task body ran inside the scheduling call on a cancelled set");

    ctx.restore(pool);
    ts.outstandingTaskCount_.fetch_sub(inflight, std::memory_order_relaxed);

    tskit::workerRun(pool, 2);
    vf_check(g_ran == 0, "virtual worker ran the body of a task scheduled to a cancelled set");

    uint32_t fin = vf_range_u32(0, 2);
    if (fin == 0) {
      bool c = ts.wait();
      vf_check(c, "wait() on a cancelled set returns true");
      vf_check(ts.outstandingTaskCount_.load() == 0, "outstanding count is 0 after wait()");
    } else if (fin == 1) {
      bool done = ts.tryWait((size_t)vf_range_u32(0, 4));
      vf_check(!done, "tryWait() on a cancelled set returns false");
    }
    vf_check(g_ran == 0, "wait()/tryWait() ran the body of a task scheduled to a cancelled set");
  }
  vf_check(g_ran == 0, "the destructor ran the body of a task scheduled to a cancelled set");
}
