// C04 ordering variant: tasks are queued first (force-queued single / bulk, pool with >= 1 thread),
// the virtual worker may start some of them, THEN the set is cancelled (cancel(), or cancel() of the
// cascading parent: VF_HOW 0/2), then the virtual worker / wait() / the destructor process the rest:
// no body that had not started before cancel() runs afterwards; wait() returns true.
// Real TaskSet (VF_SET=0) / ConcurrentTaskSet (VF_SET=1, VF_COST) on the contract pool.
#include "ts_kit.h"

#if VF_SET == 0
using Set = dispenso::TaskSet;
#define SET_ARGS(cascade) pool, cascade, mult
#else
using Set = dispenso::ConcurrentTaskSet;
#define SET_ARGS(cascade) \
  pool, cascade, mult, (VF_COST ? dispenso::TaskCost::kHeavy : dispenso::TaskCost::kLightweight)
#endif
#ifndef VF_HOW
#define VF_HOW 0
#endif
#ifndef VF_COST
#define VF_COST 1
#endif
using dispenso::ParentCascadeCancel;

static int g_ran;
static int g_ranAtCancel;

struct Gen {
  auto operator()(size_t) const {
    return []() { g_ran++; };
  }
};

VF_NOINLINE static void scenario(dispenso::ThreadPool& pool, Set& ts, Set* parent) {
  uint32_t shape = vf_range_u32(0, 2);
  if (shape == 0) {
    ts.schedule([]() { g_ran++; }, dispenso::ForceQueuingTag());
  } else if (shape == 1) {
    ts.schedule([]() { g_ran++; }, dispenso::ForceQueuingTag());
    ts.schedule([]() { g_ran++; }, dispenso::ForceQueuingTag());
  } else {
    ts.scheduleBulk(2, Gen(), dispenso::ForceQueuingTag());
  }
  tskit::workerRun(pool, 1);  // some task may already have run before the cancel
  g_ranAtCancel = g_ran;
  if (parent) {
    parent->cancel();
  } else {
    ts.cancel();
  }
  tskit::workerRun(pool, 2);
  vf_check(g_ran == g_ranAtCancel, "virtual worker started a queued task body after cancel()");
  bool c = ts.wait();
  vf_check(c, "wait() after cancel() returns true");
  vf_check(ts.outstandingTaskCount_.load() == 0, "outstanding count is 0 after wait()");
  vf_check(g_ran == g_ranAtCancel, "wait() started a queued task body after cancel()");
}

extern "C" void vf_main() {
  dispenso::ThreadPool pool(VF_POOL_N);
  g_ran = 0;
  ssize_t mult = (ssize_t)vf_range_u32(1, 4);
#if VF_HOW == 0
  {
    Set ts(SET_ARGS(ParentCascadeCancel::kOff));
    scenario(pool, ts, nullptr);
  }
#else
  {
    Set parent(SET_ARGS(ParentCascadeCancel::kOff));
    dispenso::detail::pushThreadTaskSet(&parent);
    {
      Set ts(SET_ARGS(ParentCascadeCancel::kOn));
      dispenso::detail::popThreadTaskSet();
      scenario(pool, ts, &parent);
    }
  }
#endif
  vf_check(g_ran == g_ranAtCancel, "the destructor started a queued task body after cancel()");
  vf_reach("end of ordered scenario");
}
