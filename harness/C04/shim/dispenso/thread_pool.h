// Contract model of dispenso::ThreadPool for the task-set harnesses (C04/C02/C05): replaces
// <dispenso/thread_pool.h> (the real pool is the subject of C01/C08/C46/C47).  The real
// task_set.h / detail/task_set_impl.h / task_set.cpp are compiled unchanged against it.
//
// Why a contract pool: with the real pool the packaged task closures ([this, f]) travel through
// OnceFunction's type-erased byte buffer (memcpy moves, pointer stored into char storage inside the
// ThreadPool object); CBMC then loses the pool object's field sensitivity and symbolic execution
// does not finish (see NOTES.md, reproducer probe_min2.cpp VF_VAR=2).  Here tasks are kept in typed
// heap holders.
//
// Contract encoded (an over-approximation of the real pool's scheduling decisions):
//  * schedule(f) / schedulePlaced(f) / schedule(token, f): the pool EITHER runs f inline on the
//    caller OR queues it - arbitrary choice (the real decision shouldRunInline() depends on load);
//  * the ForceQueuingTag overloads queue f, except that a pool with 0 threads runs it inline
//    (forceEnqueue); workRemaining_ is incremented per queued task and decremented after a task ran;
//  * scheduleBulkEnqueue queues all `count` generated tasks to the central queue;
//    scheduleBulkToRings puts task i into a per-thread ring or (ring full) the central queue -
//    arbitrary; scheduleBulkPlaced per task: inline (pool overloaded / 0 threads) or queued - arbitrary;
//  * tryExecuteNext() runs one task from the central queue if there is one (never fails spuriously),
//    tryExecuteNextFromProducerToken(t) one that was enqueued with token t, tryExecuteNextFromRings
//    one from the rings; queued tasks are taken in FIFO order per source (one admissible refinement);
//  * at most VF_PQ_CAP tasks are ever queued per run (model bound; longer runs are cut).
// Pool threads are virtual: the harness calls the tryExecute* functions at symbolic points.
#pragma once

#include <atomic>
#include <cassert>
#include <cstdlib>
#include <mutex>
#include <thread>

#include <moodycamel/concurrentqueue.h>

#include <dispenso/detail/per_thread_info.h>
#include <dispenso/once_function.h>
#include <dispenso/platform.h>

#include "vf.h"

#ifndef VF_PQ_CAP
#define VF_PQ_CAP 6
#endif

namespace dispenso {

namespace detail {
template <typename Result>
class FutureBase;
template <typename Result>
class FutureImplBase;
class LimitGatedScheduler;
}  // namespace detail

struct ForceQueuingTag {};

namespace vfpool {
struct TaskBase {
  virtual void run() = 0;
  virtual ~TaskBase() {}
};
template <typename F>
struct TaskHolder : TaskBase {
  F f;
  explicit TaskHolder(F&& x) : f(std::move(x)) {}
  void run() override {
    f();
  }
};
enum Loc : uint32_t { kCentral = 0, kRing = 1 };
}  // namespace vfpool

class ThreadPool {
 public:
  ThreadPool(size_t n, size_t poolLoadMultiplier = 32)
      : poolLoadFactor_(static_cast<ssize_t>(n * poolLoadMultiplier)),
        numThreads_(static_cast<ssize_t>(n)),
        numRings_(n),
        n_(0) {
    for (uint32_t i = 0; i < VF_PQ_CAP; ++i) {
      slot_[i] = nullptr;
      loc_[i] = 0;
      prod_[i] = 0;
    }
  }
  ~ThreadPool() {
    // the real destructor drains what is still queued
    while (tryExecuteNext()) {
    }
    size_t start = 0;
    while (tryExecuteNextFromRings(start)) {
    }
  }

  ssize_t numThreads() const {
    return numThreads_.load(std::memory_order_relaxed);
  }

  template <typename F>
  void schedule(F&& f) {
    if (vf_nondet_bool()) {
      f();
    } else {
      schedule(std::forward<F>(f), ForceQueuingTag());
    }
  }
  template <typename F>
  void schedule(F&& f, ForceQueuingTag) {
    forceEnqueue(std::forward<F>(f), 0);
  }
  template <typename F>
  void schedule(moodycamel::ProducerToken& token, F&& f) {
    if (vf_nondet_bool()) {
      f();
    } else {
      schedule(token, std::forward<F>(f), ForceQueuingTag());
    }
  }
  template <typename F>
  void schedule(moodycamel::ProducerToken& token, F&& f, ForceQueuingTag) {
    forceEnqueue(std::forward<F>(f), token.id);
  }
  template <typename F>
  void schedulePlaced(F&& f) {
    if (vf_nondet_bool()) {
      f();
    } else {
      schedulePlaced(std::forward<F>(f), ForceQueuingTag());
    }
  }
  template <typename F>
  void schedulePlaced(F&& f, ForceQueuingTag) {
    forceEnqueue(std::forward<F>(f), 0);
  }

  template <typename Generator>
  void scheduleBulkEnqueue(size_t count, Generator&& gen, moodycamel::ProducerToken* token = nullptr) {
    workRemaining_.fetch_add(static_cast<ssize_t>(count), std::memory_order_release);
    for (size_t j = 0; j < count; ++j) {
      pushHolder(gen(j), vfpool::kCentral, token ? token->id : 0);
    }
  }
  template <typename Generator>
  void scheduleBulkToRings(size_t count, Generator&& gen, moodycamel::ProducerToken* fallbackToken) {
    workRemaining_.fetch_add(static_cast<ssize_t>(count), std::memory_order_release);
    for (size_t j = 0; j < count; ++j) {
      if (vf_nondet_bool()) {
        pushHolder(gen(j), vfpool::kRing, 0);
      } else {
        pushHolder(gen(j), vfpool::kCentral, fallbackToken ? fallbackToken->id : 0);
      }
    }
  }
  template <typename Generator>
  void scheduleBulkPlaced(size_t count, Generator&& gen) {
    for (size_t j = 0; j < count; ++j) {
      if (!numThreads_.load(std::memory_order_relaxed) || vf_nondet_bool()) {
        gen(j)();
      } else {
        workRemaining_.fetch_add(1, std::memory_order_release);
        pushHolder(gen(j), vfpool::kCentral, 0);
      }
    }
  }

  bool tryExecuteNext() {
    return runPopped(popMatching(vfpool::kCentral, 0, false));
  }
  bool tryExecuteNextFromProducerToken(moodycamel::ProducerToken& token) {
    return runPopped(popMatching(vfpool::kCentral, token.id, true));
  }
  bool tryExecuteNextFromRings(size_t& startRing) {
    bool r = runPopped(popMatching(vfpool::kRing, 0, false));
    if (!r) {
      startRing = 0;
    }
    return r;
  }

  // ---- model internals
  template <typename F>
  void forceEnqueue(F&& f, uint32_t producer) {
    if (!numThreads_.load(std::memory_order_relaxed)) {
      f();
      return;
    }
    workRemaining_.fetch_add(1, std::memory_order_release);
    pushHolder(std::forward<F>(f), vfpool::kCentral, producer);
  }
  template <typename F>
  void pushHolder(F&& f, uint32_t loc, uint32_t producer) {
    using FNoRef = typename std::remove_reference<F>::type;
    pushRaw(new vfpool::TaskHolder<FNoRef>(std::move(f)), loc, producer);
  }
  VF_NOINLINE void pushRaw(vfpool::TaskBase* t, uint32_t loc, uint32_t producer) {
    vf_assume(n_ < VF_PQ_CAP);  // model bound
    slot_[n_] = t;
    loc_[n_] = loc;
    prod_[n_] = producer;
    ++n_;
  }
  VF_NOINLINE vfpool::TaskBase* popMatching(uint32_t loc, uint32_t producer, bool byProducer) {
    for (uint32_t i = 0; i < VF_PQ_CAP; ++i) {
      if (i < n_ && slot_[i] != nullptr && loc_[i] == loc && (!byProducer || prod_[i] == producer)) {
        vfpool::TaskBase* t = slot_[i];
        slot_[i] = nullptr;
        return t;
      }
    }
    return nullptr;
  }
  bool runPopped(vfpool::TaskBase* t) {
    if (!t) {
      return false;
    }
    t->run();
    delete t;
    workRemaining_.fetch_add(-1, std::memory_order_relaxed);
    return true;
  }

  std::atomic<ssize_t> poolLoadFactor_;
  std::atomic<ssize_t> numThreads_;
  std::atomic<size_t> numRings_;
  std::atomic<ssize_t> workRemaining_{0};
  moodycamel::ConcurrentQueue<OnceFunction> work_;  // only identifies producer tokens

  vfpool::TaskBase* slot_[VF_PQ_CAP];
  uint32_t loc_[VF_PQ_CAP];
  uint32_t prod_[VF_PQ_CAP];
  uint32_t n_;
};

}  // namespace dispenso
