#include "ts_kit.h"
static int g_ran;
extern "C" void vf_main() {
  dispenso::ThreadPool pool(VF_POOL_N);
  g_ran = 0;
#if VF_HEAP
  auto* tsp = new dispenso::ConcurrentTaskSet(pool, dispenso::TaskCost::kLightweight);
  auto& ts = *tsp;
#else
  dispenso::ConcurrentTaskSet ts(pool, dispenso::TaskCost::kLightweight);
#endif
#if VF_NORM
  vf_assume(ts.head_ == nullptr && ts.tail_ == nullptr && ts.prev_ == nullptr && ts.next_ == nullptr && ts.parent_ == nullptr);
  ts.head_ = nullptr; ts.tail_ = nullptr; ts.prev_ = nullptr; ts.next_ = nullptr; ts.parent_ = nullptr;
#endif
  ts.cancel();
  ts.schedule([]() { g_ran++; }, dispenso::ForceQueuingTag());
  vf_check(g_ran == 0, "ran in schedule");
  bool c = ts.wait();
  vf_check(c, "wait true");
  vf_check(g_ran == 0, "ran in wait");
  vf_reach("end");
}
