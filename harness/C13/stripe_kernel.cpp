// C12 / C13, stripe kernel: the REAL ChunkedRange::calcChunkSize, detail::initStripeState (incl.
// alignDownStripe) and detail::stripeClaim, driven directly: the stripes of one adaptive parallel_for
// are set up exactly as parallel_for_adaptiveWaitDispatch does (parallel_for.h:480-500), then every
// stripe is claimed to exhaustion (the order in which stripes are visited does not influence which
// chunks come out: each stripe has its own cursor).  Preconditions established by parallel_for
// before the dispatch are assumed: non-empty range whose size is a multiple of the granularity.
//   VF_C13 = 1: at most one chunk has a size that is not a multiple of the granularity, and it ends
//               at the range end (C13);  VF_C13 = 0: chunks partition [start, end) (C12).
#ifndef VF_W
#define VF_W 2
#endif
#define VF_N (VF_W - 1)
#define VF_MODE 1
#include "../C12/pf_common.h"

extern "C" void vf_main() {
  IntT start = vf_nondet_int();
  uint32_t size = vf_range_u32(1, VF_S);
  vf_assume(vf_wide(Lim::max()) - vf_wide(start) >= size);
  IntT end = static_cast<IntT>(start + static_cast<IntT>(size));
#if VF_HI == 0
  vf_assume(vf_wide(Lim::max()) - vf_wide(end) >= 1024);
#elif VF_HI == 1
  vf_assume(vf_wide(Lim::max()) - vf_wide(end) < 1024);
#endif
  uint32_t g = vf_range_u32(VF_GLO, VF_GHI);
  uint32_t minItems = vf_range_u32(1, VF_MINITEMS_HI);
  vf_assume(size > VF_W);
  vf_assume(minItems <= 1 || size / (VF_W + 1) >= minItems);
  vf_assume(size % g == 0);
  vf_set_l3_groups(0);

  dispenso::ChunkedRange<IntT> parRange(start, end, dispenso::ChunkedRange<IntT>::Auto());
  auto info = parRange.calcChunkSize(size_t{VF_W - 1}, true, minItems, g, /*maxDynFactor=*/64);
  auto chunkSize = std::get<0>(info);
  dispenso::detail::StripeState<IntT> st;
  dispenso::detail::initStripeState(st, parRange.start, parRange.end, static_cast<uint32_t>(VF_W),
                                    static_cast<IntT>(chunkSize), g);
  IntT x = vf_nondet_int();  // probe index
  uint32_t cover = 0, odd = 0;
  bool oddEndsAtEnd = true;
  for (uint32_t s = 0; s < VF_W; ++s) {
    for (uint32_t k = 0; k < VF_S + 1; ++k) {
      IntT b, e;
      if (!dispenso::detail::stripeClaim(st, s, b, e)) break;
      vf_check(b < e, "claimed chunk is non-empty");
      vf_check(start <= b && e <= end, "claimed chunk lies inside [start, end)");
      if (b <= x && x < e) ++cover;
      WideT sz = static_cast<WideT>(e) - static_cast<WideT>(b);
      if (sz % g != 0) {
        ++odd;
        if (e != end) oddEndsAtEnd = false;
      }
    }
  }
#if VF_C13
  vf_check(odd <= 1, "at most one chunk has a size that is not a multiple of the granularity");
  vf_check(oddEndsAtEnd, "a chunk whose size is not a multiple of the granularity ends at the range end");
#else
  vf_check(cover == ((start <= x && x < end) ? 1u : 0u), "probe index is claimed exactly once iff inside [start, end)");
#endif
}
