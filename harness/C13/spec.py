TECHNIQUE = ('bounded symbolic execution of LLVM IR lowered to C: CBMC/SAT (cadical); the real parallel_for '
             'instantiated over a mock TaskSetT, sequential task-granularity scheduler harness')
ASSUMPTIONS = [
    'same environment contracts as C12 (mock TaskSetT with task-granularity interleaving, one PerThreadInfo record with '
    'symbolic content, l3CacheGroups constant with 0..2 groups, alignedMalloc/alignedFree and the small-buffer pool by contract)',
    'the size of an invocation is end - begin of a non-empty chunk (a chunk that is empty, inverted or larger than the '
    'whole range is reported by a separate assertion)',
]
OUTSIDE = ('adaptive (stripe) scheduling, where the contract is actually violated (see NOTES.md: reproduced natively with a '
           'hand-built input, start % granularity != 0) -- encoded as tier "experimental" but the solver runs do not finish; '
           'explicit chunk sizes (granularity documented as ignored); granularity above 8; range sizes / pool sizes above the bounds; '
           'instruction-level interleavings')

CODE = {'int8_t': 'a', 'uint8_t': 'h', 'int16_t': 's', 'uint16_t': 't', 'int32_t': 'i', 'uint32_t': 'j',
        'int64_t': 'l', 'uint64_t': 'm'}


def inst(name, T, mode, S, N, tiers, timeout=900, **kw):
    defs = {'VF_T': T, 'VF_MODE': mode, 'VF_S': S, 'VF_N': N, 'VF_GLO': 2, 'VF_GHI': 8}
    defs.update(kw)
    fill = '_ZL17vf_fill_mod_tablej.0'
    return {'name': name, 'src': 'pfor13.cpp', 'engine': 'cbmc', 'defs': defs, 'unwind': S + 2,
            'unwindset': {fill: S + 3}, 'timeout': timeout, 'tiers': list(tiers),
            'bounds': '%s, %s chunking, chunk body f(begin,end); any start with end - start in 0..%d (or swapped); numPoolThreads '
                      '0..%d; maxThreads 0..%d and extreme encodings; minItemsPerChunk 0..4; granularity 2..8; wait true/false; '
                      'symbolic caller context and task order' % (T, 'static' if mode == 0 else 'adaptive', S, N, N + 2)}


def stripe(name, T, S, W, tiers=('experimental',), timeout=1800, **kw):
    defs = {'VF_T': T, 'VF_S': S, 'VF_W': W, 'VF_L3': 0, 'VF_GLO': 2, 'VF_GHI': 8}
    defs.update(kw)
    fn = '_ZN8dispenso6detail15runStripeWorkerI%s17StatefulChunkBodyiEEvRNS0_11StripeStateIT_EEjRT1_RT0_' % CODE[T]
    us = {fn + '.0': S + 2, fn + '.1': S + 2, fn + '.2': S + 2, fn + '.3': 2, fn + '.4': 2, fn + '.5': 2, fn + '.6': W + 3,
          '_ZL17vf_fill_mod_tablej.0': S + 3}
    return {'name': name, 'src': 'stripe13.cpp', 'engine': 'cbmc', 'defs': defs, 'unwind': S + 2, 'unwindset': us,
            'timeout': timeout, 'tiers': list(tiers),
            'bounds': '%s, parallel_for_adaptiveWaitDispatch with %d stripe workers, range size 1..%d, granularity 2..8' % (T, W, S)}


def kernel(name, T, S, W, c13, tiers=('experimental',), timeout=900, **kw):
    defs = {'VF_T': T, 'VF_S': S, 'VF_W': W, 'VF_L3': 0, 'VF_GLO': 2 if c13 else 1, 'VF_GHI': 4, 'VF_C13': c13, 'VF_HI': 2}
    defs.update(kw)
    return {'name': name, 'src': 'stripe_kernel.cpp', 'engine': 'cbmc', 'defs': defs, 'unwind': S + 3, 'timeout': timeout,
            'tiers': list(tiers),
            'bounds': '%s: stripes of one adaptive parallel_for set up by the real calcChunkSize + initStripeState for %d '
                      'workers, range size 1..%d, granularity %d..4, any start; every stripe claimed to exhaustion with the '
                      'real stripeClaim (single thread)' % (T, W, S, 2 if c13 else 1)}


INSTANCES = [
    kernel('i32_kernel', 'int32_t', 8, 2, 1, tiers=('quick', 'thorough')),
    kernel('u64_kernel', 'uint64_t', 8, 2, 1, tiers=('thorough',), VF_HI=0),
    inst('i32_static', 'int32_t', 0, 6, 2, ('quick', 'thorough'), timeout=700, thorough={'timeout': 1700}),
    inst('i32_static_wide', 'int32_t', 0, 10, 3, ('thorough',), timeout=1700),
    # encoded but not finishing within the limits (see NOTES.md); the expected outcome of the unaligned ones is a violation
    inst('i32_adaptive_aligned', 'int32_t', 1, 6, 1, ('experimental',), VF_WAIT=1, VF_NLO=1, VF_L3=0, VF_CTX=0, VF_ALIGNED_START=1, timeout=1800),
    inst('i32_adaptive', 'int32_t', 1, 6, 1, ('experimental',), VF_WAIT=1, VF_NLO=1, VF_L3=0, VF_CTX=0, timeout=1800),
    stripe('i32_stripe_aligned', 'int32_t', 8, 2, VF_ALIGNED_START=1),
    stripe('i32_stripe', 'int32_t', 8, 2),
]
