// C13: parallel_for honours the granularity contract (at most one invocation has a size that is not a
// multiple of ParForOptions::granularity, and it ends at the range end).
// Same driver as C12 (harness/C12/pf_common.h) with the C13 assertions switched on.
#define VF_C13 1
#include "../C12/pf_common.h"

extern "C" void vf_main() {
  vf_pf_driver();
}
