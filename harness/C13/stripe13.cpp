// C13 on the adaptive (stripe) path entered at detail::parallel_for_adaptiveWaitDispatch; see
// harness/C12/stripe.cpp for the encoded functions and the assumed preconditions.
#define VF_C13 1
#include "../C12/stripe.cpp"
