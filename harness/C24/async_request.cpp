// C24: AsyncRequest delivers each update at most once.
// Real code: dispenso::AsyncRequest<T>::{requestUpdate, updateRequested, tryEmplaceUpdate, getUpdate}
//            and (C++14 build) detail::OpResult<T>::{OpResult(), OpResult(OpResult&&), emplace,
//            operator bool, value, ~OpResult}.
// Thread-safety contract assumed (class documentation, async_request.h:27-28): "it is safe to use
// from multiple producers and consumers" -- consumers call requestUpdate/getUpdate, producers call
// updateRequested/tryEmplaceUpdate, any number of each concurrently.
// Symbolic: the start state (idle / requested / update ready), the kind of every operation of every
//           thread, the interleaving of all atomic operations (and of the payload's move constructor
//           when VF_MOVE_SP is set).
// Payload: VF_PAYLOAD=0: int32 tag.  VF_PAYLOAD=1: lifetime-counted class `Payload` carrying the
//          tag; with VF_MOVE_SP=1 its constructors contain a scheduling point: a user type's
//          (move) constructor is not one indivisible step (it may itself contain atomic operations,
//          e.g. reference counts), and the engine's interleaving granularity is the atomic
//          operation.  The scheduling point is in the payload type (user code), not in dispenso.
#include <dispenso/async_request.h>
#include "vf.h"

#ifndef VF_PAYLOAD
#define VF_PAYLOAD 0
#endif
#ifndef VF_MOVE_SP
#define VF_MOVE_SP 0
#endif
#ifndef VF_CONSUMERS
#define VF_CONSUMERS 1
#endif
#ifndef VF_PRODUCERS
#define VF_PRODUCERS 1
#endif
#ifndef VF_KINDS_IN_THREADS
#define VF_KINDS_IN_THREADS 0
#endif

static int32_t g_live;  // live Payload objects (constructed and not yet destroyed)

struct Payload {
  int32_t v;
  explicit Payload(int32_t t) noexcept : v(0) {
    ++g_live;
#if VF_MOVE_SP
    vf_sched_point();  // construction is not one indivisible step either
#endif
    v = t;
  }
  Payload(Payload&& o) noexcept : v(o.v) {
    ++g_live;
#if VF_MOVE_SP
    vf_sched_point();
#endif
    o.v = -7;  // moved-from marker
  }
  Payload(const Payload&) = delete;
  Payload& operator=(const Payload&) = delete;
  ~Payload() { --g_live; }
};

#if VF_PAYLOAD
using T = Payload;
static inline int32_t tagof(T& p) { return p.v; }
#else
using T = int32_t;
static inline int32_t tagof(T& p) { return p; }
#endif
using Req = dispenso::AsyncRequest<T>;
static Req R;

// ---- ghost ledger (tags 1..5; every tryEmplaceUpdate call uses its own tag) ----
enum { kTags = 6 };
static uint8_t g_started[kTags];    // a tryEmplaceUpdate(tag) call has begun
static uint8_t g_ok[kTags];         // ... and reported success
static uint8_t g_delivered[kTags];  // number of getUpdate() calls that returned this tag
static int32_t g_req_started;       // requestUpdate() calls begun
static int32_t g_get_started;       // getUpdate() calls begun
static int32_t g_ok_count;          // successful tryEmplaceUpdate calls
static int32_t g_pending;           // tag emplaced successfully (call returned) and not yet delivered

static void do_request() {
  {
    VfAtomic a;
    ++g_req_started;
  }
  R.requestUpdate();
}

static void do_get() {
  int32_t pend;
  {
    VfAtomic a;
    ++g_get_started;
    pend = g_pending;
  }
  Req::OpResult r = R.getUpdate();
  VfAtomic a;
  int32_t tag = 0;
  if (r) {
    tag = tagof(r.value());
    bool valid = tag >= 1 && tag < kTags && g_started[tag];
    vf_check(valid, "getUpdate returned a value that no tryEmplaceUpdate emplaced");
    if (valid) {
      g_delivered[tag]++;
      vf_check(g_delivered[tag] <= 1, "the same update was delivered by two getUpdate calls");
      if (g_pending == tag) g_pending = 0;
    }
  }
#if VF_CONSUMERS == 1
  // single consumer: an update whose tryEmplaceUpdate had already returned true when this call
  // began is still there (documented: "when the consumer next calls getUpdate(), an optional
  // wrapper to the updated data is returned")
  if (pend != 0) {
    vf_check(tag == pend, "single consumer: getUpdate missed the update that was ready before the call");
  }
#else
  (void)pend;
#endif
}

static void do_emplace(int32_t tag, bool guarded) {
  bool asked = false;
  if (guarded) {
    asked = R.updateRequested();
    if (!asked) return;
  }
  {
    VfAtomic a;
    g_started[tag] = 1;
  }
  bool ok = R.tryEmplaceUpdate(tag);
  VfAtomic a;
  if (ok) {
    g_ok[tag] = 1;
    ++g_ok_count;
    // every success consumes one effective request, and (after the first) needs the previous
    // update to have been taken by a getUpdate -- counted conservatively by calls *begun*
    vf_check(g_ok_count <= g_req_started, "tryEmplaceUpdate succeeded although no update was requested");
    vf_check(g_ok_count <= g_get_started + 1,
             "tryEmplaceUpdate succeeded although the previous update was not yet fetched");
    if (!g_delivered[tag]) g_pending = tag;
  }
#if VF_PRODUCERS == 1
  if (asked) {
    vf_check(ok, "single producer: updateRequested() was true but tryEmplaceUpdate failed");
  }
#endif
}

// operation kinds are drawn by main before the threads start (one global input order, so that the
// native replay assigns every input to the same operation as the solver's model)
static bool g_kind[4][2];
static void consumer_ops(int k) {
#if VF_KINDS_IN_THREADS  // reproducer for the replay input-order problem (tier 'repro'), not a check
  g_kind[k][0] = vf_nondet_bool();
  g_kind[k][1] = vf_nondet_bool();
#endif
  if (g_kind[k][0]) do_request(); else do_get();
  if (g_kind[k][1]) do_request(); else do_get();
}
static void consumer0(void*) { consumer_ops(0); }
static void consumer1(void*) { consumer_ops(1); }
static void producer0(void*) {
  do_emplace(1, g_kind[2][0]);
  do_emplace(2, g_kind[2][1]);
}
static void producer1(void*) {
  do_emplace(3, g_kind[3][0]);
  do_emplace(4, g_kind[3][1]);
}

extern "C" void vf_main() {
  // start state: idle, requested, or update 5 ready (reached through the real calls)
  uint32_t pre = vf_range_u32(0, 2);
  g_kind[0][0] = vf_nondet_bool(); g_kind[0][1] = vf_nondet_bool();
  g_kind[1][0] = vf_nondet_bool(); g_kind[1][1] = vf_nondet_bool();
  g_kind[2][0] = vf_nondet_bool(); g_kind[2][1] = vf_nondet_bool();
  g_kind[3][0] = vf_nondet_bool(); g_kind[3][1] = vf_nondet_bool();
  if (pre >= 1) do_request();
  if (pre >= 2) do_emplace(5, false);
  vf_spawn(consumer0, nullptr);
#if VF_CONSUMERS >= 2
  vf_spawn(consumer1, nullptr);
#endif
  vf_spawn(producer0, nullptr);
#if VF_PRODUCERS >= 2
  vf_spawn(producer1, nullptr);
#endif
  vf_join_all();
  // quiescent: main is the only thread left; fetch what is there
  do_get();
  int32_t delivered = 0;
  for (int t = 1; t < kTags; ++t) {
    delivered += g_delivered[t];
    vf_check(!g_delivered[t] || g_ok[t], "a value was delivered whose tryEmplaceUpdate reported failure");
  }
  vf_check(delivered <= g_ok_count, "more updates delivered than emplaced");
  int st = (int)R.state_.load(std::memory_order_relaxed);
  vf_check(st == (int)Req::kNone || st == (int)Req::kNeedsUpdate,
           "quiescent state after fetching is idle or requested");
#if VF_CONSUMERS == 1
  vf_check(delivered == g_ok_count, "single consumer: every emplaced update was delivered exactly once");
  vf_check(!R.obj_.has_value(), "single consumer: no stored value remains after the last fetch");
#endif
#if VF_PAYLOAD
  vf_check(g_live == (R.obj_.has_value() ? 1 : 0),
           "live payload objects == stored updates (no leak, no double destroy)");
#endif
}
