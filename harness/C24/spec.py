TECHNIQUE = ('bounded symbolic execution of LLVM IR lowered to C: CBMC/SAT (cadical), sequentialised thread model '
             '(cbmc-seq: symbolic scheduler over all atomic operations), ghost delivery ledger with unique tags')
ASSUMPTIONS = ['thread-safety contract as documented in async_request.h:27-28: any number of producers '
               '(updateRequested/tryEmplaceUpdate) and consumers (requestUpdate/getUpdate) may run concurrently',
               'the payload move constructor of the class-type instances is not one indivisible step (it contains a '
               'scheduling point in the harness payload type; the int instances interleave at atomic operations only)']
OUTSIDE = ('more than 2 consumers / 2 producers, more than 2 operations per thread; schedules needing more execution '
           'segments than the stated rounds; weak-memory reorderings (sequential consistency assumed for the atomics); '
           'the C++17 build (std::optional instead of detail::OpResult); payload types that throw')

def inst(name, c, p, payload, sp, steps, tiers=('quick', 'thorough'), thorough=None, timeout=1500):
    d = {'name': name, 'src': 'async_request.cpp', 'engine': 'cbmc-seq',
         'defs': {'VF_CONSUMERS': c, 'VF_PRODUCERS': p, 'VF_PAYLOAD': payload, 'VF_MOVE_SP': sp},
         'steps': steps, 'unwind': 7, 'nthreads': 1 + c + p, 'spin_loops': True, 'timeout': timeout,
         'tiers': list(tiers),
         'bounds': '%d consumer thread(s) x 2 ops (requestUpdate|getUpdate, symbolic), %d producer thread(s) x 2 ops '
                   '(tryEmplaceUpdate, optionally guarded by updateRequested, symbolic); start state idle|requested|ready; '
                   'payload %s; <= %d scheduling rounds; final fetch by main'
                   % (c, p, ('class with lifetime counting' + (', preemptible move constructor' if sp else '')) if payload else 'int32 tag', steps)}
    if thorough:
        d['thorough'] = thorough
    return d

INSTANCES = [
    inst('c1p1_int', 1, 1, 0, 0, 5, thorough={'steps': 8}),
    inst('c1p2_int', 1, 2, 0, 0, 5, thorough={'steps': 7}),
    inst('c2p1_int', 2, 1, 0, 0, 5, thorough={'steps': 7}),
    inst('c1p1_obj', 1, 1, 1, 1, 5, thorough={'steps': 7}),
    inst('c2p1_obj', 2, 1, 1, 1, 4, thorough={'steps': 6}),
    inst('c2p2_int', 2, 2, 0, 0, 6, tiers=('thorough',)),
    inst('c1p2_obj', 1, 2, 1, 1, 6, tiers=('thorough',)),
]
# Reproducer for an engine problem (not part of any tier): consumers draw their op kinds themselves; the
# model logs those inputs in slot order, the native replay consumes them in baton order, so some of the
# (genuine) counterexamples do not reproduce.  ./check C24 --tier repro
_r = inst('repro_thread_inputs', 2, 1, 1, 1, 4, tiers=('repro',))
_r['defs']['VF_KINDS_IN_THREADS'] = 1
INSTANCES.append(_r)
