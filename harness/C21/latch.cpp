// C21: Latch -- waits never miss a wake-up and never return early.
// Real code: dispenso::Latch::{count_down,arrive_and_wait,wait,try_wait},
//            detail::CompletionEventImpl::{notify,wait} (futex path).
// Symbolic: initial count, the split of the count over two count_down(n) callers and an optional
// arrive_and_wait caller, the interleaving, which waiters a futex wake picks, spurious returns.
#include <new>
#include <dispenso/latch.h>
#include "vf.h"

static dispenso::Latch* L;
alignas(dispenso::Latch) static char storage[sizeof(dispenso::Latch)];
static uint32_t n1, n2;

static void t_cd1(void*) { L->count_down(n1); }
static void t_cd2(void*) { L->count_down(n2); }
static void t_wait(void*) {
  L->wait();
  if (vf_is_dead()) return;
  vf_check(L->try_wait(), "Latch::wait returned before the count reached zero");
}

extern "C" void vf_main() {
  uint32_t count = vf_range_u32(1, VF_MAXCOUNT);
  n1 = vf_range_u32(1, VF_MAXCOUNT);
  n2 = vf_range_u32(1, VF_MAXCOUNT);
  bool arrive = vf_nondet_bool();
  vf_assume(n1 + n2 + (arrive ? 1u : 0u) == count);
  L = new (storage) dispenso::Latch(count);
  vf_spawn(t_cd1, nullptr);
  vf_spawn(t_cd2, nullptr);
  vf_spawn(t_wait, nullptr);
  if (arrive) {
    L->arrive_and_wait();
  } else {
    L->wait();
  }
  if (vf_is_dead()) return;
  vf_check(L->try_wait(), "wait/arrive_and_wait returned before the count reached zero");
}
