ASSUMPTIONS = ['count_down amounts sum to the initial count (documented precondition of a latch)']
OUTSIDE = ('more than 4 threads; initial counts above the stated maximum; more than one spurious futex '
           'return per thread; schedules in which a wait loop iterates more often than the unwinding bound')
INSTANCES = [
    {'name': 'latch', 'src': 'latch.cpp', 'engine': 'cbmc-par',
     'defs': {'VF_MAXCOUNT': 4}, 'unwind': 4, 'nthreads': 4, 'timeout': 900,
     'bounds': '4 threads (2x count_down(n), wait, arrive_and_wait|wait); count 1..4; wait loop unwound 4x; <=1 spurious futex return per thread',
     'thorough': {'defs': {'VF_MAXCOUNT': 6}, 'unwind': 5}},
    {'name': 'latch_seq', 'src': 'latch.cpp', 'engine': 'cbmc-seq',
     'defs': {'VF_MAXCOUNT': 4}, 'unwind': 3, 'nthreads': 4, 'steps': 10, 'spin_loops': True, 'timeout': 900,
     'bounds': '4 threads (2x count_down(n), wait, arrive_and_wait|wait); count 1..4; <= 10 execution segments'},
]
