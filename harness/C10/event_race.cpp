// C10 (kernels: CompletionEventImpl, Latch used to publish plain data): the writer stores plain
// values and then notifies / counts down; the reader waits and then reads them. The plain values are
// harness variables with race probes; the ordering must come from the declared orders of
// notify (store release) / wait (load acquire) and of Latch::count_down (fetch_sub acq_rel, notify).
// VF_KIND 0: CompletionEventImpl notify/wait   1: Latch(2): two writers count_down, main wait()
//         2: Latch(2): writer count_down, main arrive_and_wait... and reads; writer 2 arrive_and_wait
#include <dispenso/completion_event.h>
#include <dispenso/latch.h>
#include "vf.h"
#include "probe.h"

#ifndef VF_KIND
#define VF_KIND 0
#endif

static int g_a, g_b;
static inline void wr(int* p, int v) { vf_race_write(p); *p = v; }
static inline int rd(int* p) { vf_race_read(p); return *p; }

#if VF_KIND == 0
static dispenso::detail::CompletionEventImpl E(0);
static void writer(void*) {
  wr(&g_a, 1);
  E.notify(1);
}
static void reader2(void*) {
  E.wait(1);
  vf_check(rd(&g_a) == 1, "value published before notify is visible after wait");
}
extern "C" void vf_main() {
  {
    VfAtomic noPreempt;
    warm_atomic(E.intrusiveStatus());
    warm_probe(&g_a);
  }
  vf_spawn(writer, nullptr);
  vf_spawn(reader2, nullptr);
  E.wait(1);
  vf_check(rd(&g_a) == 1, "value published before notify is visible after wait");
  vf_join_all();
}
#elif VF_KIND == 1
static dispenso::Latch L(2);
static void writerA(void*) {
  wr(&g_a, 1);
  L.count_down();
}
static void writerB(void*) {
  wr(&g_b, 1);
  L.count_down();
}
extern "C" void vf_main() {
  {
    VfAtomic noPreempt;
    warm_atomic(L.impl_.intrusiveStatus());
    warm_probe(&g_a);
    warm_probe(&g_b);
  }
  vf_spawn(writerA, nullptr);
  vf_spawn(writerB, nullptr);
  L.wait();
  vf_check(rd(&g_a) + rd(&g_b) == 2, "values published before count_down are visible after wait");
  vf_join_all();
}
#else
static dispenso::Latch L(2);
static void peer(void*) {
  wr(&g_a, 1);
  L.arrive_and_wait();
  vf_check(rd(&g_b) == 1, "value published before arrive_and_wait is visible to the peer");
}
extern "C" void vf_main() {
  {
    VfAtomic noPreempt;
    warm_atomic(L.impl_.intrusiveStatus());
    warm_probe(&g_a);
    warm_probe(&g_b);
  }
  vf_spawn(peer, nullptr);
  wr(&g_b, 1);
  L.arrive_and_wait();
  vf_check(rd(&g_a) == 1, "value published before arrive_and_wait is visible to the peer");
  vf_join_all();
}
#endif
