// C10 (kernel: ChaseLevDeque): the slot written by the owner's try_push is read by a stealer
// (publication through bottom_: store release / load acquire) or by the owner's try_pop; top_ CAS
// (seq_cst) arbitrates stealers against each other and against the last-element pop; the seq_cst
// fences of try_pop / try_steal order bottom_/top_ accesses (they create no happens-before edge for
// the payload by themselves).
// The element type must be trivially copyable (static_assert). The probes have to sit exactly where
// the real code copies a slot (`*slotPtr(b) = item`, `out = *slotPtr(t)`), so the harness payload has
// a probing copy assignment and is *declared* trivially copyable to the library by specialising the
// trait (harness-only trick; the real code is unchanged and only ever copy-assigns elements in
// try_push/try_pop/try_steal).
#include <type_traits>
#include <cstdint>
#include "vf.h"
struct PodProbe {
  int32_t v;
  bool priv;   // harness locals (push argument, pop/steal destination): not probed
  PodProbe() = default;
  PodProbe(const PodProbe&) = default;
  PodProbe& operator=(const PodProbe& o) noexcept {
    if (!o.priv) vf_race_read(&o);
    if (!priv) vf_race_write(this);
    v = o.v;   // priv stays: it is a property of the object, not of the value
    return *this;
  }
};
namespace std {
template <> struct is_trivially_copyable<PodProbe> : true_type {};
}
#include <dispenso/chase_lev_deque.h>
#include "probe.h"

#ifndef VF_CAP
#define VF_CAP 2
#endif
#ifndef VF_KIND
#define VF_KIND 0
#endif

static dispenso::ChaseLevDeque<PodProbe, VF_CAP> D;

static void stealer(void*) {
  PodProbe out;   // thread-private destination
  out.priv = true;
  D.try_steal(out);
}
static void stealerB(void*) {
  PodProbe out;
  out.priv = true;
  D.try_steal(out);
}

extern "C" void vf_main() {
  PodProbe a, b, out;
  a.v = 1;
  b.v = 2;
  a.priv = b.priv = out.priv = true;
  {
    VfAtomic noPreempt;
    warm_atomic(D.top_);
    warm_atomic(D.bottom_);
    D.slotPtr(0)->priv = false;   // storage_ is raw memory: the slots are shared objects
    warm_probe(D.slotPtr(0));
#if VF_CAP > 1
    D.slotPtr(1)->priv = false;
    warm_probe(D.slotPtr(1));
#endif
  }
#if VF_KIND == 0
  // no wrap-around: at most VF_CAP pushes in total
  vf_spawn(stealer, nullptr);
  vf_spawn(stealerB, nullptr);
  D.try_push(a);
  D.try_push(b);
  D.try_pop(out);
  vf_join_all();
  D.try_pop(out);
#else
  // wrap-around: capacity 1, the second push reuses the slot
  vf_spawn(stealer, nullptr);
  D.try_push(a);
  D.try_pop(out);
  D.try_push(b);
  vf_join_all();
  D.try_pop(out);
#endif
}
