// C10 (kernel: AsyncRequest): obj_ (a plain OpResult<T>) is emplaced by the producer and moved out
// by the consumer; the slot is emplaced again for the next request. The only ordering is state_:
// tryEmplaceUpdate CAS(kNeedsUpdate->kUpdating, acq_rel) ... store(kReady, release) ->
// getUpdate CAS(kReady->kUpdating, acq_rel) ... store(kNone, release) -> requestUpdate CAS -> next
// tryEmplaceUpdate CAS. Contract (async_request.h:27): safe from multiple producers and consumers.
// VF_CONSUMERS=2: a second consumer thread issues the second request / fetch.
#include <dispenso/async_request.h>
#include "vf.h"
#include "probe.h"

#ifndef VF_CONSUMERS
#define VF_CONSUMERS 1
#endif

static dispenso::AsyncRequest<Probe> A;

static void producer(void*) {
  A.tryEmplaceUpdate(1);
  A.tryEmplaceUpdate(2);
}
static void consumer2(void*) {
  A.requestUpdate();
  A.getUpdate();
}

extern "C" void vf_main() {
  {
    VfAtomic noPreempt;
    warm_atomic(A.state_);
    warm_probe(A.obj_.buf_);
  }
  A.requestUpdate();
  vf_spawn(producer, nullptr);
#if VF_CONSUMERS > 1
  vf_spawn(consumer2, nullptr);
  A.getUpdate();
#else
  A.getUpdate();
  A.requestUpdate();
  A.getUpdate();
#endif
  vf_join_all();
  A.getUpdate();
}
