// C10 (kernel: RWLock): a plain counter written under lock() and read under lock_shared() /
// try_lock_shared(); probes sit inside the critical sections. Mutual exclusion itself is C22; here
// the question is whether the lock word's declared orders (all acq_rel RMWs + the acquire loads of
// the drain / spin loops) order the critical sections (writer->reader, reader->writer, writer->writer).
#include <dispenso/rw_lock.h>
#include "vf.h"
#include "probe.h"

#ifndef VF_KIND
#define VF_KIND 0
#endif

static dispenso::RWLock L;
static int g_data;
static inline void crit_w() { vf_race_write(&g_data); ++g_data; }
static inline int crit_r() { vf_race_read(&g_data); return g_data; }

static void writer(void*) {
  L.lock();
  crit_w();
  L.unlock();
}
static void reader(void*) {
  L.lock_shared();
  crit_r();
  L.unlock_shared();
}
static void try_writer(void*) {
  if (L.try_lock()) {
    crit_w();
    L.unlock();
  }
}
static void try_reader(void*) {
  if (L.try_lock_shared()) {
    crit_r();
    L.unlock_shared();
  }
}

extern "C" void vf_main() {
  {
    VfAtomic noPreempt;
    warm_atomic(L.lockWord());
    warm_probe(&g_data);
  }
#if VF_KIND == 0
  vf_spawn(writer, nullptr);
  vf_spawn(reader, nullptr);
  if (L.try_lock_shared()) {
    crit_r();
    L.unlock_shared();
  }
#elif VF_KIND == 1
  vf_spawn(try_writer, nullptr);
  vf_spawn(reader, nullptr);
  L.lock();
  crit_w();
  L.unlock();
#else
  // lock_upgrade requires that only one thread can try to lock for write: the others only read
  vf_spawn(try_reader, nullptr);
  vf_spawn(reader, nullptr);
  L.lock_shared();
  crit_r();
  L.lock_upgrade();
  crit_w();
  L.lock_downgrade();
  crit_r();
  L.unlock_shared();
#endif
  vf_join_all();
  crit_w();
}
