// C10 (kernel: MpmcRingBuffer): the payload written by a producer is read by the consumer that pops
// it, and slots are reused by later producers; every such pair of plain accesses must be ordered by
// the declared memory orders of the slot sequence numbers / head / tail (no data race).
// VF_KIND 0: one producer (3 emplaces: slot 0 is reused), main pops once while it runs, then 2 pops
// VF_KIND 2: publication only: one producer (1 emplace), main 1 pop concurrently + 1 pop after join
// VF_KIND 1: two producers (1 emplace each), one consumer thread (2 pops), drain by main
#include <dispenso/mpmc_ring_buffer.h>
#include "vf.h"
#include "probe.h"

#ifndef VF_KIND
#define VF_KIND 0
#endif

using Ring = dispenso::MpmcRingBuffer<Probe, 2>;
static Ring R;

static void warm() {
  VfAtomic noPreempt;  // one piece: keeps the detector's key tables constant (see probe.h)
  warm_atomic(R.head_);
  warm_atomic(R.tail_);
  warm_atomic(R.slots_[0].seq);
  warm_atomic(R.slots_[1].seq);
  warm_probe(R.dataPtr(R.slots_[0]));
  warm_probe(R.dataPtr(R.slots_[1]));
}

#if VF_KIND == 2
static void producer(void*) { R.try_emplace(1); }
extern "C" void vf_main() {
  warm();
  vf_spawn(producer, nullptr);
  Probe out{Probe::Private{}};
  R.try_pop(out);
  vf_join_all();
  R.try_pop(out);
}
#elif VF_KIND == 0
static void producer(void*) {
  R.try_emplace(1);
  R.try_emplace(2);
  R.try_emplace(3);
}
extern "C" void vf_main() {
  warm();
  vf_spawn(producer, nullptr);
  Probe out{Probe::Private{}};
  R.try_pop(out);
  vf_join_all();
  R.try_pop(out);
  R.try_pop(out);
}
#else
static void producerA(void*) { R.try_emplace(1); }
static void producerB(void*) { R.try_emplace(2); }
static void consumer(void*) {
  Probe out{Probe::Private{}};
  R.try_pop(out);
  R.try_pop(out);
}
extern "C" void vf_main() {
  warm();
  vf_spawn(producerA, nullptr);
  vf_spawn(producerB, nullptr);
  vf_spawn(consumer, nullptr);
  vf_join_all();
  Probe out{Probe::Private{}};
  R.try_pop(out);
}
#endif
