// C10 (kernel: MpmcRingBuffer): the payload written by a producer is read by the consumer that pops
// it, and slots are reused by later producers; every such pair of plain accesses must be ordered by
// the declared memory orders of the slot sequence numbers / head / tail (no data race).
#include <dispenso/mpmc_ring_buffer.h>
#include "vf.h"
#include "race_probe.h"

using Ring = dispenso::MpmcRingBuffer<RaceProbe, 2>;
static Ring R;

static void producerA(void*) {
  R.try_emplace(1);
  R.try_emplace(2);
}
static void producerB(void*) { R.try_emplace(3); }
static void consumer(void*) {
  RaceProbe out;
  R.try_pop(out);
  R.try_pop(out);
}

extern "C" void vf_main() {
  vf_spawn(producerA, nullptr);
  vf_spawn(producerB, nullptr);
  vf_spawn(consumer, nullptr);
  vf_join_all();
  RaceProbe out;
  while (R.try_pop(out)) {
  }
}
