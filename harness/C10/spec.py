TECHNIQUE = ('bounded symbolic execution of LLVM IR lowered to C: CBMC/SAT over a sequentialised step machine, with an '
             'in-model vector-clock happens-before detector that honours the declared memory orders')
ASSUMPTIONS = ['an atomic load reads from the latest store in the explored (sequentially consistent) order; '
               'happens-before edges come only from the declared orders (release/acquire/acq_rel/seq_cst, release sequences '
               'through RMWs, fences), thread start/join and mutexes',
               'plain accesses are observed through race probes in the payload type (constructors, assignments, destructor)']
OUTSIDE = ('dispenso code outside the listed kernels; stale reads / reorderings that only a weak-memory execution shows '
           '(the explored interleavings are sequentially consistent); plain accesses other than payload accesses')
SEQ = {'engine': 'cbmc-seq', 'spin_loops': True, 'rt_defs': {'VF_RACE': 1}, 'timeout': 1500}
INSTANCES = [
    dict(SEQ, name='spsc', src='spsc_race.cpp', nthreads=2, steps=3, unwind=3,
         bounds='SPSCRingBuffer<probe,1> (2 slots): producer 3 emplaces, consumer 2 pops, drain by main; 3 rounds'),
    dict(SEQ, name='mpmc', src='mpmc_race.cpp', nthreads=4, steps=3, unwind=3,
         bounds='MpmcRingBuffer<probe,2>: producers 2+1 emplaces, consumer 2 pops, drain by main; 3 rounds'),
]
