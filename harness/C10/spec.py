TECHNIQUE = ('bounded symbolic execution of LLVM IR lowered to C: CBMC/SAT over a sequentialised step machine, with an '
             'in-model vector-clock happens-before detector that honours the declared memory orders')
ASSUMPTIONS = ['an atomic load reads from the latest store in the explored (sequentially consistent) order; '
               'happens-before edges come only from the declared orders (release/acquire/acq_rel/seq_cst, release sequences '
               'through RMWs, fences), thread start/join and mutexes',
               'plain accesses are observed through race probes in the payload type (constructors, assignments, destructor)']
OUTSIDE = ('dispenso code outside the listed kernels; stale reads / reorderings that only a weak-memory execution shows '
           '(the explored interleavings are sequentially consistent); plain accesses other than payload accesses')
SEQ = {'engine': 'cbmc-seq', 'spin_loops': True, 'timeout': 1500}


def RT(atoms, probes, **kw):
    # sizes of the detector's tables (powers of two; a full table is an rt: failure, never silent)
    d = {'VF_RACE': 1, 'VF_RACE_ATOMS': atoms, 'VF_RACE_PROBES': probes}
    d.update(kw)
    return d


INSTANCES = [
    dict(SEQ, name='spsc', src='spsc_race.cpp', rt_defs=RT(2, 2), nthreads=2, steps=3, unwind=3,
         bounds='SPSCRingBuffer<probe,1> (2 slots): producer 3 emplaces, consumer 2 pops, drain by main; 3 rounds'),
    dict(SEQ, name='async', src='async_race.cpp', rt_defs=RT(1, 4), nthreads=2, steps=3, unwind=2,
         bounds='AsyncRequest<probe>: producer 2x tryEmplaceUpdate; main request/get/request/get (+ final get); 3 rounds'),
    dict(SEQ, name='async_c2', src='async_race.cpp', rt_defs=RT(1, 4), defs={'VF_CONSUMERS': 2}, nthreads=3, steps=3, unwind=2,
         bounds='AsyncRequest<probe>: producer 2x tryEmplaceUpdate; two consumers (main: request+get, T2: request+get); 3 rounds'),
    dict(SEQ, name='event', src='event_race.cpp', rt_defs=RT(1, 1), defs={'VF_KIND': 0}, nthreads=3, steps=3, unwind=2,
         bounds='CompletionEventImpl: writer plain store + notify(1); two readers wait(1) + plain read; 3 rounds'),
    dict(SEQ, name='latch', src='event_race.cpp', rt_defs=RT(1, 2), defs={'VF_KIND': 1}, nthreads=3, steps=3, unwind=2,
         bounds='Latch(2): two writers plain store + count_down(); main wait() + plain reads; 3 rounds'),
    dict(SEQ, name='latch_aw', src='event_race.cpp', rt_defs=RT(1, 2), defs={'VF_KIND': 2}, nthreads=2, steps=3, unwind=2,
         bounds='Latch(2): two threads plain store + arrive_and_wait() + read of the peer value; 3 rounds'),
    dict(SEQ, name='rwlock', src='rwlock_race.cpp', rt_defs=RT(1, 1), defs={'VF_KIND': 0}, nthreads=3, steps=3, unwind=2,
         bounds='RWLock: T1 lock/write/unlock, T2 lock_shared/read/unlock_shared, main try_lock_shared/read; 3 rounds'),
    dict(SEQ, name='rwlock_try', src='rwlock_race.cpp', rt_defs=RT(1, 1), defs={'VF_KIND': 1}, nthreads=3, steps=3, unwind=2,
         bounds='RWLock: T1 try_lock/write/unlock, T2 lock_shared/read/unlock_shared, main lock/write/unlock; 3 rounds'),
    dict(SEQ, name='rwlock_updown', src='rwlock_race.cpp', rt_defs=RT(1, 1), defs={'VF_KIND': 2}, nthreads=3, steps=3, unwind=2,
         bounds='RWLock: main lock_shared/read/lock_upgrade/write/lock_downgrade/read/unlock_shared, T1 try_lock_shared, T2 lock_shared; 3 rounds'),
    dict(SEQ, name='chaselev', src='chaselev_race.cpp', rt_defs=RT(2, 2), defs={'VF_KIND': 0, 'VF_CAP': 2}, nthreads=3, steps=3, unwind=2,
         bounds='ChaseLevDeque<probe,2>, no wrap-around: owner push,push,pop,(join),pop; two stealers one try_steal each; 3 rounds'),
    dict(SEQ, name='chaselev_wrap', src='chaselev_race.cpp', rt_defs=RT(2, 1), defs={'VF_KIND': 1, 'VF_CAP': 1}, nthreads=2, steps=3, unwind=2,
         bounds='ChaseLevDeque<probe,1>, slot reuse: owner push,pop,push,(join),pop; one stealer try_steal; 3 rounds'),
    dict(SEQ, name='mpmc_reuse', src='mpmc_race.cpp', defs={'VF_KIND': 0}, rt_defs=RT(4, 2), nthreads=2, steps=3, unwind=3,
         bounds='MpmcRingBuffer<probe,2>: producer 3 emplaces (slot 0 reused), main 2 pops + drain; 3 rounds'),
    dict(SEQ, name='mpmc_2p', src='mpmc_race.cpp', defs={'VF_KIND': 1}, rt_defs=RT(4, 2), nthreads=4, steps=3, unwind=3,
         bounds='MpmcRingBuffer<probe,2>: two producers 1 emplace each, consumer 2 pops, drain by main; 3 rounds'),
]
