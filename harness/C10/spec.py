TECHNIQUE = ('bounded symbolic execution of LLVM IR lowered to C: CBMC/SAT (cadical) over a sequentialised step machine '
             '(engine cbmc-seq), with an in-model vector-clock happens-before detector (rt/race_rt.c) that derives '
             'synchronises-with edges from the DECLARED memory orders of the real code')
ASSUMPTIONS = ['an atomic load reads from the latest store in the explored (sequentially consistent) interleaving; '
               'happens-before edges come only from the declared orders (release/acquire/acq_rel/seq_cst on the same atomic object, '
               'release sequences through RMWs and -- C++11..17 rule, the language level of dispenso -- through later stores of the '
               'releasing thread, release/acquire/seq_cst fences), thread start/join and mutexes; seq_cst operations and fences add no '
               'happens-before edge beyond their acquire/release part',
               'plain accesses are observed through race probes: in the payload type (constructors, assignments, destructor) for the '
               'containers, on harness variables for the lock / event kernels; probes sit only where the documented thread-safety '
               'contract promises race freedom',
               'ChaseLevDeque requires a trivially copyable T: the probing payload is declared trivially copyable to the library by '
               'specialising std::is_trivially_copyable in the harness (only the copy assignments of try_push/try_pop/try_steal are observed, '
               'not the memcpy of try_pop_into/try_steal_into)',
               'thread-safety contracts used: SPSCRingBuffer one producer + one consumer; MpmcRingBuffer any; ChaseLevDeque owner push/pop, '
               'any thread steal; AsyncRequest multiple producers and consumers (async_request.h:27); Latch/CompletionEventImpl/RWLock any']
OUTSIDE = ('only the listed kernels (SPSCRingBuffer, MpmcRingBuffer, ChaseLevDeque, AsyncRequest, CompletionEventImpl, Latch, RWLock) within '
           'the stated thread/operation counts and scheduler rounds are covered; all other dispenso code (thread pool, task sets, futures, '
           'parallel_for incl. the dynamic no-wait tail, ConcurrentVector / ConcurrentObjectArena -- whose docs leave element synchronisation to '
           'the user --, SmallBufferAllocator, pipelines, graphs) is NOT covered; stale reads / reorderings that only a weak-memory execution '
           'shows are not modelled (explored interleavings are sequentially consistent, happens-before is computed from the declared orders); '
           'plain accesses of the library other than payload accesses (e.g. internal plain fields) are not observed; the C++20 release-sequence '
           'rule is only an informational instance (tier cxx20)')
SEQ = {'engine': 'cbmc-seq', 'spin_loops': True, 'timeout': 1700, 'thorough': {'steps': 4}}
TH = ['thorough']   # heavier variants: thorough tier only


def RT(atoms, probes, **kw):
    # sizes of the detector's tables (powers of two; a full table is an rt: failure, never silent)
    d = {'VF_RACE': 1, 'VF_RACE_ATOMS': atoms, 'VF_RACE_PROBES': probes}
    d.update(kw)
    return d


INSTANCES = [
    dict(SEQ, name='spsc', src='spsc_race.cpp', rt_defs=RT(2, 2), nthreads=2, steps=3, unwind=3,
         bounds='SPSCRingBuffer<probe,1> (2 slots): producer 3 emplaces, consumer 2 pops, drain by main; 3 rounds'),
    dict(SEQ, name='async', src='async_race.cpp', rt_defs=RT(1, 4), nthreads=2, steps=3, unwind=2,
         bounds='AsyncRequest<probe>: producer 2x tryEmplaceUpdate; main request/get/request/get (+ final get); 3 rounds'),
    dict(SEQ, name='async_c2', src='async_race.cpp', rt_defs=RT(1, 4), defs={'VF_CONSUMERS': 2}, nthreads=3, steps=3, unwind=2,
         bounds='AsyncRequest<probe>: producer 2x tryEmplaceUpdate; two consumers (main: request+get, T2: request+get); 3 rounds'),
    dict(SEQ, name='event', src='event_race.cpp', rt_defs=RT(1, 1), defs={'VF_KIND': 0}, nthreads=3, steps=3, unwind=2,
         bounds='CompletionEventImpl: writer plain store + notify(1); two readers wait(1) + plain read; 3 rounds'),
    dict(SEQ, name='latch', src='event_race.cpp', rt_defs=RT(1, 2), defs={'VF_KIND': 1}, nthreads=3, steps=3, unwind=2,
         bounds='Latch(2): two writers plain store + count_down(); main wait() + plain reads; 3 rounds'),
    dict(SEQ, name='latch_aw', src='event_race.cpp', rt_defs=RT(1, 2), defs={'VF_KIND': 2}, nthreads=2, steps=3, unwind=2,
         bounds='Latch(2): two threads plain store + arrive_and_wait() + read of the peer value; 3 rounds'),
    dict(SEQ, name='rwlock', src='rwlock_race.cpp', rt_defs=RT(1, 1), defs={'VF_KIND': 0}, nthreads=3, steps=3, unwind=2,
         bounds='RWLock: T1 lock/write/unlock, T2 lock_shared/read/unlock_shared, main try_lock_shared/read; 3 rounds'),
    dict(SEQ, name='rwlock_try', src='rwlock_race.cpp', rt_defs=RT(1, 1), defs={'VF_KIND': 1}, nthreads=3, steps=3, unwind=2,
         bounds='RWLock: T1 try_lock/write/unlock, T2 lock_shared/read/unlock_shared, main lock/write/unlock; 3 rounds'),
    dict(SEQ, name='rwlock_updown', tiers=TH, src='rwlock_race.cpp', rt_defs=RT(1, 1), defs={'VF_KIND': 2}, nthreads=3, steps=3, unwind=2,
         bounds='RWLock: main lock_shared/read/lock_upgrade/write/lock_downgrade/read/unlock_shared, T1 try_lock_shared, T2 lock_shared; 3 rounds'),
    dict(SEQ, name='chaselev', src='chaselev_race.cpp', rt_defs=RT(2, 2), defs={'VF_KIND': 0, 'VF_CAP': 2}, nthreads=3, steps=3, unwind=2,
         bounds='ChaseLevDeque<probe,2>, no wrap-around: owner push,push,pop,(join),pop; two stealers one try_steal each; 3 rounds'),
    # informational, not part of quick/thorough: the same program judged by the C++20 release-sequence rule (P0982R1) -- fails, see NOTES.md
    dict(SEQ, name='chaselev_cxx20', src='chaselev_race.cpp', rt_defs=RT(2, 2, VF_RACE_CXX20=1), defs={'VF_KIND': 0, 'VF_CAP': 2},
         nthreads=3, steps=3, unwind=2, tiers=['cxx20'],
         bounds='as chaselev, but later plain stores of the releasing thread do not continue a release sequence (C++20)'),
    dict(SEQ, name='chaselev_wrap', src='chaselev_race.cpp', rt_defs=RT(2, 1), defs={'VF_KIND': 1, 'VF_CAP': 1}, nthreads=2, steps=3, unwind=2,
         bounds='ChaseLevDeque<probe,1>, slot reuse: owner push,pop,push,(join),pop; one stealer try_steal; 3 rounds'),
    dict(SEQ, name='mpmc_pub', src='mpmc_race.cpp', defs={'VF_KIND': 2}, rt_defs=RT(4, 2), nthreads=2, steps=3, unwind=2,
         bounds='MpmcRingBuffer<probe,2>: producer 1 emplace, main 1 pop concurrently + 1 pop after join; 3 rounds'),
    dict(SEQ, name='mpmc_reuse', tiers=TH, src='mpmc_race.cpp', defs={'VF_KIND': 0}, rt_defs=RT(4, 2), nthreads=2, steps=3, unwind=2,
         bounds='MpmcRingBuffer<probe,2>: producer 3 emplaces (slot 0 reused), main 1 pop concurrently + 2 pops after join; 3 rounds'),
    dict(SEQ, name='mpmc_2p', tiers=TH, src='mpmc_race.cpp', defs={'VF_KIND': 1}, rt_defs=RT(4, 2), nthreads=4, steps=3, unwind=2,
         bounds='MpmcRingBuffer<probe,2>: two producers 1 emplace each, consumer 2 pops, 1 pop by main after join; 3 rounds'),
]
