// C10 (kernel: SPSCRingBuffer): the element constructed by the producer is moved out and destroyed
// by the consumer, and the slot is constructed again by the producer once head_ moved on. Every such
// pair of plain accesses must be ordered by the declared orders of tail_ (publication) and head_
// (slot hand-back). Capacity 1 -> 2 slots, so the third push reuses slot 0.
#include <dispenso/spsc_ring_buffer.h>
#include "vf.h"
#include "probe.h"

using Ring = dispenso::SPSCRingBuffer<Probe, 1>;
static Ring R;

static void consumer(void*) {
  Probe out{Probe::Private{}};
  R.try_pop(out);
  R.try_pop(out);
}

extern "C" void vf_main() {
  {
    VfAtomic noPreempt;  // the warm-up must run in one piece so that the detector's key tables stay constant
    warm_atomic(R.head_);
    warm_atomic(R.tail_);
    warm_probe(R.elementAt(0));
    warm_probe(R.elementAt(1));
  }
  vf_spawn(consumer, nullptr);
  R.try_emplace(1);   // slot 0
  R.try_emplace(2);   // slot 1 (only after a pop: capacity 1)
  R.try_emplace(3);   // slot 0 again
  vf_join_all();
  Probe out{Probe::Private{}};
  while (R.try_pop(out)) {
  }
}
