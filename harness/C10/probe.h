// C10 payload with race probes (see harness/common/race_probe.h, rt/race_rt.c).  Differences:
//  * objects constructed with Probe::Private{} are thread-private destinations/sources of the harness
//    (e.g. the `out` argument of try_pop): accesses to them are not probed, which keeps the detector's
//    probe table down to the shared slots;
//  * warm-up helpers: touching every atomic object and every shared probe address once in vf_main
//    before the first spawn makes the detector's tables constant (10x cheaper, see rt/race_rt.c).
#pragma once
#include <atomic>
#include <cstdint>
#include "vf.h"

struct Probe {
  struct Private {};
  int32_t v;
  bool priv;
  void w() const { if (!priv) vf_race_write(this); }
  void r() const { if (!priv) vf_race_read(this); }
  Probe() noexcept : v(0), priv(false) { w(); }
  explicit Probe(Private) noexcept : v(0), priv(true) {}
  explicit Probe(int32_t x) noexcept : v(x), priv(false) { w(); }
  Probe(const Probe& o) noexcept : v(o.v), priv(false) { o.r(); w(); }
  Probe(Probe&& o) noexcept : v(o.v), priv(false) { o.w(); w(); }
  Probe& operator=(const Probe& o) noexcept { o.r(); w(); v = o.v; return *this; }
  Probe& operator=(Probe&& o) noexcept { o.w(); w(); v = o.v; return *this; }
  ~Probe() { w(); }
};

template <class A> static inline void warm_atomic(const A& a) { (void)a.load(std::memory_order_relaxed); }
static inline void warm_probe(const void* p) { vf_race_read(p); }
