TECHNIQUE = ('bounded symbolic execution of LLVM IR lowered to C: CBMC/SAT (cadical), sequentialised step machine '
             '(engine cbmc-seq: symbolic scheduler over all atomic operations / futex calls), ghost dispatch/invocation '
             'counters + allocation ledger')
ASSUMPTIONS = []
OUTSIDE = ''

def I(name, defs, steps, nthreads, bounds, **kw):
    d = {'name': name, 'src': 'then.cpp', 'engine': 'cbmc-seq', 'steps': steps, 'spin_loops': True, 'defs': defs,
         'unwind': 2, 'unwindset': {}, 'nthreads': nthreads, 'timeout': 1500, 'leak_check': True,
         'shims': ['moodycamel'], 'seq_unroll': True, 'devirt': True, 'tiers': ['quick', 'thorough'], 'bounds': bounds}
    d.update(kw)
    return d

INSTANCES = [
    I('then1', {'VF_REGISTRARS': 1, 'VF_CHECK_POOL': 0}, 2, 3, 'x'),
]
