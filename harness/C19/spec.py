TECHNIQUE = ('bounded symbolic execution of LLVM IR lowered to C: CBMC/SAT (cadical), sequentialised step machine '
             '(engine cbmc-seq: symbolic scheduler over all atomic operations / futex calls), ghost dispatch/invocation '
             'counters + small-buffer allocation ledger (size class of every block recorded)')
ASSUMPTIONS = [
    'small-buffer pool contract stub (harness/C18/sba_stub.h), model schedulables that only take the OnceFunction, hand-resolved run '
    'closure (`[this]{ run(); }` of makeOnceFunction -> direct call of the real FutureImplBase::run()) and exact virtual dispatch '
    '(spec key devirt) as in harness/C18/spec.py',
    'nobody waits on a continuation future while its antecedent is running on another thread (the closure would block inside a '
    'virtual call, which the engine cannot suspend)',
    'sequential consistency for all atomics',
]
OUTSIDE = ('STATUS: the concurrent instance (completer || registrar at atomic-operation granularity, which is the one that covers '
           'a continuation registered DURING completion and the lost-re-check / detach-without-CAS mutants) is written but did not '
           'fit into 14 GB / 25 minutes and is tier experimental: the delivered tiers decide the then() kernel only at task '
           'granularity (then() entirely before or entirely after the antecedent\'s run()); '
           'when_all / when_any and the TaskSet / ConcurrentTaskSet then() overloads are NOT encoded (claim reduced to the then() kernel '
           'over a generic schedulable); more than two continuations on one antecedent; chains of continuations (then().then()); waiters '
           'that run a continuation inline while its antecedent is running elsewhere; schedules needing more execution segments per '
           'thread than the stated scheduler rounds; CAS retry loops iterating more than once per segment; weak-memory reorderings')

RED = ['--no-standard-checks', '--pointer-check', '--div-by-zero-check']

CONC = ('registrar thread(s): then() on an own copy of a Future<int32_t> antecedent (continuation result int64_t; async / deferred '
        'policy bits symbolic), then drops the copy || completer thread: real FutureImplBase::run() of the antecedent || main: drops '
        'its reference before or after the join (symbolic); %d scheduler rounds (each thread <= %d execution segments, preemption '
        'before every atomic operation / futex call); all three orderings are witnessed (continuation dispatched by the completing '
        'thread / by the registrar\'s re-check / by then() at once); %s')
TAILS = {0: 'after the join only the dispatch counters are checked',
         1: 'after the join main runs the dispatched continuation (it reads its antecedent through is_ready()+result), drops every '
            'reference; ledger must be empty',
         2: 'after the join main runs the dispatched continuation, get()s its future, drops every reference; ledger must be empty'}


def I(name, regs, steps, tail, cont_get, **kw):
    d = {'name': name, 'src': 'then.cpp', 'engine': 'cbmc-seq', 'steps': steps, 'spin_loops': True,
         'defs': {'VF_REGISTRARS': regs, 'VF_CHECK_POOL': 0, 'VF_TAIL': tail, 'VF_CONT_GET': cont_get},
         'unwind': regs, 'nthreads': regs + 2, 'timeout': 1500, 'leak_check': tail >= 1, 'must_reach': 'all',
         'shims': ['moodycamel'], 'seq_unroll': True, 'devirt': True, 'checks': RED, 'tiers': ['quick', 'thorough'],
         'bounds': CONC % (steps, steps, TAILS[tail])}
    d.update(kw)
    return d


SEQB = ('Future<int32_t> antecedent over a queuing model schedulable; %d then() call(s) (continuation result int64_t, launch policies '
        'symbolic) and the antecedent\'s run() execute one after the other in a symbolic order (k then() calls before the completion, '
        'the rest after: task-granularity interleaving); main drops its reference early or late; afterwards main runs the dispatched '
        'continuation closures, get()s their futures and drops everything')


SEQB0 = ('Future<int32_t> antecedent over a queuing model schedulable; %d then() call(s) (continuation result int64_t, launch policies '
         'symbolic) and the antecedent\'s run() execute one after the other in a symbolic order (k then() calls before the completion, '
         'the rest after: task-granularity interleaving); main drops its reference early or late; dispatch counters checked')


def S(name, regs, pool, tiers, tail=2, cont_get=1):
    # engine cbmc-seq with a single thread and no preemption = sequential execution of the fully inlined harness (typed
    # allocation, constant-trip-count loops unrolled); the plain 'cbmc' engine keeps allocSmallOrLarge() out of line and sees
    # the shared states as untyped byte arrays (conversion did not finish in 10 minutes)
    return {'name': name, 'src': 'then.cpp', 'engine': 'cbmc-seq', 'steps': 1, 'nthreads': 1, 'preempts': 0, 'seq_unroll': True,
            'defs': {'VF_REGISTRARS': regs, 'VF_SEQ_ORDER': 1, 'VF_CHECK_POOL': pool, 'VF_TAIL': tail, 'VF_CONT_GET': cont_get},
            'unwind': regs, 'timeout': 1500, 'leak_check': tail >= 1, 'shims': ['moodycamel'], 'devirt': True, 'tiers': tiers,
            'spin_loops': True, 'checks': RED,
            'bounds': (SEQB if tail >= 1 else SEQB0) % regs +
                      ('; every small-buffer block must be released to the size class it was allocated from' if pool else '')}


INSTANCES = [
    # concurrent kernel: completer || registrar at atomic-operation granularity
    # NOT DECIDED: 2 rounds run out of memory (14 GB) in the propositional conversion, see NOTES.md; kept for the next round
    I('then1', 1, 2, 0, 0, tiers=['experimental']),
    # the same kernel at task granularity: then() and the antecedent's run() one after the other, order symbolic
    # (registered before completion / after completion); the "during" ordering needs the concurrent instance
    S('then1_kernel', 1, 0, ['quick', 'thorough'], tail=0),
    # allocator contract on the then() path (property C11: memory safe / allocator contract): the then-chain link is
    # allocated from the 32-byte class and released to the 8-byte class (future_impl.h:240, nextPow2(sizeof(this))).
    S('then1_order_pool', 1, 1, ['quick', 'thorough'], tail=0),
    # what happens after the dispatch (continuation runs once, sees the ready antecedent, result delivered, everything
    # released), and two continuations on one antecedent: task-granularity orders
    S('then1_order', 1, 0, ['experimental']),
    S('then2_order', 2, 0, ['experimental']),
    I('then1_tail', 1, 2, 1, 0, tiers=['experimental']),
    I('then2', 2, 2, 0, 0, tiers=['experimental']),
]
