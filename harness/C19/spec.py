TECHNIQUE = ('bounded symbolic execution of LLVM IR lowered to C: CBMC/SAT (cadical), sequentialised step machine '
             '(engine cbmc-seq: symbolic scheduler over all atomic operations / futex calls), ghost dispatch/invocation '
             'counters + allocation ledger')
ASSUMPTIONS = [
    'small-buffer pool contract stub (harness/C18/sba_stub.h), model schedulables with typed slots, hand-resolved run closure and exact '
    'virtual dispatch as in harness/C18/spec.py',
    'nobody waits on a continuation future while its antecedent is running on another thread (the closure would block inside a '
    'virtual call, which the engine cannot suspend)',
    'sequential consistency for all atomics',
]
OUTSIDE = ('STATUS: no instance of this spec completed within its timeout in the authoring session (see NOTES.md); '
           'when_all / when_any / task-set variants are not encoded (claim reduced to the then() kernel); more than two '
           'continuations; continuation chains; waiters that run a continuation inline; weak-memory reorderings')

def I(name, defs, steps, nthreads, bounds, **kw):
    d = {'name': name, 'src': 'then.cpp', 'engine': 'cbmc-seq', 'steps': steps, 'spin_loops': True, 'defs': defs,
         'unwind': 2, 'unwindset': {}, 'nthreads': nthreads, 'timeout': 1500, 'leak_check': True,
         'shims': ['moodycamel'], 'seq_unroll': True, 'devirt': True, 'tiers': ['quick', 'thorough'], 'bounds': bounds}
    d.update(kw)
    return d

SEQB = ('Future<int32_t> antecedent over a queuing model schedulable; %d then() call(s) (continuation result int64_t, launch policies '
        'symbolic) and the antecedent\'s run() execute one after the other in a symbolic order (k then() calls before the completion, '
        'the rest after: task-granularity interleaving); main drops its reference early or late; afterwards main runs the dispatched '
        'continuation closures, get()s their futures and drops everything')
def S(name, regs, pool, tiers):
    return {'name': name, 'src': 'then.cpp', 'engine': 'cbmc', 'defs': {'VF_REGISTRARS': regs, 'VF_SEQ_ORDER': 1, 'VF_CHECK_POOL': pool},
            'unwind': 8, 'timeout': 1500, 'leak_check': True, 'shims': ['moodycamel'], 'devirt': True, 'tiers': tiers,
            'spin_loops': True, 'bounds': SEQB % regs + ('; small-buffer blocks must return to the pool they came from' if pool else '')}

INSTANCES = [
    S('then2_order', 2, 0, ['quick', 'thorough']),
    S('then1_order', 1, 0, ['quick', 'thorough']),
    # allocator contract on the then() path: fails on the unchanged tree (future_impl.h:240, see NOTES.md)
    S('then1_order_pool', 1, 1, ['finding']),
    # concurrent kernel (completer || registrar at atomic-operation granularity): not decided within 25 minutes here
    I('then1', {'VF_REGISTRARS': 1, 'VF_CHECK_POOL': 0}, 2, 3,
      'completer thread (antecedent run()) || registrar thread (then()) || main; 2 scheduler rounds', tiers=['experimental'],
      checks=['--no-standard-checks', '--pointer-check', '--div-by-zero-check']),
]
