// C19 (then() kernel): a continuation added with Future::then() is dispatched exactly once and only
// after its antecedent is ready, whether it is registered before, during or after the antecedent
// completes; it runs exactly once, sees the antecedent's value, and its result future delivers the
// continuation's result; all shared states and the then-chain link are released exactly once.
//
// Real code: dispenso::Future<int32_t>::then(F&&, Schedulable&, launch, launch),
//   detail::FutureBase<int32_t>::thenImpl, detail::createFutureImpl<int64_t>(closure),
//   detail::FutureImplBase<int32_t>::{addToThenChainOrExecute, tryExecuteThenChain,
//   ThenChain::scheduleDestroyAndGetNext, thenChainInvoke / thenChainInvokeAsync, run(), run(int),
//   wait, waitCommon, ready, incRefCount, decRefCountMaybeDestroy, makeOnceFunction},
//   the same members of FutureImplBase<int64_t> for the continuation's future,
//   FutureImplSmall<..>::{runFunc, dealloc} of both (virtual; exact dispatch, spec key 'devirt'),
//   the continuation closure of thenImpl (copy.wait(); f(std::move(copy))), Future copy / move /
//   destruction, CompletionEventImpl::notify, allocSmallBuffer / deallocSmallBuffer front end.
//
// Threads (concurrent mode): registrar(s) (model thread 1, 2: call then() on their own copy of the
// antecedent, then drop the copy), completer (last model thread: runs the body of the antecedent's
// queued run closure, the real FutureImplBase::run()), main (drops its reference early or late, and
// after the threads finished plays the continuation schedulable's worker).  Every atomic operation
// of run() / then() is a scheduling point.
//
// Model schedulables: both only take the OnceFunction (the closure `[this]{ run(); }` of
// makeOnceFunction is resolved to a direct call of the real run(), see harness/C18/future.cpp);
// the continuation's schedulable records who dispatched, in which state, and how often.
#include <chrono>
#include <cstdlib>
#include <new>
#include <dispenso/future.h>
#include "vf.h"

#ifndef VF_REGISTRARS
#define VF_REGISTRARS 1
#endif
#ifndef VF_SEQ_ORDER
#define VF_SEQ_ORDER 0  // 1: sequential engine, main plays the threads one after the other (order symbolic)
#endif
#ifndef VF_CHECK_POOL
#define VF_CHECK_POOL 1
#endif
#ifndef VF_TAIL
// what main does once every thread finished: 0 = only the dispatch checks; 1 = run the dispatched
// continuation closures, drop every reference, the allocation ledger must be empty; 2 = additionally
// get() on each continuation future and compare the delivered value
#define VF_TAIL 2
#endif
#ifndef VF_CONT_GET
// how the continuation body reads its antecedent: 1 = get(); 0 = is_ready() + the stored result
#define VF_CONT_GET 1
#endif
#define VF_MAXBLK (1 + 2 * VF_REGISTRARS)
#include "../C18/sba_stub.h"

using RA = int32_t;
using RC = int64_t;
using FutA = dispenso::Future<RA>;
using FutC = dispenso::Future<RC>;
using ImplA = dispenso::detail::FutureImplBase<RA>;
using ImplC = dispenso::detail::FutureImplBase<RC>;

enum { kCompleterTid = VF_REGISTRARS + 1 };  // model thread ids follow the spawn order

static int32_t g_runsA;
static int32_t g_val;
static int32_t g_runsC[2];
static ImplA* g_implA;

struct FnA {
  int32_t operator()() const {
    VfAtomic a;
    ++g_runsA;
    vf_check(g_runsA == 1, "antecedent functor is invoked a second time");
    return g_val;
  }
};

struct Cont {
  int32_t id;
  RC operator()(FutA&& a) const {
    VfAtomic g;
    ++g_runsC[id];
    vf_check(g_runsC[id] == 1, "continuation is invoked a second time");
    vf_check(g_runsA == 1, "continuation runs although the antecedent's functor has not run");
    vf_check(a.valid() && a.is_ready(), "continuation runs although its antecedent is not ready");
#if VF_CONT_GET
    RC v = a.get();
#else
    RC v = a.impl_->result();
#endif
    vf_check(v == g_val, "continuation sees the antecedent's result");
    return 2 * v + 1 + id;
  }
};

// antecedent's schedulable: always queues (the completer thread is its worker)
struct SchedA {
  int32_t n = 0;
  void schedule(dispenso::OnceFunction) {
    ++n;
  }
  void schedule(dispenso::OnceFunction, dispenso::ForceQueuingTag) {
    ++n;
  }
};
static SchedA g_schedA;

static int32_t g_order;  // which path dispatched (bit 1 completer, 2 registrar re-check, 4 then() at once)
static int g_who;  // sequential mode: the role main is playing (kCompleterTid completer, else registrar)
// continuation's schedulable: queues; records who dispatched and in which state
// (its counters are globals, not members: the chain walk reaches the schedulable through a `void*` stored in the link,
// and the link pointer itself went through an integer (std::atomic<ThenChain*> is accessed as i64): CBMC knows the object
// of such a pointer but not its offset, and a member update through it becomes an update of every candidate object at a
// symbolic offset.  Measured: 14 GB in conversion with member counters.)
static int32_t g_disp_n;
static int32_t g_disp_forced;
struct SchedC {
  int32_t unused = 0;
  static void put() {
    VfAtomic a;
    vf_check(g_implA->ready(), "continuation is dispatched to its schedulable although the antecedent is not ready");
    vf_check(g_disp_n < VF_REGISTRARS, "more continuations dispatched than registered (a continuation is dispatched twice)");
    ++g_disp_n;
    // (three separate statements: if/else-if arms would be merged into one call with a non-literal label)
    bool byCompleter = (VF_SEQ_ORDER ? g_who : vf_self()) == kCompleterTid;
    if (byCompleter) {
      vf_reach("continuation dispatched by the completing thread (registered before completion)");
    }
    g_order |= byCompleter ? 1 : (g_links > 0 ? 2 : 4);
    if (!byCompleter && g_links > 0) {
      vf_reach("continuation dispatched by the registrar's re-check (registered during completion)");
    }
    g_order |= 8;
    if (!byCompleter && g_links == 0) {
      vf_reach("continuation dispatched by then() at once (registered after completion)");
    }
  }
  void schedule(dispenso::OnceFunction) {
    put();
  }
  void schedule(dispenso::OnceFunction, dispenso::ForceQueuingTag) {
    ++g_disp_forced;
    put();
  }
};
static SchedC g_schedC;

union SlotA {
  FutA f;
  SlotA() {}
  ~SlotA() {}
};
union SlotC {
  FutC f;
  SlotC() {}
  ~SlotC() {}
};
static SlotA g_a[3];  // 0: main's antecedent, 1/2: the registrars' copies
static SlotC g_c[2];  // continuation futures
static bool g_async[2];
static bool g_deferred[2];

static void completer(void*) {
  // the stored closure is `[this]() { run(); }` of the antecedent's shared state
  g_implA->run();
}

static inline void registrar_ops(int k) {
  new (&g_c[k].f) FutC(g_a[1 + k].f.then(Cont{k}, g_schedC, g_async[k] ? std::launch::async : dispenso::kNotAsync,
                                        g_deferred[k] ? std::launch::deferred : dispenso::kNotDeferred));
  g_a[1 + k].f.~FutA();
}
static void registrar0(void*) {
  registrar_ops(0);
}
static void registrar1(void*) {
  registrar_ops(1);
}

extern "C" void vf_main() {
  g_async[0] = vf_nondet_bool();
  g_deferred[0] = vf_nondet_bool();
#if VF_REGISTRARS >= 2
  g_async[1] = vf_nondet_bool();
  g_deferred[1] = vf_nondet_bool();
#endif
  bool dropEarly = vf_nondet_bool();
  g_val = (int32_t)vf_nondet_u32();

  new (&g_a[0].f) FutA(FnA(), g_schedA, std::launch::async, std::launch::deferred);
  g_implA = g_a[0].f.impl_;
  new (&g_a[1].f) FutA(g_a[0].f);
#if VF_REGISTRARS >= 2
  new (&g_a[2].f) FutA(g_a[0].f);
#endif
#if VF_SEQ_ORDER
  // task-granularity interleaving: the completer's run() and the registrars' then() calls execute one
  // after the other in a symbolic order
  {
    uint32_t pos = vf_range_u32(0, VF_REGISTRARS);  // number of then() calls before the completion
    if (dropEarly) {
      g_a[0].f.~FutA();
    }
    g_who = 1;
    if (pos >= 1) registrar0(nullptr);
#if VF_REGISTRARS >= 2
    if (pos >= 2) registrar1(nullptr);
#endif
    g_who = kCompleterTid;
    completer(nullptr);
    g_who = 1;
    if (pos < 1) registrar0(nullptr);
#if VF_REGISTRARS >= 2
    if (pos < 2) registrar1(nullptr);
#endif
  }
#else
  vf_spawn(registrar0, nullptr);
#if VF_REGISTRARS >= 2
  vf_spawn(registrar1, nullptr);
#endif
  vf_spawn(completer, nullptr);
  if (dropEarly) {
    g_a[0].f.~FutA();
  }
  vf_join_all();
#endif
  vf_reach("all threads finished");

  vf_check(g_runsA == 1, "antecedent functor ran exactly once");
  vf_check(g_disp_n == VF_REGISTRARS, "every continuation was dispatched to its schedulable exactly once (none lost)");
  int32_t wantForced = (g_async[0] ? 1 : 0) + ((VF_REGISTRARS >= 2 && g_async[1]) ? 1 : 0);
  vf_check(g_disp_forced == wantForced, "std::launch::async continuations are dispatched with the forcing tag, others without");
  vf_check(g_runsC[0] == 0 && g_runsC[1] == 0, "continuations do not run before their schedulable runs them (nobody waited on them)");
  vf_check(g_links == g_link_frees, "every then-chain link was released");
  vf_check(g_implA->thenChain_.load(std::memory_order_relaxed) == nullptr, "the then-chain is empty once completer and registrars finished");

#if VF_TAIL >= 1
  // main plays the continuation schedulable's worker: run the dispatched run closures
  for (int k = 0; k < VF_REGISTRARS; ++k) {
    ImplC* ic = g_c[k].f.impl_;
    vf_check(!g_c[k].f.is_ready(), "continuation future is not ready before its functor ran");
    ic->run();
    vf_check(g_runsC[k] == 1, "continuation ran exactly once");
    vf_check(g_c[k].f.is_ready(), "continuation future is ready after its functor ran");
#if VF_TAIL >= 2
    RC r = g_c[k].f.get();
    vf_check(r == 2 * (RC)g_val + 1 + k, "continuation future delivers the continuation's result");
    vf_check(g_runsC[k] == 1, "get() on the continuation future does not run the continuation again");
#endif
    g_c[k].f.~FutC();
  }
  if (!dropEarly) {
    vf_check(g_a[0].f.is_ready(), "antecedent is ready");
    g_a[0].f.~FutA();
  }
  vf_check(g_live_blocks == 0, "all shared states and then-chain links are released after the last reference is dropped");
#endif
  vf_reach("end of harness");
}
