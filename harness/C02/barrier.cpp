// C02 - task-set wait()/tryWait()/destructor is a completion barrier.
// Real TaskSet (VF_SET=0) / ConcurrentTaskSet (VF_SET=1, VF_COST 0 kLightweight / 1 kHeavy = the
// schedulePlaced / scheduleBulkImplPlaced route) from /repo, compiled unchanged against the contract
// ThreadPool of harness/C04/shim (VF_POOL_N threads, virtual workers), sequential engine.
// The owner does 1..VF_NSUB submissions, each symbolically one of (bit k of VF_OPMASK enables op k)
//   0 schedule(f)   1 schedule(f, ForceQueuingTag)   2 scheduleBulk(n, gen)   3 scheduleBulk(n, gen, FQ)
// (n in 1..VF_BULK_MAX), from a symbolic load pre-state (caller is / is not a pool thread, inline
// depth, other pool work pending, load multiplier); after every submission a virtual worker runs
// <= VF_WSTEPS stored tasks (central queue / rings, symbolic); with VF_NEST one symbolically chosen
// body schedules one more task to the same ConcurrentTaskSet while it runs (fork-join recursion);
// with VF_CANCEL the owner may cancel() between submissions.  Then VF_FIN: 0 wait(), 1 tryWait(k)
// (k in 0..VF_TW_MAX) followed by wait(), 2 nothing (the destructor is the barrier); the destructor
// always runs.
// Assertions (labels below): at wait() return / tryWait()==true / destructor return every body
// submitted before has finished, each body ran exactly once (at most once and only-if-not-cancelled
// when cancel() was used), outstanding count 0; at every quiescent point the outstanding count equals
// the number of queued-and-not-yet-executed tasks; tryWait(k) executes <= k pool tasks and returns
// false only if a task is unfinished (or the set is cancelled: documented).
#include "../C04/ts_kit.h"

#ifndef VF_SET
#define VF_SET 1
#endif
#ifndef VF_COST
#define VF_COST 1
#endif
#ifndef VF_NSUB
#define VF_NSUB 2
#endif
#ifndef VF_BULK_MAX
#define VF_BULK_MAX 2
#endif
#ifndef VF_OPMASK
#define VF_OPMASK 15
#endif
#ifndef VF_WSTEPS
#define VF_WSTEPS 1
#endif
#ifndef VF_NEST
#define VF_NEST 0
#endif
#ifndef VF_CANCEL
#define VF_CANCEL 0
#endif
#ifndef VF_FIN
#define VF_FIN 0
#endif
#ifndef VF_TW_MAX
#define VF_TW_MAX 3
#endif
#ifndef VF_CTX
#define VF_CTX 1
#endif

#if VF_SET == 0
using Set = dispenso::TaskSet;
#define SET_ARGS pool, dispenso::ParentCascadeCancel::kOff, mult
#else
using Set = dispenso::ConcurrentTaskSet;
#define SET_ARGS                                      \
  pool, dispenso::ParentCascadeCancel::kOff, mult, \
      (VF_COST ? dispenso::TaskCost::kHeavy : dispenso::TaskCost::kLightweight)
#endif

#define MAXT (VF_NSUB * VF_BULK_MAX + 1)

// ghost state
static uint8_t g_sub[MAXT];    // id handed to a scheduling call (before the call)
static uint8_t g_start[MAXT];  // body started (count)
static uint8_t g_fin[MAXT];    // body finished (count)
static uint32_t g_next;        // next unused id
static Set* g_set;
static uint32_t g_nestFrom;    // id of the body that schedules one more task (MAXT: none)
static uint32_t g_nestOp;      // how it does that
static uint32_t g_nestQueued;  // nested tasks that were queued (not run inside the nested call)
static bool g_cancelled;

// Task functors carry their id.  The copy constructors are user-provided on purpose: a trivially
// copyable functor makes the packaged closure {this, f} a 16-byte memcpy, and CBMC then loses the
// captured `this` pointer to byte-level reasoning (symbolic execution does not finish).
struct Leaf {
  uint32_t id;
  explicit Leaf(uint32_t i) : id(i) {}
  Leaf(const Leaf& o) : id(o.id) {}
  void operator()() const {
    g_start[id]++;
    g_fin[id]++;
  }
};

struct Body {
  uint32_t id;
  explicit Body(uint32_t i) : id(i) {}
  Body(const Body& o) : id(o.id) {}
  void operator()() const {
    g_start[id]++;
#if VF_NEST
    if (id == g_nestFrom && g_next < MAXT) {
      uint32_t nid = g_next++;
      g_sub[nid] = 1;
      uint32_t n0 = g_set->pool().n_;
      if (g_nestOp == 0) {
        g_set->schedule(Leaf(nid));
      } else {
        g_set->schedule(Leaf(nid), dispenso::ForceQueuingTag());
      }
      if (g_set->pool().n_ != n0) {
        g_nestQueued++;
      }
    }
#endif
    g_fin[id]++;
  }
};

struct Gen {
  uint32_t base;
  Body operator()(size_t i) const {
    return Body(base + (uint32_t)i);
  }
};

VF_NOINLINE static uint32_t queuedInPool(dispenso::ThreadPool& pool) {
  uint32_t q = 0;
  for (uint32_t i = 0; i < VF_PQ_CAP; ++i) {
    if (i < pool.n_ && pool.slot_[i] != nullptr) {
      ++q;
    }
  }
  return q;
}

VF_NOINLINE static uint32_t unfinished() {
  uint32_t u = 0;
  for (uint32_t i = 0; i < MAXT; ++i) {
    if (g_sub[i] && !g_fin[i]) {
      ++u;
    }
  }
  return u;
}

VF_NOINLINE static void quiescent(Set& ts, dispenso::ThreadPool& pool) {
  vf_check(
      ts.outstandingTaskCount_.load() == (ssize_t)queuedInPool(pool),
      "outstanding count equals the number of queued, not yet executed tasks of the set");
}

VF_NOINLINE static void submit(Set& ts) {
  uint32_t op = vf_range_u32(0, 3);
  vf_assume((VF_OPMASK >> op) & 1);
  if (((VF_OPMASK >> 0) & 1) && op == 0) {
    uint32_t id = g_next++;
    g_sub[id] = 1;
    ts.schedule(Body(id));
  } else if (((VF_OPMASK >> 1) & 1) && op == 1) {
    uint32_t id = g_next++;
    g_sub[id] = 1;
    ts.schedule(Body(id), dispenso::ForceQueuingTag());
  } else if ((VF_OPMASK >> 2) & 3) {
    uint32_t n = vf_range_u32(1, VF_BULK_MAX);
    uint32_t base = g_next;
    g_next += n;
    for (uint32_t i = 0; i < VF_BULK_MAX; ++i) {
      if (i < n) {
        g_sub[base + i] = 1;
      }
    }
    // concrete counts per call (lets the symbolic executor prune what the count excludes)
    if (((VF_OPMASK >> 2) & 1) && op == 2) {
      if (n == 1) {
        ts.scheduleBulk(1, Gen{base});
      } else if (n == 2) {
        ts.scheduleBulk(2, Gen{base});
      }
#if VF_BULK_MAX >= 3
      else {
        ts.scheduleBulk(3, Gen{base});
      }
#endif
    } else if (((VF_OPMASK >> 3) & 1) && op == 3) {
      if (n == 1) {
        ts.scheduleBulk(1, Gen{base}, dispenso::ForceQueuingTag());
      } else if (n == 2) {
        ts.scheduleBulk(2, Gen{base}, dispenso::ForceQueuingTag());
      }
#if VF_BULK_MAX >= 3
      else {
        ts.scheduleBulk(3, Gen{base}, dispenso::ForceQueuingTag());
      }
#endif
    }
  }
}

// the barrier: every submitted body finished, exactly once
VF_NOINLINE static void barrier(uint32_t p) {
  if (g_sub[p]) {
    vf_check(g_fin[p] >= 1 || g_cancelled, "a body scheduled before the call has not finished at the barrier");
    vf_check(g_fin[p] <= 1, "a task body ran more than once");
    vf_check(g_start[p] == g_fin[p], "a body was started but not finished at the barrier");
  } else {
    vf_check(g_start[p] == 0, "a body ran that was never scheduled");
  }
}

VF_NOINLINE static void finish(Set& ts, dispenso::ThreadPool& pool, uint32_t p) {
#if VF_FIN == 1
  {
    uint32_t k = vf_range_u32(0, VF_TW_MAX);
    ssize_t wr0 = pool.workRemaining_.load();
    uint32_t nq0 = g_nestQueued;
    bool done = ts.tryWait((size_t)k);
    ssize_t executed = (wr0 - pool.workRemaining_.load()) + (ssize_t)(g_nestQueued - nq0);
    vf_check(executed <= (ssize_t)k, "tryWait(maxToExecute) executed more than maxToExecute pool tasks");
    if (done) {
      barrier(p);
      vf_check(ts.outstandingTaskCount_.load() == 0, "outstanding count is 0 when tryWait() returns true");
      vf_check(!g_cancelled, "tryWait() returns false on a cancelled set");
    } else {
      vf_check(
          g_cancelled || unfinished() > 0,
          "tryWait() returned false although every scheduled task had finished");
    }
    quiescent(ts, pool);
  }
#endif
#if VF_FIN != 2
  bool c = ts.wait();
  barrier(p);
  vf_check(ts.outstandingTaskCount_.load() == 0, "outstanding count is 0 when wait() returns");
  vf_check(c == g_cancelled, "wait() returns whether the set was cancelled");
  vf_check(queuedInPool(pool) == 0, "a task of the set is still queued when wait() returns");
#endif
}

extern "C" void vf_main() {
  dispenso::ThreadPool pool(VF_POOL_N);
  tskit::CallerCtx ctx(pool);
  ssize_t mult = (ssize_t)vf_range_u32(1, 4);
  g_next = 0;
  g_nestQueued = 0;
  g_cancelled = false;
  g_nestFrom = VF_NEST ? vf_range_u32(0, MAXT) : MAXT;
  g_nestOp = VF_NEST ? vf_range_u32(0, 1) : 0;
  uint32_t p = vf_range_u32(0, MAXT - 1);  // probe index: "for every task id"
  {
    Set ts(SET_ARGS);
    g_set = &ts;
#if VF_CTX
    ctx.makeSymbolic(pool);
#endif
    uint32_t nsub = vf_range_u32(1, VF_NSUB);
    for (uint32_t s = 0; s < VF_NSUB; ++s) {
      if (s < nsub) {
        submit(ts);
        quiescent(ts, pool);
        tskit::workerRun(pool, VF_WSTEPS);
        quiescent(ts, pool);
#if VF_CANCEL
        if (!g_cancelled && vf_nondet_bool()) {
          ts.cancel();
          g_cancelled = true;
        }
#endif
      }
    }
    finish(ts, pool, p);
  }
  // the destructor returned
  barrier(p);
  vf_check(queuedInPool(pool) == 0, "a task of the set is still queued after the destructor");
  vf_reach("end of barrier scenario");
}
