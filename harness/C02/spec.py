TECHNIQUE = ('bounded symbolic execution of LLVM IR lowered to C: CBMC/SAT (cadical), sequential engine, real task sets on a '
             'contract ThreadPool with virtual workers (task-granularity interleaving), ghost start/finish log per task id')
ASSUMPTIONS = [
    'dispenso::ThreadPool replaced by its contract model harness/C04/shim/dispenso/thread_pool.h (inline-or-queue decisions '
    'of the pool arbitrary; ForceQueuingTag queues unless the pool has 0 threads; tryExecuteNext* run one queued task; '
    'FIFO per source; <= VF_PQ_CAP queued tasks per run); the real task_set.h / detail/task_set_impl.h / task_set.cpp are '
    'compiled unchanged against it',
    'moodycamel::ProducerToken from the contract shim (identifies the producer only)',
    'schedule/wait/tryWait callers of one set are serial; tasks scheduled from inside a task (nested) go to a ConcurrentTaskSet',
]
OUTSIDE = ('task-granularity interleaving only: a worker finishing a task *while* wait() reads the counter (memory-order '
           'effects of the acquire/release pair on outstandingTaskCount_) is outside; real ThreadPool internals (rings, steal '
           'rings, wake protocol) are abstracted by the contract pool; futures / continuations bound to the set '
           '(FutureImplBase::run decrementing the set counter) are outside; more than VF_NSUB submissions, bulk counts > 3, '
           'nesting depth > 1, several task sets on one pool')

_POOL = {
    'engine': 'cbmc', 'shims': ['moodycamel', '../harness/C04/shim'],
    'repo_sources': ['dispenso/detail/per_thread_info.cpp', 'dispenso/task_set.cpp'],
    'spin_loops': True, 'checks': ['--no-standard-checks', '--div-by-zero-check', '--bounds-check'], 'timeout': 1700, 'must_reach': 'all',
}
_OPN = {0: 'schedule(f)', 1: 'schedule(f, ForceQueuingTag)', 2: 'scheduleBulk(n, gen)', 3: 'scheduleBulk(n, gen, ForceQueuingTag)'}
_FINN = {0: 'wait() then destructor', 1: 'tryWait(k<=%d), wait(), destructor', 2: 'destructor only'}


def bar(setk, pool, cost=1, fin=0, nsub=2, bulk=2, mask=15, wsteps=1, nest=0, cancel=0, tw=3, ctx=1,
        tiers=('thorough',), tag=''):
    name = '%s%s_p%d_f%d_s%db%d_m%d%s%s%s' % ('ts' if setk == 0 else 'cts', '' if setk == 0 else ('H' if cost else 'L'), pool, fin,
                                             nsub, bulk, mask, '_nest' if nest else '', '_canc' if cancel else '', tag)
    maxt = nsub * bulk + 1
    defs = {'VF_SET': setk, 'VF_POOL_N': pool, 'VF_COST': cost, 'VF_FIN': fin, 'VF_NSUB': nsub, 'VF_BULK_MAX': bulk,
            'VF_OPMASK': mask, 'VF_WSTEPS': wsteps, 'VF_NEST': nest, 'VF_CANCEL': cancel, 'VF_TW_MAX': tw, 'VF_CTX': ctx,
            'VF_MQ_CAP': 1, 'VF_PQ_CAP': maxt}
    ops = ', '.join(_OPN[k] for k in range(4) if (mask >> k) & 1)
    b = ('%s%s on the contract pool with %d threads; 1..%d submissions each one of {%s} (bulk n in 1..%d) from a symbolic load '
         'pre-state (load multiplier 1..4%s); <=%d virtual-worker step(s) (central queue / rings) after each submission%s%s; then %s; '
         '<= %d tasks per run; task-granularity interleaving (sequential engine, virtual workers)'
         % ('TaskSet' if setk == 0 else 'ConcurrentTaskSet', '' if setk == 0 else (' kHeavy (placed route)' if cost else ' kLightweight'),
            pool, nsub, ops, bulk,
            ', caller is/is not a pool thread, inline depth 0..33, 0..4096 other pool tasks pending' if ctx else '',
            wsteps, '; one symbolically chosen body schedules one more task (schedule(f) / schedule(f, FQ)) to the same set' if nest else '',
            '; cancel() possible after any submission' if cancel else '',
            (_FINN[fin] % tw) if fin == 1 else _FINN[fin], maxt))
    d = dict(_POOL)
    loops = maxt + 1
    outer = 3 if nest else 2
    d.update({'name': name, 'src': 'barrier.cpp', 'defs': defs, 'bounds': b, 'tiers': list(tiers),
              'unwind': max(bulk, wsteps, 2) + 1,
              # harness / pool-model loops with constant trip counts
              'unwind_fn': {'_ZN8dispenso10ThreadPool11popMatchingEjjb': loops, '_ZN8dispenso10ThreadPoolC2Emm': loops,
                            '_ZL12queuedInPoolRN8dispenso10ThreadPoolE': loops, '_ZL10unfinishedv': loops,
                            '_ZN8dispenso17ConcurrentTaskSet7tryWaitEm': tw + 2, '_ZN8dispenso7TaskSet7tryWaitEm': tw + 2,
                            '_ZN8dispenso10ThreadPoolD2Ev': 2},
              # wait(): the drain loops must be able to run every queued task and see the empty queue (maxt + 1); the outer
              # loop (and the pseudo-loop "central queue empty -> rings") runs once, twice when a ring task queues a nested task
              'unwindset': dict([('_ZN8dispenso17ConcurrentTaskSet4waitEv.%d' % i, v) for i, v in enumerate([outer, loops, loops, outer])] +
                                [('_ZN8dispenso7TaskSet4waitEv.%d' % i, v) for i, v in enumerate([outer, loops, outer, loops, loops, outer])])})
    return d


_Q = ('quick', 'thorough')
INSTANCES = [
    # quick tier: one submission (all four entry points split over two masks), both set kinds, wait / tryWait / destructor
    bar(1, 1, cost=1, fin=0, nsub=1, mask=3, tiers=_Q),
    bar(0, 1, fin=0, nsub=1, mask=3, tiers=_Q),
    # measured too slow for the quick tier on the shared machine (600 s / > 900 s with 6 instances in parallel): thorough only
    bar(1, 1, cost=1, fin=0, nsub=2, mask=5), bar(1, 2, cost=0, fin=1, nsub=1, mask=12), bar(0, 2, fin=2, nsub=1, mask=12),
    bar(1, 1, cost=1, fin=0, nsub=1, mask=3, nest=1),
    # thorough tier: two / three submissions, remaining combinations, cancel()
    bar(1, 1, cost=1, fin=0, nsub=2, mask=15), bar(0, 1, fin=0, nsub=2, mask=15), bar(1, 2, cost=0, fin=1, nsub=2, mask=15),
    bar(0, 2, fin=1, nsub=2, mask=15), bar(1, 0, cost=1, fin=0, nsub=2, mask=15), bar(0, 0, fin=2, nsub=2, mask=15),
    bar(1, 2, cost=1, fin=2, nsub=2, mask=15, nest=1), bar(1, 1, cost=0, fin=1, nsub=2, mask=3, nest=1),
    bar(1, 1, cost=1, fin=0, nsub=2, mask=15, cancel=1), bar(0, 1, fin=1, nsub=2, mask=15, cancel=1),
    bar(1, 1, cost=1, fin=0, nsub=3, bulk=2, mask=3), bar(0, 2, fin=0, nsub=3, bulk=2, mask=5),
    bar(1, 2, cost=0, fin=0, nsub=1, bulk=3, mask=12), bar(0, 1, fin=0, nsub=1, bulk=3, mask=12),
]
