// C33 (task-granularity interleaving, sequential): two logical growers whose growth calls
// (emplace_back / push_back / grow_by(n, v) / grow_by_generator / grow_to_at_least) are interleaved at
// API-call granularity in a symbolic order.  Every added element gets a distinct index, nothing is
// overwritten, the final size equals the total growth, and the address of an already published
// element never changes.  (The instruction-level interleaving of two growers inside the allocation
// step is not covered here, see NOTES.md.)
//
// Real code: ConcurrentVector<Elem, Traits>::{ctor, emplace_back, push_back, grow_by(n, v),
// grow_by_generator, grow_to_at_least(n, v), operator[], size, begin, iterator difference, dtor},
// ConVecBuffer::allocAsNecessary (both forms).
#include <new>
#include <utility>
#include "../C32/cv_alloc_model.h"
#include <dispenso/concurrent_vector.h>
#include "tracked.h"

VfCounters g_cnt;
struct Elem : Tracked {
  Elem() noexcept : Tracked(-1) {}
  explicit Elem(int32_t x) noexcept : Tracked(x) {}
};
namespace dispenso {
template <>
struct DefaultConcurrentVectorSizeTraits<Elem> {
  static constexpr size_t kDefaultCapacity = 2;
  static constexpr size_t kMaxVectorSize = 32;
};
} // namespace dispenso
using dispenso::ConcurrentVectorReallocStrategy;
#ifndef VF_STRATEGY
#define VF_STRATEGY 2
#endif
#ifndef VF_FASTITER
#define VF_FASTITER 0
#endif
struct Tr {
  static constexpr bool kPreferBuffersInline = true;
  static constexpr ConcurrentVectorReallocStrategy kReallocStrategy =
      VF_STRATEGY == 0 ? ConcurrentVectorReallocStrategy::kFullBufferAhead
                       : (VF_STRATEGY == 1 ? ConcurrentVectorReallocStrategy::kHalfBufferAhead
                                           : ConcurrentVectorReallocStrategy::kAsNeeded);
  static constexpr bool kIteratorPreferSpeed = VF_FASTITER != 0;
};
using Vec = dispenso::ConcurrentVector<Elem, Tr>;

#ifndef VF_CALLS
#define VF_CALLS 3
#endif
#ifndef VF_MAXN
#define VF_MAXN 6
#endif

struct Gen {
  int32_t tag;
  Elem operator()() { return Elem(tag); }
};

static int32_t owner[VF_MAXN + 1];  // ghost: which grower's tag each index must hold
static uint32_t total;

extern "C" void vf_main() {
  {
    Vec v;
    uint32_t probe = vf_range_u32(0, VF_MAXN - 1);  // one symbolic element stands for "every element"
    Elem* probeAddr = nullptr;
    for (int call = 0; call < VF_CALLS; ++call) {
      int32_t who = vf_nondet_bool() ? 1 : 0;  // symbolic order: which grower performs this call
      int32_t tag = 100 + who;
      uint32_t kind = vf_range_u32(0, 4);
      uint32_t before = total;
      uint32_t d = 1;
      ssize_t pos = -1;
      switch (kind) {
        case 0: {
          vf_assume(total + 1 <= VF_MAXN);
          auto it = v.emplace_back(tag);
          pos = it - v.begin();
          break;
        }
        case 1: {
          vf_assume(total + 1 <= VF_MAXN);
          Elem e(tag);
          auto it = v.push_back(e);
          pos = it - v.begin();
          break;
        }
        case 2: {
          d = vf_range_u32(0, VF_MAXN);
          vf_assume(total + d <= VF_MAXN);
          Elem e(tag);
          auto it = v.grow_by(d, e);
          pos = it - v.begin();
          break;
        }
        case 3: {
          d = vf_range_u32(0, VF_MAXN);
          vf_assume(total + d <= VF_MAXN);
          auto it = v.grow_by_generator(d, Gen{tag});
          pos = it - v.begin();
          break;
        }
        default: {
          uint32_t n = vf_range_u32(1, VF_MAXN);
          vf_assume(n > total);  // the growing branch
          d = n - total;
          Elem e(tag);
          auto it = v.grow_to_at_least(n, e);
          pos = it - v.begin();
          break;
        }
      }
      vf_check(pos == (ssize_t)before, "each growth call receives the index range starting at the previous total (distinct indices)");
      for (uint32_t i = 0; i < VF_MAXN; ++i) {
        if (i >= before && i < before + d) owner[i] = tag;
      }
      total = before + d;
      vf_check(v.size() == total, "size equals the total growth so far");
      vf_check(g_cnt.live == (int32_t)total, "one live element per claimed index");
      if (probe < total) {
        Elem* p = &v[probe];
        vf_check(p->v == owner[probe], "no element is overwritten by a later growth call");
        if (probeAddr == nullptr) {
          probeAddr = p;
        } else {
          vf_check(p == probeAddr, "the address of a published element is stable under growth");
        }
      }
    }
  }
  vf_check(g_cnt.live == 0 && g_cnt.ctor == g_cnt.dtor, "every element is destroyed exactly once");
}
