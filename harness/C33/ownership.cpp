// C33 (arithmetic ownership kernel): the unsynchronised buffer assignment in
// ConVecBuffer::allocAsNecessaryImpl (range form: load-then-store in tryAssignBuffer; single form:
// load-then-store on bucket + 1) is a single-writer protocol: a grower that claimed the index range
// [a, a + len) assigns exactly the buckets whose allocation-trigger index lies inside its own range.
// Two growers with disjoint ranges therefore never assign the same bucket, and every bucket a range
// touches is assigned by the owner of its trigger index -- for all three realloc strategies.
//
// Real code: ConcurrentVector<int32_t-like, Traits>::{reserving ctor, bucketAndSubIndex},
// ConVecBuffer::allocAsNecessaryImpl(binfo, rangeLen, bend, cacheUpdate) and
// allocAsNecessaryImpl(binfo, cacheUpdate) (the real private templates, instantiated with a recording
// cacheUpdate functor: it is invoked by the real code immediately before every buffer store),
// tryAssignBuffer, allocCheckIndex, cv::alloc.
//
// VF_MODE 0 ("worst"): one grower, symbolic range, *every* bucket >= 2 is initially null or already
//   assigned by somebody else (symbolic choice: other growers may be slow or fast).  Checked inside
//   the recording functor, i.e. before the final wait loop (which spins forever in a sequential run
//   when a bucket owned by somebody else is still null; those paths are cut after the checks).
// VF_MODE 1 ("seq"): two growers A = [a, b), B = [c, d), b <= c, run in index order on one vector whose
//   buckets triggered by indices < a exist; indices in the gap [b, c) belong to a third party that has
//   finished before B starts.  No wait loop may spin; the assigned sets are disjoint and complete;
//   the blocks carved out of one allocation are adjacent and inside the requested size.
// VF_MODE 2 / 3 are modes 0 / 1 with the index ranges enumerated instead of symbolic: a symbolic selector picks one
//   (a, len) resp. (a, b, d) combination out of all combinations inside the bound; inside the selected branch the
//   range is a compile-time constant, so CBMC's symbolic execution keeps every bucket computation concrete and
//   only the bucket pre-state / path choice reach the SAT solver.  (Modes 0 / 1 give 1.7 M-variable formulas that
//   do not finish within the time-outs on the shared machine.)  Mode 3: B's range starts where A's ends (what
//   size_.fetch_add hands out), no gap.
#include <new>
#include "../C32/cv_alloc_model.h"
#include <dispenso/concurrent_vector.h>
#include "vf.h"

struct KElem {
  int32_t v;
};
namespace dispenso {
template <>
struct DefaultConcurrentVectorSizeTraits<KElem> {
  static constexpr size_t kDefaultCapacity = 2;
  static constexpr size_t kMaxVectorSize = 32;  // 6-entry buffer table
};
} // namespace dispenso

using dispenso::ConcurrentVectorReallocStrategy;
#ifndef VF_STRATEGY
#define VF_STRATEGY 2
#endif
struct Tr {
  static constexpr bool kPreferBuffersInline = true;
  static constexpr ConcurrentVectorReallocStrategy kReallocStrategy =
      VF_STRATEGY == 0 ? ConcurrentVectorReallocStrategy::kFullBufferAhead
                       : (VF_STRATEGY == 1 ? ConcurrentVectorReallocStrategy::kHalfBufferAhead
                                           : ConcurrentVectorReallocStrategy::kAsNeeded);
  static constexpr bool kIteratorPreferSpeed = false;
};
using Vec = dispenso::ConcurrentVector<KElem, Tr>;
using dispenso::cv::BucketInfo;

#ifndef VF_F
#define VF_F 1  // first bucket length (power of two)
#endif
#ifndef VF_MODE
#define VF_MODE 0
#endif
#define NB 6  // buffer table entries (buckets 0..5)

// reference layout and trigger indices
static inline uint64_t capOf(uint64_t b) { return (uint64_t)VF_F << ((b < 2 ? 1 : b) - 1); }
static inline uint64_t startOf(uint64_t b) { return b == 0 ? 0 : capOf(b); }
static inline uint64_t checkIdx(uint64_t cap) {
  return VF_STRATEGY == 0 ? 0 : (VF_STRATEGY == 1 ? cap / 2 : cap - 1);
}
// bucket k >= 1 is allocated by whoever claims this index (it lies in bucket k - 1)
static inline uint64_t trigger(uint64_t k) { return startOf(k - 1) + checkIdx(capOf(k - 1)); }

static KElem marker[4];  // stands for "a buffer somebody else has already stored"

struct Rec {
  uint64_t a, end;
  uint32_t pre;     // buckets non-null before this grower ran
  uint32_t* mask;   // buckets this grower assigned
  KElem** ptrs;
  void operator()(size_t b, KElem* p) const {
    vf_check(b >= 2 && b < NB, "assigned bucket lies inside the buffer table");
    if (b >= 2 && b < NB) {
      uint64_t t = trigger(b);
      vf_check(t >= a && t < end, "a grower assigns only buckets whose allocation trigger index lies in its own range");
      vf_check(((pre >> b) & 1u) == 0, "a grower never overwrites a buffer pointer that was already set");
      vf_check(((*mask >> b) & 1u) == 0, "a bucket is assigned at most once by one grower");
      *mask |= 1u << b;
      ptrs[b] = p;
    }
  }
};

// one grower claiming [a, a + len): the real allocation step of growByUninitialized / emplace_back
static void grow(Vec& v, uint64_t a, uint64_t len, bool single, uint32_t pre, uint32_t* mask, KElem** ptrs) {
  Rec r{a, a + len, pre, mask, ptrs};
  BucketInfo bi = v.bucketAndSubIndex(a);
  if (single) {
    v.buffers_.allocAsNecessaryImpl(bi, r);  // emplace_back path (len == 1)
  } else {
    BucketInfo be = v.bucketAndSubIndex(a + len);
    v.buffers_.allocAsNecessaryImpl(bi, (ssize_t)len, be, r);  // grow_by path
  }
}

static uint32_t nonnull(Vec& v) {
  uint32_t m = 0;
  for (uint32_t k = 0; k < NB; ++k) {
    if (v.buffers_[k].load(std::memory_order_relaxed)) m |= 1u << k;
  }
  return m;
}

#define MAXI ((uint64_t)VF_F * 16 - 1)  // indices < 16F: the bucket after the last touched one is still in the table
#define MAXJ ((uint64_t)VF_F * 8)       // mode 3 bound

static void markers_off(Vec& v) {
  // detach the markers so that the destructor only frees real buffers
  for (uint32_t k = 2; k < NB; ++k) {
    if (v.buffers_[k].load(std::memory_order_relaxed) == marker) {
      v.buffers_[k].store(nullptr, std::memory_order_relaxed);
      v.cachedPtrs_[k] = nullptr;
    }
  }
}

// ---- mode 0 / 2: one grower, arbitrary environment
static void one_grower(uint64_t a, uint64_t len, bool single, uint32_t premask) {
  Vec v((size_t)VF_F, dispenso::ReserveTag);
  vf_check(v.firstBucketLen_ == VF_F, "reserving constructor: first bucket length");
  KElem* ptrsA[NB] = {nullptr, nullptr, nullptr, nullptr, nullptr, nullptr};
  for (uint32_t k = 2; k < NB; ++k) {
    if ((premask >> k) & 1u) v.buffers_[k].store(marker, std::memory_order_relaxed);
  }
  uint32_t pre = nonnull(v);
  uint32_t mask = 0;
  grow(v, a, len, single, pre, &mask, ptrsA);
  // reached only when no foreign bucket was still missing
  for (uint32_t k = 2; k < NB; ++k) {
    bool owned = trigger(k) >= a && trigger(k) < a + len;
    if (owned && !((pre >> k) & 1u)) {
      vf_check((mask >> k) & 1u, "every bucket whose trigger index lies in the range is assigned by this grower");
    }
  }
  markers_off(v);
}

// ---- mode 1 / 3: two growers in index order
static void two_growers(uint64_t a, uint64_t b, uint64_t c, uint64_t d, bool singleA, bool singleB) {
  Vec v((size_t)VF_F, dispenso::ReserveTag);
  KElem* ptrsA[NB] = {nullptr, nullptr, nullptr, nullptr, nullptr, nullptr};
  KElem* ptrsB[NB] = {nullptr, nullptr, nullptr, nullptr, nullptr, nullptr};
  // everything triggered by indices below a exists (the growers of those indices have finished)
  for (uint32_t k = 2; k < NB; ++k) {
    if (trigger(k) < a) v.buffers_[k].store(marker, std::memory_order_relaxed);
  }
  uint32_t pre = nonnull(v);
  uint32_t maskA = 0, maskB = 0;
  size_t req0 = vfCvRequests;
  grow(v, a, b - a, singleA, pre, &maskA, ptrsA);
  vf_check(vfCvRequests <= req0 + 1, "one grow call performs at most one allocation");
  // layout of A's single allocation: assigned buckets are adjacent, in order, inside the request
  {
    uint64_t total = 0;
    KElem* base = nullptr;
    for (uint32_t k = 2; k < NB; ++k) {
      if ((maskA >> k) & 1u) {
        if (!base) base = ptrsA[k];
        vf_check(ptrsA[k] == base + total, "buckets carved out of one allocation are adjacent and in bucket order");
        total += capOf(k);
      }
    }
    if (maskA) vf_check(total * sizeof(KElem) <= vfCvLastRequest, "the carved buckets fit into the requested allocation");
  }
  // third party owning the gap [b, c) finishes
  for (uint32_t k = 2; k < NB; ++k) {
    if (trigger(k) >= b && trigger(k) < c) v.buffers_[k].store(marker, std::memory_order_relaxed);
  }
  uint32_t preB = nonnull(v);
  grow(v, c, d - c, singleB, preB, &maskB, ptrsB);
  vf_check((maskA & maskB) == 0, "two growers with disjoint index ranges never assign the same bucket");
  for (uint32_t k = 2; k < NB; ++k) {
    bool inA = trigger(k) >= a && trigger(k) < b;
    bool inB = trigger(k) >= c && trigger(k) < d;
    vf_check(((maskA >> k) & 1u) == inA, "grower A assigns exactly the buckets triggered inside [a, b)");
    vf_check(((maskB >> k) & 1u) == inB, "grower B assigns exactly the buckets triggered inside [c, d)");
  }
  // every bucket touched by either range exists now
  uint32_t fin = nonnull(v);
  for (uint32_t k = 0; k < NB; ++k) {
    bool touched = (startOf(k) < b && startOf(k) + capOf(k) > a && a < b) || (startOf(k) < d && startOf(k) + capOf(k) > c && c < d);
    if (touched) vf_check((fin >> k) & 1u, "every bucket holding a claimed index has been allocated");
  }
  markers_off(v);
}

#if VF_MODE == 2
static uint32_t g_sel, g_premask;
static bool g_single;
template <uint64_t A, uint64_t L, bool Ok = (A + L <= MAXI)>
struct Lens {
  static void run() {
    if (g_sel == A * 64 + L) one_grower(A, L, g_single && L == 1, g_premask);
    Lens<A, L + 1>::run();
  }
};
template <uint64_t A, uint64_t L>
struct Lens<A, L, false> {
  static void run() {}
};
template <uint64_t A, bool Ok = (A <= MAXI)>
struct Starts {
  static void run() {
    Lens<A, 0>::run();
    Starts<A + 1>::run();
  }
};
template <uint64_t A>
struct Starts<A, false> {
  static void run() {}
};
#elif VF_MODE == 3
static uint32_t g_sel;
static bool g_singleA, g_singleB;
template <uint64_t A, uint64_t B, uint64_t D, bool Ok = (D <= MAXJ)>
struct Ds {
  static void run() {
    if (g_sel == (A * 64 + B) * 64 + D) two_growers(A, B, B, D, g_singleA && B == A + 1, g_singleB && D == B + 1);
    Ds<A, B, D + 1>::run();
  }
};
template <uint64_t A, uint64_t B, uint64_t D>
struct Ds<A, B, D, false> {
  static void run() {}
};
template <uint64_t A, uint64_t B, bool Ok = (B <= MAXJ)>
struct Bs {
  static void run() {
    Ds<A, B, B>::run();
    Bs<A, B + 1>::run();
  }
};
template <uint64_t A, uint64_t B>
struct Bs<A, B, false> {
  static void run() {}
};
template <uint64_t A, bool Ok = (A <= MAXJ)>
struct As {
  static void run() {
    Bs<A, A>::run();
    As<A + 1>::run();
  }
};
template <uint64_t A>
struct As<A, false> {
  static void run() {}
};
#endif

extern "C" void vf_main() {
#if VF_MODE == 0
  uint64_t a = vf_range_u64(0, MAXI);
  uint64_t len = vf_range_u64(0, MAXI);
  vf_assume(a + len <= MAXI);
  bool single = vf_nondet_bool();
  if (single) vf_assume(len == 1);
  uint32_t premask = vf_range_u32(0, 63);
  one_grower(a, len, single, premask);
#elif VF_MODE == 1
  uint64_t a = vf_range_u64(0, MAXI), b = vf_range_u64(0, MAXI), c = vf_range_u64(0, MAXI), d = vf_range_u64(0, MAXI);
  vf_assume(a <= b && b <= c && c <= d);
  bool singleA = vf_nondet_bool(), singleB = vf_nondet_bool();
  if (singleA) vf_assume(b == a + 1);
  if (singleB) vf_assume(d == c + 1);
  two_growers(a, b, c, d, singleA, singleB);
#elif VF_MODE == 2
  g_sel = vf_nondet_u32();
  g_premask = vf_range_u32(0, 63);
  g_single = vf_nondet_bool();
  Starts<0>::run();
#else
  g_sel = vf_nondet_u32();
  g_singleA = vf_nondet_bool();
  g_singleB = vf_nondet_bool();
  As<0>::run();
#endif
}
