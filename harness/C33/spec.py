TECHNIQUE = ('bounded symbolic execution of LLVM IR lowered to C: CBMC/SAT (cadical); arithmetic single-writer (ownership) kernel over the real '
             'allocAsNecessaryImpl templates + sequential task-granularity interleaving harness')
ASSUMPTIONS = [
    'detail::alignedMalloc/alignedFree replaced by their contract (harness/C32/cv_alloc_model.h; the real functions are decided under C44)',
    'size traits {kDefaultCapacity 2, kMaxVectorSize 32} via specialisation of DefaultConcurrentVectorSizeTraits (first bucket 1 element unless '
    'a larger one is reserved; 6-entry buffer table); claimed indices stay below 16 * first-bucket-length so that the look-ahead bucket is in the table',
    'ownership kernel: a bucket that is not owned by the grower under test is, symbolically, either still null or already stored by its owner',
    'CBMC standard pointer/bounds instrumentation is switched off for these instances (cost); the harness checks that every assigned bucket lies inside the table',
]
OUTSIDE = ('instruction-level interleaving of two growers inside the allocation step and the visibility of the buffer pointers under the C++ memory '
           'model (left to the concurrent engine, see NOTES.md); more than two growers; index ranges beyond 16 first-bucket lengths; first buckets other than 1, 2, 4')
STRAT = {0: 'kFullBufferAhead', 1: 'kHalfBufferAhead', 2: 'kAsNeeded'}
CHECKS = ['--no-standard-checks', '--div-by-zero-check']
INSTANCES = []
for s in (0, 1, 2):
    for f in (1, 2, 4):
        tiers = ['quick', 'thorough'] if f == 1 else ['thorough']
        INSTANCES.append({'name': 'own_worst_s%d_f%d' % (s, f), 'src': 'ownership.cpp', 'engine': 'cbmc', 'checks': CHECKS,
                          'defs': {'VF_STRATEGY': s, 'VF_F': f, 'VF_MODE': 0}, 'unwind': 8, 'spin_loops': True, 'timeout': 900, 'tiers': tiers,
                          'bounds': '%s, first bucket %d; one grower, range [a, a+len) anywhere below index %d, both allocation paths (single index / range); '
                                    'every bucket >= 2 initially null or foreign (symbolic); checks placed before the final wait loop' % (STRAT[s], f, 16 * f)})
        INSTANCES.append({'name': 'own_seq_s%d_f%d' % (s, f), 'src': 'ownership.cpp', 'engine': 'cbmc', 'checks': CHECKS,
                          'defs': {'VF_STRATEGY': s, 'VF_F': f, 'VF_MODE': 1}, 'unwind': 8, 'timeout': 1500,
                          'tiers': ['quick', 'thorough'] if (s == 2 and f == 1) else ['thorough'],
                          'bounds': '%s, first bucket %d; two growers with symbolic ranges [a,b) <= [c,d) below index %d, run in index order, gap owned by a finished third party; '
                                    'wait loops must not spin (unwinding assertions on)' % (STRAT[s], f, 16 * f)})
for s in (0, 1, 2):
    INSTANCES.append({'name': 'tasks_s%d' % s, 'src': 'tasks.cpp', 'engine': 'cbmc', 'checks': CHECKS, 'tiers': ['thorough'],
                      'defs': {'VF_STRATEGY': s, 'VF_CALLS': 2, 'VF_MAXN': 4}, 'unwind': 6, 'timeout': 1500,
                      'bounds': '%s, compact iterator, first bucket 1; 2 growth calls (5 kinds, symbolic grower, symbolic amounts), total size <= 4; task-granularity (API-call) interleaving only' % STRAT[s]})
