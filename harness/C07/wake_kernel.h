// Park/wake protocol kernel shared by harness/C07 (idle-pool submissions) and harness/C09 (shutdown).
//
// REAL (lifted from /repo, unchanged): detail::PoolWakeState::{PoolWakeState, enterSleep, exitSleep,
//   tryClaimSleeper, claimAndWakeOne, wakeRange, wakeAll, cascadeWakeSeed, cascadeWake,
//   cascadeTargetFor, waiterFor, totalSleeping, branchFactor}, detail::EpochWaiter::{current, waitFor,
//   bump, bumpAndWake, bumpAndWakeN, bumpAndWakeAll} (futex path).
//
// TRANSCRIBED (harness copies of glue code of ThreadPool, statement for statement, same order of
//   operations, same memory orders; the containers are ghost counters):
//   k_worker_loop      = ThreadPool::threadLoopImpl<kUseWakeSleep>      thread_pool.cpp:190-288
//   k_tryFind          = ThreadPool::tryFindAndExecuteWork              thread_pool.h:752-819
//   k_waitOnThread     = ThreadPool::waitOnThread                       thread_pool.cpp:76-85
//   k_stop / k_running = PerThreadData::stop / running                  thread_pool.cpp:71,87
//   k_schedule         = forceEnqueue<false> + scheduleImpl             thread_pool.h:578-589,655-675
//   k_schedulePlaced   = forceEnqueue<true> + scheduleImplPlaced (+ conditionallyWake)  thread_pool.h:677-704,319
//   k_bulkToRings      = scheduleBulkToRings + scheduleBulkToRingsFastPath (cascade or wakeRange variant)  thread_pool.h:822-929
//   k_bulkEnqueue      = scheduleBulkEnqueue                            thread_pool.h:961-1019
//   k_shutdown_prefix  = the first statements of ~ThreadPool / resizeLocked: stop all, wakeAll   thread_pool.cpp:310-318,413-421
// A regression inside this glue in /repo is therefore NOT seen by these instances; a regression in the
// wake-state / epoch-waiter code is.
//
// Ghost containers (each operation = one atomic step preceded by a scheduling point, like the one
// atomic RMW that decides the real operation):
//   central            central queue work_ (count) + the real hint flag centralQueueNonEmpty_
//   ring[i]            per-thread ring i; popped only by worker i (the real worker loop never pops
//                      another thread's ring: tryFindAndExecuteWork receives only myRing; the
//                      cross-ring steal of thread_pool.h:783-797 scans *steal* rings)
//   steal[s]           steal ring shared by threads with idx / kStealRingSharing == s, + the real
//                      stealRingsWithWork_ bitmask protocol
#pragma once
#include <atomic>
#include <cstdint>
#include <new>
#include <dispenso/detail/thread_pool_wake.h>
#include "vf.h"

extern "C" void vf_block_until(uint32_t* nonzero);

#ifndef VF_N
#define VF_N 2
#endif
#ifndef VF_G            // wake group size (constructor argument of PoolWakeState; real default 8)
#define VF_G 2
#endif
#ifndef VF_BF           // cascade branch factor (real default 4 on Linux)
#define VF_BF 4
#endif
#ifndef VF_SS           // kStealRingSharing (real default 8 == wake group size)
#define VF_SS VF_G
#endif
// Spin tunables of thread_pool.cpp (the real ones are compile-time tunables as well:
// DISPENSO_TUNE_FIXED_SPIN_ITERS / _SPIN_CHECK_INTERVAL / _QUEUE_CHECK_INTERVAL / _CROSS_RING_FAIL_THRESHOLD)
#ifndef K_SPIN_LIMIT
#define K_SPIN_LIMIT 2      // kDefaultSpinLimit (real 400)
#endif
#ifndef K_SPIN_CHECK
#define K_SPIN_CHECK 1      // kSpinCheckInterval (real 64)
#endif
#ifndef K_QUEUE_CHECK
#define K_QUEUE_CHECK 1     // kQueueCheckInterval (real 8)
#endif
#ifndef K_CROSS
#define K_CROSS 0           // kCrossRingFailThreshold (real 32 < spin limit: reachable in every spin phase)
#endif
#ifndef VF_WAKEMODE
#define VF_WAKEMODE 1       // 1: threadLoopWake (kUseWakeSleep = true), 0: threadLoopPoll
#endif
#ifndef VF_SLEEPLEN
#define VF_SLEEPLEN 100000  // sleepLengthUs_
#endif
#ifndef VF_SPINWINDOW
#define VF_SPINWINDOW 0     // 1: assume no worker starts parking while a submission call is in flight
#endif
static constexpr int32_t kSpinnerWakeThreshold = 2;  // thread_pool.h:447
static constexpr int kWorkBatchSize = 8;              // thread_pool.h:442
static constexpr int kNumSteal = (VF_N + VF_SS - 1) / VF_SS;
#define VF_NUMSTEAL_GT1 ((VF_N + VF_SS - 1) / VF_SS > 1)

namespace dd = dispenso::detail;

// ------------------------------------------------------------------------------- pool state
static dd::PoolWakeState* WS;
union WsHolder { dd::PoolWakeState ws; WsHolder() {} ~WsHolder() {} };
static WsHolder g_ws_holder;

static std::atomic<bool> k_running_[VF_N];           // PerThreadData::running_{true}
// Fields that never change during a scenario are plain (their loads commute with everything):
static int64_t k_numThreads;                         // numThreads_
static bool k_enableEpochWaiter;                     // enableEpochWaiter_
static uint32_t k_sleepLengthUs;                     // sleepLengthUs_
// Accounting counters read only by the producers' wake heuristics.  VF_FINE_COUNTERS=1: real
// std::atomic (every access is a scheduling point); 0: plain fields, i.e. each update is merged into
// the worker's neighbouring atomic step (coarser interleaving, much cheaper).
#ifndef VF_FINE_COUNTERS
#define VF_FINE_COUNTERS 0
#endif
#if VF_FINE_COUNTERS
struct KCounter32 { std::atomic<int32_t> v; int32_t get() { return v.load(std::memory_order_relaxed); } void add(int32_t d) { v.fetch_add(d, std::memory_order_relaxed); } void set(int32_t x) { v.store(x, std::memory_order_relaxed); } };
struct KCounter64 { std::atomic<int64_t> v; int64_t get() { return v.load(std::memory_order_relaxed); } void add(int64_t d) { v.fetch_add(d, std::memory_order_relaxed); } void set(int64_t x) { v.store(x, std::memory_order_relaxed); } };
#else
struct KCounter32 { int32_t v; int32_t get() { return v; } void add(int32_t d) { v += d; } void set(int32_t x) { v = x; } };
struct KCounter64 { int64_t v; int64_t get() { return v; } void add(int64_t d) { v += d; } void set(int64_t x) { v = x; } };
#endif
static KCounter32 k_numNotWorking;                   // numNotWorking_
static KCounter64 k_workRemaining;                   // workRemaining_
static std::atomic<bool> k_centralNonEmpty;          // centralQueueNonEmpty_
static std::atomic<uint64_t> k_stealRingsWithWork;   // stealRingsWithWork_
// Containers that no thread of the instance ever fills are "dead": probing them is not a scheduling
// point (a read of a never-written location commutes with every other step) and always fails.
#ifndef VF_LIVE_CENTRAL
#define VF_LIVE_CENTRAL 1
#endif
#ifndef VF_LIVE_RING
#define VF_LIVE_RING 1
#endif
#ifndef VF_LIVE_STEAL
#define VF_LIVE_STEAL 1
#endif

// ghost containers
static uint32_t g_central;                 // tasks in the central queue
static uint32_t g_ring[VF_N];              // tasks in ring i
static int32_t g_ring_target[VF_N];        // cascade target wrapped around the (single) task of ring i, -1: none
static uint32_t g_steal[kNumSteal];        // tasks in steal ring s
// ghost ledger
static uint32_t g_submitted;               // tasks handed to the pool
static uint32_t g_started;                 // tasks started by some worker
static uint32_t g_all_started;             // word: all submitted tasks started (set once submission done)
static uint32_t g_submit_done;
static uint32_t g_inflight;                // a submission call is in progress
static uint32_t g_entered;                 // workers that did their first enterSleep
static uint32_t g_all_entered;             // word: every worker is between its enterSleep and exitSleep for the first time
static bool g_prefer0[VF_N];               // initial preferRing hint per worker (symbolic; sticky state of the real loop)
// start point of worker i: false = top of the loop (spinning, nothing found yet); true = the worker has
// found nothing, reached the spin limit and executed markIdle + enterSleep (performed on its behalf by
// k_build with the REAL enterSleep): its first own step is the running() re-check before waitOnThread
static bool g_start_parking[VF_N];
static uint32_t g_epoch0[VF_N];
static uint32_t g_exited;                  // workers that left their loop

VF_NOINLINE static void k_teardown();
// scenario end: the step that makes "all submitted tasks started" true performs the harness teardown
// (think of the last task telling its owner to shut the pool down)
static inline void k_task_started(bool& last) {   // `last`: the caller performs the teardown (one copy of its code)
  // (branch-free: CBMC's native-thread engine wants no control flow inside an atomic section)
  VfAtomic a;
  g_started++;
  uint32_t l = (uint32_t)(g_submit_done != 0) & (uint32_t)(g_started == g_submitted);
  g_all_started |= l;
  last = last | (l != 0);
}
static inline void k_submission_done() {
  bool last;
  {
    VfAtomic a;
    g_inflight = 0;
    g_submit_done = 1;
    last = g_started == g_submitted;
    g_all_started |= (uint32_t)last;
  }
  if (last) k_teardown();
}

// one atomic container step
#define K_STEP(stmt) do { vf_sched_point(); { VfAtomic a_; stmt; } } while (0)

static inline bool k_pop_central() {
#if VF_LIVE_CENTRAL
  bool got;
  K_STEP(got = g_central > 0; g_central -= (uint32_t)got);
  return got;
#else
  return false;
#endif
}
static inline bool k_pop_steal(int s) {
#if VF_LIVE_STEAL
  bool got;
  K_STEP(got = g_steal[s] > 0; g_steal[s] -= (uint32_t)got);
  return got;
#else
  (void)s;
  return false;
#endif
}
static inline bool k_ring_pop(int i, int32_t& target) {
#if VF_LIVE_RING
  bool got;
  K_STEP(got = g_ring[i] > 0; g_ring[i] -= (uint32_t)got; target = g_ring_target[i]; g_ring_target[i] = -1);  // (target is -1 when the ring is empty)
  return got;
#else
  (void)i; (void)target;
  return false;
#endif
}
static inline bool k_steal_empty(int s) {
#if VF_LIVE_STEAL
  bool e;
  K_STEP(e = g_steal[s] == 0);
  return e;
#else
  (void)s;
  return true;
#endif
}
static inline uint32_t k_central_size() {
#if VF_LIVE_CENTRAL
  uint32_t n;
  K_STEP(n = g_central);
  return n;
#else
  return 0;
#endif
}
// centralQueueNonEmpty_ (a real std::atomic when the central queue is live)
static inline bool k_hint_load() {
#if VF_LIVE_CENTRAL
  return k_centralNonEmpty.load(std::memory_order_relaxed);
#else
  return *reinterpret_cast<bool*>(&k_centralNonEmpty);  // plain read: nobody writes it in this instance
#endif
}
static inline void k_hint_store(bool v) {
#if VF_LIVE_CENTRAL
  k_centralNonEmpty.store(v, std::memory_order_relaxed);
#else
  *reinterpret_cast<bool*>(&k_centralNonEmpty) = v;  // only stale-true -> false by a worker; never read as true again
#endif
}
static inline uint64_t k_swm_plain() { return *reinterpret_cast<uint64_t*>(&k_stealRingsWithWork); }
static inline void k_enqueue_central(uint32_t n) {  // enqueueToCentralQueue / enqueue_bulk + hint store
  K_STEP(g_central += n);
  k_hint_store(true);
}

// task(): ring tasks staged by the cascade path are wrapped: cascadeWake(target) runs before the user work
// out of line (spec: no_inline) = one step without preemption
VF_NOINLINE static void k_cascadeWake(int32_t target) {
  WS->cascadeWake(target);   // REAL
}
static inline void k_run(int32_t cascadeTarget, bool& last) {
#if VF_LIVE_RING
  if (cascadeTarget >= 0) {
    k_cascadeWake(cascadeTarget);
  }
#else
  (void)cascadeTarget;
#endif
  k_task_started(last);
}

// ------------------------------------------------------------------------------- worker glue
static inline bool k_running(int idx) { return k_running_[idx].load(std::memory_order_acquire); }
static inline void k_stop(int idx) { k_running_[idx].store(false, std::memory_order_release); }

static inline uint32_t k_waitOnThread(int32_t threadIdx, uint32_t currentEpoch) {
  auto* ws = WS;
  if (k_sleepLengthUs > 0) {
    return ws->waiterFor(threadIdx).waitFor(currentEpoch, k_sleepLengthUs);  // REAL
  } else {
    return ws->waiterFor(threadIdx).current();  // REAL
  }
}

static inline void k_markWorkDone(bool& isWorking) {
  if (!isWorking) {
    k_numNotWorking.add(-1);
    isWorking = true;
  }
}
static inline void k_markIdle(bool& isWorking) {
  if (isWorking) {
    k_numNotWorking.add(1);
    isWorking = false;
  }
}

#ifndef VF_ATOMIC_PROBE
#define VF_ATOMIC_PROBE 1
#endif
// VF_COARSE_SLEEP=1: the REAL enterSleep / exitSleep (two RMWs each: sleepMask, totalSleeping_) are kept
// out of line (spec: no_inline) and therefore execute as one step each; 0: inlined, every RMW a switch point
#ifndef VF_COARSE_SLEEP
#define VF_COARSE_SLEEP 0
#endif
#if VF_COARSE_SLEEP
VF_NOINLINE static void k_enterSleep(int32_t idx) { WS->enterSleep(idx); }  // REAL
VF_NOINLINE static void k_exitSleep(int32_t idx) { WS->exitSleep(idx); }    // REAL
#else
static inline void k_enterSleep(int32_t idx) { WS->enterSleep(idx); }  // REAL
static inline void k_exitSleep(int32_t idx) { WS->exitSleep(idx); }    // REAL
#endif
#if VF_ATOMIC_PROBE
// Coarse work finding (default): ONE atomic ghost step performs the whole probe sequence of
// tryFindAndExecuteWork (+ the deferred steal-ring check of the loop): it looks exactly where the real
// code looks, in the same order, and takes the first task it finds.  Races *inside* a probe sequence
// (e.g. the centralQueueNonEmpty_ clear-vs-set race documented in thread_pool.h:466) are therefore
// outside these instances; the park/wake protocol around it is fine-grained.
static inline bool k_probe(int myRing, int myStealIdx, bool& preferRing, bool checkQueue, int32_t& tgt) {
  bool found = false;
  int32_t t = -1;
  bool pr = preferRing;
  vf_sched_point();
  {
    VfAtomic a_;
    bool hint = *reinterpret_cast<bool*>(&k_centralNonEmpty);
    uint32_t r = g_ring[myRing], c = g_central, st = g_steal[myStealIdx];
    // order: preferRing: ring, central, steal, other steal rings; else: central, ring (then, in the loop, own steal ring)
    bool useCentral = checkQueue && hint && c > 0 && !(pr && r > 0);
    bool useRing = r > 0 && !useCentral;
    bool useSteal = !useCentral && !useRing && st > 0;
    int other = -1;
#if VF_NUMSTEAL_GT1
    if (!useCentral && !useRing && !useSteal && pr) {
      for (int s = 0; s < kNumSteal; ++s) {
        if (s != myStealIdx && other < 0 && g_steal[s] > 0 && ((k_swm_plain() >> s) & 1)) other = s;
      }
    }
#endif
    if (checkQueue && hint && c == 0 && !(pr && r > 0)) {
      *reinterpret_cast<bool*>(&k_centralNonEmpty) = false;   // failed try_dequeue clears the hint
    }
    g_central -= (uint32_t)useCentral;
    g_ring[myRing] -= (uint32_t)useRing;
    t = useRing ? g_ring_target[myRing] : -1;
    g_ring_target[myRing] = useRing ? -1 : g_ring_target[myRing];
    g_steal[myStealIdx] -= (uint32_t)useSteal;
    if (other >= 0) g_steal[other]--;
    pr = useCentral ? false : (useRing ? true : pr);
    found = useCentral || useRing || useSteal || other >= 0;
  }
  preferRing = pr;
  tgt = t;
  return found;
}

static inline void k_worker_loop(int32_t ringIndex) {
  const bool kUseWakeSleep = VF_WAKEMODE != 0;
  bool preferRing = g_prefer0[ringIndex];
  auto* ws = WS;
  uint32_t epoch = g_start_parking[ringIndex] ? g_epoch0[ringIndex] : ws->waiterFor(ringIndex).current();  // REAL
  int myStealIdx = ringIndex / VF_SS;
  bool isWorking = false;
  bool last = false;
  bool resumeAtPark = g_start_parking[ringIndex];
  // one iteration = `while (data.running())` + the probe sequence of one spin phase (spin limit reached
  // after one fruitless sequence) + the parking part, transcribed statement by statement
  for (;;) {
    if (!resumeAtPark) {
      if (!k_running(ringIndex)) break;
      int32_t tgt = -1;
      if (k_probe(ringIndex, myStealIdx, preferRing, true, tgt)) {
        k_markWorkDone(isWorking);
        k_run(tgt, last);
        if (last) { last = false; k_teardown(); }
        k_workRemaining.add(-1);
        continue;
      }
      k_markIdle(isWorking);
#if VF_SPINWINDOW
      { VfAtomic a; vf_assume(!g_inflight); }
#endif
      if (kUseWakeSleep) {
        k_enterSleep(ringIndex);  // REAL
      }
    }
    resumeAtPark = false;
    if (kUseWakeSleep) {
      if (!k_running(ringIndex)) {
        k_exitSleep(ringIndex);  // REAL
        break;
      }
    }
    const uint32_t preWaitEpoch = epoch;
    epoch = k_waitOnThread(ringIndex, epoch);
    if (kUseWakeSleep) {
      k_exitSleep(ringIndex);  // REAL
    }
#if VF_LIVE_CENTRAL
    if (epoch == preWaitEpoch) {
      vf_sched_point();
      VfAtomic a;
      *reinterpret_cast<bool*>(&k_centralNonEmpty) |= (g_central != 0);   // size_approx() != 0 -> hint = true
    }
#endif
  }
  k_markIdle(isWorking);
  { VfAtomic a; g_exited++; }
}
#else
// tryFindAndExecuteWork (thread_pool.h:752).  The two branches of the original
//   preferRing:  ring, central (hint-gated), own steal ring, cross steal rings
//   otherwise:   central (hint-gated), ring
// share the central-queue block here (same order of probes in either case; one copy of the code).
static inline bool k_tryFind(int myRing, int myStealIdx, bool& preferRing, int failCount, bool checkQueue, bool& last) {
  int32_t tgt = -1;
  if (preferRing && k_ring_pop(myRing, tgt)) {
    k_run(tgt, last);
    return true;
  }
  if (checkQueue && k_hint_load()) {
    if (k_pop_central()) {
      preferRing = false;
      k_run(-1, last);
      return true;
    }
    k_hint_store(false);
  }
  if (!preferRing) {
    if (k_ring_pop(myRing, tgt)) {
      preferRing = true;
      k_run(tgt, last);
      return true;
    }
    return false;
  }
  if (!k_steal_empty(myStealIdx) && k_pop_steal(myStealIdx)) {
    k_run(-1, last);
    return true;
  }
#if VF_LIVE_STEAL && VF_NUMSTEAL_GT1   // with a single steal ring the masked bitmask is always 0
  if (failCount >= K_CROSS) {
    uint64_t mask = k_stealRingsWithWork.load(std::memory_order_acquire);
    if (mask != 0) {
      mask &= ~(uint64_t{1} << myStealIdx);
      if (mask != 0) {
        int target = dd::countTrailingZeros(mask);
        if (target < kNumSteal && k_pop_steal(target)) {
          k_run(-1, last);
          return true;
        }
        k_stealRingsWithWork.fetch_and(~(uint64_t{1} << target), std::memory_order_relaxed);
      }
    }
  }
#else
  (void)failCount;
#endif
  return false;
}

// threadLoopImpl<VF_WAKEMODE> (thread_pool.cpp:190).  The nested loops of the original
//     while (data.running()) { ...; while (tryFindAndExecuteWork(..)) {..}  ... }
// are written as ONE loop with an explicit "inner" flag (same sequence of operations; one copy of the
// body per unwinding instead of unwind^2 copies).
static inline void k_worker_loop(int32_t ringIndex) {
  const bool kUseWakeSleep = VF_WAKEMODE != 0;
  bool preferRing = g_prefer0[ringIndex];
  auto* ws = WS;
  // a worker that starts at the park point read its epoch before its last (fruitless) probes, i.e.
  // before anything the scenario's producer does: k_build read it with the REAL current()
  uint32_t epoch = g_start_parking[ringIndex] ? g_epoch0[ringIndex] : ws->waiterFor(ringIndex).current();  // REAL
  int myStealIdx = ringIndex / VF_SS;
  int failCount = 0;
  bool isWorking = false;
  bool inner = false;
  bool last = false;
  int localWorkDone = 0;
  bool checkQueue = true;

  bool resumeAtPark = g_start_parking[ringIndex];
  for (;;) {
   if (!resumeAtPark) {
    if (!inner) {
      if (!k_running(ringIndex)) break;                  // while (data.running()) {
      localWorkDone = 0;
      checkQueue = (failCount < K_SPIN_CHECK) || (((failCount + ringIndex) & (K_QUEUE_CHECK - 1)) == 0);
      inner = true;
    }
    if (k_tryFind(ringIndex, myStealIdx, preferRing, failCount, checkQueue, last)) {   // while (tryFind..) {
      if (last) { last = false; k_teardown(); }
      ++localWorkDone;
      // (flush of a full batch, localWorkDone >= kWorkBatchSize = 8: unreachable with <= 3 tasks)
      failCount = 0;
      checkQueue = true;
      continue;                                                                  // }
    }
    inner = false;
    if (localWorkDone > 0) {
      k_markWorkDone(isWorking);
      k_workRemaining.add(-localWorkDone);
      failCount = 0;
      continue;
    }

    ++failCount;

    if (failCount < K_SPIN_CHECK) {
      continue;  // cpuRelax()
    }

    // Steal ring check (deferred from lean phase).
    if (k_pop_steal(myStealIdx)) {
      k_markWorkDone(isWorking);
      k_run(-1, last);  // executeNext
      if (last) { last = false; k_teardown(); }
      k_workRemaining.add(-1);
      failCount = 0;
      continue;
    }

    ++failCount;
    // cpuRelax()
   }

    if (resumeAtPark || failCount >= K_SPIN_LIMIT) {
     if (!resumeAtPark) {
      k_markIdle(isWorking);
#if VF_SPINWINDOW
      // timing assumption (only where the spec says so): the spin phase outlasts a submission call
      // that is in flight, i.e. no worker decides to park in the middle of a producer's call
      { VfAtomic a; vf_assume(!g_inflight); }
#endif
      if (kUseWakeSleep) {
        ws->enterSleep(ringIndex);  // REAL
      }
     }
     resumeAtPark = false;
      if (kUseWakeSleep) {
        if (!k_running(ringIndex)) {
          ws->exitSleep(ringIndex);  // REAL
          break;
        }
      }
      const uint32_t preWaitEpoch = epoch;
      epoch = k_waitOnThread(ringIndex, epoch);
      if (kUseWakeSleep) {
        ws->exitSleep(ringIndex);  // REAL
      }
      if (epoch == preWaitEpoch && k_central_size() != 0) {
        k_hint_store(true);
      }
      failCount = 0;
    }
  }
  k_markIdle(isWorking);
  { VfAtomic a; g_exited++; }
}

#endif  // VF_ATOMIC_PROBE

static void worker0(void*) { k_worker_loop(0); }
#if VF_N >= 2
static void worker1(void*) { k_worker_loop(1); }
#endif
#if VF_N >= 3
static void worker2(void*) { k_worker_loop(2); }
#endif
#if VF_N >= 4
static void worker3(void*) { k_worker_loop(3); }
#endif

// ------------------------------------------------------------------------------- producer glue
// conditionallyWake (thread_pool.h:319) == tail of scheduleImpl (thread_pool.h:663)
static inline void k_conditionallyWake() {
  auto* ws = WS;
  if (k_enableEpochWaiter && ws) {
    int32_t sleeping = ws->totalSleeping();
    if (sleeping > 0) {
      int64_t pending = k_workRemaining.get();
      int64_t numT = k_numThreads;
      int64_t awake = numT - static_cast<int64_t>(sleeping);
      if (pending > awake) {
        ws->claimAndWakeOne();  // REAL
      }
    }
  }
}

// schedule(f, ForceQueuingTag): forceEnqueue<false> -> scheduleImpl
static inline void k_schedule() {
  k_workRemaining.add(1);
  k_enqueue_central(1);
  k_conditionallyWake();
}

// schedulePlaced(f, ForceQueuingTag): forceEnqueue<true> -> scheduleImplPlaced
static inline void k_schedulePlaced() {
  k_workRemaining.add(1);
  auto* ws = WS;
  if (k_enableEpochWaiter && ws) {
    int32_t sleeping = ws->totalSleeping();
    if (sleeping > 0 && k_numNotWorking.get() - sleeping < kSpinnerWakeThreshold) {
      int32_t wokeThread = ws->claimAndWakeOne();  // REAL
      if (wokeThread >= 0) {
        int stealIdx = wokeThread / VF_SS;
        // try_push into a steal ring that is far from full succeeds
        if (stealIdx < kNumSteal) {
          K_STEP(g_steal[stealIdx]++);
          k_stealRingsWithWork.fetch_or(uint64_t{1} << stealIdx, std::memory_order_release);
          return;
        }
      }
    }
  }
  k_enqueue_central(1);
  k_conditionallyWake();
}

// scheduleBulkToRings(count): FastPath (count <= ringCount); VF_NOCASCADE = -DDISPENSO_DISABLE_CASCADE_WAKERANGE
static inline void k_bulkToRings(int32_t count) {
  k_workRemaining.add(count);
#if !defined(VF_NOCASCADE)
  auto* wsCascade = WS;
  bool useCascade = k_enableEpochWaiter && wsCascade && wsCascade->totalSleeping() > 0;
  for (int32_t ring = 0; ring < count && ring < VF_N; ++ring) {
    int32_t target = useCascade ? wsCascade->cascadeTargetFor(ring, count) : -1;  // REAL
    K_STEP(g_ring[ring]++; g_ring_target[ring] = target);  // rings_[ring].try_push(wrapped or plain)
  }
#else
  for (int32_t ring = 0; ring < count && ring < VF_N; ++ring) {
    K_STEP(g_ring[ring]++; g_ring_target[ring] = -1);
  }
#endif
  auto* ws = WS;
  if (k_enableEpochWaiter && ws) {
#if !defined(VF_NOCASCADE)
    ws->cascadeWakeSeed(count);  // REAL
#else
    ws->wakeRange(count);  // REAL
#endif
  }
}

// scheduleBulkEnqueue(count)
static inline void k_bulkEnqueue(int32_t count) {
  k_workRemaining.add(count);
  k_enqueue_central(static_cast<uint32_t>(count));
  auto* ws = WS;
  if (k_enableEpochWaiter && ws) {
    int32_t sleeping = ws->totalSleeping();
    if (sleeping > 0) {
      int32_t notWorking = k_numNotWorking.get();
      int32_t spinning = notWorking - sleeping > 0 ? notWorking - sleeping : 0;
      int32_t effectiveSpinners = spinning - kSpinnerWakeThreshold + 1 > 0 ? spinning - kSpinnerWakeThreshold + 1 : 0;
      int32_t toWake = count - effectiveSpinners > 0 ? count - effectiveSpinners : 0;
      toWake = toWake < sleeping ? toWake : sleeping;
      if (toWake <= ws->branchFactor()) {
        for (int32_t i = 0; i < toWake; ++i) {
          if (ws->claimAndWakeOne() < 0) {  // REAL
            break;
          }
        }
      } else {
        ws->cascadeWakeSeed(toWake);  // REAL
      }
    }
  }
}

// first statements of ~ThreadPool (thread_pool.cpp:413-421) and resizeLocked (thread_pool.cpp:310-318)
static inline void k_shutdown_prefix() {
  for (int i = 0; i < VF_N; ++i) {
    k_stop(i);
  }
  auto* ws = WS;
  if (ws) {
    ws->wakeAll();  // REAL
  }
}

// constructor part of ThreadPool that matters here (thread_pool.cpp:108-120); out of line = no preemption.
// The REAL PoolWakeState constructor runs and computes every field and table.  Its four heap arrays are
// then re-seated onto typed static storage with identical contents (checked below): the constructor
// value-initialises the blocks through byte-wise memset, which leaves CBMC with untyped byte arrays
// (every later atomic access becomes a byte_extract over the whole block; symbolic execution does not
// finish).  Layout/content of the objects is unchanged; only their storage moves.
static constexpr int kNumGroups = (VF_N + VF_G - 1) / VF_G;
static dd::WaiterBlock g_wb[kNumGroups];
static dd::GroupWakeState g_gs[kNumGroups];
static int32_t g_nextGroup[kNumGroups];
static int32_t g_cascadeTargets[VF_N];

VF_NOINLINE static void k_build() {
  WS = new (&g_ws_holder.ws) dd::PoolWakeState(VF_N, VF_G, VF_BF);  // REAL
  vf_check(WS->numGroups() == kNumGroups && (int)WS->cascadeTargets_.size() == VF_N, "kernel: group count as expected");
  for (int g = 0; g < kNumGroups; ++g) {
    vf_check(WS->waiterBlocks_[g].waiter.current() == 0 && g_wb[g].waiter.current() == 0 &&
                 WS->groupStates_[g].sleepMask.load() == 0 && g_gs[g].sleepMask.load() == 0,
             "kernel: re-seated wake blocks equal the constructed ones");
    g_nextGroup[g] = WS->nextGroupTable_[g];
  }
  for (int i = 0; i < VF_N; ++i) {
    g_cascadeTargets[i] = WS->cascadeTargets_[i];
  }
  (void)WS->waiterBlocks_.release();
  WS->waiterBlocks_.reset(g_wb);
  (void)WS->groupStates_.release();
  WS->groupStates_.reset(g_gs);
  (void)WS->nextGroupTable_.release();
  WS->nextGroupTable_.reset(g_nextGroup);
  WS->cascadeTargets_._M_impl._M_start = g_cascadeTargets;
  WS->cascadeTargets_._M_impl._M_finish = g_cascadeTargets + VF_N;
  WS->cascadeTargets_._M_impl._M_end_of_storage = g_cascadeTargets + VF_N;

  for (int i = 0; i < VF_N; ++i) {
    k_running_[i].store(true, std::memory_order_relaxed);
    g_ring_target[i] = -1;
  }
  k_numNotWorking.set(VF_N);
  for (int i = 0; i < VF_N; ++i) {
    g_epoch0[i] = WS->waiterFor(i).current();  // REAL
    if (g_start_parking[i] && VF_WAKEMODE) {
      WS->enterSleep(i);  // REAL (on behalf of worker i, see g_start_parking)
    }
  }
  k_numThreads = VF_N;
  k_enableEpochWaiter = VF_WAKEMODE != 0;
  k_sleepLengthUs = VF_SLEEPLEN;
}

// vf_spawn must be called from vf_main itself (one spawn site per model thread)
#if VF_N == 1
#define K_SPAWN_WORKERS() do { vf_spawn(worker0, nullptr); } while (0)
#elif VF_N == 2
#define K_SPAWN_WORKERS() do { vf_spawn(worker0, nullptr); vf_spawn(worker1, nullptr); } while (0)
#elif VF_N == 3
#define K_SPAWN_WORKERS() do { vf_spawn(worker0, nullptr); vf_spawn(worker1, nullptr); vf_spawn(worker2, nullptr); } while (0)
#else
#define K_SPAWN_WORKERS() do { vf_spawn(worker0, nullptr); vf_spawn(worker1, nullptr); vf_spawn(worker2, nullptr); vf_spawn(worker3, nullptr); } while (0)
#endif

// harness teardown (NOT code under test): stop every worker and wake every waiter of every group
// unconditionally, so that the end of a scenario never depends on the wake logic under test
#ifndef K_NO_TEARDOWN
VF_NOINLINE static void k_teardown() {
  for (int i = 0; i < VF_N; ++i) {
    k_stop(i);
  }
  for (int g = 0; g < (VF_N + VF_G - 1) / VF_G; ++g) {
    WS->waiterFor(g * VF_G).bumpAndWakeAll();
  }
}
#endif
