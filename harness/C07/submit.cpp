// C07: a submission to an idle pool (every worker has announced sleep: totalSleeping() == N, each
// worker is parked in the futex or about to call it) is started by a pool thread without any futex
// timeout (the idle-sleep backstop never fires in this model).
// Real code under test: detail::PoolWakeState / detail::EpochWaiter (see wake_kernel.h); the worker
// loop and the submission paths are transcriptions of the ThreadPool glue (see wake_kernel.h).
// Symbolic: the interleaving of all atomic steps, which waiters a futex wake picks, the number of
// tasks of a bulk submission, each worker's sticky preferRing hint, a stale-true central-queue hint.
//
// -D VF_PATH: 1 schedule()  2 schedulePlaced()  3 scheduleBulkToRings(count)  4 scheduleBulkEnqueue(count)
//             5 two schedule() calls in a row
#include "wake_kernel.h"

#ifndef VF_MAXCOUNT
#define VF_MAXCOUNT VF_N
#endif
#ifndef VF_MINCOUNT
#define VF_MINCOUNT 1
#endif

extern "C" void vf_main() {
  for (int i = 0; i < VF_N; ++i) {
    g_start_parking[i] = true;   // idle pool: every worker is inside enterSleep .. exitSleep (parked or about to call the futex)
  }
  k_build();
  K_SPAWN_WORKERS();
  // symbolic inputs are drawn after the spawns (the native replay runtime synchronises inputs with the
  // schedule only once threads exist); a worker that starts before its hint is drawn uses `false`,
  // which is one of the two values anyway
  for (int i = 0; i < VF_N; ++i) {
    g_prefer0[i] = vf_nondet_bool();
  }
#if VF_LIVE_CENTRAL
  // the hint may be stale-true on an idle pool (a producer's delayed store); false negatives need a
  // concurrent producer and are not part of this scenario
  k_hint_store(vf_nondet_bool());
#endif
  int32_t count = 1;
#if (VF_PATH == 3 || VF_PATH == 4) && VF_MAXCOUNT > 1
  count = (int32_t)vf_range_u32(VF_MINCOUNT, VF_MAXCOUNT);
#elif VF_PATH == 5
  count = 2;
#endif

  { VfAtomic a; g_inflight = 1; g_submitted = (uint32_t)count; }
#if VF_PATH == 1
  k_schedule();
#elif VF_PATH == 2
  k_schedulePlaced();
#elif VF_PATH == 3
  k_bulkToRings(count);
#elif VF_PATH == 4
  k_bulkEnqueue(count);
#elif VF_PATH == 5
  k_schedule();
  k_schedule();
#endif
  k_submission_done();

  // The producer does not help (no wait()).  A state where tasks remain unstarted and every worker is
  // parked is the engine's "thread parked forever" (the teardown is performed by whichever step
  // completes the ledger; without it the workers are never stopped).
  vf_join_all();
  vf_check(g_started == g_submitted, "every submitted task was started exactly once");
}
