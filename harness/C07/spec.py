TECHNIQUE = ('bounded symbolic execution of LLVM IR lowered to C: CBMC/SAT over a sequentialised step machine '
             '(symbolic round-robin scheduler, exact futex blocking with symbolic choice of the woken waiters, deadlock detection); '
             'protocol kernel: real PoolWakeState/EpochWaiter code, transcribed ThreadPool glue')
ASSUMPTIONS = [
    'the worker loop (threadLoopImpl, tryFindAndExecuteWork, waitOnThread) and the submission paths (scheduleImpl, '
    'scheduleImplPlaced, conditionallyWake, scheduleBulkToRings FastPath, scheduleBulkEnqueue) are harness transcriptions of the '
    'ThreadPool glue over ghost containers (central queue, per-thread rings, steal rings); only detail::PoolWakeState and '
    'detail::EpochWaiter are the real lifted code',
    'futex timeouts never fire (the property excludes the sleep backstop)',
    'spin tunables reduced (spin limit 2, spin-check interval 1, queue-check interval 1, cross-ring threshold 0): a woken worker '
    'probes every place the real loop probes once, then parks',
    'sequentially consistent atomics (interleaving semantics)',
]
OUTSIDE = ('regressions in the transcribed ThreadPool glue itself; pools with more than 3 workers; more than one producer; '
           'submissions racing with a worker that is still spinning down (not all workers parked); weak-memory reorderings; '
           'ring overflow fallbacks; more scheduler rounds than stated')
WAKE_FNS = ['_ZN8dispenso6detail13PoolWakeState15claimAndWakeOneEv', '_ZN8dispenso6detail13PoolWakeState15cascadeWakeSeedEi',
            '_ZN8dispenso6detail13PoolWakeState9wakeRangeEi', '_ZN8dispenso6detail13PoolWakeState7wakeAllEv',
            '_ZN8dispenso6detail13PoolWakeState11cascadeWakeEi']
KIT = {'engine': 'cbmc-seq', 'src': 'submit.cpp', 'models': ['aligned_alloc'],
       'repo_sources': ['dispenso/thread_pool_wake.cpp'],
       # out of line = executed without preemption: harness build/teardown and (quick tier) the producer-side
       # REAL wake functions; the worker-side REAL functions (enterSleep, exitSleep, waitFor, current) are always inlined
       'no_inline': ['_ZL7k_buildv', '_ZL10k_teardownv', '_ZL13k_cascadeWakei', '_ZL12k_enterSleepi', '_ZL11k_exitSleepi'] + WAKE_FNS,
       'unwind_fn': dict({'_ZL7k_buildv': 6, '_ZL10k_teardownv': 5}, **{f: 5 for f in WAKE_FNS}),
       'spin_loops': True, 'unwind': 3, 'timeout': 420, 'rt_defs': {'VF_SPURIOUS': 0}}


LIVE = {1: (1, 0, 0), 2: (1, 0, 1), 3: (0, 1, 0), 4: (1, 0, 0), 5: (1, 0, 0)}  # path -> live containers (central, ring, steal)


def inst(name, path, n, g, steps, bounds, tiers=('quick', 'thorough'), **kw):
    lc, lr, ls = LIVE[path]
    defs = {'VF_PATH': path, 'VF_N': n, 'VF_G': g, 'VF_LIVE_CENTRAL': lc, 'VF_LIVE_RING': lr, 'VF_LIVE_STEAL': ls}
    defs.update(kw.pop('defs', {}))
    d = dict(KIT, name=name, defs=defs, nthreads=n + 1, steps=steps, tiers=list(tiers),
             bounds='%d workers, wake group size %d; %s; %d scheduler rounds' % (n, g, bounds, steps))
    d.update(kw)
    return d


C2 = {'VF_COARSE_SLEEP': 1}
INSTANCES = [
    # decided on the unchanged tree (see NOTES.md): rings_n2_c1 is a genuine defect (VIOLATION), schedule_n1 holds
    inst('rings_n2_c1', 3, 2, 2, 2, 'scheduleBulkToRings(1): task 0 in ring 0, cascadeWakeSeed(1); enterSleep/exitSleep one step each',
         defs={'VF_MAXCOUNT': 1, 'VF_COARSE_SLEEP': 1}, preempts=2, timeout=1500),
    inst('schedule_n1', 1, 1, 1, 2, 'one schedule() (central queue, claimAndWakeOne) onto the parked pool; enterSleep/exitSleep one step each',
         defs=dict(C2), preempts=2, timeout=1500),
    # written, not run to a verdict inside the time budget (tier 'extended': run with --tier extended --only <name>)
    inst('schedule_n2', 1, 2, 2, 3, 'one schedule() onto the fully parked pool', tiers=('extended',), defs=dict(C2), preempts=3, timeout=3000),
    inst('placed_n2', 2, 2, 2, 3, 'one schedulePlaced(); assumption VF_SPINWINDOW: no worker starts parking while the call is in flight',
         tiers=('extended',), defs=dict(C2, VF_SPINWINDOW=1), preempts=3, timeout=3000),
    inst('placed_window_n2', 2, 2, 2, 3, 'one schedulePlaced() without the spin-window assumption (wake-before-push window, NOTES.md finding 3)',
         tiers=('extended',), defs=dict(C2), preempts=3, timeout=3000),
    inst('enqueue_n2', 4, 2, 2, 3, 'scheduleBulkEnqueue(count in 1..2)', tiers=('extended',), defs=dict(C2), preempts=3, timeout=3000),
    inst('schedule_twice_n2', 5, 2, 2, 4, 'two schedule() calls in a row (claimed-but-not-woken sleeper, NOTES.md finding 2)',
         tiers=('extended',), defs=dict(C2), preempts=3, timeout=3000),
    inst('rings_n3_g2', 3, 3, 2, 3, 'scheduleBulkToRings(count in 1..3), two wake groups {0,1},{2}: cascade wrapping + cascadeWakeSeed',
         tiers=('extended',), defs=dict(C2), preempts=3, timeout=3000),
    inst('rings_wakerange_n2', 3, 2, 2, 2, 'scheduleBulkToRings(1) built with DISPENSO_DISABLE_CASCADE_WAKERANGE: wakeRange(1)',
         tiers=('extended',), defs=dict(C2, VF_MAXCOUNT=1, VF_NOCASCADE=1), preempts=2, timeout=1500),
]
