// C01: every functor handed to a ThreadPool runs exactly once, no later than the return of ~ThreadPool.
// Bounded histories on a REAL ThreadPool (real constructor, real submission paths, real consumer
// functions, real destructor) with *virtual workers*: std::thread start is modelled (pool threads never
// run by themselves); where a history needs a worker, the harness runs the real worker loop
// (threadLoopImpl<true>) itself.  Ledger: every submitted functor carries an id; g_runs[id] counts its
// invocations.  Checked: never > 1 at any observation point, == 1 for every submitted id (and 0 for the
// others) when `delete pool` has returned.  Claims are at API-call granularity (every call below is atomic).
#define VF_THREAD_STATE_TRIVIAL 1
#include "../C47/pool_kit.h"

#ifndef VF_N
#define VF_N 1
#endif
#ifndef VF_SCN
#define VF_SCN 1
#endif
#ifndef VF_ASLEEP
#define VF_ASLEEP 9  // the worker is 0 = awake, 1 = asleep (real enterSleep), 9 = symbolic
#endif
#ifndef VF_VIA_TASKSET
#define VF_VIA_TASKSET 0  // 1: ring fast path entered through the real TaskSet::scheduleBulk
#endif

using namespace dispenso;

// environment contracts (identical definitions are used by the solver run and by the native replay):
// small-buffer allocator = malloc/free of the block size (the real allocator is property C39/C41),
// registerFineSchedulerQuanta = no-op (Windows timer resolution)
namespace dispenso {
namespace detail {
char* allocSmallBufferImpl(size_t ordinal) {
  return static_cast<char*>(::malloc(size_t{4} << ordinal));
}
void deallocSmallBufferImpl(size_t, void* buf) {
  ::free(buf);
}
void registerFineSchedulerQuanta() {}
}  // namespace detail
}  // namespace dispenso

static const int kMaxIds = 6;
static int g_runs[kMaxIds];
static int g_submitted;  // ids 0..g_submitted-1 were handed to the pool

struct Task {
  int id;
  void operator()() const { ++g_runs[id]; }
};
struct Gen {
  int base;
  Task operator()(size_t i) const { return Task{base + (int)i}; }
};
// a task during which the destructor's / resize's `t.stop()` reaches the worker that runs it (the virtual
// worker leaves its loop at the next running() test instead of going to sleep)
static ThreadPool::PerThreadData* g_stop_target;
struct StopTask {
  int id;
  void operator()() const {
    ++g_runs[id];
    g_stop_target->stop();
  }
};

static bool worker_asleep() {
#if VF_ASLEEP == 9
  return vf_nondet_bool();
#else
  return VF_ASLEEP != 0;
#endif
}
static void never_twice() {
  vf_check(g_runs[0] <= 1 && g_runs[1] <= 1 && g_runs[2] <= 1 && g_runs[3] <= 1 && g_runs[4] <= 1 &&
               g_runs[5] <= 1,
           "a submitted functor ran more than once");
}
static void finish(ThreadPool* pool) {
  never_twice();
  delete pool;  // real ~ThreadPool: stop, wakeAll, drain central queue, join (model), drain rings and steal rings
  // written without a loop (no unwinding bound involved); one obligation per id
#define ONCE_AT_END(i)                                   \
  vf_check(g_runs[i] == ((i) < g_submitted ? 1 : 0),     \
           "a functor handed to the pool did not run exactly once by the time ~ThreadPool returned");
  ONCE_AT_END(0) ONCE_AT_END(1) ONCE_AT_END(2) ONCE_AT_END(3) ONCE_AT_END(4) ONCE_AT_END(5)
#undef ONCE_AT_END
}

// fork-join ring fast path: count tasks, task i to ring i (thread_pool.h scheduleBulkToRings); either called as
// TaskSetBase::scheduleBulkImpl calls it (private member, reachable here) or through the real TaskSet
static void bulk_to_rings(ThreadPool& p, size_t count, int base) {
#if VF_VIA_TASKSET
  TaskSet* ts = new TaskSet(p);  // never destroyed: ~TaskSet would only wait()
  ts->scheduleBulk(count, Gen{base});
#else
  p.scheduleBulkToRings(count, Gen{base}, nullptr);
#endif
}

extern "C" void vf_main() {
  g_submitted = 0;

#if VF_SCN == 1
  // N = 0: every submission path runs the functor on the caller (documented 0-thread fallback);
  // caller = external thread or a worker of another pool, any inline depth
  ThreadPool* pool = new ThreadPool(0);
  {
    static char other_pool;
    if (vf_nondet_bool()) pk::PTI::registerPool(&other_pool, nullptr, 0);
    pk::PTI::inlineDepth() = (int)vf_range_u32(0, 40);
    int d0 = pk::PTI::inlineDepth();
    pool->schedule(Task{g_submitted++});
    pool->schedule(Task{g_submitted++}, ForceQueuingTag());
    pool->schedulePlaced(Task{g_submitted++});
    pool->schedulePlaced(Task{g_submitted++}, ForceQueuingTag());
    pool->scheduleBulk(2, Gen{g_submitted});
    g_submitted += 2;
    vf_check(pk::PTI::inlineDepth() == d0, "harness: inline depth restored");
  }
#elif VF_SCN == 2
  // N = 1, load multiplier 1 (poolLoadFactor_ == 1): the worker is asleep (real enterSleep) or awake (symbolic);
  // schedulePlaced(FQ) claims the sleeper and pushes to its steal ring, or falls back to the central queue;
  // schedule(FQ) -> central queue; schedule() sees workRemaining_ 2 > load factor 1 -> runs inline;
  // then the worker wakes up and runs the real loop until the stop task has run; then the destructor
  ThreadPool* pool = new ThreadPool(1, 1);
  {
    auto* ws = pool->wakeState_.load();
    bool asleep = worker_asleep();
    if (asleep) ws->enterSleep(0);
    g_stop_target = &pool->threads_[0];
    pool->schedulePlaced(StopTask{g_submitted++}, ForceQueuingTag());
    pool->schedule(Task{g_submitted++}, ForceQueuingTag());
    pool->schedule(Task{g_submitted++});
    vf_check(g_runs[2] == 1 && g_runs[0] == 0 && g_runs[1] == 0,
             "harness: overloaded schedule() ran inline, the force-queued ones did not");
    never_twice();
    if (asleep) ws->exitSleep(0);
    pool->threadLoopWake(pool->threads_[0], 0);
  }
#elif VF_SCN == 3
  // N = 1: ring 0 is full (16 older tasks pushed through the real try_push), the worker is asleep or awake
  // (symbolic), schedulePlaced(FQ) -> steal ring or central queue; the fork-join fast path finds ring 0 full
  // and falls back to the central queue (scheduleBulkToRingsFastPath); nobody consumes; the destructor must
  // drain central queue, ring and steal ring
  ThreadPool* pool = new ThreadPool(1);
  {
    using pk::Ballast;
    PK_PUSH_IF(pool->rings_[0], true) PK_PUSH_IF(pool->rings_[0], true) PK_PUSH_IF(pool->rings_[0], true)
    PK_PUSH_IF(pool->rings_[0], true) PK_PUSH_IF(pool->rings_[0], true) PK_PUSH_IF(pool->rings_[0], true)
    PK_PUSH_IF(pool->rings_[0], true) PK_PUSH_IF(pool->rings_[0], true) PK_PUSH_IF(pool->rings_[0], true)
    PK_PUSH_IF(pool->rings_[0], true) PK_PUSH_IF(pool->rings_[0], true) PK_PUSH_IF(pool->rings_[0], true)
    PK_PUSH_IF(pool->rings_[0], true) PK_PUSH_IF(pool->rings_[0], true) PK_PUSH_IF(pool->rings_[0], true)
    PK_PUSH_IF(pool->rings_[0], true)
    pool->workRemaining_.fetch_add(16);  // what the producers of the older tasks did
    auto* ws = pool->wakeState_.load();
    bool asleep = worker_asleep();
    if (asleep) ws->enterSleep(0);
    pool->schedulePlaced(Task{g_submitted++}, ForceQueuingTag());
    vf_check(pool->stealRings_[0].empty() == !asleep, "harness: placed task sits in the sleeper's steal ring");
    bulk_to_rings(*pool, 1, g_submitted);
    g_submitted += 1;
    vf_check(pool->work_.n_ == (asleep ? 1u : 2u),
             "harness: ring 0 full, the bulk task must have fallen back to the central queue");
    vf_check(g_runs[0] == 0 && g_runs[1] == 0 && pk::g_ballast_ran == 0, "harness: nothing ran yet");
  }
#elif VF_SCN == 4
  // N = 1: ring fast path, resize(2) (drains the ring, grows the arenas, new wake state), ring fast path
  // over both rings, optional waiter steal (tryExecuteNextFromRings), destructor drains the rings
  ThreadPool* pool = new ThreadPool(1);
  {
    bulk_to_rings(*pool, 1, g_submitted);
    g_submitted += 1;
    vf_check(!pool->rings_[0].empty(), "harness: ring fast path taken");
    pool->resize(2);
    vf_check(g_runs[0] == 1, "harness: resize ran the ring task");
    never_twice();
    bulk_to_rings(*pool, 2, g_submitted);
    g_submitted += 2;
    vf_check(!pool->rings_[0].empty() && !pool->rings_[1].empty(), "harness: one task in each ring");
#if VF_STEAL
    size_t start = vf_range_u32(0, 1);
    pool->tryExecuteNextFromRings(start);
    never_twice();
#endif
  }
#elif VF_SCN == 5
  // N = 2: fork-join ring fast path puts task i into ring i; optionally (literal) a waiter steals one task
  // (tryExecuteNextFromRings starting at ring 1); nobody else consumes; the destructor drains both rings
  ThreadPool* pool = new ThreadPool(2);
  {
    bulk_to_rings(*pool, 2, g_submitted);
    g_submitted += 2;
    vf_check(!pool->rings_[0].empty() && !pool->rings_[1].empty() && pool->work_.n_ == 0,
             "harness: one task in each ring");
#if VF_STEAL
    size_t start = 1;
    bool got = pool->tryExecuteNextFromRings(start);
    vf_check(got && g_runs[1] == 1 && g_runs[0] == 0, "harness: the waiter ran the task of ring 1");
    never_twice();
#endif
  }
#endif

  finish(pool);
#if VF_SCN == 3
  vf_check(pk::g_ballast_ran == 16, "the 16 older ring tasks did not run exactly 16 times in total");
#endif
}
