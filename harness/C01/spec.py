# C01 uses the history harness and the instance builder of C08 (harness/C08/hist.cpp, harness/C08/spec.py) with the
# per-id ledger (VF_ONCE) and the real ~ThreadPool at the end of every history.
import os
import importlib.util

_p = os.path.join(os.path.dirname(os.path.abspath(__file__)), '..', 'C08', 'spec.py')
_s = importlib.util.spec_from_file_location('c08_spec', _p)
_c08 = importlib.util.module_from_spec(_s)
_s.loader.exec_module(_c08)

TECHNIQUE = _c08.TECHNIQUE
ASSUMPTIONS = _c08.ASSUMPTIONS
OUTSIDE = _c08.OUTSIDE + ('; more than one producer thread and interleavings inside the API calls (covered for the '
                          'rings by C34 and for park/wake by C07/C09 kernels)')
_END = '; then the real ~ThreadPool; per-id ledger: never run twice, exactly once after the destructor'


def inst(kind, n, tiers, **kw):
    return _c08.inst(kind, n, tiers, prop='VF_ONCE', end=_END, **kw)


INSTANCES = [
    inst('central', 0, ['quick', 'thorough'], rt=1, choice=1),
    inst('worker', 1, ['quick', 'thorough']),
    inst('overflow', 1, ['quick', 'thorough'], choice=0),
    inst('ring_resize', 1, ['quick', 'thorough'], rt=2, choice=0),
    inst('central', 1, ['thorough'], rt=2),
    inst('steal_resize', 1, ['thorough'], rt=0),
    inst('steal_worker', 1, ['thorough']),
    inst('overflow', 1, ['thorough']),
    inst('ring_resize', 1, ['thorough']),
    inst('central', 2, ['thorough']),
    inst('ring_resize', 2, ['thorough']),
]
