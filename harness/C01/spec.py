TECHNIQUE = ('bounded symbolic execution of LLVM IR lowered to C: CBMC/SAT (cadical), sequential history harness on the '
             'real ThreadPool (real constructor, submission paths, worker loop, resize, destructor) with virtual workers '
             'and a per-task run ledger')
ASSUMPTIONS = [
    'moodycamel::ConcurrentQueue replaced by its contract model (shim/moodycamel, bounded FIFO)',
    'detail::alignedMalloc/alignedFree replaced by their contract (typed fresh block); small-buffer allocator = malloc/free',
    'std::thread start/join modelled: pool threads never run by themselves; where a history needs a worker the harness '
    'runs the real worker loop (threadLoopImpl<true>) itself; the loop is left through PerThreadData::stop() called from '
    'inside a task (what ~ThreadPool/resize do concurrently), never by parking',
    'cbmc runs with --no-standard-checks --div-by-zero-check --bounds-check: pointer-validity obligations of the pool '
    'code are not part of this property (they dominate the formula otherwise); user checks, division and array '
    'bounds are decided',
]
OUTSIDE = ('API-call granularity: each API call of a history is atomic (interleavings inside the functions and more than '
           'one concurrent producer are outside; the ring protocol is covered by C34, park/wake by C07/C09); histories '
           'other than the listed shapes (shapes are fixed, parameters - worker asleep or awake, caller identity, inline '
           'depth, which ring a waiter starts with - are symbolic); pool sizes > 2; polling mode (setSignalingWake(false)); '
           'steal-ring sharing 1 (steal-ring capacity 4), spin limits 1/2 and DISPENSO_DISABLE_CASCADE_WAKERANGE (cascade-host '
           'wrappers exist only for pools with more than one wake group) are configuration bounds; allocation failure')

_SRC = ['dispenso/thread_pool.cpp', 'dispenso/thread_pool_wake.cpp', 'dispenso/detail/per_thread_info.cpp',
        'dispenso/task_set.cpp']
_R16 = '_ZN8dispenso21ConcurrentObjectArenaINS_14MpmcRingBufferINS_12OnceFunctionELm16ELb1EEEmLm64EE7grow_byEm.4'
_R4 = '_ZN8dispenso21ConcurrentObjectArenaINS_14MpmcRingBufferINS_12OnceFunctionELm4ELb1EEEmLm64EE7grow_byEm.4'
_RESIZE = '_ZN8dispenso10ThreadPool12resizeLockedEl'
_DTOR = '_ZN8dispenso10ThreadPoolD2Ev'
_LOOP = '_ZN8dispenso10ThreadPool14threadLoopImplILb1EEEvRNS0_13PerThreadDataEi'

SCN = {
    'central': (1, 'ThreadPool(0): caller = external thread or worker of another pool, inline depth 0..40 (symbolic); '
                   'schedule, schedule(FQ), schedulePlaced, schedulePlaced(FQ), scheduleBulk(2): everything runs on the caller'),
    'worker': (2, 'ThreadPool(1, loadMultiplier 1): worker asleep (real enterSleep) or awake (symbolic); '
                  'schedulePlaced(stop task, FQ) -> claimed sleeper\'s steal ring or central queue; schedule(FQ) -> central '
                  'queue; schedule() -> inline (workRemaining_ 2 > load factor 1); the worker runs the real '
                  'threadLoopImpl<true> until the stop task has run'),
    'overflow': (3, 'ThreadPool(1): ring 0 pre-filled to capacity (16 older tasks, real try_push); worker asleep or awake '
                    '(symbolic); schedulePlaced(FQ) -> steal ring or central queue; fork-join ring fast path '
                    '(scheduleBulkToRings, 1 task) finds ring 0 full and falls back to the central queue; no consumer: '
                    'the destructor drains central queue, ring and steal ring'),
    'ring_resize': (4, 'ThreadPool(1): ring fast path (1 task), resize(2) drains it and grows the arenas; ring fast path '
                       'over both rings (2 tasks); optional waiter steal (tryExecuteNextFromRings, symbolic start ring); '
                       'the destructor drains the rings'),
    'ring_dtor': (5, 'ThreadPool(2): fork-join ring fast path (scheduleBulkToRings, 2 tasks: task i in ring i); optional '
                     'waiter steal (tryExecuteNextFromRings from ring 1); no other consumer: the destructor drains the rings'),
}


def inst(kind, n, tiers, name=None, asleep=9, via_taskset=0, steal=0, unwind_fn=None, loops=None, mq=2, timeout=1500, fs=4096):
    scn, text = SCN[kind]
    defs = {'VF_N': n, 'VF_SCN': scn, 'VF_MQ_CAP': mq, 'VF_VIA_TASKSET': via_taskset, 'VF_STEAL': steal,
            'VF_ASLEEP': asleep}
    r = {
        'name': name or '%s_n%d' % (kind, n), 'src': 'once.cpp', 'engine': 'cbmc', 'shims': ['moodycamel'],
        'repo_sources': _SRC, 'rt_defs': {'VF_HAVE_THREAD_MODEL': 1}, 'models': ['aligned_alloc'],
        'defs': defs,
        'cflags': ['-DDISPENSO_TUNE_STEAL_RING_SHARING=1', '-DDISPENSO_TUNE_FIXED_SPIN_ITERS=2',
                   '-DDISPENSO_TUNE_SPIN_CHECK_INTERVAL=1', '-DDISPENSO_TUNE_QUEUE_CHECK_INTERVAL=1',
                   '-DDISPENSO_DISABLE_CASCADE_WAKERANGE'],
        'unwind': 3, 'nthreads': 1, 'spin_loops': True, 'unwindset': dict({_R16: 17, _R4: 5}, **(loops or {})),
        'unwind_fn': unwind_fn or {},
        'checks': ['--no-standard-checks', '--div-by-zero-check', '--bounds-check'],
        'timeout': timeout, 'tiers': tiers,
        'bounds': ('model queue capacity %d, steal-ring capacity 4; history: %s%s; then the real ~ThreadPool; per-id ledger: '
                   'never run twice, exactly once after the destructor') % (
                       mq, text, ' (ring fast path entered through the real TaskSet::scheduleBulk)' if via_taskset else ''),
    }
    if fs:
        # byte arrays (arena blocks holding the rings) up to this size are split into per-element SSA symbols, so that
        # ring indices / sequence numbers read back from them stay constants during symbolic execution
        r['fs_array'] = fs
    return r


INSTANCES = [
    inst('central', 0, ['quick', 'thorough'], fs=None),
    inst('worker', 1, ['quick', 'thorough'], asleep=1, unwind_fn={_LOOP: 5}),
    inst('overflow', 1, ['quick', 'thorough'], asleep=1, unwind_fn={_DTOR: 18}),
    inst('ring_dtor', 2, ['quick', 'thorough'], fs=16384),
    inst('worker', 1, ['thorough'], name='worker_awake_n1', asleep=0, unwind_fn={_LOOP: 5}),
    inst('overflow', 1, ['thorough'], name='overflow_awake_n1', asleep=0, unwind_fn={_DTOR: 18}),
    inst('ring_dtor', 2, ['thorough'], name='ring_dtor_steal_n2', steal=1, fs=16384),
]
