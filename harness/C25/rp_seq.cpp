// C25 (sequential history): a symbolic single-threaded history of handle operations on a real
// dispenso::ResourcePool<Res> against a reference model of the handle slots.
// Real code: ResourcePool<Res>::{ctor, acquire, recycle, dtor}, Resource<Res>::{move ctor, move
//            assignment, get, recycle, dtor}.
// Symbolic: pool size 1..VF_SIZE, VF_OPS operations (kind + slot indices), i.e. every history of
//           that length: acquire into a fresh handle, acquire assigned onto an existing (live or
//           moved-from) handle, destroy a handle, move-construct, move-assign (live onto live, live
//           onto moved-from, moved-from onto live, self), get().
// Checked after every operation: free count == size - held (so acquire() would park iff all
//           resources are held; an operation that would park is not executed but must coincide with
//           held == size), every live handle refers to the resource the model says, no resource is
//           referred to by two handles; at the end: all handles destroyed -> queue holds every
//           resource exactly once; ~ResourcePool destroys each resource exactly once.
#ifndef VF_SIZE
#define VF_SIZE 2
#endif
#ifndef VF_SYMSIZE
#define VF_SYMSIZE 0
#endif
#include "rp_common.h"
#ifndef VF_OPS
#define VF_OPS 4
#endif
#ifndef VF_SLOTS
#define VF_SLOTS 3
#endif

union HSlot {
  Handle h;
  HSlot() {}
  ~HSlot() {}
};
static HSlot g_slot[VF_SLOTS];
static bool g_cons[VF_SLOTS];      // a Handle object exists in the slot
static int32_t g_model[VF_SLOTS];  // resource id the handle owns, -1: moved-from / none
static PoolHolder g_holder;
static uint32_t g_size;

static inline Pool& pool() { return g_holder.p; }

static uint32_t modelHeld() {
  uint32_t n = 0;
  for (int j = 0; j < VF_SLOTS; ++j) n += (g_cons[j] && g_model[j] >= 0) ? 1 : 0;
  return n;
}

static void checkState() {
  uint32_t held = modelHeld();
  vf_check(held <= g_size, "more resources are held than the pool has");
  vf_check(pool().pool_.n_ == g_size - held, "free resources == size - held (acquire parks iff all resources are held)");
  uint8_t holders[kMaxRes] = {0, 0, 0, 0};
  for (int j = 0; j < VF_SLOTS; ++j) {
    if (!g_cons[j]) continue;
    Handle& h = g_slot[j].h;
    if (g_model[j] >= 0) {
      int k = h.resource_ ? resIndex(pool(), h.resource_, g_size) : -1;
      vf_check(k == g_model[j], "a live handle refers to the resource it acquired / was moved");
      if (k >= 0) {
        vf_check(&h.get() == h.resource_, "get() returns the held resource");
        ++holders[k];
        vf_check(holders[k] <= 1, "a resource is held by two handles at the same time");
      }
    }
  }
}

// identify the resource a freshly acquired handle owns; it must be one nobody holds
static int32_t noteAcquired(Handle& h, int self) {
  vf_check(h.resource_ != nullptr, "acquire() returned an empty handle");
  if (!h.resource_) return -1;
  int k = resIndex(pool(), h.resource_, g_size);
  vf_check(k >= 0, "acquire() returned a pointer that is not one of the pool's resources");
  for (int j = 0; j < VF_SLOTS; ++j) {
    if (j != self && g_cons[j] && g_model[j] >= 0) vf_check(g_model[j] != k, "acquire() handed out a resource that is already held");
  }
  return k;
}

static void phase(uint32_t) {
#if VF_SYMSIZE
  g_size = vf_range_u32(1, VF_SIZE);
#else
  g_size = VF_SIZE;
#endif
  makePool(g_holder, g_size);
  vf_check(g_next == (int32_t)g_size, "the constructor calls init exactly size times");
  checkQueueIsFull(pool(), g_size);
  for (int j = 0; j < VF_SLOTS; ++j) { g_cons[j] = false; g_model[j] = -1; }

  for (int op = 0; op < VF_OPS; ++op) {
    uint32_t kind = vf_range_u32(0, 5);
    uint32_t j = vf_range_u32(0, VF_SLOTS - 1);
    uint32_t k = vf_range_u32(0, VF_SLOTS - 1);
    bool wouldPark = pool().pool_.n_ == 0;
    vf_check(wouldPark == (modelHeld() == g_size), "acquire() would park exactly when all resources are held");
    if (kind == 0) {  // acquire into a fresh handle
      vf_assume(!g_cons[j] && !wouldPark);
      Handle* h = new (&g_slot[j].h) Handle(pool().acquire());
      g_cons[j] = true;
      g_model[j] = noteAcquired(*h, (int)j);
    } else if (kind == 1) {  // acquire assigned onto an existing handle (live or moved-from)
      vf_assume(g_cons[j] && !wouldPark);
      g_slot[j].h = pool().acquire();
      g_model[j] = noteAcquired(g_slot[j].h, (int)j);  // the old resource (if any) went back
    } else if (kind == 2) {  // destroy a handle
      vf_assume(g_cons[j]);
      g_slot[j].h.~Handle();
      g_cons[j] = false;
      g_model[j] = -1;
    } else if (kind == 3) {  // move-construct j from k
      vf_assume(!g_cons[j] && g_cons[k]);
      new (&g_slot[j].h) Handle(std::move(g_slot[k].h));
      g_cons[j] = true;
      g_model[j] = g_model[k];
      g_model[k] = -1;
    } else if (kind == 4) {  // move-assign j = move(k); j == k is a self-assignment
      vf_assume(g_cons[j] && g_cons[k]);
      g_slot[j].h = std::move(g_slot[k].h);
      if (j != k) {
        g_model[j] = g_model[k];  // j's old resource (if any) went back
        g_model[k] = -1;
      }
    } else {  // use the resource
      vf_assume(g_cons[j] && g_model[j] >= 0);
      Res& r = g_slot[j].h.get();
      vf_check(r.id == g_model[j], "get() returns the held resource, intact");
      r.owner += 1;
    }
    checkState();
  }
  // the user returns all handles (documented precondition of ~ResourcePool)
  for (int j = 0; j < VF_SLOTS; ++j) {
    if (g_cons[j]) {
      g_slot[j].h.~Handle();
      g_cons[j] = false;
      g_model[j] = -1;
    }
  }
  checkState();
  checkQueueIsFull(pool(), g_size);
  // ~ResourcePool's documented precondition (it would block forever otherwise); its violation was reported above
  if (pool().pool_.n_ != g_size) return;
  pool().~Pool();
  checkAllDestroyedOnce(g_size);
}

extern "C" void vf_main() { phase(0); }
