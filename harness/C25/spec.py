TECHNIQUE = ('bounded symbolic execution of LLVM IR lowered to C: CBMC/SAT (cadical); concurrent instances: sequentialised '
             'step machine with symbolic round-robin scheduler, exact blocking and deadlock detection (engine cbmc-seq); '
             'one sequential history instance against a reference model of the handles (engine cbmc)')
ASSUMPTIONS = ['moodycamel::BlockingConcurrentQueue replaced by its contract model (shim/moodycamel: linearizable bounded FIFO, '
               'wait_dequeue blocks exactly while the queue is empty); third-party code, trusted, not verified',
               'detail::alignedMalloc/alignedFree replaced by their contract (fresh block; real address arithmetic is checked under C44)',
               'documented precondition of ~ResourcePool: all Resource handles were destroyed before the pool',
               'the program itself is deadlock free: sum over threads of (resources held at once - 1) < pool size',
               'sequential consistency; interleaving granularity = queue operation + one scheduling point inside every holding section']
OUTSIDE = ('pool sizes above 2 (size 3 only in the not-run extended instance); more than 3 threads / 2 cycles per thread / the stated scheduler rounds; the real moodycamel queue '
           '(its semaphore, per-producer sub-queues, allocation failure in enqueue); weak-memory reorderings; init functors that throw')

KIT = {'src': 'rp_conc.cpp', 'engine': 'cbmc-seq', 'shims': ['moodycamel'], 'models': ['aligned_alloc'],
       'spin_loops': True, 'unwind': 4, 'timeout': 1700}


def conc(name, size, kinds, steps, tiers, bounds, thorough=None, symsize=0, **kw):
    # kinds: ((t1a, t1b), (t2a, t2b)[, (t3a, t3b)])
    defs = {'VF_SIZE': size, 'VF_SYMSIZE': symsize, 'VF_MQ_CAP': size + 2}
    for n, (a, b) in enumerate(kinds, 1):
        defs['VF_T%dA' % n] = a
        defs['VF_T%dB' % n] = b
    i = dict(KIT, name=name, defs=defs, steps=steps, nthreads=len(kinds) + 1, tiers=tiers,
             bounds=bounds + '; queue model capacity size+2 (so that a resource returned twice is representable)')
    i.update(kw)
    if thorough:
        i['thorough'] = thorough
    return i


R = '%d scheduler rounds (every thread one execution segment per round; a switch is possible before every queue operation and inside every holding section)'
INSTANCES = [
    conc('conc_s1_2t', 1, ((0, 1), (0, 3)), 3, ['quick', 'thorough'],
         'pool size 1; 2 threads x 2 cycles: plain acquire/release + move-constructed handle | plain + move-assignment onto a moved-from '
         'handle and self-move-assignment; ' + R % 3 + ' (thorough: 5)', thorough={'steps': 5}),
    conc('conc_s2_assign', 2, ((2, -1), (0, 0)), 3, ['quick', 'thorough'],
         'pool size 2; thread 1: holds two resources and move-assigns one handle onto the other live handle; thread 2: 2 plain cycles; '
         + R % 3),
    conc('conc_s2_3t', 2, ((0, -1), (1, -1), (4, -1)), 3, ['thorough'],
         'pool size 2; 3 threads x 1 cycle: plain | move-constructed handle | fresh acquire() assigned onto a live handle; '
         + R % 3),
    # tier 'extended' is not run by ./check: these bounds did not finish inside the time-outs on the (heavily loaded) build machine
    conc('conc_s3_3t', 3, ((2, -1), (4, -1), (9, 9)), 4, ['extended'],
         'pool size 3; 3 threads: move-assignment onto a live handle | acquire() assigned onto a live handle | '
         '2 cycles of symbolic kind (plain, move-constructed, move-assigned onto moved-from + self-assignment); ' + R % 4, symsize=0),
    {'name': 'seq_history', 'src': 'rp_seq.cpp', 'engine': 'cbmc', 'shims': ['moodycamel'], 'models': ['aligned_alloc'],
     'defs': {'VF_SIZE': 2, 'VF_SYMSIZE': 0, 'VF_OPS': 3, 'VF_SLOTS': 3, 'VF_MQ_CAP': 4}, 'unwind': 5, 'timeout': 1500,
     'tiers': ['quick', 'thorough'],
     'bounds': 'pool size 2; 3 handle slots; every history of 3 operations out of: acquire into a '
               'fresh handle, acquire() assigned onto an existing handle, destroy, move-construct, move-assign (incl. self, live onto live, '
               'onto/from moved-from), get(); then all handles destroyed and ~ResourcePool; queue model capacity size+2',
     'extended': {'defs': {'VF_SIZE': 3, 'VF_SYMSIZE': 1, 'VF_OPS': 4, 'VF_SLOTS': 3, 'VF_MQ_CAP': 5}, 'unwind': 6}},
]
