// C25: shared pieces of the ResourcePool harnesses: the tracked resource type, the init functor and
// the ghost ledger of constructions / destructions.
#pragma once
#include <new>
#include <utility>
#include <dispenso/resource_pool.h>
#include "vf.h"

enum { kMaxRes = 4 };

// ---------------------------------------------------------------- ghost ledger (per resource id)
static int8_t g_made[kMaxRes];    // Res(id) constructions (by the init functor)
static int8_t g_alive[kMaxRes];   // value-carrying objects alive
static int8_t g_killed[kMaxRes];  // destructions of the value-carrying object
static int32_t g_objs;            // all Res objects alive (including moved-from temporaries)
static int32_t g_next;            // next id handed out by the init functor

// The user's resource type: small, movable (ResourcePool's constructor does `new (buf) T(init())`,
// which needs an accessible move constructor in C++14), lifetime-tracked.
struct Res {
  int32_t id;     // >= 0: value-carrying; -1: moved-from; -99: destroyed
  int32_t owner;  // written by the current holder (what a user does with an exclusive resource)
  explicit Res(int32_t i) noexcept : id(i), owner(0) {
    ++g_objs;
    if (i >= 0 && i < kMaxRes) { ++g_made[i]; ++g_alive[i]; }
  }
  Res(Res&& o) noexcept : id(o.id), owner(o.owner) {
    ++g_objs;
    o.id = -1;
  }
  Res(const Res&) = delete;
  Res& operator=(const Res&) = delete;
  ~Res() {
    vf_check(id != -99, "a resource object is destroyed twice");
    --g_objs;
    if (id >= 0 && id < kMaxRes) {
      vf_check(g_alive[id] == 1, "a resource is destroyed although it is not alive");
      --g_alive[id];
      ++g_killed[id];
    }
    id = -99;
  }
};

struct Init {
  Res operator()() const { return Res(g_next++); }
};

using Pool = dispenso::ResourcePool<Res>;
using Handle = dispenso::Resource<Res>;

// typed storage with manual lifetime
union PoolHolder {
  Pool p;
  PoolHolder() {}
  ~PoolHolder() {}
};

static constexpr size_t kStride = dispenso::detail::alignToCacheLine(sizeof(Res));

// construct the pool with `size` (1..maxSize) resources.  One constructor call per size so that the
// size of the backing allocation is a constant for the solver (a symbolic allocation size makes
// cbmc model the block as an unbounded array)
static inline void makePool(PoolHolder& h, uint32_t size) {
#if VF_SYMSIZE
  if (size == 1) new (&h.p) Pool(1, Init{});
#if VF_SIZE >= 3
  else if (size == 2) new (&h.p) Pool(2, Init{});
#endif
  else new (&h.p) Pool(VF_SIZE, Init{});
#else
  new (&h.p) Pool(VF_SIZE, Init{});
#endif
}

// index of the pool resource `p` points to, -1 if it is none of them
static inline int resIndex(Pool& pool, const Res* p, uint32_t size) {
  int k = -1;
#pragma unroll
  for (uint32_t i = 0; i < kMaxRes; ++i) {
    if (i < size && reinterpret_cast<const char*>(p) == pool.backingResources_ + kStride * i) k = (int)i;
  }
  return k;
}

// quiescent: the queue holds exactly `size` pointers, one to each resource
static inline void checkQueueIsFull(Pool& pool, uint32_t size) {
  vf_check(pool.pool_.n_ == size, "quiescent: every resource is back in the pool (free count == size)");
  uint8_t seen[kMaxRes] = {0, 0, 0, 0};
#pragma unroll
  for (uint32_t i = 0; i < kMaxRes; ++i) {
    if (i < size && i < pool.pool_.n_) {
      int k = resIndex(pool, *pool.pool_.at(i), size);
      vf_check(k >= 0, "quiescent: the pool's queue holds a pointer that is not one of its resources");
      if (k >= 0) {
        vf_check(seen[k] == 0, "quiescent: the pool's queue holds the same resource twice");
        seen[k] = 1;
      }
    }
  }
}

// after ~ResourcePool
static inline void checkAllDestroyedOnce(uint32_t size) {
  // (no if/else around the checks: LLVM would merge two vf_check calls into one with a phi label)
#pragma unroll
  for (uint32_t i = 0; i < kMaxRes; ++i) {
    const bool in = i < size;
    vf_check(!in || g_made[i] == 1, "the init functor's result is constructed into the pool exactly once per resource");
    vf_check(!in || g_killed[i] >= 1, "a resource was not destroyed by ~ResourcePool (leak)");
    vf_check(!in || g_killed[i] <= 1, "a resource was destroyed more than once");
    vf_check(!in || g_alive[i] == 0, "a resource outlives the pool");
    vf_check(in || g_made[i] == 0, "the pool constructed more resources than its size");
  }
  vf_check(g_objs == 0, "every resource object (temporaries included) is destroyed exactly once");
}
