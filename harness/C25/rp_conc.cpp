// C25 (concurrent): dispenso::ResourcePool<T> — at most `size` resources are held at any time, each
// resource is held by at most one Resource handle at a time, acquire() parks only while all
// resources are held, and ~ResourcePool destroys every resource exactly once.
// Real code: ResourcePool<Res>::{ResourcePool(size, init), acquire, recycle, ~ResourcePool},
//            Resource<Res>::{Resource(Resource&&), operator=(Resource&&), get, recycle, ~Resource}.
// Environment: moodycamel::BlockingConcurrentQueue replaced by its contract (shim/moodycamel),
//            detail::alignedMalloc/alignedFree by their contract.
// Symbolic: the interleaving (a switch is possible before every queue operation and inside every
//           holding section), with VF_SYMSIZE the pool size 1..VF_SIZE, with kind 9 the kind of a cycle.
//
// -D parameters:
//   VF_SIZE     pool size (VF_SYMSIZE=1: symbolic 1..VF_SIZE)
//   VF_T<n><c>  kind of cycle c (A, B) of thread n (1..3); -1: none
//     0 plain:      { auto h = acquire(); hold; }                                     (1 resource)
//     1 move-ctor:  a = acquire(); Resource b(std::move(a)); hold through b;          (1 resource)
//     2 move-assign onto a live handle: a = acquire(); b = acquire(); hold both; a = std::move(b);
//                   (a's resource goes back to the pool), hold through a              (2 resources)
//     3 move-assign onto a moved-from handle + self-move-assignment:
//                   a = acquire(); b(std::move(a)); a = std::move(b); a = std::move(a); hold  (1 resource)
//     4 assign a fresh acquire() onto a live handle: a = acquire(); hold; a = acquire(); hold  (2 resources)
//     9 symbolic choice among 0, 1, 3
//   Deadlock freedom of the *program* (a documented obligation of the user of any semaphore-like
//   pool): sum over threads of (max resources held at once - 1) < VF_SIZE; the spec only lists such
//   configurations, so any parked-forever thread is the pool's fault.
#ifndef VF_SIZE
#define VF_SIZE 2
#endif
#ifndef VF_SYMSIZE
#define VF_SYMSIZE 0
#endif
#include "rp_common.h"
#ifndef VF_T1A
#define VF_T1A 0
#endif
#ifndef VF_T1B
#define VF_T1B -1
#endif
#ifndef VF_T2A
#define VF_T2A 0
#endif
#ifndef VF_T2B
#define VF_T2B -1
#endif
#ifndef VF_T3A
#define VF_T3A -1
#endif
#ifndef VF_T3B
#define VF_T3B -1
#endif

static PoolHolder g_holder;
static inline Pool& pool() { return g_holder.p; }
static uint32_t g_size;

// ---------------------------------------------------------------- ghost state of the holding sections
static int8_t g_holders[kMaxRes];  // handles currently inside a holding section, per resource
static int32_t g_held;             // resources currently inside a holding section

// start of a holding section: the handle `h` was just obtained.  Returns the resource id (-1: unusable handle)
static inline int enter(Handle& h, int tid) {
  VfAtomic a;
  Res* p = h.resource_;
  vf_check(p != nullptr, "acquire() returned an empty handle");
  if (p == nullptr) return -1;
  int k = resIndex(pool(), p, g_size);
  vf_check(k >= 0, "acquire() returned a pointer that is not one of the pool's resources");
  if (k < 0) return -1;
  Res& r = h.get();
  vf_check(&r == p && r.id == k, "get() returns the acquired resource, constructed by init and intact");
  ++g_holders[k];
  vf_check(g_holders[k] <= 1, "a resource is held by two handles at the same time");
  ++g_held;
  vf_check((uint32_t)g_held <= g_size, "more resources are held than the pool has");
  // free + held never exceeds size (held here <= really held): a resource returned twice shows up here
  vf_check(pool().pool_.n_ + (uint32_t)g_held <= g_size, "free + held resources exceed the pool size (a resource was returned twice)");
  r.owner = tid;
  return k;
}
// end of a holding section (the handle is about to give the resource back)
static inline void leave(Handle& h, int k, int tid) {
  if (k < 0) return;
  VfAtomic a;
  vf_check(h.resource_ != nullptr && &h.get() == reinterpret_cast<Res*>(pool().backingResources_ + kStride * k),
           "the handle still refers to the resource it acquired");
  vf_check(h.get().owner == tid && h.get().id == k, "a held resource was written by another holder");
  --g_holders[k];
  --g_held;
}
static inline void hold() { vf_sched_point(); }

static inline void cycle(int kind, int tid) {
  if (kind == 0) {
    Handle h = pool().acquire();
    int k = enter(h, tid);
    hold();
    leave(h, k, tid);
  } else if (kind == 1) {
    Handle a = pool().acquire();
    int k = enter(a, tid);
    hold();
    Handle b(std::move(a));
    hold();
    leave(b, k, tid);
  } else if (kind == 2) {
    Handle a = pool().acquire();
    int ka = enter(a, tid);
    Handle b = pool().acquire();
    int kb = enter(b, tid);
    hold();
    leave(a, ka, tid);   // a's resource goes back to the pool in the assignment
    a = std::move(b);
    hold();
    leave(a, kb, tid);
  } else if (kind == 3) {
    Handle a = pool().acquire();
    int k = enter(a, tid);
    Handle b(std::move(a));
    hold();
    a = std::move(b);  // onto a moved-from handle: nothing to give back
    Handle& self = a;
    a = std::move(self);  // self-assignment keeps the resource
    hold();
    leave(a, k, tid);
  } else if (kind == 4) {
    Handle a = pool().acquire();
    int k = enter(a, tid);
    hold();
    leave(a, k, tid);
    a = pool().acquire();  // second resource is taken before the first one is given back
    k = enter(a, tid);
    hold();
    leave(a, k, tid);
  }
}
static inline void cycle_sym(int tid) {
  uint32_t c = vf_range_u32(0, 2);
  if (c == 0) cycle(0, tid);
  else if (c == 1) cycle(1, tid);
  else cycle(3, tid);
}
#define CYCLE(K, TID)                \
  do {                               \
    if ((K) == 9) cycle_sym(TID);    \
    else if ((K) >= 0) cycle((K), TID); \
  } while (0)

static void thread1(void*) {
  CYCLE(VF_T1A, 1);
  CYCLE(VF_T1B, 1);
}
static void thread2(void*) {
  CYCLE(VF_T2A, 2);
  CYCLE(VF_T2B, 2);
}
#if VF_T3A >= 0
static void thread3(void*) {
  CYCLE(VF_T3A, 3);
  CYCLE(VF_T3B, 3);
}
#endif

// quiescent phases of the main thread, reached through function pointers (plain code, no preemption
// points: no other thread exists there)
static void phase_pre(uint32_t) {
#if VF_SYMSIZE
  g_size = vf_range_u32(1, VF_SIZE);
#else
  g_size = VF_SIZE;
#endif
  makePool(g_holder, g_size);
  vf_check(g_next == (int32_t)g_size, "the constructor calls init exactly size times");
  checkQueueIsFull(pool(), g_size);
}
static void phase_post(uint64_t) {
  vf_check(g_held == 0, "all holding sections ended");
  // documented precondition of ~ResourcePool: all resources are back (established by the handles' destructors)
  checkQueueIsFull(pool(), g_size);
  // ~ResourcePool's documented precondition (it would block forever otherwise); its violation was reported above
  if (pool().pool_.n_ != g_size) return;
  pool().~Pool();
  checkAllDestroyedOnce(g_size);
}
void (*g_phase_pre)(uint32_t) = phase_pre;
void (*g_phase_post)(uint64_t) = phase_post;

extern "C" void vf_main() {
  g_phase_pre(0);
  vf_spawn(thread1, nullptr);
  vf_spawn(thread2, nullptr);
#if VF_T3A >= 0
  vf_spawn(thread3, nullptr);
#endif
  vf_join_all();
  if (vf_any_stuck()) return;
  g_phase_post(0);
}
