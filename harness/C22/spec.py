ASSUMPTIONS = ['at most one thread uses lock_upgrade and no other thread tries to lock for write while it may do so (documented requirement of lock_upgrade)',
               'no recursive locking (documented)']
OUTSIDE = 'tbd'
CHECKS = ['--div-by-zero-check', '--no-unwinding-assertions']  # cbmc 6 emits unwinding assertions by default; spin loops are cut instead
# kinds: 1 lock, 2 try_lock, 4 lock_shared, 8 try_lock_shared, 16 lock+lock_downgrade, 32 lock_shared+lock_upgrade
def I(name, defs, steps, nthreads, bounds, **kw):
    d = {'name': name, 'src': 'rwlock.cpp', 'engine': 'cbmc-seq', 'steps': steps, 'spin_loops': True, 'defs': defs,
         'unwind': 3, 'nthreads': nthreads, 'checks': CHECKS, 'timeout': 1500, 'must_reach': 'all', 'bounds': bounds}
    d.update(kw)
    return d
INSTANCES = [
    I('wr3', {'VF_PAIRS': 1, 'VF_K1': 3, 'VF_K2': 12, 'VF_K0': 15, 'VF_MUST': 18}, 4, 3, 'tbd'),
    I('down3', {'VF_PAIRS': 1, 'VF_K1': 16, 'VF_K2': 19, 'VF_K0': 12, 'VF_MUST': 8}, 4, 3, 'tbd'),
    I('up3', {'VF_PAIRS': 1, 'VF_K1': 36, 'VF_K2': 12, 'VF_K0': 12, 'VF_MUST': 4}, 4, 3, 'tbd'),
    I('tryroll2', {'VF_PAIRS': 1, 'VF_K1': 2, 'VF_MAIN_HOLDS_SHARED': 1, 'VF_MUST': 1}, 19, 2, 'tbd', unwind=2),
]
