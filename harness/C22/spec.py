ASSUMPTIONS = ['at most one thread uses lock_upgrade (documented requirement)', 'no recursive locking (documented)']
OUTSIDE = ('more threads / longer per-thread sequences than stated; schedules in which a spin or wait loop iterates more often than the unwinding bound (they are cut, not reported); '
           'progress is claimed only for futex parks (a locker parked while no conflicting holder can still release is reported), spinning lockers are not liveness-checked; memory model: sequential consistency')
INSTANCES = [
    {'name': 'rw3', 'src': 'rwlock.cpp', 'engine': 'cbmc-par', 'defs': {'VF_PAIRS': 1, 'VF_THREADS': 3},
     'unwind': 3, 'nthreads': 4, 'spin_loops': True, 'unwindset': {'_ZL10k_try_lockv.0': 18}, 'timeout': 1500,
     'bounds': '3 threads x 1 symbolic acquire/release pair from {lock, try_lock, lock_shared, try_lock_shared, lock+downgrade, shared+upgrade (one thread)}; spin/wait loops unwound 3x; try_lock drain loop fully unwound (16)',
     'thorough': {'defs': {'VF_PAIRS': 2, 'VF_THREADS': 3}, 'unwind': 4, 'timeout': 3000}},
]
