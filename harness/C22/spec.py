TECHNIQUE = ('bounded symbolic execution of LLVM IR lowered to C: CBMC/SAT (cadical), sequentialised step machine '
             '(engine cbmc-seq: symbolic round-robin scheduler over resumable thread roots, exact futex model, deadlock detection), '
             'ghost occupancy counters')
ASSUMPTIONS = ['lock_upgrade: only one thread can try to lock for write while an upgrade may happen (documented requirement): '
               'in the upgrade instances exactly one thread upgrades and all other threads only take shared locks',
               'no recursive locking (documented)',
               'sequential consistency for the lock word (the only atomic)']
OUTSIDE = ('more threads / longer per-thread sequences than stated; schedules needing more execution segments per thread than the stated number of '
           'scheduler rounds; schedules in which a spin loop iterates more than twice within one execution segment (cut, not reported); '
           'progress is decided for futex-parked lockers (a parked thread that nobody can wake is reported) and by the quiescent lock-word check; '
           'a locker spinning forever on a leaked writer bit is not reported as such; weak-memory reorderings; reader-count overflow (2^31 readers); '
           'the macOS / Windows CompletionEventImpl variants')
# cbmc 6 emits unwinding assertions by default; spin loops are cut (assume) instead
CHECKS = ['--div-by-zero-check', '--no-unwinding-assertions']
# kinds (bit mask per thread, VF_K<t>): 1 lock, 2 try_lock, 4 lock_shared, 8 try_lock_shared, 16 lock+lock_downgrade, 32 lock_shared+lock_upgrade
KINDS = 'kinds per thread are symbolic within its set; '


def I(name, defs, steps, nthreads, bounds, **kw):
    d = {'name': name, 'src': 'rwlock.cpp', 'engine': 'cbmc-seq', 'steps': steps, 'spin_loops': True, 'defs': defs,
         'unwind': 3, 'nthreads': nthreads, 'checks': CHECKS, 'timeout': 1700, 'must_reach': 'all',
         'bounds': bounds + '; %d scheduler rounds (each thread <= %d execution segments, preemption at every atomic op / futex call / inside the '
                            'ghost critical section); spin loops <= 2 iterations per segment; <= 1 spurious futex return per thread' % (steps, steps)}
    d.update(kw)
    return d


INSTANCES = [
    I('wr3', {'VF_PAIRS': 1, 'VF_K1': 3, 'VF_K2': 12, 'VF_K0': 15, 'VF_MUST': 18}, 4, 3,
      '3 threads x 1 acquire/release pair: T1 in {lock, try_lock}, T2 in {lock_shared, try_lock_shared}, main in all four',
      thorough={'defs': {'VF_PAIRS': 2, 'VF_K1': 3, 'VF_K2': 12, 'VF_K0': 15, 'VF_MUST': 18}, 'steps': 6}),
    I('down3', {'VF_PAIRS': 1, 'VF_K1': 16, 'VF_K2': 19, 'VF_K0': 12, 'VF_MUST': 8}, 4, 3,
      '3 threads x 1 pair: T1 lock+lock_downgrade, T2 in {lock, try_lock, lock+lock_downgrade}, main in {lock_shared, try_lock_shared}'),
    I('up3', {'VF_PAIRS': 1, 'VF_K1': 36, 'VF_K2': 12, 'VF_K0': 12, 'VF_MUST': 4}, 4, 3,
      '3 threads x 1 pair: T1 in {lock_shared+lock_upgrade, lock_shared}, T2 and main in {lock_shared, try_lock_shared} (single writer, as lock_upgrade requires)',
      thorough={'defs': {'VF_PAIRS': 2, 'VF_K1': 36, 'VF_K2': 12, 'VF_K0': 12, 'VF_MUST': 4}, 'steps': 6}),
    I('tryroll2', {'VF_PAIRS': 1, 'VF_K1': 2, 'VF_MAIN_HOLDS_SHARED': 1, 'VF_MUST': 1}, 19, 2,
      '2 threads: main holds the lock shared until T1 finished; T1 try_lock runs its full 16-spin bounded drain, gives up and rolls back '
      '(every pause is a forced thread switch, hence 19 rounds)', unwind=2),
    I('wr4', {'VF_PAIRS': 1, 'VF_K1': 3, 'VF_K2': 12, 'VF_K3': 15, 'VF_K0': 12, 'VF_MUST': 18}, 4, 4,
      '4 threads x 1 pair: T1 in {lock, try_lock}, T2 and main in {lock_shared, try_lock_shared}, T3 in all four', tiers=['thorough']),
    I('tryroll3', {'VF_PAIRS': 1, 'VF_K1': 2, 'VF_K2': 12, 'VF_MAIN_HOLDS_SHARED': 1, 'VF_MUST': 1}, 19, 3,
      '3 threads: as tryroll2 plus a reader T2 in {lock_shared, try_lock_shared} racing with the drain and the rollback', unwind=2, tiers=['thorough']),
]
