// C22: RWLock mutual exclusion and progress.
// Real code: detail::RWLockImpl::{lock, try_lock, unlock, lock_shared, try_lock_shared,
//   unlock_shared, lock_upgrade, lock_downgrade, setWriteBit, waitForReaderDrain, readerRelease},
//   CompletionEventImpl::{wait, tryNotify} (futex path).
// Symbolic: each thread's operation sequence, the interleaving, futex wake choices, spurious returns.
#include <new>
#include <dispenso/rw_lock.h>
#include "vf.h"

static dispenso::RWLock L;
static int g_writers, g_readers;  // ghost occupancy

static inline void enter_w() {
  VfAtomic a;
  vf_check(g_writers == 0 && g_readers == 0, "write access granted while another writer or a reader holds the lock");
  ++g_writers;
}
static inline void exit_w() { VfAtomic a; --g_writers; }
static inline void enter_r() {
  VfAtomic a;
  vf_check(g_writers == 0, "read access granted while a writer holds the lock");
  ++g_readers;
}
static inline void exit_r() { VfAtomic a; --g_readers; }

VF_NOINLINE static bool k_try_lock() { return L.try_lock(); }
VF_NOINLINE static void k_lock() { L.lock(); }
VF_NOINLINE static void k_lock_shared() { L.lock_shared(); }
VF_NOINLINE static void k_lock_upgrade() { L.lock_upgrade(); }

#define DEAD_RET() do { if (vf_is_dead()) return; } while (0)

static void run_ops(bool mayUpgrade) {
  for (int i = 0; i < VF_PAIRS; ++i) {
    uint32_t op = vf_range_u32(0, mayUpgrade ? 5 : 4);
    switch (op) {
      case 0:
        k_lock(); DEAD_RET();
        enter_w(); exit_w();
        L.unlock();
        break;
      case 1:
        if (k_try_lock()) { enter_w(); exit_w(); L.unlock(); }
        break;
      case 2:
        k_lock_shared(); DEAD_RET();
        enter_r(); exit_r();
        L.unlock_shared();
        break;
      case 3:
        if (L.try_lock_shared()) { enter_r(); exit_r(); L.unlock_shared(); }
        break;
      case 4:  // write then downgrade to read
        k_lock(); DEAD_RET();
        enter_w(); exit_w();
        L.lock_downgrade();
        enter_r(); exit_r();
        L.unlock_shared();
        break;
      default:  // read then upgrade (single upgrader, as documented)
        k_lock_shared(); DEAD_RET();
        enter_r(); exit_r();
        k_lock_upgrade(); DEAD_RET();
        enter_w(); exit_w();
        L.unlock();
        break;
    }
  }
}
static void t_plain(void*) { run_ops(false); }
static void t_upgrader(void*) { run_ops(true); }

extern "C" void vf_main() {
  vf_spawn(t_upgrader, nullptr);
  vf_spawn(t_plain, nullptr);
#if VF_THREADS >= 4
  vf_spawn(t_plain, nullptr);
#endif
  run_ops(false);
}
