// C22: RWLock mutual exclusion and progress (engine cbmc-seq: sequentialised step machine).
// Real code: detail::RWLockImpl::{lock, try_lock, unlock, lock_shared, try_lock_shared,
//   unlock_shared, lock_upgrade, lock_downgrade, setWriteBit, waitForReaderDrain, readerRelease},
//   CompletionEventImpl::{wait, tryNotify} (futex path).
// Symbolic: each thread's operation sequence (drawn from the kinds enabled for that thread by the
//   VF_K<t> bit masks), the interleaving of all atomic operations / futex calls, futex wake choices,
//   spurious futex returns.
// Kinds (bit numbers in VF_K<t>): 0 lock, 1 try_lock, 2 lock_shared, 3 try_lock_shared,
//   4 lock + lock_downgrade, 5 lock_shared + lock_upgrade.
#include <new>
#include <dispenso/rw_lock.h>
#include "vf.h"

#ifndef VF_PAIRS
#define VF_PAIRS 1
#endif
#ifndef VF_K0
#define VF_K0 0
#endif
#ifndef VF_K1
#define VF_K1 0
#endif
#ifndef VF_K2
#define VF_K2 0
#endif
#ifndef VF_K3
#define VF_K3 0
#endif

#ifndef VF_MAIN_HOLDS_SHARED
#define VF_MAIN_HOLDS_SHARED 0
#endif
#ifndef VF_MUST
#define VF_MUST 0
#endif

static dispenso::RWLock L;
static int g_writers, g_readers;  // ghost occupancy
static unsigned g_events;         // ghost: which interesting outcomes happened (for reachability markers)
enum { EV_TRY_LOCK_FAILED = 1, EV_TRY_SHARED_FAILED = 2, EV_UPGRADED = 4, EV_DOWNGRADED = 8, EV_TRY_LOCK_OK = 16 };
static inline void note(unsigned ev) { VfAtomic a; g_events |= ev; }

// A ghost critical section: enter (atomic check + count), a scheduling point at which any other
// thread may run (and would trip the check if it were granted a conflicting access), exit.
static inline void crit_w() {
  {
    VfAtomic a;
    vf_check(g_writers == 0 && g_readers == 0, "write access granted while another writer or a reader holds the lock");
    ++g_writers;
  }
  vf_sched_point();
  {
    VfAtomic a;
    vf_check(g_writers == 1 && g_readers == 0, "another thread was granted access while a writer holds the lock");
    --g_writers;
  }
}
static inline void crit_r() {
  {
    VfAtomic a;
    vf_check(g_writers == 0, "read access granted while a writer holds the lock");
    ++g_readers;
  }
  vf_sched_point();
  {
    VfAtomic a;
    vf_check(g_writers == 0, "write access granted while a reader holds the lock");
    --g_readers;
  }
}

template <unsigned MASK>
static inline void one_op() {
  uint8_t op = vf_nondet_u8();
  vf_assume(op < 6);
  vf_assume((MASK >> (op & 7u)) & 1u);
  if ((MASK & 1u) && op == 0) {
    L.lock();
    crit_w();
    L.unlock();
  } else if ((MASK & 2u) && op == 1) {
    if (L.try_lock()) {
      crit_w();
      L.unlock();
      note(EV_TRY_LOCK_OK);
    } else {
      note(EV_TRY_LOCK_FAILED);
    }
  } else if ((MASK & 4u) && op == 2) {
    L.lock_shared();
    crit_r();
    L.unlock_shared();
  } else if ((MASK & 8u) && op == 3) {
    if (L.try_lock_shared()) {
      crit_r();
      L.unlock_shared();
    } else {
      note(EV_TRY_SHARED_FAILED);
    }
  } else if ((MASK & 16u) && op == 4) {  // write, then downgrade to read
    L.lock();
    crit_w();
    L.lock_downgrade();
    crit_r();
    L.unlock_shared();
    note(EV_DOWNGRADED);
  } else if ((MASK & 32u) && op == 5) {  // read, then upgrade to write
    L.lock_shared();
    crit_r();
    L.lock_upgrade();
    crit_w();
    L.unlock();
    note(EV_UPGRADED);
  }
}

template <unsigned MASK>
static inline void run_ops() {
  for (int i = 0; i < VF_PAIRS; ++i) one_op<MASK>();
}

static void t1(void*) { run_ops<VF_K1>(); }
#if VF_K2
static void t2(void*) { run_ops<VF_K2>(); }
#endif
#if VF_K3
static void t3(void*) { run_ops<VF_K3>(); }
#endif

extern "C" void vf_main() {
  vf_spawn(t1, nullptr);
#if VF_K2
  vf_spawn(t2, nullptr);
#endif
#if VF_K3
  vf_spawn(t3, nullptr);
#endif
#if VF_MAIN_HOLDS_SHARED
  // main holds the lock shared for as long as the other threads run (try_lock's bounded drain must
  // give up and roll back; blocking writers would wait forever, so none are enabled here)
  L.lock_shared();
  { VfAtomic a; vf_check(g_writers == 0, "read access granted while a writer holds the lock"); ++g_readers; }
  vf_join_all();
  { VfAtomic a; vf_check(g_writers == 0, "write access granted while a reader holds the lock"); --g_readers; }
  L.unlock_shared();
#else
#if VF_K0
  run_ops<VF_K0>();
#endif
  vf_join_all();
#endif
  // Quiescence: every acquire was matched by its release (failed try_* need none).
  vf_check(g_writers == 0 && g_readers == 0, "ghost occupancy not zero at quiescence (harness)");
  // Non-vacuity markers (witness twin; the spec demands all of them with 'must_reach': 'all').
#if VF_MUST & 1
  if (g_events & EV_TRY_LOCK_FAILED) vf_reach("a try_lock failed (and everything still completed)");
#endif
#if VF_MUST & 2
  if (g_events & EV_TRY_SHARED_FAILED) vf_reach("a try_lock_shared failed (and everything still completed)");
#endif
#if VF_MUST & 4
  if (g_events & EV_UPGRADED) vf_reach("a lock_upgrade completed");
#endif
#if VF_MUST & 8
  if (g_events & EV_DOWNGRADED) vf_reach("a lock_downgrade completed");
#endif
#if VF_MUST & 16
  if (g_events & EV_TRY_LOCK_OK) vf_reach("a try_lock succeeded");
#endif
  vf_check(L.lockWord().load(std::memory_order_relaxed) == 0,
           "lock word is not back to the unlocked value after every holder released (a later locker would block forever)");
}
