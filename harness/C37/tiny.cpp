#include <dispenso/platform.h>
#include <cstdlib>
#if VF_STUB_ALIGNED
namespace dispenso { namespace detail {
inline void* c37_alignedMalloc(size_t bytes, size_t) { return ::malloc(bytes); }
inline void c37_alignedFree(void* p) { ::free(p); }
}}
#define alignedMalloc c37_alignedMalloc
#define alignedFree c37_alignedFree
#endif
#include <dispenso/concurrent_object_arena.h>
#include "vf.h"
using Arena = dispenso::ConcurrentObjectArena<int32_t, size_t, 64>;
extern "C" void vf_main() {
  Arena a(VF_MINBUF);
  size_t d = vf_range_u32(0, 2);
  size_t r = a.grow_by(d);
  vf_check(r == 0, "r");
  size_t q = vf_range_u32(0, 1);
  if (q < d) vf_check(a[q] == 0, "zero");
#if VF_COPY
  Arena c(a);
  vf_check(c.size() == d, "copy size");
#endif
}
