TECHNIQUE = ('bounded symbolic execution of LLVM IR lowered to C: CBMC/SAT (cadical), sequential history harness '
             '(symbolic grow_by sequence + symbolic whole-container operation, probe indices for the forall claims)')
ASSUMPTIONS = [
    'T is trivially copyable (static_assert of the copy constructor); minBuffSize >= 1',
    'detail::alignedMalloc/alignedFree (property C44) are replaced by their contract: plain malloc/free (their pointer<->integer arithmetic multiplies solver time by ~10)',
    'size-determining inputs (initialSize, grow_by deltas) are enumerated as literal scenarios inside the harness and selected by a symbolic input; payload and probe indices are fully symbolic',
    'a moved-from arena (move construction / move assignment) is only required to be destructible',
    'malloc/new return fresh blocks with arbitrary contents and never fail',
    'sequential part only: one thread; the 2-grower concurrent part is a separate (later) instance',
]
OUTSIDE = ('move-assign/swap/move-construct after initialSize+deltas with third delta 2 (scenarios 18..26: solver timeout); '
           'more than 3 grow_by calls before the operation / deltas above 2 / minBuffSize other than 1, 2 (second arena 2, 4); element types other than '
           'int32_t and an 8-byte trivially copyable struct; concurrent growers (handled by the concurrent instance); '
           'allocation failure')


OPN = ['copy_construct', 'copy_assign', 'move_assign', 'swap', 'move_construct', 'self_copy_assign']
GROW_BY = {'size_t': '_ZN8dispenso21ConcurrentObjectArenaI%smLm%dEE7grow_byEm',
           'uint32_t': '_ZN8dispenso21ConcurrentObjectArenaI%sjLm%dEE7grow_byEj'}


def inst(op, minbuf, nsc, tiers, db=3, index='size_t', align=64, elem=0, suffix='', sc0=0):
    d = {'VF_OP': op, 'VF_MINBUF': minbuf, 'VF_NSC': nsc, 'VF_DB': db, 'VF_SC0': sc0}
    if index != 'size_t' or align != 64 or elem:
        d.update({'VF_INDEX': index, 'VF_ALIGN': align, 'VF_ELEM': elem})
    g = GROW_BY[index] % ('4Elem' if elem else 'i', align)
    t = 'Elem{int32_t v=0x5a5a; int32_t pad=-1}' if elem else 'int32_t'
    return {
        'name': '%s_b%d%s' % (OPN[op], minbuf, suffix), 'src': 'arena.cpp', 'engine': 'cbmc', 'defs': d,
        'unwind': 5 * db + 3, 'unwindset': {g + '.1': db, g + '.2': 2, g + '.3': db + 1},
        'leak_check': True, 'timeout': 1700, 'tiers': tiers,
        'bounds': ('ConcurrentObjectArena<%s,%s,%d>, minBuffSize %d: scenarios %d..%d chosen by a symbolic selector '
                   '(initialSize and up to 3 grow_by deltas, each 0..%d, are the base-%d digits of the selector), then %s '
                   'against a second arena (minBuffSize %d, 1+2 elements), then grow_by(0..%d) on the destination; '
                   'symbolic payload seeds, every element checked; alignedMalloc/alignedFree replaced by malloc/free')
                  % (t, index, align, minbuf, sc0, sc0 + nsc - 1, db - 1, db, OPN[op], 2 * minbuf, db - 1),
    }


INSTANCES = [inst(op, 1, 9, ['quick']) for op in range(5)] + \
    [inst(op, 1, 9, ['thorough'], sc0=c, suffix='_s%d' % c) for op in range(6) for c in (0, 9, 18)
     # move-assign / swap / move-construct with scenarios 18..26 (9 buffers: third deleteLater_ reallocation on the
     # moved storage) do not finish within 1700 s -> not part of the tier, listed in OUTSIDE
     if not (op in (2, 3, 4) and c == 18)] + \
    [inst(op, 2, 9, ['thorough']) for op in (0, 3)] + \
    [inst(op, 1, 9, ['thorough'], index='uint32_t', align=16, elem=1, suffix='_u32') for op in (0, 3)]
