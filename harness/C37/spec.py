TECHNIQUE = ('bounded symbolic execution of LLVM IR lowered to C: CBMC/SAT (cadical), sequential history harness '
             '(symbolic grow_by sequence + symbolic whole-container operation, probe indices for the forall claims)')
ASSUMPTIONS = [
    'T is trivially copyable (static_assert of the copy constructor); minBuffSize >= 1',
    'a moved-from arena (move construction / move assignment) is only required to be destructible',
    'malloc/new return fresh blocks with arbitrary contents and never fail',
    'sequential part only: one thread; the 2-grower concurrent part is a separate (later) instance',
]
OUTSIDE = ('more grow_by calls / larger deltas / larger minBuffSize than the stated bounds; element types other than '
           'int32_t and an 8-byte trivially copyable struct; concurrent growers (handled by the concurrent instance); '
           'allocation failure')


def inst(name, opmask, grows, maxd, maxbuf, unwind, extra=None, **kw):
    d = {'VF_OPMASK': opmask, 'VF_GROWS': grows, 'VF_MAXD': maxd, 'VF_MAXBUF': maxbuf}
    d.update(extra or {})
    r = {'name': name, 'src': 'arena.cpp', 'engine': 'cbmc', 'defs': d, 'unwind': unwind,
         'leak_check': True, 'timeout': 300}
    r.update(kw)
    return r


OPS = {0x1c: 'move-assign / swap / move-construct', 0x23: 'copy-construct / copy-assign / self-copy-assign',
       0x3f: 'copy-construct / copy-assign / move-assign / swap / move-construct / self-copy-assign'}


def bounds(t, idx, al, opmask, grows, maxd, maxbuf):
    return ('ConcurrentObjectArena<%s,%s,%d>: minBuffSize 1..%d (symbolic, incl. non powers of two), initialSize 0..%d, '
            '%d x grow_by(0..%d), then one of {%s} against a second arena (own minBuffSize, initialSize, one grow_by), '
            'then grow_by(0..%d) on the destination; up to %d elements / %d buffers; symbolic payload and probe indices'
            % (t, idx, al, maxbuf, maxd, grows, maxd, OPS[opmask], maxd, maxd * (grows + 2), maxd * (grows + 2) + 1))


INSTANCES = [
    inst('move_swap', 0x1c, 3, 2, 4, 12, bounds=bounds('int32_t', 'size_t', 64, 0x1c, 3, 2, 4)),
    inst('copy', 0x23, 3, 2, 4, 12, bounds=bounds('int32_t', 'size_t', 64, 0x23, 3, 2, 4)),
]
