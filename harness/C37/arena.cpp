// C37 (sequential part): ConcurrentObjectArena growth and copies are exact.
// Real code: dispenso::ConcurrentObjectArena<T, Index, alignment>::{ctor(minBuffSize, initialSize),
//   copy ctor, move ctor, dtor, copy=, move=, grow_by, operator[], size, capacity, numBuffers,
//   getBuffer, getBufferSize, swap, allocateBuffer, constructObjects}, detail::log2i,
//   detail::alignedMalloc/alignedFree, std::vector<T**>::push_back (deleteLater_).
// Symbolic: minBuffSize and initialSize of two arenas, a sequence of VF_GROWS grow_by(delta) calls
//   (delta in [0, VF_MAXD]), the element payload (seed), which whole-container operation follows
//   (copy-construct / copy-assign / move-assign / swap / move-construct / self-copy-assign, restricted by
//   VF_OPMASK), a further grow_by on the destination, and all probe indices.
// Every element i of an arena with payload seed s is written with f(s,i) = s + 3*i + 1 right after the
// grow_by that created it, so "contents are equal" can be stated without a ghost array:
// for a symbolic probe index q < size, dst[q] == f(seed of the source, q).
#include <new>
#include <utility>
#include <cstdlib>
#include <dispenso/platform.h>
#ifndef VF_STUB_ALIGNED
#define VF_STUB_ALIGNED 1
#endif
#if VF_STUB_ALIGNED
// Lower layer replaced by its contract: detail::alignedMalloc/alignedFree (property C44 checks the real
// ones) become plain malloc/free.  Their pointer<->integer round trip ((base + a) & ~(a-1), recovery slot)
// multiplies the SAT instance by ~10 and is irrelevant to the arena's bookkeeping; alignment is not
// observable in this model.  The instance `real_alloc` keeps the real functions.
namespace dispenso {
namespace detail {
inline void* c37_alignedMalloc(size_t bytes, size_t) { return ::malloc(bytes); }
inline void c37_alignedFree(void* p) { ::free(p); }
}  // namespace detail
}  // namespace dispenso
#define alignedMalloc c37_alignedMalloc
#define alignedFree c37_alignedFree
#endif
#include <dispenso/concurrent_object_arena.h>
#include "vf.h"

#ifndef VF_INDEX
#define VF_INDEX size_t
#endif
#ifndef VF_ALIGN
#define VF_ALIGN 64
#endif
#ifndef VF_GROWS
#define VF_GROWS 3
#endif
#ifndef VF_MAXD
#define VF_MAXD 2
#endif
#ifndef VF_MAXBUF
#define VF_MAXBUF 4
#endif
#ifndef VF_OPMASK
#define VF_OPMASK 0x3f
#endif
#ifndef VF_ELEM
#define VF_ELEM 0
#endif

#if VF_ELEM == 1
// default-constructed state differs from zeroed memory; still trivially copyable
struct Elem {
  int32_t v = 0x5a5a;
  int32_t pad = -1;
};
static const int32_t kDefault = 0x5a5a;
static inline int32_t& val(Elem& e) { return e.v; }
#else
using Elem = int32_t;
static const int32_t kDefault = 0;
static inline int32_t& val(Elem& e) { return e; }
#endif

using Index = VF_INDEX;
using Arena = dispenso::ConcurrentObjectArena<Elem, Index, VF_ALIGN>;

// upper bound on the number of elements any arena of this run can reach
static const uint32_t kMaxN = VF_MAXD * (VF_GROWS + 3);

static inline int32_t f(uint32_t seed, Index i) { return (int32_t)(seed + 3u * (uint32_t)i + 1u); }

struct Model {
  Arena* a;
  uint32_t seed;    // payload of elements [0, n)
  Index n;          // expected size
  Index probe;      // symbolic element whose address is tracked across growth
  Elem* probeAddr;  // address of element `probe`, recorded when it came into existence
};

__attribute__((always_inline)) static inline void noteProbe(Model& m) {
  if (m.probeAddr == nullptr && m.probe < m.n) m.probeAddr = &(*m.a)[m.probe];
}

// element at `probe` has not moved and still holds its value
__attribute__((always_inline)) static inline void checkStable(Model& m) {
  if (m.probeAddr != nullptr) {
    vf_check(&(*m.a)[m.probe] == m.probeAddr, "growth keeps the address of every existing element");
    vf_check(val(*m.probeAddr) == f(m.seed, m.probe), "growth keeps the value of every existing element");
  }
}

// elements [from, m.n) were just created by the arena: default constructed; fill them with the payload
__attribute__((always_inline)) static inline void checkFresh(Model& m, Index from) {
  for (Index i = from; i < m.n; ++i) {
    vf_check(val((*m.a)[i]) == kDefault, "new elements are default-constructed");
    val((*m.a)[i]) = f(m.seed, i);
  }
}

// arena `a` was just built by the real constructor with `init` initial elements
__attribute__((always_inline)) static inline void adopt(Model& m, Arena* a, Index init, uint32_t seed) {
  m.a = a;
  m.seed = seed;
  m.probe = (Index)vf_range_u32(0, kMaxN - 1);
  m.probeAddr = nullptr;
  m.n = init;
  vf_check(m.a->size() == init, "constructor creates initialSize elements");
  checkFresh(m, 0);
  noteProbe(m);
}

__attribute__((always_inline)) static inline void grow(Model& m) {
  Index d = (Index)vf_range_u32(0, VF_MAXD);
  Index r = m.a->grow_by(d);
  vf_check(r == m.n, "grow_by returns the previous size: ranges are contiguous, disjoint, union is [0,size())");
  vf_check(m.a->size() == (Index)(m.n + d), "size() grows by exactly delta");
  Index from = m.n;
  m.n = (Index)(m.n + d);
  checkFresh(m, from);
  checkStable(m);
  noteProbe(m);
}

// arena `x` holds exactly n elements with payload `seed`
__attribute__((always_inline)) static inline void checkContents(Arena& x, uint32_t seed, Index n) {
  vf_check(x.size() == n, "size is identical after copy/move/swap");
  Index q = (Index)vf_range_u32(0, kMaxN - 1);
  if (q < n) {
    vf_check(val(x[q]) == f(seed, q), "contents are element-wise identical after copy/move/swap");
#ifdef VF_BUFFER_API
    // documented accessors agree with operator[]
    Index nb = x.numBuffers();
    Index total = 0;
    for (Index b = 0; b < nb; ++b) total = (Index)(total + x.getBufferSize(b));
    vf_check(total == n, "used buffer sizes add up to size()");
#endif
  }
}

// the destination D of the operation is a fully functional arena: grow it further, re-check everything
__attribute__((always_inline)) static inline void after(uint32_t op, Model& D, Model& A) {
  grow(D);
  checkContents(*D.a, D.seed, D.n);
  if (op <= 1) {
    // growing / writing the copy left the original untouched
    checkContents(*A.a, A.seed, A.n);
    checkStable(A);
  }
  if (op == 3) checkContents(*A.a, A.seed, A.n);
}

extern "C" void vf_main() {
  Model A, B, D;
  uint32_t seedA = vf_nondet_u32();
  uint32_t seedB = vf_nondet_u32();
  vf_assume(seedA != seedB);
#ifdef VF_MINBUF
  // fixed minBuffSize (buffer sizes are then constants for the solver); B uses the next power of two
  Index minA = VF_MINBUF, minB = 2 * VF_MINBUF;
#else
  Index minA = (Index)vf_range_u32(1, VF_MAXBUF), minB = (Index)vf_range_u32(1, VF_MAXBUF);
#endif
  Index initA = (Index)vf_range_u32(0, VF_MAXD), initB = (Index)vf_range_u32(0, VF_MAXD);
  // arenas are ordinary locals: destroyed by the real destructor at scope exit (leak check after that)
  Arena a(minA, initA);
  adopt(A, &a, initA, seedA);
  for (int i = 0; i < VF_GROWS; ++i) grow(A);
  Arena b(minB, initB);
  adopt(B, &b, initB, seedB);
#ifdef VF_GROW_B
  grow(B);
#endif

#ifdef VF_OP
  const uint32_t op = VF_OP;  // one operation per instance: keeps the formula small
#else
  uint32_t op = vf_range_u32(0, 5);
  vf_assume((VF_OPMASK >> op) & 1);
#endif
  switch (op) {
    case 0: {  // copy construction
      Arena c(a);
      checkContents(c, A.seed, A.n);
      checkContents(a, A.seed, A.n);
      D = A;
      D.a = &c;
      D.probeAddr = nullptr;
      noteProbe(D);
      if (A.probeAddr != nullptr)
        vf_check(D.probeAddr != A.probeAddr, "a copy owns its own storage");
      after(op, D, A);
      break;
    }
    case 1: {  // copy assignment
      b = a;
      checkContents(b, A.seed, A.n);
      checkContents(a, A.seed, A.n);
      D = A;
      D.a = &b;
      D.probeAddr = nullptr;
      noteProbe(D);
      if (A.probeAddr != nullptr)
        vf_check(D.probeAddr != A.probeAddr, "a copy owns its own storage");
      after(op, D, A);
      break;
    }
    case 2: {  // move assignment: destination takes over the source's elements (source: only destructible)
      b = std::move(a);
      checkContents(b, A.seed, A.n);
      D = A;
      D.a = &b;
      checkStable(D);
      after(op, D, A);
      break;
    }
    case 3: {  // swap
      swap(a, b);
      checkContents(a, B.seed, B.n);
      checkContents(b, A.seed, A.n);
      D = A;
      D.a = &b;
      A = B;
      A.a = &a;
      checkStable(A);
      checkStable(D);
      after(op, D, A);
      break;
    }
    case 4: {  // move construction (source: only destructible)
      Arena c(std::move(a));
      checkContents(c, A.seed, A.n);
      D = A;
      D.a = &c;
      checkStable(D);
      after(op, D, A);
      break;
    }
    default: {  // self copy assignment
      a = a;
      checkContents(a, A.seed, A.n);
      D = A;
      D.probeAddr = nullptr;
      noteProbe(D);
      after(op, D, A);
      break;
    }
  }
}
