// C37 (sequential part): ConcurrentObjectArena growth and copies are exact.
// Real code: dispenso::ConcurrentObjectArena<T, Index, alignment>::{ctor(minBuffSize, initialSize),
//   copy ctor, move ctor, dtor, copy=, move=, grow_by, operator[], size, numBuffers, getBufferSize, swap,
//   allocateBuffer, constructObjects}, detail::log2i, std::vector<T**>::push_back (deleteLater_).
// Symbolic: which scenario (initialSize and the sequence of grow_by deltas) is run, the element payload
//   (seeds).  The forall over elements is a loop with literal bounds inside each scenario.
//   Fixed per instance: minBuffSize, the whole-container operation (VF_OP: 0 copy-construct, 1 copy-assign, 2 move-assign, 3 swap, 4 move-construct, 5 self-copy-assign).
// Every element i of an arena with payload seed s is written with f(s,i) = s + 3*i + 1 right after the
// grow_by that created it, so "contents are equal" can be stated without a ghost array:
// for every q < size, dst[q] == f(seed of the source, q).
#include <new>
#include <utility>
#include <cstdlib>
#include <dispenso/platform.h>
#ifndef VF_STUB_ALIGNED
#define VF_STUB_ALIGNED 1
#endif
#if VF_STUB_ALIGNED
// Lower layer replaced by its contract: detail::alignedMalloc/alignedFree (property C44 checks the real
// ones) become plain malloc/free.  Their pointer<->integer round trip ((base + a) & ~(a-1), recovery slot)
// multiplies the SAT instance by ~10 and is irrelevant to the arena's bookkeeping; alignment is not
// observable in this model.  -DVF_STUB_ALIGNED=0 keeps the real functions.
namespace dispenso {
namespace detail {
inline void* c37_alignedMalloc(size_t bytes, size_t) { return ::malloc(bytes); }
inline void c37_alignedFree(void* p) { ::free(p); }
}  // namespace detail
}  // namespace dispenso
#define alignedMalloc c37_alignedMalloc
#define alignedFree c37_alignedFree
#endif
#include <dispenso/concurrent_object_arena.h>
#include "vf.h"

#ifndef VF_INDEX
#define VF_INDEX size_t
#endif
#ifndef VF_ALIGN
#define VF_ALIGN 64
#endif
#ifndef VF_DB
#define VF_DB 3  // initialSize and the grow_by deltas range over 0..VF_DB-1
#endif
#ifndef VF_ELEM
#define VF_ELEM 0
#endif

#if VF_ELEM == 1
// default-constructed state differs from zeroed memory; still trivially copyable
struct Elem {
  int32_t v = 0x5a5a;
  int32_t pad = -1;
};
static const int32_t kDefault = 0x5a5a;
static inline int32_t& val(Elem& e) { return e.v; }
#else
using Elem = int32_t;
static const int32_t kDefault = 0;
static inline int32_t& val(Elem& e) { return e; }
#endif

using Index = VF_INDEX;
using Arena = dispenso::ConcurrentObjectArena<Elem, Index, VF_ALIGN>;

// upper bound on the number of elements any arena of this run can reach
static const uint32_t kMaxN = 5 * VF_DB;

static inline int32_t f(uint32_t seed, Index i) { return (int32_t)(seed + 3u * (uint32_t)i + 1u); }

struct Model {
  Arena* a;
  uint32_t seed;         // payload of elements [0, n)
  Index n;               // expected size (a literal in every scenario)
  Elem* addr[kMaxN];     // address of every element, recorded when it came into existence
};

#define INL __attribute__((always_inline)) static inline

// no existing element has moved or changed (the forall over elements is a loop with literal bounds)
INL void checkStable(Model& m) {
  for (Index i = 0; i < m.n; ++i) {
    vf_check(&(*m.a)[i] == m.addr[i], "growth keeps the address of every existing element");
    vf_check(val(*m.addr[i]) == f(m.seed, i), "growth keeps the value of every existing element");
  }
}

// elements [from, m.n) were just created by the arena: default constructed; fill them with the payload
INL void checkFresh(Model& m, Index from) {
  for (Index i = from; i < m.n; ++i) {
    vf_check(val((*m.a)[i]) == kDefault, "new elements are default-constructed");
    val((*m.a)[i]) = f(m.seed, i);
    m.addr[i] = &(*m.a)[i];
  }
}

// arena `a` was just built by the real constructor with `init` initial elements
INL void adopt(Model& m, Arena* a, Index init, uint32_t seed) {
  m.a = a;
  m.seed = seed;
  m.n = init;
  vf_check(m.a->size() == init, "constructor creates initialSize elements");
  checkFresh(m, 0);
}

INL void grow(Model& m, Index d) {
  Index r = m.a->grow_by(d);
  vf_check(r == m.n, "grow_by returns the previous size: ranges are contiguous, disjoint, union is [0,size())");
  vf_check(m.a->size() == (Index)(m.n + d), "size() grows by exactly delta");
  checkStable(m);
  Index from = m.n;
  m.n = (Index)(m.n + d);
  checkFresh(m, from);
}

// arena `x` holds exactly n elements with payload `seed`
INL void checkContents(Arena& x, uint32_t seed, Index n) {
  vf_check(x.size() == n, "size is identical after copy/move/swap");
  for (Index q = 0; q < n; ++q)
    vf_check(val(x[q]) == f(seed, q), "contents are element-wise identical after copy/move/swap");
  // documented accessors agree with size(): used buffer sizes add up
  Index nb = x.numBuffers();
  Index total = 0;
  for (Index b = 0; b < nb; ++b) total = (Index)(total + x.getBufferSize(b));
  vf_check(total == n, "getBufferSize() over all buffers adds up to size()");
}

// D describes arena `x` that took over the elements of S (move / swap): same storage
INL void takeOver(Model& D, const Model& S, Arena* x) {
  D.a = x;
  D.seed = S.seed;
  D.n = S.n;
  for (Index i = 0; i < S.n; ++i) D.addr[i] = S.addr[i];
}

// D describes arena `x` that is a copy of S: own storage
INL void copyOf(Model& D, const Model& S, Arena* x) {
  D.a = x;
  D.seed = S.seed;
  D.n = S.n;
  for (Index i = 0; i < S.n; ++i) {
    D.addr[i] = &(*x)[i];
    if (x != S.a) vf_check(D.addr[i] != S.addr[i], "a copy owns its own storage");
  }
}

// the destination D of the operation is a fully functional arena: grow it further, re-check everything
INL void after(uint32_t op, Model& D, Model& A, Index post) {
  grow(D, post);
  checkContents(*D.a, D.seed, D.n);
  if (op <= 1) {
    // growing / writing the copy left the original untouched
    checkContents(*A.a, A.seed, A.n);
    checkStable(A);
  }
  if (op == 3) checkContents(*A.a, A.seed, A.n);
}

// One scenario (one function per scenario: CBMC's per-function instrumentation is superlinear in function
// size): every size-determining parameter (minBuffSize, initialSize, the grow_by deltas) is a literal, so that buffer sizes, table capacities and buffer counts are constants for the solver
// (with symbolic deltas every heap object has a symbolic size and the array theory does not terminate in
// hours).  The scenario itself is selected by a symbolic input in vf_main, the payload stays symbolic.
template <unsigned long long minA, unsigned long long initA, unsigned long long g1, unsigned long long g2,
          unsigned long long g3, unsigned long long post, uint32_t op>
VF_NOINLINE static void scenario() {
  Model A, B, D;
  uint32_t seedA = vf_nondet_u32();
  uint32_t seedB = vf_nondet_u32();
  vf_assume(seedA != seedB);
  const Index minB = 2 * minA, initB = 1;
  // arenas are ordinary locals: destroyed by the real destructor at scope exit (leak check after that)
  Arena a(minA, initA);
  adopt(A, &a, initA, seedA);
  grow(A, g1);
  grow(A, g2);
  grow(A, g3);
  Arena b(minB, initB);
  adopt(B, &b, initB, seedB);
  grow(B, 2);
  switch (op) {
    case 0: {  // copy construction
      Arena c(a);
      checkContents(c, A.seed, A.n);
      checkContents(a, A.seed, A.n);
      copyOf(D, A, &c);
      after(op, D, A, post);
      break;
    }
    case 1: {  // copy assignment
      b = a;
      checkContents(b, A.seed, A.n);
      checkContents(a, A.seed, A.n);
      copyOf(D, A, &b);
      after(op, D, A, post);
      break;
    }
    case 2: {  // move assignment: destination takes over the source's elements (source: only destructible)
      b = std::move(a);
      checkContents(b, A.seed, A.n);
      takeOver(D, A, &b);
      checkStable(D);
      after(op, D, A, post);
      break;
    }
    case 3: {  // swap
      swap(a, b);
      checkContents(a, B.seed, B.n);
      checkContents(b, A.seed, A.n);
      takeOver(D, A, &b);
      takeOver(A, B, &a);
      checkStable(A);
      checkStable(D);
      after(op, D, A, post);
      break;
    }
    case 4: {  // move construction (source: only destructible)
      Arena c(std::move(a));
      checkContents(c, A.seed, A.n);
      takeOver(D, A, &c);
      checkStable(D);
      after(op, D, A, post);
      break;
    }
    default: {  // self copy assignment
      a = a;
      checkContents(a, A.seed, A.n);
      copyOf(D, A, &a);
      after(op, D, A, post);
      break;
    }
  }
}

#ifndef VF_MINBUF
#define VF_MINBUF 1
#endif
#ifndef VF_OP
#define VF_OP 0
#endif
#ifndef VF_NSC
#define VF_NSC 27  // number of scenarios of this instance ...
#endif
#ifndef VF_SC0
#define VF_SC0 0  // ... starting at this one (large scenario sets are split over instances: memory)
#endif
// scenario k: digits of k in base VF_DB = (initialSize, delta1, delta2[, delta3]); the grow_by applied to the
// destination afterwards cycles through 0..VF_DB-1 with k
#define SC(k)                                                                                         \
  case (k):                                                                                           \
    if ((k) >= VF_SC0 && (k) < VF_SC0 + VF_NSC)                                                                            \
      scenario<VF_MINBUF, (k) % VF_DB, ((k) / VF_DB) % VF_DB, ((k) / (VF_DB * VF_DB)) % VF_DB,          \
               ((k) / (VF_DB * VF_DB * VF_DB)) % VF_DB, ((k) + (k) / VF_DB + 1) % VF_DB, VF_OP>();     \
    break;
#define SC3(k) SC(k) SC((k) + 1) SC((k) + 2)
#define SC9(k) SC3(k) SC3((k) + 3) SC3((k) + 6)
#define SC27(k) SC9(k) SC9((k) + 9) SC9((k) + 18)
#define SC81(k) SC27(k) SC27((k) + 27) SC27((k) + 54)

extern "C" void vf_main() {
  uint32_t sel = vf_range_u32(VF_SC0, VF_SC0 + VF_NSC - 1);
  switch (sel) {
#if VF_SC0 + VF_NSC <= 9
    SC9(0)
#elif VF_SC0 + VF_NSC <= 27
    SC27(0)
#elif VF_SC0 + VF_NSC <= 81
    SC81(0)
#else
    SC81(0) SC81(81) SC81(162)
#endif
    default: break;
  }
}
