// C34 (concurrent): MpmcRingBuffer delivers every successfully pushed element to exactly one
// successful pop, per-producer order is preserved, occupancy never exceeds capacity.
// Real code: MpmcRingBuffer<int32_t,CAP,POW2>::{try_push, try_emplace, try_push_batch, try_pop(T&),
//            try_pop(), try_pop_into, emplaceImpl, size, ctor}.
// Symbolic: operation kinds, the interleaving of all atomic operations.
#include <dispenso/mpmc_ring_buffer.h>
#include "vf.h"

using Ring = dispenso::MpmcRingBuffer<int32_t, VF_CAP, VF_POW2>;
static Ring R;

// ghost ledger, indexed by tag 1..6
static uint8_t g_pushed[8];   // push reported success
static uint8_t g_popped[8];   // number of pops that returned this tag
static int32_t g_lastA[2];    // per consumer: last tag seen from producer A (tags 1..3, pushed in order)

static void note_pop(int consumer, int32_t tag) {
  VfAtomic a;
  vf_check(tag >= 1 && tag <= 6, "pop returned a value that was never pushed");
  if (tag >= 1 && tag <= 6) {
    g_popped[tag]++;
    vf_check(g_popped[tag] <= 1, "the same element was delivered to two pops");
    if (tag <= 3) {
      vf_check(tag > g_lastA[consumer], "a consumer saw one producer's elements out of push order");
      g_lastA[consumer] = tag;
    }
  }
}
static void note_push(int32_t tag, bool ok) {
  if (ok) { VfAtomic a; g_pushed[tag] = 1; }
}

VF_NOINLINE static bool k_push(int32_t tag) {
  if (vf_nondet_bool()) return R.try_push(tag);
  return R.try_emplace(tag);
}
VF_NOINLINE static bool k_pop(int32_t* out) {
  uint32_t k = vf_range_u32(0, 2);
  if (k == 0) return R.try_pop(*out);
  if (k == 1) return R.try_pop_into(out);
  auto r = R.try_pop();
  if (r) { *out = r.value(); return true; }
  return false;
}

static void producerA(void*) {  // tags 1,2,(3): single pushes or one batch
#if VF_BATCH
  int32_t items[2] = {1, 2};
  size_t n = R.try_push_batch(items, 2);
  vf_check(n <= 2, "batch pushed more than requested");
  note_push(1, n >= 1);
  note_push(2, n >= 2);
#else
  note_push(1, k_push(1));
  note_push(2, k_push(2));
#endif
}
static void producerB(void*) { note_push(4, k_push(4)); }
static void consumer0(void*) {
  int32_t v = 0;
  if (k_pop(&v)) note_pop(0, v);
  v = 0;
  if (k_pop(&v)) note_pop(0, v);
}

extern "C" void vf_main() {
  vf_spawn(producerA, nullptr);
  vf_spawn(producerB, nullptr);
  vf_spawn(consumer0, nullptr);
  vf_join_all();
  if (vf_any_stuck()) return;
  // quiescent: drain
  vf_check(R.size() <= Ring::capacity(), "buffer holds more than capacity() elements");
  size_t expect = 0;
  for (int t = 1; t <= 6; ++t) expect += (g_pushed[t] && !g_popped[t]) ? 1 : 0;
  vf_check(R.size() == expect, "quiescent size() differs from pushed-but-not-popped count");
  for (int i = 0; i < 3; ++i) {
    int32_t v = 0;
    bool ok = R.try_pop(v);
    vf_check(ok == (expect > 0), "quiescent pop succeeds iff the buffer is non-empty");
    if (ok) { note_pop(1, v); --expect; }
  }
  for (int t = 1; t <= 6; ++t) {
    vf_check(g_popped[t] == g_pushed[t], "every successfully pushed element is popped exactly once (and nothing else is)");
  }
}
