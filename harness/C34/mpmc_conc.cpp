// C34 (concurrent): MpmcRingBuffer delivers every successfully pushed element to exactly one
// successful pop, consumers see elements in the order the pushes claimed slots (observable part:
// per-producer order and real-time order), occupancy never exceeds capacity, every element is
// destroyed exactly once (also by ~MpmcRingBuffer with elements left).
// Real code: MpmcRingBuffer<T,CAP,POW2>::{ctor, dtor, try_push(T&&), try_push(const T&), try_emplace,
//            emplaceImpl, try_push_batch, try_pop(T&), try_pop(), try_pop_into, size, empty, full}.
// Symbolic: the interleaving of all atomic operations (and, for the Elem payload, of the payload
//           constructions), the start offset of head/tail, optional pre-fill, operation kinds
//           (when VF_PUSH / VF_POP == 9), number of elements left to the destructor.
//
// -D parameters:
//   VF_CAP, VF_POW2      template arguments
//   VF_ELEM   0: int32_t payload, 1: lifetime-tracked payload (Tracked + per-tag ledger + scheduling
//             points inside the payload constructors, so that a reader can run between a producer's
//             claim and its payload write)
//   push kinds: 0 try_push(T&&), 1 try_emplace, 2 try_push(const T&); pop kinds: 0 try_pop(T&),
//   1 try_pop_into, 2 try_pop() (OpResult)
//   VF_PUSH   0..2: the push of tag t uses kind (VF_PUSH + t) % 3 (fixed per call site); 9: symbolic choice per call
//   VF_POP    0..2: pop number j of consumer c uses kind (VF_POP + c + j) % 3; 9: symbolic choice per call
//   VF_A      producer A: number of pushes (tags 1..VF_A); VF_BATCH=1: one try_push_batch of VF_A items
//   VF_B      producer B: number of pushes (tags 4..3+VF_B); 0: no producer B
//   VF_P3     third producer: number of pushes (tags 7..6+VF_P3); 0: none
//   VF_NCONS  consumers (1 or 2), VF_C pops each
//   VF_PRE    1: main advances head/tail by a symbolic offset 0..CAP-1 and may pre-fill one element
#include <new>
#include <dispenso/mpmc_ring_buffer.h>
#include "tracked.h"
VfCounters g_cnt;

#ifndef VF_ELEM
#define VF_ELEM 0
#endif
#ifndef VF_BATCH
#define VF_BATCH 0
#endif
#ifndef VF_P3
#define VF_P3 0
#endif
#ifndef VF_PRE
#define VF_PRE 1
#endif
#ifndef VF_NCONS
#define VF_NCONS 1
#endif

enum { kTags = 12, kPre = 10, kFill = 11, kProbe = 9 };  // tags: A 1..3, B 4..6, P3 7..8, main 9..11

// ---------------------------------------------------------------- ghost ledger (indexed by tag)
static uint8_t g_pushed[kTags + 1];   // push reported success
static uint8_t g_popped[kTags + 1];   // number of pops that returned this tag
static uint8_t g_start[kTags + 1];    // ghost clock when the push call started
static uint8_t g_done[kTags + 1];     // ghost clock when the push call returned true (0: not yet)
static uint8_t g_clk;
static int32_t g_last[3][3];          // [consumer][producer]: last tag seen
static int32_t g_prev[3];             // [consumer]: previously popped tag (0: none)

#if VF_ELEM
static int8_t g_alive[kTags + 1];     // value-carrying objects alive per tag
struct InPlace {};
struct Elem {
  Tracked t;  // global construct/destroy counters, double-destroy check
  bool proto = false;  // source object of a copying push: not an element itself
  void makeProto() { proto = true; if (t.v >= 1 && t.v <= kTags) g_alive[t.v]--; }
  void born() {
    if (t.v >= 1 && t.v <= kTags) {
      g_alive[t.v]++;
      vf_check(g_alive[t.v] == 1, "two live objects carry the same element");
    }
  }
  // scheduling points: where a payload object is written into / read out of a slot
  explicit Elem(int32_t x) noexcept : t(x) { born(); }
  Elem(int32_t x, InPlace) noexcept : t((vf_sched_point(), x)) { born(); }  // try_emplace
  Elem(const Elem& o) noexcept : t((vf_sched_point(), o.t)) { born(); }
  Elem(Elem&& o) noexcept : t((vf_sched_point(), o.t.v)) {
    // the source gives up the element
    if (o.t.v >= 1 && o.t.v <= kTags) g_alive[o.t.v]--;
    o.t.v = -7;
    born();
  }
  Elem& operator=(Elem&& o) noexcept {
    vf_sched_point();
    if (t.v >= 1 && t.v <= kTags) g_alive[t.v]--;
    t.v = o.t.v;
    o.t.v = -7;
    return *this;
  }
  ~Elem() {
    if (!proto && t.v >= 1 && t.v <= kTags) {
      g_alive[t.v]--;
      vf_check(g_alive[t.v] == 0, "an element is destroyed twice");
    }
  }
};
static inline int32_t tagOf(const Elem& e) { return e.t.v; }
#else
using Elem = int32_t;
static inline int32_t tagOf(const Elem& e) { return e; }
#endif

using Ring = dispenso::MpmcRingBuffer<Elem, VF_CAP, VF_POW2>;
// typed storage with manual lifetime (the analysis keeps the object's struct type)
union Holder {
  Ring r;
  Holder() {}
  ~Holder() {}
};
static Holder g_holder;
static inline Ring& ring() { return g_holder.r; }

static inline int producerOf(int32_t tag) { return tag <= 3 ? 0 : tag <= 6 ? 1 : 2; }

static void note_pop(int consumer, int32_t tag) {
  VfAtomic a;
  vf_check(tag >= 1 && tag <= kTags, "pop returned a value that was never pushed");
  if (tag >= 1 && tag <= kTags) {
    vf_check(g_start[tag] != 0, "pop returned an element whose push has not even started");
    g_popped[tag]++;
    vf_check(g_popped[tag] <= 1, "the same element was delivered to two pops");
    if (tag <= 8) {
      int p = producerOf(tag);
      vf_check(tag > g_last[consumer][p], "a consumer saw one producer's elements out of push order");
      g_last[consumer][p] = tag;
    }
    int32_t prev = g_prev[consumer];
    if (prev != 0) {
      // FIFO in real-time order: if push(tag) had returned before push(prev) started, tag sits at a
      // lower position than prev and this consumer (whose claims are increasing) cannot see it later
      vf_check(!(g_done[tag] != 0 && g_done[tag] < g_start[prev]),
               "a consumer popped y after x although push(y) completed before push(x) started");
    }
    g_prev[consumer] = tag;
  }
}
static inline void push_begin(int32_t tag) { g_start[tag] = ++g_clk; }
static inline void push_end(int32_t tag, bool ok) {
  if (ok) { g_pushed[tag] = 1; g_done[tag] = ++g_clk; }
}

static inline bool push_kind(int32_t tag, uint32_t kind) {
  if (kind == 0) return ring().try_push(Elem(tag));
#if VF_ELEM
  if (kind == 1) return ring().try_emplace(tag, InPlace{});
#else
  if (kind == 1) return ring().try_emplace(tag);
#endif
#if VF_ELEM
  Elem src(tag);
  src.makeProto();
  const Elem& e = src;
#else
  const Elem e = tag;
#endif
  return ring().try_push(e);
}
static inline bool do_push(int32_t tag) {
  push_begin(tag);
#if VF_PUSH == 9
  bool ok = push_kind(tag, vf_range_u32(0, 2));
#else
  bool ok = push_kind(tag, (VF_PUSH + tag) % 3);  // compile-time constant per call site
#endif
  push_end(tag, ok);
  return ok;
}
static inline bool pop_kind(int32_t* out, uint32_t kind) {
  if (kind == 0) {
    Elem e(0);
    bool ok = ring().try_pop(e);
    if (ok) *out = tagOf(e);
    return ok;
  }
  if (kind == 1) {
    alignas(Elem) char buf[sizeof(Elem)];
    Elem* p = reinterpret_cast<Elem*>(buf);
    bool ok = ring().try_pop_into(p);
    if (ok) { *out = tagOf(*p); p->~Elem(); }
    return ok;
  }
  auto r = ring().try_pop();
  if (r) { *out = tagOf(r.value()); return true; }
  return false;
}
static inline bool do_pop(int32_t* out, int j) {
#if VF_POP == 9
  return pop_kind(out, vf_range_u32(0, 2));
#else
  return pop_kind(out, (VF_POP + j) % 3);  // compile-time constant per call site
#endif
}

// ---------------------------------------------------------------- threads
static void producerA(void*) {
#if VF_BATCH
  Elem items[VF_A] = {Elem(1)
#if VF_A >= 2
    , Elem(2)
#endif
#if VF_A >= 3
    , Elem(3)
#endif
  };
#pragma unroll
  for (int t = 1; t <= VF_A; ++t) push_begin(t);
  size_t n = ring().try_push_batch(items, VF_A);
  vf_check(n <= VF_A, "batch pushed more than requested");
#pragma unroll
  for (int t = 1; t <= VF_A; ++t) push_end(t, (size_t)t <= n);
#else
  do_push(1);
#if VF_A >= 2
  do_push(2);
#endif
#if VF_A >= 3
  do_push(3);
#endif
#endif
}
#if VF_B
static void producerB(void*) {
  do_push(4);
#if VF_B >= 2
  do_push(5);
#endif
#if VF_B >= 3
  do_push(6);
#endif
}
#endif
#if VF_P3
static void producerC(void*) {
  do_push(7);
#if VF_P3 >= 2
  do_push(8);
#endif
}
#endif
static void consumer0(void*) {
  int32_t v = 0;
  if (do_pop(&v, 0)) note_pop(0, v);
#if VF_C >= 2
  v = 0;
  if (do_pop(&v, 0 + 1)) note_pop(0, v);
#endif
#if VF_C >= 3
  v = 0;
  if (do_pop(&v, 0 + 2)) note_pop(0, v);
#endif
}
#if VF_NCONS >= 2
static void consumer1(void*) {
  int32_t v = 0;
  if (do_pop(&v, 1)) note_pop(1, v);
#if VF_C >= 2
  v = 0;
  if (do_pop(&v, 1 + 1)) note_pop(1, v);
#endif
#if VF_C >= 3
  v = 0;
  if (do_pop(&v, 1 + 2)) note_pop(1, v);
#endif
}
#endif

// The quiescent phases of the main thread (before the first spawn, after the join) are reached
// through function pointers: the cbmc-seq engine then runs them as plain code without preemption
// points (no other thread exists / is unfinished there), which keeps the main thread's step
// machine small.
static void phase_pre(uint32_t) {
  Ring* r = new (&g_holder.r) Ring();
#if VF_PRE
  // quiescent prefix: symbolic start offset of head/tail (wrap-around happens at different points
  // of the threads' histories), optionally one element already inside
  uint32_t off = vf_range_u32(0, VF_CAP - 1);
#pragma unroll
  for (uint32_t i = 0; i + 1 < VF_CAP; ++i) {
    if (i >= off) break;
    bool ok = r->try_emplace((int32_t)kPre);
    int32_t v = 0;
    bool ok2 = ok && pop_kind(&v, 0);
    vf_check(ok2 && v == kPre, "quiescent push then pop on an empty buffer both succeed");
  }
  if (vf_nondet_bool()) {
    push_begin(kFill);
    bool ok = r->try_emplace((int32_t)kFill);
    vf_check(ok, "quiescent push into an empty buffer succeeds");
    push_end(kFill, ok);
  }
#endif
}

static void phase_post(uint64_t) {
  Ring* r = &ring();
  const size_t cap = Ring::capacity();
  size_t expect = 0;
#pragma unroll
  for (int t = 1; t <= kTags; ++t) expect += (g_pushed[t] && !g_popped[t]) ? 1 : 0;
  vf_check(r->size() <= cap, "buffer holds more than capacity() elements");
  vf_check(r->size() == expect, "quiescent size() differs from pushed-but-not-popped count");
  vf_check(r->empty() == (expect == 0) && r->full() == (expect >= cap), "quiescent empty()/full() agree with the ledger");
#if VF_ELEM
  vf_check(g_cnt.live == (int32_t)expect, "live payload objects == elements in the buffer");
#endif
  {
    push_begin(kProbe);
    bool ok = r->try_emplace((int32_t)kProbe);
    vf_check(ok == (expect < cap), "quiescent push succeeds iff the buffer is not full");
    push_end(kProbe, ok);
    if (ok) ++expect;
  }
  // drain (all, or a symbolic number when the destructor is to find elements)
#if VF_ELEM
  uint32_t drain = vf_range_u32(0, VF_DRAIN);
#else
  uint32_t drain = VF_DRAIN;
#endif
#pragma unroll
  for (uint32_t i = 0; i < VF_DRAIN; ++i) {
    if (i >= drain) break;
    int32_t v = 0;
    bool ok = pop_kind(&v, 0);
    vf_check(ok == (expect > 0), "quiescent pop succeeds iff the buffer is non-empty");
    if (ok) { note_pop(2, v); --expect; }
  }
#if VF_ELEM
  r->~Ring();
  vf_check(g_cnt.live == 0 && g_cnt.ctor == g_cnt.dtor,
           "every payload object is destroyed exactly once (destructor destroys what is left)");
#pragma unroll
  for (int t = 1; t <= kTags; ++t) {
    vf_check(g_alive[t] == 0, "an element outlives the buffer");
    vf_check(g_popped[t] <= g_pushed[t], "an element was popped that no push delivered");
  }
#else
  vf_check(expect == 0, "drain empties the buffer");
#pragma unroll
  for (int t = 1; t <= kTags; ++t) {
    vf_check(g_popped[t] == g_pushed[t], "every successfully pushed element is popped exactly once (and nothing else is)");
  }
#endif
}
void (*g_phase_pre)(uint32_t) = phase_pre;
void (*g_phase_post)(uint64_t) = phase_post;

extern "C" void vf_main() {
  g_phase_pre(0);
  vf_spawn(producerA, nullptr);
#if VF_B
  vf_spawn(producerB, nullptr);
#endif
#if VF_P3
  vf_spawn(producerC, nullptr);
#endif
  vf_spawn(consumer0, nullptr);
#if VF_NCONS >= 2
  vf_spawn(consumer1, nullptr);
#endif
  vf_join_all();
  if (vf_any_stuck()) return;
  g_phase_post(0);
}
