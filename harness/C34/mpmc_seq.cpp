// C34 (quiescent semantics + lifetimes): single-threaded history against a reference FIFO.
// In a quiescent state a push succeeds iff the buffer is not full, a pop iff it is not empty;
// elements come out in push order; every element is destroyed exactly once (also by ~MpmcRingBuffer).
#include <new>
#include <dispenso/mpmc_ring_buffer.h>
#include "tracked.h"
VfCounters g_cnt;

using Ring = dispenso::MpmcRingBuffer<Tracked, VF_CAP, VF_POW2>;
alignas(Ring) static char storage[sizeof(Ring)];

extern "C" void vf_main() {
  Ring* r = new (storage) Ring();
  const size_t cap = Ring::capacity();
  int32_t ref[8];
  size_t head = 0, tail = 0;  // reference FIFO (indices into ref, never wraps: <= VF_OPS*2 pushes)
  int32_t next = 1;
  for (int step = 0; step < VF_OPS; ++step) {
    uint32_t op = vf_range_u32(0, 5);
    size_t n = tail - head;
    if (op == 0) {
      bool ok = r->try_push(Tracked(next));
      vf_check(ok == (n < cap), "quiescent try_push succeeds iff the buffer is not full");
      if (ok) ref[tail++] = next;
      ++next;
    } else if (op == 1) {
      bool ok = r->try_emplace(next);
      vf_check(ok == (n < cap), "quiescent try_emplace succeeds iff the buffer is not full");
      if (ok) ref[tail++] = next;
      ++next;
    } else if (op == 2) {
      Tracked items[2] = {Tracked(next), Tracked(next + 1)};
      size_t k = r->try_push_batch(items, 2);
      size_t room = cap - n;
      vf_check(k == (room < 2 ? room : 2), "quiescent try_push_batch pushes min(count, free slots)");
      for (size_t i = 0; i < k; ++i) ref[tail++] = next + (int32_t)i;
      next += 2;
    } else if (op == 3) {
      Tracked out(0);
      bool ok = r->try_pop(out);
      vf_check(ok == (n > 0), "quiescent try_pop(T&) succeeds iff the buffer is non-empty");
      if (ok) { vf_check(out.v == ref[head], "elements come out in push order"); ++head; }
    } else if (op == 4) {
      auto res = r->try_pop();
      vf_check(res.has_value() == (n > 0), "quiescent try_pop() succeeds iff the buffer is non-empty");
      if (res) { vf_check(res.value().v == ref[head], "elements come out in push order"); ++head; }
    } else {
      alignas(Tracked) char buf[sizeof(Tracked)];
      bool ok = r->try_pop_into(reinterpret_cast<Tracked*>(buf));
      vf_check(ok == (n > 0), "quiescent try_pop_into succeeds iff the buffer is non-empty");
      if (ok) {
        Tracked* t = reinterpret_cast<Tracked*>(buf);
        vf_check(t->v == ref[head], "elements come out in push order");
        ++head;
        t->~Tracked();
      }
    }
    vf_check(r->size() == tail - head && r->size() <= cap, "size() equals the reference and never exceeds capacity()");
    vf_check(r->empty() == (tail == head) && r->full() == (tail - head >= cap), "empty()/full() agree with the reference");
    vf_check(g_cnt.live == (int32_t)(tail - head), "live elements == elements in the buffer");
  }
  r->~Ring();
  vf_check(g_cnt.live == 0 && g_cnt.ctor == g_cnt.dtor, "every element is destroyed exactly once (destructor destroys what is left)");
}
