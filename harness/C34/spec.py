TECHNIQUE = ('bounded symbolic execution of LLVM IR lowered to C: CBMC/SAT (cadical); concurrent instances: sequentialised '
             'step machine with symbolic round-robin scheduler over all atomic operations (engine cbmc-seq); '
             'sequential history instances against a reference FIFO (engine cbmc)')
ASSUMPTIONS = ['fail-fast semantics as documented: a push/pop may fail under contention; only quiescent success conditions are exact',
               'sequential consistency for the atomics (interleaving semantics at atomic-operation granularity; payload '
               'construction is an additional interleaving point in the lifetime-tracked instances)']
OUTSIDE = ('more threads / operations / scheduler rounds than stated per instance; capacities other than 2, 4 (power of two) and 3 (exact); '
           'counter wrap-around of the 64-bit head/tail; weak-memory reorderings; payload types other than int32 / lifetime-tracked int')


def conc(name, cap, pow2, steps, nthreads, tiers, bounds, unwind=3, timeout=1500, **d):
    defs = {'VF_CAP': cap, 'VF_POW2': pow2, 'VF_ELEM': 0, 'VF_PUSH': 1, 'VF_POP': 0, 'VF_A': 2, 'VF_B': 1, 'VF_C': 2,
            'VF_NCONS': 1, 'VF_BATCH': 0, 'VF_P3': 0, 'VF_PRE': 1, 'VF_DRAIN': 3}
    defs.update(d)
    return {'name': name, 'src': 'mpmc_conc.cpp', 'engine': 'cbmc-seq', 'steps': steps, 'spin_loops': True, 'defs': defs,
            'unwind': unwind, 'unwindset': {}, 'nthreads': nthreads, 'timeout': timeout, 'tiers': tiers, 'bounds': bounds}


INSTANCES = [
    # push kinds per tag t: (VF_PUSH + t) % 3 (0 try_push(T&&), 1 try_emplace, 2 try_push(const T&));
    # pop kinds of the consumer's j-th pop: (VF_POP + j) % 3 (0 try_pop(T&), 1 try_pop_into, 2 try_pop())
    conc('conc_cap2_a', 2, 'true', 4, 4, ['quick', 'thorough'],
         'capacity 2 (pow2); symbolic start offset 0..1 and optional pre-filled element; producer A: try_emplace, try_push(const T&); '
         'producer B: try_emplace; consumer: try_pop(T&), try_pop_into; 4 scheduler rounds; then quiescent push probe + drain by main',
         VF_PUSH=0, VF_POP=0),
    conc('conc_cap2_b', 2, 'true', 4, 4, ['quick', 'thorough'],
         'capacity 2 (pow2); symbolic start offset and pre-fill; producer A: try_push(const T&), try_push(T&&); producer B: try_push(const T&); '
         'consumer: try_pop() (OpResult), try_pop(T&); 4 scheduler rounds; quiescent probe + drain',
         VF_PUSH=1, VF_POP=2),
    conc('conc_cap3_batch', 3, 'false', 4, 4, ['quick', 'thorough'],
         'capacity 3 (exact, modulo indexing); symbolic start offset 0..2 and pre-fill; producer A: try_push_batch(2 items); producer B: '
         'try_push(T&&); consumer: try_pop_into, try_pop(); 4 scheduler rounds; quiescent probe + drain',
         VF_PUSH=2, VF_POP=1, VF_BATCH=1, VF_DRAIN=4, unwind=4),
    conc('conc_cap2_elem', 2, 'true', 4, 4, ['quick', 'thorough'],
         'capacity 2; lifetime-tracked payload with scheduling points inside the payload constructors; producer A: 2 pushes, producer B: 1 push, '
         'consumer: 2 pops; symbolic number of elements left to ~MpmcRingBuffer; 4 scheduler rounds',
         VF_ELEM=1, VF_PUSH=0, VF_POP=2, VF_PRE=0),
    {'name': 'seq_cap2', 'src': 'mpmc_seq.cpp', 'engine': 'cbmc', 'defs': {'VF_CAP': 2, 'VF_POW2': 'true', 'VF_OPS': 4},
     'unwind': 7, 'timeout': 1500, 'bounds': 'capacity 2; 4 symbolic operations from 6 kinds against a reference FIFO; lifetime-tracked payload',
     'thorough': {'defs': {'VF_CAP': 2, 'VF_POW2': 'true', 'VF_OPS': 6}, 'unwind': 8}},
    {'name': 'seq_cap3', 'src': 'mpmc_seq.cpp', 'engine': 'cbmc', 'defs': {'VF_CAP': 3, 'VF_POW2': 'false', 'VF_OPS': 4},
     'unwind': 7, 'timeout': 1500, 'bounds': 'capacity 3 (exact); 4 symbolic operations against a reference FIFO',
     'thorough': {'defs': {'VF_CAP': 3, 'VF_POW2': 'false', 'VF_OPS': 6}, 'unwind': 8}},
]
