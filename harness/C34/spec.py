TECHNIQUE = ('bounded symbolic execution of LLVM IR lowered to C: CBMC/SAT (cadical); concurrent instances: sequentialised '
             'step machine with symbolic round-robin scheduler over all atomic operations (engine cbmc-seq); '
             'sequential history instances against a reference FIFO (engine cbmc)')
ASSUMPTIONS = ['fail-fast semantics as documented: a push/pop may fail under contention; only quiescent success conditions are exact',
               'sequential consistency for the atomics (interleaving semantics at atomic-operation granularity; payload '
               'construction is an additional interleaving point in the lifetime-tracked instances)']
OUTSIDE = ('more threads / operations / scheduler rounds than stated per instance; capacities other than 2, 4 (power of two) and 3 (exact); '
           'counter wrap-around of the 64-bit head/tail; weak-memory reorderings; payload types other than int32 / lifetime-tracked int')


def conc(name, cap, pow2, steps, nthreads, tiers, bounds, unwind=3, timeout=1700, thorough=None, **d):
    defs = {'VF_CAP': cap, 'VF_POW2': pow2, 'VF_ELEM': 0, 'VF_PUSH': 1, 'VF_POP': 0, 'VF_A': 2, 'VF_B': 1, 'VF_C': 2,
            'VF_NCONS': 1, 'VF_BATCH': 0, 'VF_P3': 0, 'VF_PRE': 1, 'VF_DRAIN': 3}
    defs.update(d)
    # no loops in the harness (unrolled at compile time); 'unwind' only has to cover the real code's
    # loops: constructor slot initialisation / destructor walk (capacity) and try_push_batch (count)
    i = {'name': name, 'src': 'mpmc_conc.cpp', 'engine': 'cbmc-seq', 'steps': steps, 'spin_loops': True, 'defs': defs,
         'unwind': unwind, 'nthreads': nthreads, 'timeout': timeout, 'tiers': tiers, 'bounds': bounds}
    if thorough:
        i['thorough'] = thorough
    return i


ROUNDS = ('%d scheduler rounds (every thread gets one execution segment per round, preemption before every atomic operation; '
          'the last round is needed by the main thread\'s quiescent phase)')
INSTANCES = [
    # push kinds per tag t: (VF_PUSH + t) % 3 (0 try_push(T&&), 1 try_emplace, 2 try_push(const T&));
    # pop kinds of the consumer's j-th pop: (VF_POP + j) % 3 (0 try_pop(T&), 1 try_pop_into, 2 try_pop())
    conc('conc_cap2_a', 2, 'true', 3, 4, ['quick', 'thorough'],
         'capacity 2 (pow2); symbolic start offset 0..1 and optional pre-filled element; producer A: try_emplace, try_push(const T&); '
         'producer B: try_emplace; consumer: try_pop(T&), try_pop_into; then quiescent push probe + drain by main; '
         + ROUNDS % 3 + ' (thorough: 5)',
         VF_PUSH=0, VF_POP=0, thorough={'steps': 5}),
    conc('conc_cap2_b', 2, 'true', 3, 4, ['quick', 'thorough'],
         'capacity 2 (pow2); symbolic start offset and pre-fill; producer A: try_push(const T&), try_push(T&&); producer B: try_push(const T&); '
         'consumer: try_pop() (OpResult), try_pop(T&); quiescent probe + drain; ' + ROUNDS % 3 + ' (thorough: 5)',
         VF_PUSH=1, VF_POP=2, thorough={'steps': 5}),
    conc('conc_cap3_batch', 3, 'false', 3, 4, ['quick', 'thorough'],
         'capacity 3 (exact, modulo indexing); symbolic start offset 0..2 and pre-fill; producer A: try_push_batch(2 items); producer B: '
         'try_push(T&&); consumer: try_pop_into, try_pop(); quiescent probe + drain; ' + ROUNDS % 3 + ' (thorough: 5)',
         VF_PUSH=2, VF_POP=1, VF_BATCH=1, VF_DRAIN=4, unwind=4, thorough={'steps': 5}),
    conc('conc_cap2_elem', 2, 'true', 3, 4, ['quick', 'thorough'],
         'capacity 2; lifetime-tracked payload (harness/common/tracked.h + per-element ledger) whose construction into / out of a slot is an '
         'extra scheduling point; producer A: try_push(const T&), try_push(T&&); producer B: try_emplace; consumer: try_pop(), try_pop(T&); '
         'symbolic number (0..3) of quiescent pops, the rest is left to ~MpmcRingBuffer; ' + ROUNDS % 3 + ' (thorough: 4)',
         VF_ELEM=1, VF_PUSH=1, VF_POP=2, VF_PRE=0, thorough={'steps': 4}),
    conc('conc_cap3_elem_batch', 3, 'false', 4, 3, ['thorough'],
         'capacity 3 (exact); lifetime-tracked payload; producer A: try_push_batch(2 items); consumer: try_pop_into, try_pop(); '
         'symbolic number of quiescent pops, the rest is left to the destructor; ' + ROUNDS % 4,
         VF_ELEM=1, VF_PUSH=0, VF_POP=1, VF_BATCH=1, VF_A=2, VF_B=0, VF_C=2, VF_PRE=0, VF_DRAIN=3, unwind=4),
    conc('conc_cap4_3p2c', 4, 'true', 3, 6, ['thorough'],
         'capacity 4; 3 producers (2+1+1 pushes, all three push kinds) and 2 consumers (2 pops each, all three pop kinds); '
         'quiescent probe + drain; ' + ROUNDS % 3,
         VF_PUSH=0, VF_POP=0, VF_P3=1, VF_NCONS=2, VF_PRE=0, VF_DRAIN=5, unwind=5),
    conc('conc_cap2_2c', 2, 'true', 4, 4, ['thorough'],
         'capacity 2; producer A: 3 pushes (try_push(const T&), try_push(T&&), try_emplace), 2 consumers with 2 pops each (all three '
         'pop kinds); quiescent probe + drain; ' + ROUNDS % 4,
         VF_PUSH=1, VF_POP=1, VF_A=3, VF_B=0, VF_NCONS=2, VF_PRE=0, VF_DRAIN=3),
    {'name': 'seq_cap2', 'src': 'mpmc_seq.cpp', 'engine': 'cbmc', 'defs': {'VF_CAP': 2, 'VF_POW2': 'true', 'VF_OPS': 4},
     'unwind': 7, 'timeout': 1500, 'bounds': 'capacity 2; 4 symbolic operations from 6 kinds against a reference FIFO; lifetime-tracked payload',
     'thorough': {'defs': {'VF_CAP': 2, 'VF_POW2': 'true', 'VF_OPS': 6}, 'unwind': 8}},
    {'name': 'seq_cap3', 'src': 'mpmc_seq.cpp', 'engine': 'cbmc', 'defs': {'VF_CAP': 3, 'VF_POW2': 'false', 'VF_OPS': 4},
     'unwind': 7, 'timeout': 1500, 'bounds': 'capacity 3 (exact); 4 symbolic operations against a reference FIFO',
     'thorough': {'defs': {'VF_CAP': 3, 'VF_POW2': 'false', 'VF_OPS': 6}, 'unwind': 8}},
]
