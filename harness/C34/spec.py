ASSUMPTIONS = ['fail-fast semantics as documented: a push/pop may fail under contention; only quiescent success conditions are exact']
OUTSIDE = ('more threads / operations than stated; capacities other than 2 (power of two) and 3 (exact); counter wrap-around of the 64-bit head/tail; '
           'weak-memory reorderings (sequential consistency is assumed for the atomics); payload types other than int32 / lifetime-tracked int')
INSTANCES = [
    {'name': 'conc_cap2', 'src': 'mpmc_conc.cpp', 'engine': 'cbmc-seq', 'steps': 4, 'spin_loops': True, 'defs': {'VF_CAP': 2, 'VF_POW2': 'true', 'VF_BATCH': 0},
     'unwind': 7, 'nthreads': 4, 'timeout': 1500,
     'bounds': 'capacity 2; producer A: 2 pushes, producer B: 1 push, consumer: 2 pops (kinds symbolic), then quiescent drain by main'},
    {'name': 'conc_cap3_batch', 'src': 'mpmc_conc.cpp', 'engine': 'cbmc-seq', 'steps': 8, 'spin_loops': True, 'defs': {'VF_CAP': 3, 'VF_POW2': 'false', 'VF_BATCH': 1},
     'unwind': 7, 'nthreads': 4, 'timeout': 1500,
     'bounds': 'capacity 3 (exact, modulo indexing); producer A: try_push_batch(2), producer B: 1 push, consumer: 2 pops, then quiescent drain'},
    {'name': 'seq_cap2', 'src': 'mpmc_seq.cpp', 'engine': 'cbmc', 'defs': {'VF_CAP': 2, 'VF_POW2': 'true', 'VF_OPS': 4},
     'unwind': 7, 'timeout': 1500, 'bounds': 'capacity 2; 4 symbolic operations from 6 kinds against a reference FIFO; lifetime-tracked payload',
     'thorough': {'defs': {'VF_CAP': 2, 'VF_POW2': 'true', 'VF_OPS': 6}, 'unwind': 8}},
    {'name': 'seq_cap3', 'src': 'mpmc_seq.cpp', 'engine': 'cbmc', 'defs': {'VF_CAP': 3, 'VF_POW2': 'false', 'VF_OPS': 4},
     'unwind': 7, 'timeout': 1500, 'bounds': 'capacity 3 (exact); 4 symbolic operations against a reference FIFO',
     'thorough': {'defs': {'VF_CAP': 3, 'VF_POW2': 'false', 'VF_OPS': 6}, 'unwind': 8}},
]
