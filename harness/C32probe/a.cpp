#include <new>
#include <utility>
#include "../C32/cv_alloc_model.h"
#include <dispenso/concurrent_vector.h>
#include "tracked.h"
VfCounters g_cnt;
struct Elem : Tracked {
  Elem() noexcept : Tracked(-1) {}
  explicit Elem(int32_t x) noexcept : Tracked(x) {}
};
namespace dispenso {
template <>
struct DefaultConcurrentVectorSizeTraits<Elem> {
  static constexpr size_t kDefaultCapacity = 2;
  static constexpr size_t kMaxVectorSize = 64;
};
}
using Vec = dispenso::ConcurrentVector<Elem>;
extern "C" void vf_main() {
  Vec v;
  int32_t x = (int32_t)vf_range_u32(0, 100);
#if VF_P >= 1
  v.emplace_back(x);
  vf_check(v[0].v == x, "a");
#endif
#if VF_P >= 2
  v.emplace_back(x+1);
  v.emplace_back(x+2);
  vf_check(v[2].v == x+2, "b");
#endif
#if VF_P >= 3
  uint32_t p = vf_range_u32(0, 2);
  vf_check(v[p].v == x+(int32_t)p, "c");
#endif
#if VF_P >= 4
  auto it = v.begin() + p;
  vf_check(it->v == x+(int32_t)p, "d");
#endif
}
