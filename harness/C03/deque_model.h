// Contract model of std::deque for the ThreadPool's `std::deque<PerThreadData> threads_` (pre-included by the
// C03 instances, spec key 'preinclude'; used by the solver run and by the native replay alike).
// Contract encoded (the subset ThreadPool uses): emplace_back constructs at the end and never moves existing
// elements (stable references), back(), size(), empty(), clear() destroys all elements, begin()/end() iterate
// in insertion order, operator[].  Capacity VF_DEQUE_CAP is a model bound (executions exceeding it are cut).
// Why: libstdc++'s deque keeps its size as differences of map/node pointers; CBMC's constant propagation does
// not fold those after clear(), so every later loop over threads_ (and everything behind it) became symbolic.
#pragma once
#include <deque>  // the real header first: its include guard keeps the macro below away from libstdc++'s own code
#include <cstddef>
#include <new>
#include <utility>
#include "vf.h"
#ifndef VF_DEQUE_CAP
#define VF_DEQUE_CAP 4
#endif
namespace std {
template <typename T, typename A = std::allocator<T>>
class vf_deque {
 public:
  typedef T value_type;
  typedef T* iterator;
  typedef const T* const_iterator;
  typedef T& reference;
  typedef size_t size_type;
  vf_deque() : n_(0) {}
  vf_deque(const vf_deque&) = delete;
  vf_deque& operator=(const vf_deque&) = delete;
  ~vf_deque() { clear(); }
  template <typename... Args>
  void emplace_back(Args&&... args) {
    vf_assume(n_ < VF_DEQUE_CAP);  // model bound
    new (at(n_)) T(std::forward<Args>(args)...);
    ++n_;
  }
  T& back() { return *at(n_ - 1); }
  T& front() { return *at(0); }
  T& operator[](size_t i) { return *at(i); }
  const T& operator[](size_t i) const { return *const_cast<vf_deque*>(this)->at(i); }
  size_t size() const { return n_; }
  bool empty() const { return n_ == 0; }
  iterator begin() { return at(0); }
  iterator end() { return at(0) + n_; }
  void clear() {
    // written without a loop over a symbolic bound: VF_DEQUE_CAP <= 4
    if (n_ > 0) at(0)->~T();
    if (n_ > 1) at(1)->~T();
    if (n_ > 2) at(2)->~T();
    if (n_ > 3) at(3)->~T();
    n_ = 0;
  }

 private:
  union Slot {
    T v;
    Slot() {}
    ~Slot() {}
  };
  T* at(size_t i) { return &buf_[0].v + i; }
  Slot buf_[VF_DEQUE_CAP];
  size_t n_;
};
}  // namespace std
#define deque vf_deque
