TECHNIQUE = ('bounded symbolic execution of LLVM IR lowered to C: CBMC/SAT (cadical), sequential engine on the real '
             'ThreadPool / TaskSet with virtual workers; the resize runs inside the producer at a verification hook '
             '(two-context-switch slice of the schedules)')
ASSUMPTIONS = [
    'moodycamel::ConcurrentQueue replaced by its contract model (shim/moodycamel, bounded FIFO)',
    'detail::alignedMalloc/alignedFree replaced by their contract (typed fresh block); small-buffer allocator = malloc/free',
    'std::thread start/join modelled: pool threads never run by themselves; after the producer returned the harness '
    'performs, for every worker of the configuration that then exists, iterations of the worker loop body with the real '
    'consumer functions (tryFindAndExecuteWork with cross-ring probing enabled, deferred steal-ring pop, executeNext) '
    'and then the owner\'s real tryWait(k)',
    'std::deque<PerThreadData> (ThreadPool::threads_) replaced by its contract (harness/C03/deque_model.h: stable '
    'references, insertion order, capacity 4 as model bound); arena buffers are typed objects (rt_defs '
    'VF_TYPED_STORE_SLOT) - both only so that CBMC can constant-propagate; neither is code under test',
    'the verification hooks DISPENSO_VERIF_HOOK(1|2) (platform.h, -DDISPENSO_VERIF; no-ops otherwise) mark the two '
    'points inside the ring fast path at which the other thread is scheduled',
]
OUTSIDE = ('two-context-switch slice: the producer pauses at ONE of the two hook sites (after the fast-path condition read '
           'numThreads_/numRings_; after scheduleBulkToRings loaded the ring count), a complete resize(n\') runs there, the '
           'producer finishes - a strict subset of all interleavings (switches inside resizeLocked, between the pushes '
           'of one bulk, inside the ring/queue operations, two concurrent producers, weak-memory reorderings are '
           'outside); pool sizes > 3; bulk counts other than those listed; one wake group (cascade-host wrappers '
           'exist only for pools with more than one wake group: -DDISPENSO_DISABLE_CASCADE_WAKERANGE), steal-ring '
           'sharing 1; producers other than TaskSet/ConcurrentTaskSet::scheduleBulk on the ring fast path plus the '
           'listed pre-history calls (parallel_for / futures reach the same scheduleBulkImpl but are not driven)')

_SRC = ['dispenso/thread_pool.cpp', 'dispenso/thread_pool_wake.cpp', 'dispenso/detail/per_thread_info.cpp',
        'dispenso/task_set.cpp']
_R16 = '_ZN8dispenso21ConcurrentObjectArenaINS_14MpmcRingBufferINS_12OnceFunctionELm16ELb1EEEmLm64EE7grow_byEm.4'
_R4 = '_ZN8dispenso21ConcurrentObjectArenaINS_14MpmcRingBufferINS_12OnceFunctionELm4ELb1EEEmLm64EE7grow_byEm.4'
_RESIZE = '_ZN8dispenso10ThreadPool12resizeLockedEl'
_TRYWAIT = ['_ZN8dispenso7TaskSet7tryWaitEm', '_ZN8dispenso17ConcurrentTaskSet7tryWaitEm']
_SETS = {0: 'TaskSet', 1: 'ConcurrentTaskSet(kLightweight)'}
_PRE = {1: 'a direct schedule(f, FQ) pending in the central queue', 2: 'a schedulePlaced(f, FQ) pending in the steal ring '
        'of parked worker 0 (worker 1 in the _w1 instance)', 4: 'an earlier ring-path bulk of a second TaskSet still in rings 0..N-1'}


def inst(n, np_, count, tiers, st=0, site=0, pre=0, wsteps=2, early=0, timeout=1500, unwind=3, sleeper=0):
    npre = (n if pre & 4 else 0) + (1 if pre & 1 else 0) + (1 if pre & 2 else 0)
    k = count + npre
    name = '%s_n%d_%s_c%d' % ('ts' if st == 0 else 'cts', n, 'ctl' if np_ == 9 else 'to%d' % np_, count)
    if site:
        name += '_s%d' % site
    if pre:
        name += '_p%d' % pre
    if sleeper:
        name += '_w%d' % sleeper
    what = ('no resize at all (control)' if np_ == 9 else
            'a complete resize(%d) at hook site %s inside that call' % (np_, site or '1 or 2 (symbolic)'))
    pretext = '; '.join(v for b, v in sorted(_PRE.items()) if pre & b)
    uf = {t: k + 2 for t in _TRYWAIT}
    uf[_RESIZE] = max(4, npre + 3)
    return {
        'name': name, 'src': 'resize.cpp', 'engine': 'cbmc', 'shims': ['moodycamel'],
        'repo_sources': _SRC, 'preinclude': ['harness/C03/deque_model.h'], 'rt_defs': {'VF_HAVE_THREAD_MODEL': 1, 'VF_TYPED_STORE_SLOT': 1}, 'models': ['aligned_alloc'],
        # -D for every translation unit of the solver run AND of the native replay
        'defs': {'VF_N': n, 'VF_NP': np_, 'VF_COUNT': count, 'VF_SET': st, 'VF_SITE': site, 'VF_PRE': pre,
                 'VF_WSTEPS': wsteps, 'VF_EARLY': early, 'VF_SLEEPER': sleeper, 'VF_MQ_CAP': 6, 'DISPENSO_VERIF': 1,
                 'DISPENSO_TUNE_STEAL_RING_SHARING': 1, 'DISPENSO_DISABLE_CASCADE_WAKERANGE': 1},
        'unwind': unwind, 'nthreads': 1, 'spin_loops': True, 'unwindset': {_R16: 17, _R4: 5},
        'unwind_fn': uf,
        'checks': ['--no-standard-checks', '--div-by-zero-check', '--bounds-check', '--pointer-check'],
        'timeout': timeout, 'tiers': tiers,
        'bounds': ('ThreadPool(%d); %s%s::scheduleBulk(%d) on the ring fast path with %s; then every worker of the '
                   'resulting configuration runs %d iterations of the worker loop body (real tryFindAndExecuteWork, '
                   'cross-ring probing on), then the owner calls tryWait(%d)%s; model queue capacity 6, steal-ring capacity 4, '
                   'one wake group' % (n, ('pre-history: ' + pretext + '; ') if pre else '', _SETS[st], count, what,
                                       wsteps, k, ' (optionally one waiter step before the workers)' if early else '')),
    }


INSTANCES = [
    # the race of the property statement: shrink 2 -> 1 between the producer's ring-count load and its pushes
    inst(2, 1, 2, ['quick', 'thorough'], site=2),
    # control: same history without any resize
    inst(2, 9, 2, ['quick', 'thorough']),
    # the other scenarios (literal sizes and literal hook site: a symbolic site choice makes all later state
    # symbolic and the run does not finish in 25 min)
    inst(2, 1, 2, ['thorough'], site=1),
    inst(2, 0, 2, ['thorough'], site=1),
    inst(2, 0, 2, ['thorough'], site=2),
    inst(2, 3, 2, ['thorough'], site=1),
    inst(2, 3, 2, ['thorough'], site=2),
    inst(1, 0, 1, ['thorough'], site=1),
    inst(1, 0, 1, ['thorough'], site=2),
    inst(1, 2, 1, ['thorough'], site=1),
    inst(1, 2, 1, ['thorough'], site=2),
    inst(2, 1, 1, ['thorough'], site=1),
    inst(2, 1, 1, ['thorough'], site=2),
    inst(2, 1, 2, ['thorough'], st=1, site=2),
    inst(2, 0, 2, ['thorough'], st=1, site=1),
    inst(2, 0, 2, ['thorough'], st=1, site=2),
    # work already pending when the race happens: direct task in the central queue + placed task in a parked
    # worker's steal ring (resize must drain both; nobody else polls a steal ring of a 0-thread pool)
    inst(2, 0, 2, ['thorough'], site=2, pre=3, wsteps=3),
    inst(2, 3, 2, ['thorough'], site=2, pre=3, wsteps=3),
    inst(2, 1, 2, ['thorough'], site=1, pre=2, wsteps=3, sleeper=1),
    # an earlier fork-join still sitting in the rings when the resize runs
    inst(2, 1, 1, ['thorough'], site=2, pre=4),
    inst(2, 9, 2, ['thorough'], pre=3, wsteps=3),
    # three threads
    inst(3, 2, 3, ['thorough'], site=2),
    inst(3, 1, 2, ['thorough'], site=2),
]
