// temporary cost probe (not part of the check)
#define VF_THREAD_STATE_TRIVIAL 1
#include <dispenso/thread_pool.h>
#include <dispenso/task_set.h>
#include "vf.h"
#include "thread_model.h"
using namespace dispenso;
namespace dispenso { namespace detail {
char* allocSmallBufferImpl(size_t ordinal) { return static_cast<char*>(::malloc(size_t{4} << ordinal)); }
void deallocSmallBufferImpl(size_t, void* buf) { ::free(buf); }
void registerFineSchedulerQuanta() {}
}}
static ThreadPool* g_pool;
static int g_runs[4];
struct Task { int id; void operator()() const { ++g_runs[id]; } };
struct Gen { int base; Task operator()(size_t i) const { return Task{base + (int)i}; } };
extern "C" void dispenso_verif_hook(int site) {
#if VF_PROBE >= 4
  if (site == 2 && g_pool) g_pool->resize(1);
#endif
}
static int g_r;
extern "C" void vf_main() {
  ThreadPool* pool = new ThreadPool(2);
#if VF_PROBE == 1
  pool->resize(1);
#elif VF_PROBE == 2
  size_t s = 0;
  bool b = pool->tryExecuteNextFromRings(s);
  vf_check(!b, "probe: rings empty");
#elif VF_PROBE == 3
  OnceFunction t;
  bool b = pool->rings_[0].try_pop(t);
  vf_check(!b, "probe: ring 0 empty");
#elif VF_PROBE == 4
  TaskSet* ts = new TaskSet(*pool);
  g_pool = pool;
  ts->scheduleBulk(2, Gen{0});
  vf_check(g_runs[0] + g_runs[1] == 0, "probe: nothing ran yet");
#endif
  vf_check(pool->numThreads() >= 0, "probe end");
}
