// C03: ThreadPool::resize() racing the task sets' ring fast path never loses, duplicates or strands a task,
// and the owner's wait still completes.
//
// Shape of one history (real ThreadPool, real TaskSet / ConcurrentTaskSet, virtual workers):
//   new ThreadPool(VF_N) ; optional pre-history (VF_PRE) ; producer: ts->scheduleBulk(VF_COUNT, gen)  -- the
//   ring fast path (detail/task_set_impl.h:216, thread_pool.h scheduleBulkToRings) is taken -- and INSIDE that
//   call, at the verification hook site VF_SITE (1 = after the fast-path condition was evaluated, 2 = after
//   scheduleBulkToRings loaded the ring count), a complete pool.resize(VF_NP) runs (two-context-switch slice:
//   producer pauses, resize runs to completion, producer finishes).  Afterwards the workers of the NEW
//   configuration run iterations of the real worker loop body (tryFindAndExecuteWork + the deferred steal-ring
//   pop of threadLoopImpl) and the owner calls the real tryWait(k).
// Checks: never twice; tryWait returns true; no ring of the arena still holds a task while the set has
// outstanding tasks (stranding, stated directly); every submitted functor ran exactly once; cbmc's
// division-by-zero check covers `tasksPerRing` (ringCount == 0).
#define VF_THREAD_STATE_TRIVIAL 1
#include <dispenso/thread_pool.h>
#include <dispenso/task_set.h>
#include "vf.h"
#include "thread_model.h"

#ifndef VF_N
#define VF_N 2  // initial pool size
#endif
#ifndef VF_NP
#define VF_NP 1  // resize target; 9 = control instance without any resize
#endif
#ifndef VF_COUNT
#define VF_COUNT 2  // bulk count (ring fast path: count*4 >= N && count <= N)
#endif
#ifndef VF_SET
#define VF_SET 0  // 0 TaskSet, 1 ConcurrentTaskSet(kLightweight)
#endif
#ifndef VF_SITE
#define VF_SITE 0  // hook site at which the resize runs: 1, 2, 0 = symbolic choice of 1 or 2
#endif
#ifndef VF_PRE
#define VF_PRE 0  // pre-history bits: 1 direct schedule(FQ) in the central queue, 2 schedulePlaced(FQ) into the
                  // steal ring of a sleeping worker, 4 an earlier ring-path bulk of a second task set (unconsumed)
#endif
#ifndef VF_WSTEPS
#define VF_WSTEPS 2  // worker-loop iterations per virtual worker
#endif
#ifndef VF_SLEEPER
#define VF_SLEEPER 0
#endif
#ifndef VF_EARLY
#define VF_EARLY 0  // 1: symbolic choice of one early waiter step before the workers act
#endif

// number of pre-history tasks
#define VF_NPRE (((VF_PRE & 4) ? VF_N : 0) + ((VF_PRE & 1) ? 1 : 0) + ((VF_PRE & 2) ? 1 : 0))

using namespace dispenso;

// environment contracts (same definitions in the solver run and in the native replay): small-buffer
// allocator = malloc/free of the block size (real allocator: C39/C41), Windows timer quanta = no-op
namespace dispenso {
namespace detail {
char* allocSmallBufferImpl(size_t ordinal) {
  return static_cast<char*>(::malloc(size_t{4} << ordinal));
}
void deallocSmallBufferImpl(size_t, void* buf) {
  ::free(buf);
}
void registerFineSchedulerQuanta() {}
}  // namespace detail
}  // namespace dispenso

static const int kMaxIds = 10;
static int g_runs[kMaxIds];
static int g_submitted;

struct Task {
  int id;
  void operator()() const { ++g_runs[id]; }
};
struct Gen {
  int base;
  Task operator()(size_t i) const { return Task{base + (int)i}; }
};

// ---- the verification hook (DISPENSO_VERIF_HOOK, platform.h) ---------------------------------------------
static ThreadPool* g_pool;
static int g_site;       // site at which the resize runs (0 = never)
static bool g_fired;     // the resize ran
static int g_seen_sites; // bit s: hook site s was passed while armed
extern "C" void dispenso_verif_hook(int site) {
  if (!g_pool) return;
  g_seen_sites |= 1 << site;
#if VF_NP != 9
  if (g_fired || site != g_site) return;
  g_fired = true;
  g_pool->resize(VF_NP);  // literal target: trip counts inside resizeLocked stay concrete
#endif
}

static void never_twice() {
  vf_check(g_runs[0] <= 1 && g_runs[1] <= 1 && g_runs[2] <= 1 && g_runs[3] <= 1 && g_runs[4] <= 1 &&
               g_runs[5] <= 1 && g_runs[6] <= 1 && g_runs[7] <= 1 && g_runs[8] <= 1 && g_runs[9] <= 1,
           "a submitted functor ran more than once");
}

// One iteration of the body of threadLoopImpl (thread_pool.cpp:205-247) for worker i of the current
// configuration, without the sleeping part: tryFindAndExecuteWork (own ring, central queue, own steal ring,
// cross-steal-ring probing: failCount is past kCrossRingFailThreshold), batched decrement; on failure the
// deferred steal-ring pop.
struct VWorker {
  ThreadPool& p;
  size_t idx;
  moodycamel::ConsumerToken ctoken;
  bool preferRing;
  VWorker(ThreadPool& pool, size_t i) : p(pool), idx(i), ctoken(pool.work_), preferRing(false) {}
  void step() {
    ThreadPool::Ring& myRing = p.rings_[idx];
    size_t stealIdx = idx / p.stealRingSharing_;
    ThreadPool::StealRing& mySteal = p.stealRings_[stealIdx];
    if (p.tryFindAndExecuteWork(myRing, mySteal, stealIdx, ctoken, preferRing, ThreadPool::kCrossRingFailThreshold,
                                true)) {
      p.workRemaining_.fetch_sub(1, std::memory_order_relaxed);
    } else {
      OnceFunction st;
      if (mySteal.try_pop(st)) {
        p.executeNext(std::move(st));
      }
    }
  }
  void run() {
    step();
#if VF_WSTEPS > 1
    step();
#endif
#if VF_WSTEPS > 2
    step();
#endif
#if VF_WSTEPS > 3
    step();
#endif
  }
};

#if VF_SET == 0
typedef TaskSet SetT;
static SetT* make_set(ThreadPool& p) { return new TaskSet(p); }
#else
typedef ConcurrentTaskSet SetT;
static SetT* make_set(ThreadPool& p) { return new ConcurrentTaskSet(p, TaskCost::kLightweight); }
#endif

extern "C" void vf_main() {
  ThreadPool* pool = new ThreadPool(VF_N);
  g_submitted = 0;

  // ---- optional pre-history: work that is already pending when the race happens ------------------------
#if VF_PRE & 4
  // an earlier fork-join of another task set whose tasks still sit in rings 0..N-1
  TaskSet* ts0 = new TaskSet(*pool);
  ts0->scheduleBulk((size_t)VF_N, Gen{VF_COUNT});
  g_submitted += VF_N;
  vf_check(!pool->rings_[0].empty(), "harness: earlier bulk must sit in the rings");
#endif
#if VF_PRE & 1
  pool->schedule(Task{VF_COUNT + g_submitted++}, ForceQueuingTag());
  vf_check(pool->work_.n_ == 1, "harness: direct task must sit in the central queue");
#endif
#if VF_PRE & 2
  {
    // a worker parked (real enterSleep); schedulePlaced claims it and pushes to its steal ring
    int32_t w = VF_SLEEPER;  // which worker is parked: instance parameter (a symbolic choice makes every later step symbolic)
    pool->wakeState_.load()->enterSleep(w);
    pool->schedulePlaced(Task{VF_COUNT + g_submitted++}, ForceQueuingTag());
    vf_check(!pool->stealRings_[(size_t)w / pool->stealRingSharing_].empty(),
             "harness: placed task must sit in the claimed worker's steal ring");
  }
#endif
  vf_check(g_submitted == VF_NPRE, "harness: pre-history size");

  // ---- the producer, with the resize inside ---------------------------------------------------------------
  SetT* ts = make_set(*pool);  // never destroyed: ~TaskSet would wait() (spins forever on a stranded task)
#if VF_SITE == 0
  g_site = (int)vf_range_u32(1, 2);
#else
  g_site = VF_SITE;
#endif
  g_pool = pool;
  ts->scheduleBulk((size_t)VF_COUNT, Gen{0});
  g_pool = nullptr;
  g_submitted += VF_COUNT;
  vf_check((g_seen_sites & 6) == 6, "harness: the ring fast path must be taken (both hook sites passed)");
#if VF_NP != 9
  vf_check(g_fired, "harness: the resize must have run inside the producer");
  vf_check(pool->numThreads() == VF_NP, "harness: pool size after resize");
#endif
  never_twice();

  // ---- optionally the owner steals once before any worker got going ---------------------------------------
#if VF_EARLY
  if (vf_nondet_bool()) {
    size_t start = 0;
    if (!pool->tryExecuteNext()) {
      pool->tryExecuteNextFromRings(start);
    }
    never_twice();
  }
#endif

  // ---- the workers of the configuration that now exists do what real workers do --------------------------
#if VF_NP == 9
#define VF_NOW VF_N
#else
#define VF_NOW VF_NP
#endif
#if VF_NOW > 0
  {
    VWorker w0(*pool, 0);
    w0.run();
  }
#endif
#if VF_NOW > 1
  {
    VWorker w1(*pool, 1);
    w1.run();
  }
#endif
#if VF_NOW > 2
  {
    VWorker w2(*pool, 2);
    w2.run();
  }
#endif
  never_twice();

  // ---- the owner waits: real tryWait with a budget that covers every task ever submitted ------------------
  bool done = ts->tryWait((size_t)(VF_COUNT + VF_NPRE));
  never_twice();
  vf_check(done, "tryWait(k >= number of tasks) did not complete after workers and waiter did all they can: wait() would never return");

  // stranding, stated directly: a task of a set with outstanding work sits in a ring nobody scans
  {
    bool ringsEmpty = true;
    const size_t arenaRings = pool->rings_.size();
    const size_t polled = pool->numRings_.load(std::memory_order_acquire);
    if (arenaRings > 0) ringsEmpty = ringsEmpty && pool->rings_[0].empty();
    if (arenaRings > 1) ringsEmpty = ringsEmpty && pool->rings_[1].empty();
    if (arenaRings > 2) ringsEmpty = ringsEmpty && pool->rings_[2].empty();
    if (arenaRings > 3) ringsEmpty = ringsEmpty && pool->rings_[3].empty();
    vf_check(arenaRings <= 4, "harness: arena holds at most 4 rings");
    vf_check(!done || ringsEmpty || ts->outstandingTaskCount_.load(std::memory_order_acquire) == 0,
             "a task of a set with outstanding work is stranded in a ring after workers and waiter did all they can");
    bool beyond = false;
    if (arenaRings > 1 && polled <= 1) beyond = beyond || !pool->rings_[1].empty();
    if (arenaRings > 2 && polled <= 2) beyond = beyond || !pool->rings_[2].empty();
    if (arenaRings > 3 && polled <= 3) beyond = beyond || !pool->rings_[3].empty();
    vf_check(!beyond, "a task sits in a ring with index >= numRings_ (no worker and no waiter polls it)");
  }
  // exactly once for the bulk; pre-history tasks: exactly once as well (workers / resize / waiter had their turn)
  // (if tryWait did not complete, the failure is already reported above; these then only restate it and
  // every failing check costs a trace run + native replay)
  vf_check(!done || g_runs[0] == 1, "bulk task 0 did not run exactly once");
#if VF_COUNT > 1
  vf_check(!done || g_runs[1] == 1, "bulk task 1 did not run exactly once");
#endif
#if VF_COUNT > 2
  vf_check(!done || g_runs[2] == 1, "bulk task 2 did not run exactly once");
#endif
#if VF_PRE
  for (int i = VF_COUNT; i < VF_COUNT + VF_NPRE; ++i) {
    vf_check(g_runs[i] == 1, "a task pending before the race did not run exactly once (lost or left where no thread runs it)");
  }
#endif
  vf_check(g_runs[VF_COUNT + VF_NPRE] == 0 && g_runs[kMaxIds - 1] == 0, "harness: no id beyond the submitted ones ran");
  vf_reach("end of history");
}
