TECHNIQUE = ('bounded symbolic execution of LLVM IR lowered to C: CBMC/SAT (cadical); sequential history harness (engine cbmc) and '
             'sequentialised step machine with symbolic round-robin scheduler over all atomic operations (engine cbmc-seq)')
ASSUMPTIONS = [
    'moodycamel::ConcurrentQueue replaced by its contract (harness/C41/shim: linearizable bounded FIFO, each operation one atomic step)',
    'detail::alignedMalloc/alignedFree replaced by their contract (fresh block aligned as requested; the real address arithmetic is C44)',
    'sequential consistency for the atomics (interleaving semantics at atomic-operation granularity)',
]
OUTSIDE = ('ACTIVE CHECK = instance intrude256 only (lock protocol of bytesAllocated vs. grabFromCentralStore at one scheduling point, '
           'first block aligned/carved correctly); the history / cross-thread / thread-exit instances are written but disabled (too slow, '
           'see NOTES.md); block sizes other than those listed; more operations / threads / scheduler rounds than stated per instance; more than '
           'VF_MQ_CAP elements ever enqueued into the central store; weak-memory reorderings; allocation failure')

_SHIM = '/verif/harness/C41/shim'
_SRC = []  # small_buffer_allocator.cpp is #included by the harness TU (c41.h)


def seq(name, n, warm, back, ops, tiers, maxslabs=2, unwind=None, timeout=900, **kw):
    per = {256: 128, 128: 224, 64: 384}[n]
    pfx = '_ZN8dispenso6detail20SmallBufferAllocatorILm%dEE' % n
    cap = 2 * per
    i = {'name': name, 'src': 'seq.cpp', 'engine': 'cbmc', 'shims': [_SHIM], 'models': ['aligned_alloc'],
         'repo_sources': _SRC, 'nthreads': 1, 'rt_defs': {'VF_TYPED_SINGLETON': 1},
         'unwind_fn': {pfx + '20grabFromCentralStoreEPPc': per * 3 // 4 + 1, pfx + '21recycleToCentralStoreEPPcm': per * 3 // 4 + 1,
                       pfx + '20PerThreadQueuingDataD2Ev': per * 3 // 4 + 1, 'vf_main': max(cap, warm + ops + 1) + 1},
         # grabFromCentralStore: loop 6 = spin `while (lock.load())`, loop 7 = outer `while (true)`; sequentially the lock is free:
         # no spin iteration, one pass of the outer loop (unwinding assertions are on)
         'unwindset': {pfx + '20grabFromCentralStoreEPPc.6': 2, pfx + '20grabFromCentralStoreEPPc.7': 2},
         'defs': {'VF_N': n, 'VF_WARM': warm, 'VF_BACK': back, 'VF_OPS': ops, 'VF_MQ_CAP': cap, 'VF_MQ_BULK_MAX': per * 3 // 4, 'VF_MAXSLABS': maxslabs},
         'unwind': unwind or 3, 'timeout': timeout, 'tiers': tiers,
         'bounds': ('block size %d (%d chunks per slab); concrete prefix: %d allocations then the %d most recent blocks deallocated; '
                    'then %d symbolic operations (alloc | dealloc of a symbolically chosen live block); symbolic probe block; '
                    'symbolic probe chunk for the exactly-once structure check' % (n, per, warm, back, ops))}
    i.update(kw)
    return i



def conc(name, n, steps, tiers, timeout=1700, **kw):
    per = {256: 128, 128: 224, 64: 384}[n]
    defs = {'VF_N': n, 'VF_MQ_CAP': 2 * per, 'VF_MQ_HOOKS': 1, 'VF_MQ_BULK_MAX': per * 3 // 4, 'VF_POST': 1, 'VF_WITH_B': 1, 'VF_A_ALLOCS': 2}
    defs.update(kw.pop('defs', {}))
    nthreads = 4 if defs['VF_WITH_B'] else 3
    i = {'name': name, 'src': 'conc.cpp', 'engine': 'cbmc-seq', 'shims': [_SHIM], 'models': ['aligned_alloc'],
         'rt_defs': {'VF_TYPED_SINGLETON': 1, 'VF_HAVE_THREAD_ATEXIT': 1}, 'rt_extra': ['harness/C41/thread_atexit_rt.c'],
         'native_extra': ['harness/C41/native_stubs.cpp'], 'defs': defs, 'steps': steps, 'nthreads': nthreads,
         'spin_loops': True, 'seq_unroll': True, 'checks': ['--no-standard-checks', '--div-by-zero-check'], 'unwind': 2, 'timeout': timeout, 'mem_gb': 8, 'tiers': tiers,
         'bounds': 'block size %d; threads A (alloc x%d, hand-over, dealloc), %sC (approxBytesAllocated), main (after join: %d alloc + '
                   'structure check); %d scheduler rounds' % (n, defs['VF_A_ALLOCS'], 'B (alloc, dealloc of A\'s block, thread exit), '
                                                              if defs['VF_WITH_B'] else '', defs['VF_POST'], steps)}
    i.update(kw)
    return i



_PUSHBULK = '_ZN10moodycamel15ConcurrentQueueIPcNS_28ConcurrentQueueDefaultTraitsEE8pushBulkIPS1_EEbT_m'


def intrude(name, n, tiers):
    per = {256: 128, 128: 224, 64: 384}[n]
    pfx = '_ZN8dispenso6detail20SmallBufferAllocatorILm%dEE' % n
    return {'name': name, 'src': 'intrude.cpp', 'engine': 'cbmc', 'shims': [_SHIM], 'models': ['aligned_alloc'], 'nthreads': 1,
            'rt_defs': {'VF_TYPED_SINGLETON': 1}, 'defs': {'VF_N': n, 'VF_MQ_CAP': per, 'VF_MQ_BULK_MAX': per * 3 // 4, 'VF_MQ_HOOKS': 1},
            'unwind': 3, 'spin_loops': True, 'timeout': 600, 'tiers': tiers,
            'unwind_fn': {pfx + '20grabFromCentralStoreEPPc': per * 3 // 4 + 1, _PUSHBULK: per * 3 // 4 + 1},
            # grabFromCentralStore: loop 5 = spin on the lock word, loop 6 = outer while(true); pushBulk loop 0 = the CAS loop of
            # bytesAllocated() inlined through the scheduling hook (cut after 3 iterations: it spins for ever on a held lock)
            'unwindset': {pfx + '20grabFromCentralStoreEPPc.5': 2, pfx + '20grabFromCentralStoreEPPc.6': 2, _PUSHBULK + '.0': 3},
            'bounds': 'block size %d; thread A: first alloc() on a fresh allocator (takes the lock, new slab); thread C: one '
                      'bytesAllocated() scheduled (symbolic choice) while A is paused inside the critical section at the central-store '
                      'enqueue and run to completion (spin loop cut after 3 iterations); then A resumes' % n}


INSTANCES = [
    intrude('intrude256', 256, ['quick', 'thorough']),
    conc('conc256_ac', 256, 2, [],  # too expensive in cbmc-seq, see NOTES.md
          defs={'VF_WITH_B': 0, 'VF_A_ALLOCS': 1, 'VF_POST': 0}),
    seq('seq256_script', 256, 130, 70, 0, [], timeout=1500),  # not finished: > 5 min, see NOTES.md
    seq('seq256_fresh', 256, 0, 0, 2, [], thorough={'defs': {'VF_N': 256, 'VF_WARM': 0, 'VF_BACK': 0, 'VF_OPS': 8, 'VF_MQ_CAP': 256, 'VF_MAXSLABS': 2}}),
]
