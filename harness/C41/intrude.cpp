// C41 (critical-section intrusion, sequential engine, harness plays scheduler): thread A runs the
// real SmallBufferAllocator<N>::alloc() on a fresh allocator, so it takes the backingStore lock
// (fetch_add 0 -> 1), pushes the new slab and reaches the central-store enqueue of the carved
// chunks -- still inside the critical section.  At that scheduling point (hook of the queue
// contract model, dispenso untouched) the harness may schedule "thread C": one call of the real
// SmallBufferAllocator<N>::bytesAllocated(), run to completion while A stays paused.
// Since A holds the lock for the whole time, a correct lock makes C spin forever (the call cannot
// return); if it returns, C was inside the critical section together with A.  When A then resumes,
// the lock word it owns must still be non-zero.
#include "c41.h"

static bool g_c_ran;
static size_t g_c_bytes;

void vf_mq_pre_enqueue_bulk(size_t count) {
  if (count == kToPush && !g_c_ran) {
    if (vf_nondet_bool()) {
      g_c_ran = true;
      g_c_bytes = SBA::bytesAllocated();
      vf_check(false, "approxBytesAllocated took the backingStore lock and returned while another thread holds it");
    }
  }
}
void vf_mq_at_enqueue_bulk(size_t count) {
  if (count == kToPush) {
    vf_check(globals().backingStoreLock.load(std::memory_order_relaxed) != 0,
             "the backingStore lock was released by another thread while its holder is inside the critical section");
  }
}

extern "C" void vf_main() {
  char* p = SBA::alloc();
  vf_check(p != nullptr && addr(p) % kN == 0 && isChunkOfSomeSlab(p, 1), "block is not an aligned chunk of the slab");
  vf_check(globals().backingStoreLock.load() == 0, "backingStore lock word is not 0 at quiescence");
  vf_check(SBA::bytesAllocated() == kSlabBytes, "approxBytesAllocated differs from one slab at quiescence");
}
