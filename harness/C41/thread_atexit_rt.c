/* C41 runtime extra (spec 'rt_extra', rt_defs VF_HAVE_THREAD_ATEXIT): thread_local destructors.
 * __cxa_thread_atexit(dtor, obj, dso) records (dtor, obj) for the calling model thread;
 * vf_thread_exit_dtors() -- called by the harness as the last action of a thread function -- runs
 * them in reverse registration order, as the C++ runtime does at thread exit. */
typedef void (*vf_tdtor_t)(uint8_t *);
#ifndef VF_TATEXIT_MAX
#define VF_TATEXIT_MAX 2
#endif
vf_tdtor_t vf_tae_fn[VF_NTHREADS][VF_TATEXIT_MAX];
void *vf_tae_obj[VF_NTHREADS][VF_TATEXIT_MAX];
unsigned vf_tae_n[VF_NTHREADS];
int vf_cxa_thread_atexit(void *f, void *a, void *d) {
  int t = vf_tid;
  unsigned n = vf_tae_n[t];
  __CPROVER_assert(n < VF_TATEXIT_MAX, "rt: more thread_local destructors than VF_TATEXIT_MAX");
  __CPROVER_assume(n < VF_TATEXIT_MAX);
  vf_tae_fn[t][n] = (vf_tdtor_t)f;
  vf_tae_obj[t][n] = a;
  vf_tae_n[t] = n + 1;
  return 0;
}
void vf_thread_exit_dtors(void) {
  int t = vf_tid;
  for (unsigned k = 0; k < VF_TATEXIT_MAX; k++) {
    if (vf_tae_n[t] > 0) {
      unsigned n = --vf_tae_n[t];
      vf_tae_fn[t][n]((uint8_t *)vf_tae_obj[t][n]);
    }
  }
}
uint32_t vf_thread_atexit_count(void) { return vf_tae_n[vf_tid]; }
