// C41 (sequential history): one thread drives the real allocSmallBuffer<N>/deallocSmallBuffer<N>
// (public API -> allocSmallBufferImpl ordinal switch -> SmallBufferAllocator<N>::alloc/dealloc ->
// grabFromCentralStore / recycleToCentralStore / registerCleanup, real small_buffer_allocator.cpp).
// Phase 1 (concrete, reaches the deep states): VF_WARM allocations, then the VF_BACK most recent
// blocks are deallocated.  Phase 2 (symbolic): VF_OPS operations, each alloc or dealloc of a
// symbolically chosen live block.
// Checked for every block handed out: non-null, N-aligned, N bytes inside a slab at a multiple of N,
// disjoint from the (symbolically chosen) probe block while that is live -- i.e. pairwise disjoint
// while live and never handed out again before it is deallocated.  At the end: every chunk of every
// slab is in exactly one place (thread cache, central store, or live), approxBytesAllocated is exact.
#include "c41.h"

#ifndef VF_WARM
#define VF_WARM 0
#endif
#ifndef VF_BACK
#define VF_BACK 0
#endif
#ifndef VF_OPS
#define VF_OPS 4
#endif
#ifndef VF_TOUCH
#define VF_TOUCH 0
#endif
#ifndef VF_MAXSLABS
#define VF_MAXSLABS 2
#endif

enum { kMaxLive = VF_WARM + VF_OPS + 1 };
static char* g_live[kMaxLive];
static uint32_t g_nlive;
static uint32_t g_events;     // number of alloc events so far
static uint32_t g_probe_ev;   // the alloc event whose block is tracked
static char* g_probe;
static bool g_probe_live;

static void on_alloc(char* p) {
  vf_check(p != nullptr, "alloc returned null");
  vf_check(addr(p) % kN == 0, "block is not aligned to the block size");
  vf_check(isChunkOfSomeSlab(p, VF_MAXSLABS), "block is not an N-byte chunk at a multiple of N inside a slab");
  if (g_probe_live) {
    vf_check(p != g_probe, "a block was handed out again before it was deallocated");
    vf_check(!overlap(p, g_probe), "two live blocks overlap");
  }
  if (g_events == g_probe_ev) {
    g_probe = p;
    g_probe_live = true;
  }
  g_events++;
  g_live[g_nlive++] = p;
#if VF_TOUCH
  // the block is usable memory: first and last byte
  p[0] = 1;
  p[kN - 1] = 2;
#endif
}

static void do_dealloc(uint32_t idx) {
  char* p = g_live[idx];
  g_live[idx] = g_live[g_nlive - 1];
  g_nlive--;
  if (g_probe_live && p == g_probe) g_probe_live = false;
  dispenso::deallocSmallBuffer<VF_N>(p);
}

extern "C" void vf_main() {
  g_probe_ev = vf_range_u32(0, VF_WARM + VF_OPS);
  for (uint32_t i = 0; i < VF_WARM; ++i) on_alloc(dispenso::allocSmallBuffer<VF_N>());
  for (uint32_t i = 0; i < VF_BACK; ++i) do_dealloc(g_nlive - 1);
  for (uint32_t i = 0; i < VF_OPS; ++i) {
    bool isAlloc = vf_nondet_bool();
    if (isAlloc) {
      on_alloc(dispenso::allocSmallBuffer<VF_N>());
    } else {
      uint32_t idx = vf_nondet_u32();
      vf_assume(idx < g_nlive);
      do_dealloc(idx);
    }
  }
  // ---- quiescent structure: every chunk of every slab is in exactly one place
  auto& bs = globals().backingStore;
  size_t slabs = bs.size();
  vf_check(slabs <= VF_MAXSLABS, "more slabs than the blocks requested can explain");
  vf_check(slabs * kPerSlab >= g_nlive, "more live blocks than slab chunks");
  vf_check(dispenso::approxBytesAllocatedSmallBuffer<VF_N>() == slabs * kSlabBytes,
           "approxBytesAllocated differs from slabs * slab size at quiescence");
  if (slabs > 0) {
    uint32_t s = vf_nondet_u32();
    uint32_t c = vf_nondet_u32();
    vf_assume(s < slabs && c < kPerSlab);
    const char* q = bs[s] + (size_t)c * kN;
    uint32_t found = 0;
    auto bnc = SBA::buffersAndCount();
    char** tl = std::get<0>(bnc);
    size_t tlCount = std::get<1>(bnc);
    vf_check(tlCount < kMaxTL, "thread cache count out of range");
    for (size_t i = 0; i < kMaxTL; ++i)
      if (i < tlCount && tl[i] == q) found++;
    auto& cs = globals().centralStore;
    for (uint32_t i = 0; i < VF_MQ_CAP; ++i)
      if (i >= cs.head_ && i < cs.tail_ && cs.buf_[i] == q) found++;
    for (uint32_t i = 0; i < kMaxLive; ++i)
      if (i < g_nlive && g_live[i] == q) found++;
    vf_check(found == 1, "a slab chunk is lost or present twice (thread cache / central store / live)");
  }
  vf_check(globals().backingStoreLock.load() == 0, "backingStore lock word is not 0 at quiescence");
}
