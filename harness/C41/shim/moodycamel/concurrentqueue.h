// C41-local contract model of moodycamel::ConcurrentQueue (third-party, trusted, NOT verified here).
// Same contract as shim/moodycamel (linearizable bounded FIFO, every operation is one atomic step
// preceded by a scheduling point, enqueue never fails, try_dequeue(_bulk) never fails spuriously),
// but stored as a linear log [head_, tail_) without compaction, which keeps bulk operations of 96
// elements cheap for the solver.  Model bound: at most VF_MQ_CAP elements are ever enqueued into
// one queue (executions beyond that are cut by an assumption).
// Ghost hooks (VF_MQ_HOOKS): the harness observes bulk enqueues; `pre` runs before the operation's
// scheduling point (i.e. atomically with the caller's preceding code), `at` inside the atomic step.
#pragma once
#include <cstddef>
#include <cstdint>
#include <new>
#include <utility>
#include <iterator>
#include "vf.h"

#ifndef VF_MQ_CAP
#define VF_MQ_CAP 256
#endif

#ifndef VF_MQ_BULK_MAX
#define VF_MQ_BULK_MAX 96
#endif

#ifdef VF_MQ_HOOKS
void vf_mq_pre_enqueue_bulk(size_t count);
void vf_mq_at_enqueue_bulk(size_t count);
#endif

namespace moodycamel {

struct ConcurrentQueueDefaultTraits {
  typedef std::size_t size_t;
  typedef std::size_t index_t;
  static const size_t BLOCK_SIZE = 32;
};

template <typename T, typename Traits = ConcurrentQueueDefaultTraits>
class ConcurrentQueue;

struct ProducerToken {
  template <typename T, typename Traits>
  explicit ProducerToken(ConcurrentQueue<T, Traits>&) : id(1) {}
  ProducerToken(const ProducerToken&) = delete;
  ProducerToken& operator=(const ProducerToken&) = delete;
  bool valid() const { return id != 0; }
  uint32_t id;
};

struct ConsumerToken {
  template <typename T, typename Traits>
  explicit ConsumerToken(ConcurrentQueue<T, Traits>&) : id(1) {}
  ConsumerToken(const ConsumerToken&) = delete;
  ConsumerToken& operator=(const ConsumerToken&) = delete;
  uint32_t id;
};

template <typename T, typename Traits>
class ConcurrentQueue {
 public:
  typedef ::moodycamel::ProducerToken producer_token_t;
  typedef ::moodycamel::ConsumerToken consumer_token_t;
  typedef typename Traits::size_t size_t;

  explicit ConcurrentQueue(size_t = 0) : head_(0), tail_(0) {}
  ConcurrentQueue(const ConcurrentQueue&) = delete;
  ConcurrentQueue& operator=(const ConcurrentQueue&) = delete;

  template <typename It>
  bool enqueue_bulk(It first, size_t count) { return pushBulk(first, count); }
  template <typename It>
  bool enqueue_bulk(const producer_token_t&, It first, size_t count) { return pushBulk(first, count); }
  template <typename It>
  size_t try_dequeue_bulk(It out, size_t max) { return popBulk(out, max); }
  template <typename It>
  size_t try_dequeue_bulk(consumer_token_t&, It out, size_t max) { return popBulk(out, max); }

  size_t size_approx() const {
    vf_sched_point();
    return tail_ - head_;
  }

  template <typename It>
  bool pushBulk(It first, size_t count) {
#ifdef VF_MQ_HOOKS
    vf_mq_pre_enqueue_bulk(count);
#endif
    vf_sched_point();
    VfAtomic a;
#ifdef VF_MQ_HOOKS
    vf_mq_at_enqueue_bulk(count);
#endif
    vf_assume(tail_ + count <= VF_MQ_CAP);  // model bound
    vf_assume(count <= VF_MQ_BULK_MAX);     // model bound on one bulk operation
    // constant trip count (unrollable); iterations beyond `count` fold away when count is constant
    // (indices instead of running iterators: no chains of conditional pointer updates)
    const uint32_t t0 = tail_;
    for (size_t i = 0; i < VF_MQ_BULK_MAX; ++i) {
      if (i < count) buf_[t0 + i] = first[i];
    }
    tail_ = t0 + (uint32_t)count;
    return true;
  }
  template <typename It>
  size_t popBulk(It out, size_t max) {
    vf_sched_point();
    VfAtomic a;
    vf_assume(max <= VF_MQ_BULK_MAX);
    const uint32_t h0 = head_;
    const size_t avail = tail_ - h0;
    const size_t got = avail < max ? avail : max;
    for (size_t i = 0; i < VF_MQ_BULK_MAX; ++i) {
      if (i < got) out[i] = buf_[h0 + i];
    }
    head_ = h0 + (uint32_t)got;
    return got;
  }

  T buf_[VF_MQ_CAP];
  uint32_t head_;
  uint32_t tail_;
};

}  // namespace moodycamel
