// Native replay only: the same thread-exit model as thread_atexit_rt.c.  The executable's own
// __cxa_thread_atexit takes precedence over libstdc++'s, so thread_local destructors are recorded
// per thread and run when the harness calls vf_thread_exit_dtors() (never implicitly).
#include <cstdint>
namespace {
struct Reg { void (*fn)(void*); void* obj; };
thread_local Reg t_reg[8];
thread_local unsigned t_n = 0;
}
extern "C" int __cxa_thread_atexit(void (*fn)(void*), void* obj, void*) {
  if (t_n < 8) t_reg[t_n++] = Reg{fn, obj};
  return 0;
}
extern "C" void vf_thread_exit_dtors() {
  while (t_n > 0) {
    Reg r = t_reg[--t_n];
    r.fn(r.obj);
  }
}
extern "C" uint32_t vf_thread_atexit_count() { return t_n; }
