// C41 (concurrent): real SmallBufferAllocator<N>::alloc / dealloc / bytesAllocated (what allocSmallBuffer<N> /
// deallocSmallBuffer<N> / approxBytesAllocatedSmallBuffer<N> dispatch to; the dispatch itself is covered by seq.cpp)
// from three threads plus main, every interleaving of the atomic operations and queue operations
// within the scheduler bound.
//   A: a1 = alloc, a2 = alloc, hands a1 to B through a ghost mailbox, dealloc(a2)
//   B: b1 = alloc, dealloc(a1) (allocated by A), thread exit (thread_local destructor returns its
//      cache to the central store); b1 stays live
//   C: approxBytesAllocatedSmallBuffer<N>() concurrently
//   main (after all finished): VF_POST more allocations; quiescent structure check
// Checked: every block is non-null, N-aligned, an N-byte chunk at a multiple of N inside a slab;
// blocks live at the same time (in any threads) never overlap; a block is not handed out again
// before it is deallocated; at quiescence every slab chunk is in exactly one place; the lock word is 0.
// Mutual exclusion of the backingStore critical section (lock word backingStoreLock) is observed
// without touching dispenso, through the environment: the central-store enqueue of the freshly
// carved chunks (enqueue_bulk of kBuffersPerMalloc - kIdealNumTLBuffers elements) happens inside
// the critical section, after backingStore.push_back and before the lock is released.  Ghost window
// W = [code preceding that enqueue's scheduling point, the enqueue itself] is inside the critical
// section of the thread that allocated the slab, so
//   (1) no second thread may open W while it is open,
//   (2) the lock word must be non-zero when the holder performs the enqueue,
//   (3) approxBytesAllocated() (which takes the same lock) cannot run from call to return while one
//       and the same window W of another thread stays open.
#include "c41.h"

#ifndef VF_POST
#define VF_POST 1
#endif
#ifndef VF_WITH_B
#define VF_WITH_B 1
#endif
#ifndef VF_A_ALLOCS
#define VF_A_ALLOCS 2
#endif

extern "C" void vf_thread_exit_dtors();
extern "C" uint32_t vf_thread_atexit_count();
extern "C" void vf_block_until(uint32_t* nonzero);

// ---------------------------------------------------------------- ghost: live blocks
enum { kSlots = 8 };
static char* g_blk[kSlots];
static bool g_live[kSlots];

static void note_alloc(int slot, char* p) {
  VfAtomic a;
  vf_check(p != nullptr, "alloc returned null");
  vf_check(addr(p) % kN == 0, "block is not aligned to the block size");
  vf_check(isChunkOfSomeSlab(p, 2), "block is not an N-byte chunk at a multiple of N inside a slab");
  for (int i = 0; i < kSlots; ++i) {
    if (g_live[i]) {
      vf_check(p != g_blk[i], "a block was handed out again before it was deallocated");
      vf_check(!overlap(p, g_blk[i]), "two live blocks overlap");
    }
  }
  g_blk[slot] = p;
  g_live[slot] = true;
}
static void note_dealloc(int slot) {
  VfAtomic a;
  g_live[slot] = false;
}

// ---------------------------------------------------------------- ghost: critical-section window
static uint32_t g_cs_owner;  // model thread id + 1 of the thread whose window W is open
static uint32_t g_cs_epoch;  // number of windows opened so far
void vf_mq_pre_enqueue_bulk(size_t count) {
  if (count == kToPush) {
    VfAtomic a;
    vf_check(g_cs_owner == 0, "two threads are inside the backingStore critical section at once");
    g_cs_owner = (uint32_t)vf_self() + 1;
    g_cs_epoch++;
  }
}
void vf_mq_at_enqueue_bulk(size_t count) {
  if (count == kToPush) {
    vf_check(globals().backingStoreLock.load(std::memory_order_relaxed) != 0,
             "the backingStore lock was released by another thread while its holder is inside the critical section");
    g_cs_owner = 0;
  }
}

// thread caches of the spawned threads, for the quiescent structure check
static char** g_tlbuf[4];
static size_t* g_tlcnt[4];
static bool g_exited[4];
static void publish_cache() {
  auto bnc = SBA::buffersAndCount();
  g_tlbuf[vf_self()] = std::get<0>(bnc);
  g_tlcnt[vf_self()] = &std::get<1>(bnc);
}

static char* g_mail;
static uint32_t g_mail_full;

static void thrA(void*) {
  char* a1 = SBA::alloc();
  note_alloc(0, a1);
#if VF_A_ALLOCS >= 2
  char* a2 = SBA::alloc();
  note_alloc(1, a2);
#endif
  {
    VfAtomic a;
    g_mail = a1;  // a1 stays live; B will deallocate it
    g_mail_full = 1;
  }
#if VF_A_ALLOCS >= 2
  note_dealloc(1);
  SBA::dealloc(a2);
#endif
  publish_cache();
}

static void thrB(void*) {
  char* b1 = SBA::alloc();
  note_alloc(2, b1);
  vf_block_until(&g_mail_full);
  char* a1 = g_mail;
  note_dealloc(0);
  SBA::dealloc(a1);
  publish_cache();
  // thread exit: the per-thread cache must have been registered for cleanup by alloc/dealloc
  vf_check(vf_thread_atexit_count() == 1, "no thread-exit cleanup registered by a thread that used the allocator");
  vf_thread_exit_dtors();
  {
    VfAtomic a;
    g_exited[vf_self()] = true;
  }
}

static void thrC(void*) {
  uint32_t own0, ep0;
  size_t slabs0;
  {
    VfAtomic a;
    own0 = g_cs_owner;
    ep0 = g_cs_epoch;
    slabs0 = globals().backingStore.size();
  }
  size_t bytes = SBA::bytesAllocated();
  {
    VfAtomic a;
    size_t slabs1 = globals().backingStore.size();
    vf_check(!(own0 != 0 && g_cs_owner == own0 && g_cs_epoch == ep0),
             "approxBytesAllocated ran from call to return while another thread was inside the backingStore critical section");
    vf_check(bytes % kSlabBytes == 0, "approxBytesAllocated is not a multiple of the slab size");
    vf_check(bytes >= slabs0 * kSlabBytes && bytes <= slabs1 * kSlabBytes,
             "approxBytesAllocated is outside [slabs at call, slabs at return] * slab size");
  }
}

extern "C" void vf_main() {
  (void)globals();  // the function-local static is initialised once (thread-safe static in the real build)
  vf_spawn(thrA, nullptr);
#if VF_WITH_B
  vf_spawn(thrB, nullptr);
#endif
  vf_spawn(thrC, nullptr);
  vf_join_all();
  // ---- quiescent phase
  for (int i = 0; i < VF_POST; ++i) note_alloc(4 + i, SBA::alloc());
  publish_cache();
  auto& bs = globals().backingStore;
  size_t slabs = bs.size();
  vf_check(slabs >= 1 && slabs <= 2, "number of slabs not explained by the requests");
  vf_check(SBA::bytesAllocated() == slabs * kSlabBytes,
           "approxBytesAllocated differs from slabs * slab size at quiescence");
  vf_check(globals().backingStoreLock.load() == 0, "backingStore lock word is not 0 at quiescence");
  uint32_t s = vf_nondet_u32();
  uint32_t c = vf_nondet_u32();
  vf_assume(s < slabs && c < kPerSlab);
  const char* q = bs[s] + (size_t)c * kN;
  uint32_t found = 0;
  for (int t = 0; t < 4; ++t) {
    if (g_tlbuf[t] != nullptr && !g_exited[t]) {
      size_t n = *g_tlcnt[t];
      vf_check(n < kMaxTL, "thread cache count out of range");
      for (size_t i = 0; i < kMaxTL; ++i)
        if (i < n && g_tlbuf[t][i] == q) found++;
    }
  }
  auto& cs = globals().centralStore;
  for (uint32_t i = 0; i < VF_MQ_CAP; ++i)
    if (i >= cs.head_ && i < cs.tail_ && cs.buf_[i] == q) found++;
  for (int i = 0; i < kSlots; ++i)
    if (g_live[i] && g_blk[i] == q) found++;
  vf_check(found == 1, "a slab chunk is lost or present twice (thread caches / central store / live)");
}
