// C41 shared ghost vocabulary: views into the real allocator's private state (read-only oracles).
#pragma once
// The real translation unit is compiled as part of the harness TU (unchanged text from the repo):
// getSmallBufferGlobals<N>() is a template defined only in the .cpp, and the ghost oracles below
// read the real globals (backingStore, centralStore, lock word) through it.
#include <dispenso/small_buffer_allocator.cpp>
#include "vf.h"

#ifndef VF_N
#define VF_N 256
#endif

using SBA = dispenso::detail::SmallBufferAllocator<VF_N>;
constexpr size_t kN = VF_N;
constexpr size_t kSlabBytes = SBA::kMallocBytes;
constexpr size_t kPerSlab = SBA::kBuffersPerMalloc;
constexpr size_t kIdeal = SBA::kIdealNumTLBuffers;
constexpr size_t kMaxTL = SBA::kMaxNumTLBuffers;
constexpr size_t kToPush = kPerSlab - kIdeal;  // pushed to the central store inside the critical section

static inline dispenso::detail::SmallBufferGlobals& globals() {
  return dispenso::detail::getSmallBufferGlobals<VF_N>();
}
// First use of the globals happens in a static initialiser of the harness (before any thread exists),
// so that the analysis sees exactly one SmallBufferGlobals object.
static const int c41_globals_created = (globals(), 0);
static inline uintptr_t addr(const void* p) { return reinterpret_cast<uintptr_t>(p); }

// [p, p+N) and [q, q+N) intersect
static inline bool overlap(const char* p, const char* q) {
  uintptr_t a = addr(p), b = addr(q);
  return a < b + kN && b < a + kN;
}

// p is a chunk of one of the slabs the allocator obtained from alignedMalloc(kMallocBytes, N):
// inside the slab, at a multiple of N from its (N-aligned) base, with N bytes of room.
static inline bool isChunkOfSomeSlab(const char* p, size_t maxSlabs) {
  auto& bs = globals().backingStore;
  size_t n = bs.size();
  bool ok = false;
  for (size_t s = 0; s < maxSlabs; ++s) {
    if (s < n) {
      uintptr_t base = addr(bs[s]);
      uintptr_t a = addr(p);
      if (a >= base && a - base <= kSlabBytes - kN && (a - base) % kN == 0) ok = true;
    }
  }
  return ok;
}
