// Harness stand-in for <dispenso/task_set.h>, found first on the include path of the C16 harness.
// dispenso::parallel_invoke (parallel_invoke.h) is NOT templated on the task-set type: it takes a
// concrete dispenso::ConcurrentTaskSet&.  To run the real, unmodified parallel_invoke.h under a
// scheduler the solver controls, this header defines dispenso::ConcurrentTaskSet as a model with the
// surface parallel_invoke uses -- schedule(F&&, bool skipRecheck) -- plus schedule(F&&,
// ForceQueuingTag), numPoolThreads() and wait().
//
// Model = task-granularity interleaving:
//  * schedule(f, skipRecheck): like the real set, either runs f inline on the calling thread (load
//    based fallback; symbolic choice) or stores it; schedule(f, ForceQueuingTag) always stores;
//  * a stored closure may be picked up by a pool thread (only pools with >= 1 thread) at the start
//    of any later top-level schedule() call; wait() runs all remaining ones, in a symbolically chosen
//    order, including closures that get stored while wait() is running (recursive fork-join).
#pragma once
#include <cstddef>
#include <new>
#include <type_traits>
#include <utility>
#include <dispenso/platform.h>
#include <dispenso/thread_pool.h>  // ForceQueuingTag
#include "vf.h"

#ifndef VF_MAXTASKS
#define VF_MAXTASKS 4
#endif
#ifndef VF_WAITRUNS
#define VF_WAITRUNS VF_MAXTASKS  // bound on the number of closures one wait() runs
#endif

namespace dispenso {

class ConcurrentTaskSet {
 public:
  // stored closures (type erased); scalar arrays keep symbolically indexed accesses typed
  void (*qrun[VF_MAXTASKS])(void*);
  void* qobj[VF_MAXTASKS];
  int nq = 0;
  ssize_t nthreads = 0;
  // ghost
  int scheduled = 0;  // closures handed to the set
  int executed = 0;   // closures run to completion
  int waits = 0;
  int depth = 0;      // > 0 while a closure handed to the set is executing (inline or from the queue)
  int skipRecheckCalls = 0;

  explicit ConcurrentTaskSet(ssize_t n) : nthreads(n) {}
  ConcurrentTaskSet(const ConcurrentTaskSet&) = delete;
  ConcurrentTaskSet& operator=(const ConcurrentTaskSet&) = delete;

  ssize_t numPoolThreads() const {
    return nthreads;
  }

  template <typename C>
  static void trampoline(void* p) {
    C* c = static_cast<C*>(p);
    (*c)();
    delete c;
  }

  template <typename F>
  void store(F&& f) {
    using C = typename std::decay<F>::type;
    vf_check(nq < VF_MAXTASKS, "harness bound: more stored tasks than VF_MAXTASKS");
    if (nq >= VF_MAXTASKS) {
      return;
    }
    qrun[nq] = &trampoline<C>;
    qobj[nq] = new C(std::forward<F>(f));
    ++nq;
  }

  void runOne() {
    uint32_t k = vf_range_u32(0, VF_MAXTASKS - 1);  // which stored closure runs next
    vf_assume((int)k < nq);
    void (*run)(void*) = qrun[k];
    void* obj = qobj[k];
    qrun[k] = qrun[nq - 1];
    qobj[k] = qobj[nq - 1];
    --nq;
    ++depth;
    run(obj);
    --depth;
    ++executed;
  }

  void pickup() {
    if (nthreads <= 0 || depth > 0 || nq == 0) {
      return;
    }
    if (vf_nondet_bool()) {
      runOne();
    }
  }

  template <typename F>
  void schedule(F&& f, bool skipRecheck = false, float /*poolRecursiveLoadFactor*/ = 2.0f) {
    pickup();
    ++scheduled;
    if (skipRecheck) {
      ++skipRecheckCalls;
    }
    if (vf_nondet_bool()) {
      ++depth;
      f();
      --depth;
      ++executed;
    } else {
      store(std::forward<F>(f));
    }
  }

  template <typename F>
  void schedule(F&& f, ForceQueuingTag) {
    pickup();
    ++scheduled;
    store(std::forward<F>(f));
  }

  bool wait() {
    ++waits;
    for (int i = 0; i < VF_WAITRUNS; ++i) {
      if (nq == 0) {
        break;
      }
      runOne();
    }
    vf_check(nq == 0, "harness bound: wait() drained every stored task");
    return false;
  }
};

}  // namespace dispenso
