// C16: parallel_invoke invokes each of its functors exactly once, the last one on the calling thread
// before returning, and all of them have finished once the task set's wait() returns; including
// recursive divide-and-conquer use.
//
// Real code: dispenso::parallel_invoke (parallel_invoke.h, unmodified; both overloads, arities 1..6,
// functors passed as rvalue lambdas, lvalue lambdas, lvalue / const-lvalue functor objects).
// parallel_invoke takes a concrete dispenso::ConcurrentTaskSet& (no template overload), so the
// harness supplies that class through shim/dispenso/task_set.h (model scheduler, see there).
//
// VF_SCEN 0: one call of symbolic arity 1..6.
// VF_SCEN 1: binary divide-and-conquer recursion of depth VF_DEPTH (2: 7 nodes, 3: 15 nodes); every
//            inner node forks its two children with parallel_invoke, one wait() at the top.
#include <dispenso/parallel_invoke.h>
#include "vf.h"

#ifndef VF_SCEN
#define VF_SCEN 0
#endif
#ifndef VF_NPOOL
#define VF_NPOOL 2
#endif
#ifndef VF_DEPTH
#define VF_DEPTH 2
#endif

using dispenso::ConcurrentTaskSet;

static ConcurrentTaskSet* g_ts;
static bool g_inCall;  // the top-level parallel_invoke call is in progress

#if VF_SCEN == 0
constexpr int kMaxArity = 6;
static uint8_t g_cnt[kMaxArity];     // invocations of functor i
static bool g_direct[kMaxArity];     // functor i was invoked by parallel_invoke itself (on the caller, during the call), not through the task set

static void hit(int i) {
  ++g_cnt[i];
  if (g_inCall && g_ts->depth == 0) {
    g_direct[i] = true;
  }
}

struct Functor {  // functor object, passed as lvalue / const lvalue (copied into the task set)
  int i;
  void operator()() const {
    hit(i);
  }
};

extern "C" void vf_main() {
  uint32_t N = vf_range_u32(0, VF_NPOOL);
  uint32_t a = vf_range_u32(1, kMaxArity);
  ConcurrentTaskSet ts(static_cast<ssize_t>(N));
  g_ts = &ts;
  for (int i = 0; i < kMaxArity; ++i) {
    g_cnt[i] = 0;
    g_direct[i] = false;
  }
  auto l0 = [] { hit(0); };
  auto l1 = [] { hit(1); };
  Functor o2{2};
  const Functor o3{3};
  auto l4 = [] { hit(4); };
  int five = 5;
  auto l5 = [five] { hit(five); };

  g_inCall = true;
  switch (a) {
    case 1:
      dispenso::parallel_invoke(ts, l0);
      break;
    case 2:
      dispenso::parallel_invoke(ts, [] { hit(0); }, l1);
      break;
    case 3:
      dispenso::parallel_invoke(ts, l0, std::move(l1), o2);
      break;
    case 4:
      dispenso::parallel_invoke(ts, l0, [] { hit(1); }, o2, o3);
      break;
    case 5:
      dispenso::parallel_invoke(ts, o3 /*runs as #3*/, l0, l1, o2, std::move(l4));
      break;
    default:
      dispenso::parallel_invoke(ts, l0, l1, o2, o3, l4, l5);
      break;
  }
  g_inCall = false;

  int last = (int)a - 1;
  // arity 5 passes o3 first: functor ids are {3,0,1,2,4}; the last argument is id 4 == a-1 as well
  for (int i = 0; i < kMaxArity; ++i) {
    vf_check(g_cnt[i] <= 1, "no functor has run more than once when parallel_invoke returns");
  }
  vf_check(g_cnt[last] == 1, "the last functor has run when parallel_invoke returns");
  vf_check(g_direct[last], "the last functor is invoked directly on the calling thread, not handed to the task set");
  vf_check(ts.scheduled == (int)a - 1, "every functor but the last is handed to the task set exactly once");

  ts.wait();
  for (int i = 0; i < kMaxArity; ++i) {
    if (i < (int)a) {
      vf_check(g_cnt[i] == 1, "every functor has run exactly once after wait()");
    } else {
      vf_check(g_cnt[i] == 0, "functors that were not passed never run");
    }
  }
  vf_check(ts.executed == ts.scheduled, "every closure handed to the task set ran exactly once");
}

#else  // ---------------------------------------------------------------- recursive fork-join

constexpr int kNodes = (1 << (VF_DEPTH + 1)) - 1;
static uint8_t g_visit[kNodes];   // visits of tree node i (heap numbering: children 2i+1, 2i+2)

// No run-time recursion: one instantiation per level, so the symbolic execution has no recursive
// call cycle through the type-erased task closures.
template <int D>
struct Rec {
  static void go(ConcurrentTaskSet& ts, int node) {
    ++g_visit[node];
    dispenso::parallel_invoke(
        ts,
        [&ts, node] { Rec<D - 1>::go(ts, 2 * node + 1); },
        [&ts, node] { Rec<D - 1>::go(ts, 2 * node + 2); });
  }
};
template <>
struct Rec<0> {
  static void go(ConcurrentTaskSet&, int node) {
    ++g_visit[node];
  }
};

extern "C" void vf_main() {
  uint32_t N = vf_range_u32(0, VF_NPOOL);
  ConcurrentTaskSet ts(static_cast<ssize_t>(N));
  g_ts = &ts;
  for (int i = 0; i < kNodes; ++i) {
    g_visit[i] = 0;
  }
  Rec<VF_DEPTH>::go(ts, 0);
  // the right spine (last functor at every level) ran on the caller before the call returned
  for (int i = 0; i < kNodes; i = 2 * i + 2) {
    vf_check(g_visit[i] == 1, "recursion: the last functor of every level on the right spine has run when the top call returns");
  }
  for (int i = 0; i < kNodes; ++i) {
    vf_check(g_visit[i] <= 1, "recursion: no node visited twice before wait()");
  }
  ts.wait();
  for (int i = 0; i < kNodes; ++i) {
    vf_check(g_visit[i] == 1, "recursion: every node of the fork-join tree visited exactly once after wait()");
  }
  vf_check(ts.executed == ts.scheduled, "every closure handed to the task set ran exactly once");
  vf_check(ts.scheduled == (kNodes - 1) / 2, "recursion: one closure handed to the task set per inner node");
}
#endif
