// C16: parallel_invoke invokes each of its functors exactly once, the last one on the calling thread
// before returning, and all of them have finished once the task set's wait() returns; including
// recursive divide-and-conquer use.
//
// Real code: dispenso::parallel_invoke (parallel_invoke.h, both overloads) on the REAL
// dispenso::ConcurrentTaskSet -- schedule(F&&, skipRecheck, factor) with both inline gates,
// schedulePlaced (TaskCost::kHeavy route), packageTask and its wrapper closure, wait(), the
// destructor, TaskSetBase constructor (task_set.h, detail/task_set_impl.h, task_set.cpp,
// detail/per_thread_info.{h,cpp}).  Environment: the contract ThreadPool of
// harness/C04/shim/dispenso/thread_pool.h (ForceQueuingTag queues unless the pool has 0 threads;
// tryExecuteNext runs one queued task, FIFO); pool workers are virtual: the harness runs worker
// steps at symbolic points between API calls and -- VF_MIDCALL -- inside the first functor, i.e. in
// the middle of a parallel_invoke call (task-granularity interleaving).
//
// VF_SCEN 0: one call of arity 2, 3 or 4 (symbolic selector over literal scenarios; rvalue lambdas,
//            lvalue lambdas, lvalue / const functor objects).
// VF_SCEN 1: depth-2 divide and conquer: parallel_invoke(ts, L, R) where L and R each call
//            parallel_invoke(ts, leaf, leaf) on the same task set; one wait() at the top.  Every node
//            is a distinct captureless lambda type (no type-erased recursion cycle).
// The configuration space is explored as a tree of literal scenarios under a symbolic selector (the
// pool / task-set state then stays concrete for the symbolic executor, which is what keeps the real
// wait() loops and the pool's virtual task dispatch tractable): tasks of the set already in flight
// during the call in {0,1,2,3,12} (drives the inline gate of schedule / schedulePlaced across its
// threshold, also in the middle of a call), inline depth of the caller in {0, kMaxInlineDepth}
// (canInlineSchedule true/false), 0..2 virtual-worker steps before wait(), worker step inside the
// first functor yes/no (VF_MIDCALL instances).  Compile time per instance: pool size, TaskCost.
#include <dispenso/parallel_invoke.h>
#include "ts_kit16.h"

#ifndef VF_SCEN
#define VF_SCEN 0
#endif
#ifndef VF_POOL_N
#define VF_POOL_N 1
#endif
#ifndef VF_COST
#define VF_COST 1  // 1 TaskCost::kHeavy (default of ConcurrentTaskSet), 0 kLightweight
#endif
#ifndef VF_MIDCALL
#define VF_MIDCALL 0
#endif

using dispenso::ConcurrentTaskSet;
using dispenso::ThreadPool;

constexpr int kMaxF = 6;
static uint8_t g_cnt[kMaxF];   // invocations of functor / node i
static uint8_t g_who[kMaxF];   // context in which functor i ran (Ctx)
static bool g_inCall[kMaxF];   // functor i ran while the top-level parallel_invoke call was in progress
static bool g_callActive;
static ThreadPool* g_pool;
static ConcurrentTaskSet* g_ts;

static void hit(int i) {
  ++g_cnt[i];
  g_who[i] = g_ctx;
  g_inCall[i] = g_callActive;
}

struct Functor {  // functor object, passed as lvalue / const lvalue (copied into the task set)
  int i;
  void operator()() const {
    hit(i);
  }
};

static bool g_mid;  // scenario: a pool worker makes one step while the caller is inside parallel_invoke
static void midCall() {
  if (g_mid && g_ctx == kCaller) {
    workerStep(*g_pool);
  }
}

struct Pre {
  ssize_t inflight;
  void apply(ConcurrentTaskSet& ts, int nInflight, int depth) {
    // other tasks of this set are in flight (scheduled by other threads, not finished yet)
    inflight = nInflight;
    ts.outstandingTaskCount_.fetch_add(inflight, std::memory_order_relaxed);
    dispenso::detail::PerPoolPerThreadInfo::inlineDepth() = depth;
  }
  void release(ConcurrentTaskSet& ts) {
    // ... they finish; the caller is back at its outermost frame
    ts.outstandingTaskCount_.fetch_sub(inflight, std::memory_order_relaxed);
    dispenso::detail::PerPoolPerThreadInfo::inlineDepth() = 0;
  }
};

static void reset() {
  for (int i = 0; i < kMaxF; ++i) {
    g_cnt[i] = 0;
    g_who[i] = 0xff;
    g_inCall[i] = false;
  }
  g_ctx = kCaller;
}

static void finish(ThreadPool& pool, ConcurrentTaskSet& ts, int nf, int steps) {
  for (int i = 0; i < kMaxF; ++i) {
    vf_check(g_cnt[i] <= 1, "no functor has run more than once when parallel_invoke returns");
  }
  for (int s = 0; s < steps; ++s) {
    workerStep(pool);
  }
  g_ctx = kWaiter;
  ts.wait();
  g_ctx = kCaller;
  vf_check(ts.outstandingTaskCount_.load() == 0, "no task of the set is outstanding after wait()");
  for (int i = 0; i < kMaxF; ++i) {
    vf_check(i >= nf || g_cnt[i] == 1, "every functor has run exactly once after wait()");
  }
  for (int i = 0; i < kMaxF; ++i) {
    vf_check(i < nf || g_cnt[i] == 0, "harness: no functor outside the call ran");
  }
}

// ---- scenario tree (see harness/C15/foreach.cpp) -------------------------------------------------
constexpr int kInflight[] = {0, 1, 2, 3, 12};
constexpr int kDepth[] = {0, dispenso::detail::kMaxInlineDepth};
constexpr int kNumMid = VF_MIDCALL ? 2 : 1;

template <int Lo, int Hi, template <int> class S>
struct Tree {
  VF_NOINLINE static void go(uint32_t sel) {
    constexpr int Mid = Lo + (Hi - Lo) / 2;
    if (sel <= (uint32_t)Mid) {
      Tree<Lo, Mid, S>::go(sel);
    } else {
      Tree<Mid + 1, Hi, S>::go(sel);
    }
  }
};
template <int K, template <int> class S>
struct Tree<K, K, S> {
  VF_NOINLINE static void go(uint32_t) {
    S<K>::run();
  }
};

#if VF_SCEN == 0
template <int A>
static void arity(int nInflight, int depth, int steps, bool mid) {
  ThreadPool pool(VF_POOL_N);
  g_pool = &pool;
  g_mid = mid;
  {
    ConcurrentTaskSet ts(pool, VF_COST ? dispenso::TaskCost::kHeavy : dispenso::TaskCost::kLightweight);
    g_ts = &ts;
    reset();
    Pre pre;
    pre.apply(ts, nInflight, depth);
    auto l0 = [] {
      midCall();
      hit(0);
    };
    auto l1 = [] { hit(1); };
    Functor o2{2};
    const Functor o3{3};
    g_callActive = true;
    if (A == 2) {
      dispenso::parallel_invoke(ts, l0, [] { hit(1); });
    } else if (A == 3) {
      dispenso::parallel_invoke(ts, l0, std::move(l1), o2);
    } else {
      dispenso::parallel_invoke(ts, std::move(l0), l1, o2, o3);
    }
    g_callActive = false;
    pre.release(ts);
    vf_check(g_cnt[A - 1] == 1, "the last functor has run when parallel_invoke returns");
    vf_check(g_who[A - 1] == kCaller && g_inCall[A - 1], "the last functor ran on the calling thread, inside the call");
    if (g_cnt[0] == 0) {
      vf_reach("a functor was still queued when parallel_invoke returned");
    }
    finish(pool, ts, A, steps);
    g_ts = nullptr;
  }
  g_pool = nullptr;
}

constexpr int kTotal = 3 * 5 * 2 * 3 * kNumMid;
template <int K>
struct Scen {
  static void run() {
    constexpr int A = 2 + K % 3;
    constexpr int k1 = K / 3;
    constexpr int nInflight = kInflight[k1 % 5];
    constexpr int k2 = k1 / 5;
    constexpr int depth = kDepth[k2 % 2];
    constexpr int k3 = k2 / 2;
    constexpr int steps = k3 % 3;
    constexpr bool mid = (k3 / 3) == 1;
    arity<A>(nInflight, depth, steps, mid);
  }
};
#else
// nodes: 0 = L, 1 = R, 2 = LL, 3 = LR, 4 = RL, 5 = RR
static void recursive(int nInflight, int depth, int steps, bool mid) {
  ThreadPool pool(VF_POOL_N);
  g_pool = &pool;
  g_mid = mid;
  {
    ConcurrentTaskSet ts(pool, VF_COST ? dispenso::TaskCost::kHeavy : dispenso::TaskCost::kLightweight);
    g_ts = &ts;
    reset();
    Pre pre;
    pre.apply(ts, nInflight, depth);
    g_callActive = true;
    dispenso::parallel_invoke(
        ts,
        [] {
          hit(0);
          dispenso::parallel_invoke(
              *g_ts,
              [] {
                midCall();
                hit(2);
              },
              [] { hit(3); });
          vf_check(g_cnt[3] == 1, "inner call (left): the last functor has run when parallel_invoke returns");
        },
        [] {
          hit(1);
          dispenso::parallel_invoke(
              *g_ts, [] { hit(4); }, [] { hit(5); });
          vf_check(g_cnt[5] == 1, "inner call (right): the last functor has run when parallel_invoke returns");
        });
    g_callActive = false;
    pre.release(ts);
    vf_check(g_cnt[1] == 1 && g_cnt[5] == 1, "the last functor (and its own last functor) has run when parallel_invoke returns");
    vf_check(g_who[1] == kCaller && g_who[5] == kCaller && g_inCall[5],
             "the last functor of the last functor ran on the calling thread, inside the call");
    if (g_cnt[0] == 0) {
      vf_reach("the left subtree was still queued when the top-level parallel_invoke returned");
    }
    finish(pool, ts, 6, steps);
    g_ts = nullptr;
  }
  g_pool = nullptr;
}

constexpr int kTotal = 5 * 2 * 3 * kNumMid;
template <int K>
struct Scen {
  static void run() {
    constexpr int nInflight = kInflight[K % 5];
    constexpr int k2 = K / 5;
    constexpr int depth = kDepth[k2 % 2];
    constexpr int k3 = k2 / 2;
    constexpr int steps = k3 % 3;
    constexpr bool mid = (k3 / 3) == 1;
    recursive(nInflight, depth, steps, mid);
  }
};
#endif

extern "C" void vf_main() {
  uint32_t sel = vf_range_u32(0, kTotal - 1);
  Tree<0, kTotal - 1, Scen>::go(sel);
}
