import os
_SHIM = os.path.join(os.path.dirname(os.path.abspath(__file__)), 'shim')

TECHNIQUE = ('bounded symbolic execution of LLVM IR lowered to C: CBMC/SAT (cadical); real parallel_invoke.h over a model '
             'ConcurrentTaskSet that plays scheduler at task granularity')
ASSUMPTIONS = [
    'parallel_invoke takes a concrete ConcurrentTaskSet& (no template overload): harness/C16/shim/dispenso/task_set.h '
    'replaces <dispenso/task_set.h> by a model class with the same schedule(F&&, bool skipRecheck) / '
    'schedule(F&&, ForceQueuingTag) / wait() surface; the real ConcurrentTaskSet::schedule and wait are properties '
    'C04/C11 territory and are not part of this check',
    'model contract: schedule runs the functor inline on the caller or stores it (symbolic); stored closures run exactly '
    'once, in any order, at the start of later top-level schedule() calls (pool >= 1 thread) or inside wait()',
    'task-granularity interleaving: a closure runs to completion once started',
]
OUTSIDE = ('arities above 6; recursion deeper than 2 (quick) / 3 (thorough) levels or non-binary recursion; functors that '
           'throw; the real ConcurrentTaskSet (inline-depth limit kMaxInlineDepth, load factors)')

_CHECKS = ['--div-by-zero-check', '--pointer-check', '--bounds-check']
_COMMON = {'src': 'invoke.cpp', 'engine': 'cbmc', 'shims': [_SHIM], 'checks': _CHECKS, 'leak_check': True,
           'rt_defs': {'VF_NLOG': 128}, 'timeout': 900}

INSTANCES = [

    dict(_COMMON, name='arity', defs={'VF_SCEN': 0, 'VF_NPOOL': 2, 'VF_MAXTASKS': 5}, unwind=8,
         bounds='one parallel_invoke call of symbolic arity 1..6 (rvalue/lvalue lambdas, lvalue and const functor objects); '
                'pool size 0..2; each scheduled functor inline or stored; stored ones run in any order at later schedule() '
                'calls or in wait() (task-granularity interleaving)'),
    dict(_COMMON, name='recursive', defs={'VF_SCEN': 1, 'VF_NPOOL': 2, 'VF_DEPTH': 2, 'VF_MAXTASKS': 3, 'VF_WAITRUNS': 3},
         unwind=8,
         bounds='binary divide-and-conquer recursion of depth 2 (7 nodes, 3 parallel_invoke calls), one wait() at the top; '
                'pool size 0..2; every scheduled child inline or stored; stored ones run in any order (also closures stored '
                'while wait() is running)',
         thorough={'defs': {'VF_SCEN': 1, 'VF_NPOOL': 2, 'VF_DEPTH': 3, 'VF_MAXTASKS': 7, 'VF_WAITRUNS': 7}, 'unwind': 16,
                   'timeout': 1700}),
]
