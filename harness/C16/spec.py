TECHNIQUE = ('bounded symbolic execution of LLVM IR lowered to C: CBMC/SAT (cadical), sequential engine; real '
             'parallel_invoke.h + real ConcurrentTaskSet on a contract ThreadPool with virtual workers '
             '(task-granularity interleaving)')
ASSUMPTIONS = [
    'dispenso::ThreadPool replaced by its contract model harness/C04/shim/dispenso/thread_pool.h (ForceQueuingTag queues '
    'unless the pool has 0 threads; tryExecuteNext* run one queued task; FIFO per source; <= VF_PQ_CAP queued tasks); the real '
    'parallel_invoke.h / task_set.h / detail/task_set_impl.h / task_set.cpp are compiled unchanged against it',
    'task-granularity interleaving: a functor / packaged task runs to completion once started; pool workers are virtual '
    '(the harness runs worker steps between API calls and, in the *_mid instances, inside the first functor of a call)',
    'other tasks of the set that are in flight during the call (symbolic count) finish before wait() is called',
]
OUTSIDE = ('arities above 4; recursion deeper than 2 levels or non-binary recursion; functors that throw; cancellation; real '
           'ThreadPool internals (rings, wake protocol: C01/C08/C46/C47); preemption inside a functor or inside schedule()')

_POOL = {
    'engine': 'cbmc', 'shims': ['moodycamel', '../harness/C04/shim'], 'src': 'invoke.cpp',
    'repo_sources': ['dispenso/detail/per_thread_info.cpp', 'dispenso/task_set.cpp'],
    'timeout': 900, 'must_reach': 'all', 'object_bits': 13,
}
_CN = {1: 'TaskCost::kHeavy (schedulePlaced route)', 0: 'TaskCost::kLightweight'}


def inst(scen, pool, cost, mid=0, tiers=('quick', 'thorough')):
    cap = 4
    name = '%s_p%d_%s%s' % ('arity' if scen == 0 else 'recursive', pool, 'H' if cost else 'L', '_mid' if mid else '')
    d = dict(_POOL)
    u = 8
    d.update({
        'name': name, 'tiers': list(tiers),
        'defs': {'VF_SCEN': scen, 'VF_POOL_N': pool, 'VF_COST': cost, 'VF_MIDCALL': mid, 'VF_PQ_CAP': cap, 'VF_MQ_CAP': 1,
                 },
        'unwind': u,
        'unwindset': {'_ZN8dispenso10ThreadPool11popMatchingEjjb.0': cap + 1, '_ZN8dispenso10ThreadPoolC2Emm.0': cap + 1},
        'bounds': ('%s on a real ConcurrentTaskSet, %s, contract pool with %d threads; every combination of {0,1,2,3,12} other '
                   'tasks of the set in flight during the call, caller inline depth {0, kMaxInlineDepth} (inline gate of '
                   'schedule taken / not taken / crossing its threshold mid-call), 0..2 virtual-worker steps%s, then wait() '
                   'and the destructors; literal scenarios under a symbolic selector; task-granularity interleaving'
                   % ('one parallel_invoke call of arity 2, 3 or 4 (lvalue/rvalue lambdas, functor objects)' if scen == 0 else
                      'depth-2 divide and conquer (parallel_invoke(L, R), L and R each parallel_invoke two leaves on the same set)',
                      _CN[cost], pool, ', with / without one more worker step inside the first functor (in the middle of the call)' if mid else '')),
    })
    if pool == 0:
        d.pop('must_reach')   # a zero-thread pool never queues: the "still queued" marker is unreachable by design
    return d


_T = ('thorough',)
INSTANCES = [
    inst(0, 1, 1), inst(0, 2, 0), inst(0, 0, 1),
    inst(1, 1, 1), inst(1, 2, 0),
    inst(0, 2, 1, tiers=_T), inst(0, 1, 0, tiers=_T), inst(0, 0, 0, tiers=_T),
    inst(1, 2, 1, tiers=_T), inst(1, 1, 0, tiers=_T), inst(1, 0, 1, tiers=_T),
    inst(0, 1, 1, mid=1, tiers=_T), inst(1, 1, 1, mid=1, tiers=_T), inst(1, 2, 0, mid=1, tiers=_T),
]
