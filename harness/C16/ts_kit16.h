// Helpers for C16 (same approach as harness/C04/ts_kit.h): the REAL ConcurrentTaskSet (task_set.h,
// detail/task_set_impl.h, task_set.cpp) on the contract ThreadPool of harness/C04/shim/dispenso/
// thread_pool.h, sequential engine with *virtual workers*: the harness plays pool worker by calling
// the pool's consumer functions between API calls (task-granularity interleaving).
#pragma once
#include <dispenso/task_set.h>
#include "vf.h"

// Small-buffer allocator contract (replaces small_buffer_allocator.cpp; the real allocator is property
// C41): a fresh block of at least 4 << ordinal bytes / give it back.
namespace dispenso {
namespace detail {
char* allocSmallBufferImpl(size_t ordinal) {
  return static_cast<char*>(::malloc(size_t{4} << ordinal));
}
void deallocSmallBufferImpl(size_t, void* buf) {
  ::free(buf);
}
}  // namespace detail
}  // namespace dispenso

// who is executing right now (ghost): the thread that called parallel_invoke, a (virtual) pool worker,
// or the thread inside taskSet.wait()
enum Ctx : uint8_t { kCaller = 0, kWorker = 1, kWaiter = 2 };
static uint8_t g_ctx = kCaller;

// One consumer step of a virtual pool worker through the pool's consumer interface (the same function
// ConcurrentTaskSet::wait uses).
VF_NOINLINE static void workerStep(dispenso::ThreadPool& pool) {
  uint8_t saved = g_ctx;
  g_ctx = kWorker;
  pool.tryExecuteNext();
  g_ctx = saved;
}
