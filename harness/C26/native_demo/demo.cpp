#include <dispenso/schedulable.h>
#include <dispenso/timed_task.h>
#include <chrono>
#include <cstdio>
#include <thread>
struct Res { int v = 42; };
int main() {
  dispenso::TimedTaskScheduler sched;
  int calls = 0;
  std::fprintf(stderr, "start %.3f\n", dispenso::getTime());
  {
    dispenso::TimedTask t = sched.schedule(dispenso::kImmediateInvoker, [&calls]() { ++calls; std::fprintf(stderr, "f runs at %.3f\n", dispenso::getTime()); return true; },
                                           std::chrono::milliseconds(200));
    std::this_thread::sleep_for(std::chrono::milliseconds(1000));  // scheduler is now between the cancelled test and inProgress++
  }  // ~TimedTask: cancel, inProgress == 0, func = {}  (closure freed)
  std::fprintf(stderr, "destructor returned at %.3f, calls=%d\n", dispenso::getTime(), calls);
  std::this_thread::sleep_for(std::chrono::milliseconds(3000));
  std::fprintf(stderr, "done, calls=%d\n", calls);
}
