#!/bin/sh
# Native demonstration of the two manifestations of the C26 finding (NOT the solver-based check):
# a private copy of dispenso gets a sleep inside each race window (widen_windows.diff), nothing else.
set -e
HERE=$(cd "$(dirname "$0")" && pwd)
D=/tmp/c26_demo
rm -rf $D && mkdir -p $D && cp -r ${VERIF_REPO:-/repo}/dispenso $D/ && cp "$HERE/demo.cpp" $D/
(cd $D && patch -p1 -s < "$HERE/widen_windows.diff")
SRC="demo.cpp dispenso/timed_task.cpp dispenso/timing.cpp dispenso/priority.cpp dispenso/detail/quanta.cpp"
cd $D
clang++-14 -std=c++14 -O0 -g -fsanitize=address -DC26_WIDEN -I. -Idispenso/third-party $SRC -lpthread -o demo_w1
clang++-14 -std=c++14 -O1 -g -DC26_WIDEN2 -I. -Idispenso/third-party $SRC -lpthread -o demo_w2
echo "--- window 1 (func lambda: cancelled test .. inProgress++), expect ASan heap-use-after-free"
./demo_w1 2>&1 | head -12 || true
echo "--- window 2 (kickOffTask: timesToRun.fetch_sub .. func call), expect terminate: bad_function_call"
./demo_w2 2>&1 | head -6 || true
rm -rf $D
