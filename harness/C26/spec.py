TECHNIQUE = ('bounded symbolic execution of LLVM IR lowered to C: CBMC/SAT (cadical), sequentialised step machine '
             '(engine cbmc-seq: symbolic scheduler over all atomic operations / mutex operations), ghost invocation ledger + '
             'CBMC pointer checks for the closure lifetime')
ASSUMPTIONS = []
OUTSIDE = ''


def I(name, defs, steps, nthreads, bounds, **kw):
    d = {'name': name, 'src': 'tt_kernel.cpp', 'engine': 'cbmc-seq', 'steps': steps, 'spin_loops': True, 'defs': defs,
         'unwind': 3, 'nthreads': nthreads, 'timeout': 1500, 'shims': ['moodycamel'], 'models': ['aligned_alloc'], 'devirt': True,
         'repo_sources': ['dispenso/timed_task.cpp'],
         'promote_icalls': [r'_Function_handler.*TimedTaskImpl.*9_M_invoke'],
         'no_inline': ['_ZL5setupv', '_ZL6finalev'],
         'tiers': ['quick', 'thorough'], 'bounds': bounds}
    d.update(kw)
    return d


INSTANCES = [
    I('dbg', {'VF_TIMES': 1, 'VF_KICKS': 1, 'VF_WORKERS': 1, 'VF_ONLY_SETUP': 1}, 4, 3, 'x', engine='cbmc', tiers=['dbg']),
    I('k1', {'VF_TIMES': 1, 'VF_KICKS': 1, 'VF_WORKERS': 1}, 4, 3, 'x'),
]
