TECHNIQUE = ('bounded symbolic execution of LLVM IR lowered to C: CBMC/SAT (cadical), sequentialised step machine '
             '(engine cbmc-seq: symbolic scheduler over all atomic operations / mutex operations), guarded promotion of the '
             'std::function invoker call so that the closure bodies are preemptible, ghost invocation ledger + CBMC pointer '
             'checks for the closure lifetime')
ASSUMPTIONS = [
    'kernel: the TimedTaskScheduler object consists of its queue mutex, task heap and epoch word; its constructor (which '
    'starts the thread running timeQueueRunLoop) is not run.  Model thread 1 stands in for that thread: it takes the task '
    'from the heap under queueMutex_ (top/pop, as timeQueueRunLoop does) and calls the real kickOffTask at an arbitrary time',
    'model clock: dispenso::getTime() returns a constant; the first run time is either before it (kick-off by the caller inside '
    'schedule()) or after it (queued)',
    'backing schedulable: the real dispenso::ImmediateInvoker (instances imm*) or a model pool that keeps a typed copy of the '
    'scheduled closure which a model worker thread runs later (instances k*)',
    'sequential consistency for all atomics',
]
OUTSIDE = ('"never before its first scheduled time": the time comparison lives in timeQueueRunLoop / addTimedTask and is not part '
           'of this kernel; more than 2 runs / 2 kick-offs; more than one task per scheduler; schedules needing more execution '
           'segments than the stated rounds; weak-memory reorderings; the real ThreadPool / TaskSet / NewThreadInvoker as backing '
           'schedulable; TimedTaskScheduler construction and destruction')

# STATUS (see NOTES.md): no instance is decided yet.  CBMC's symbolic execution of the step machine does not finish within
# 10 minutes even for the smallest instance (imm1, 2 threads): path-condition blow-up around the shared_ptr release sites
# (every release site expands dispose -> ~TimedTaskImpl -> std::function manager -> closure destructor).  The instances are
# kept so that `./check C26` reports INCONCLUSIVE (timeout) rather than nothing.


def I(name, defs, steps, nthreads, bounds, **kw):
    d = {'name': name, 'src': 'tt_kernel.cpp', 'engine': 'cbmc-seq', 'steps': steps, 'spin_loops': True, 'defs': defs,
         'unwind': 3, 'nthreads': nthreads, 'timeout': 240, 'shims': ['moodycamel'], 'models': ['aligned_alloc'], 'devirt': True,
         'repo_sources': ['dispenso/timed_task.cpp'],
         # the call `func(next)` in kickOffTask goes through std::function's invoker pointer: promote it (guarded) to a
         # direct call of the TimedTaskImpl closure's handler so that the closure body is inlined into the thread root
         'promote_icalls': [r'_Function_handler.*TimedTaskImpl.*9_M_invoke'],
         'no_inline': ['_ZL5setupv', '_ZL6finalev', '_ZL9take_nextPSt10shared_ptrIN8dispenso6detail13TimedTaskImplEE'],
         'tiers': ['quick', 'thorough'], 'bounds': bounds,
         'thorough': {'timeout': 1700}}
    d.update(kw)
    return d


INSTANCES = [
    I('imm1', {'VF_TIMES': 1, 'VF_KICKS': 1, 'VF_SCHED_KIND': 0, 'VF_PAST': 0}, 4, 2,
      'real ImmediateInvoker; timesToRun in 0..1, queued, 1 kick-off by the scheduler stand-in; owner: destroy | cancel+destroy | '
      'detach+destroy | cancel (symbolic); 4 scheduler rounds'),
    I('k1', {'VF_TIMES': 1, 'VF_KICKS': 1, 'VF_WORKERS': 1}, 4, 3,
      'model pool with 1 worker; timesToRun in 0..1, first run in the past or queued (symbolic), 1 kick-off; owner actions as '
      'in imm1; 4 scheduler rounds', tiers=['thorough']),
    I('k2', {'VF_TIMES': 2, 'VF_KICKS': 2, 'VF_WORKERS': 1}, 5, 3,
      'model pool with 1 worker; timesToRun in 0..2, 2 kick-offs, symbolic function results (false stops); 5 scheduler rounds',
      tiers=['thorough']),
    # sequential smoke test of the set-up path only (not part of any tier): ./check C26 --tier dbg
    I('dbg', {'VF_TIMES': 1, 'VF_KICKS': 1, 'VF_WORKERS': 1, 'VF_ONLY_SETUP': 1}, 4, 3, 'set-up only', engine='cbmc', tiers=['dbg']),
]
