// C26: TimedTask run count, cancellation and teardown (kernel around the per-task state machine).
//
// Real code: dispenso::TimedTaskScheduler::{schedule(sched, f, nextRunAbs, period, timesToRun, type),
//   addTimedTask, kickOffTask}, dispenso::TimedTask::{TimedTask(sched, f, ...), TimedTask(TimedTask&&),
//   cancel, detach, calls, ~TimedTask}, detail::TimedTaskImpl::TimedTaskImpl<F, Schedulable> with the
//   two closures it builds (`func` = cancelled test + inProgress increment + sched.schedule(wrap);
//   `wrap` = cancelled test + f() + bookkeeping), std::function<void(shared_ptr<TimedTaskImpl>)>
//   (libstdc++: heap-stored closure, manager/invoker), std::shared_ptr / make_shared (atomic reference
//   counts), std::priority_queue<shared_ptr<TimedTaskImpl>> (push / top / pop).
//
// Threads: 0 = main (the task's owner: schedule(), then cancel()/detach()/~TimedTask at any point),
//   1 = scheduler stand-in: takes the task from the scheduler's heap under queueMutex_ exactly like
//       timeQueueRunLoop does (top / pop / unlock) and calls the REAL kickOffTask, at any time, up to
//       VF_KICKS times.  The time comparison of timeQueueRunLoop is not part of this kernel.
//   2.. = workers of a model schedulable: schedule(f, ForceQueuingTag) stores a copy of the closure in
//       a typed slot; a worker runs a stored closure at an arbitrary later time.
// Symbolic: timesToRun (0..VF_TIMES), the result of every invocation, first run time in the past
//   (kick-off by the caller inside schedule()) or in the future (queued), steady / normal period,
//   the owner's actions, the interleaving of all atomic operations / mutex operations of all threads
//   and of the user function (it contains a scheduling point: an invocation can be "in progress").
#include <ios>
#include <new>
#include <utility>
#include <dispenso/schedulable.h>
#include <dispenso/timed_task.h>
#include "vf.h"

#ifndef VF_TIMES
#define VF_TIMES 2
#endif
#ifndef VF_KICKS
#define VF_KICKS 2
#endif
#ifndef VF_WORKERS
#define VF_WORKERS 1
#endif
#ifndef VF_POLLS
#define VF_POLLS 2
#endif
#ifndef VF_ACTS
#define VF_ACTS 0xf  // bit mask over Act
#endif
#ifndef VF_PAST
#define VF_PAST 2  // first run time: 0 in the future (queued), 1 in the past (kicked off inside schedule()), 2 symbolic
#endif
#ifndef VF_STRICT_CANCEL
#define VF_STRICT_CANCEL 0
#endif

// timed_task.cpp includes <iostream> (an error message in the scheduler thread's start-up lambda, which is
// not part of this kernel): the iostream static initialiser of that translation unit is a no-op here.
std::ios_base::Init::Init() {}
std::ios_base::Init::~Init() {}

// ------------------------------------------------------------------------------------ model clock
static double g_now = 100.0;
namespace dispenso {
double getTime() {
  return g_now;
}
} // namespace dispenso

// ------------------------------------------------------------------------------------ ghost state
enum { kMaxInv = 2 };
static int32_t g_times;          // timesToRun given to schedule()
static bool g_ret[kMaxInv];      // result of the i-th invocation
static int32_t g_started;        // invocations begun
static int32_t g_finished;       // invocations completed
static int32_t g_inprog;         // invocations begun and not completed
static int32_t g_false_seen;     // an invocation has returned false
static int32_t g_cancel_ret;     // cancel() has returned
static int32_t g_dtor_ret;       // the destructor of the (non-detached) task has returned
static int32_t g_wrap_begun_after_cancel;
static int32_t g_fn_live;        // live copies of the user functor

struct Fn {
  int32_t tag;
  explicit Fn(int32_t t) noexcept : tag(t) {
    VfAtomic a;
    ++g_fn_live;
  }
  Fn(const Fn& o) noexcept : tag(o.tag) {
    VfAtomic a;
    ++g_fn_live;
  }
  Fn(Fn&& o) noexcept : tag(o.tag) {
    VfAtomic a;
    ++g_fn_live;
  }
  ~Fn() {
    VfAtomic a;
    tag = 0;
    --g_fn_live;
  }
  bool operator()() const {
    int32_t idx;
    {
      VfAtomic a;
      vf_check(tag == 77, "the user function is invoked on a live function object");
      idx = g_started++;
      ++g_inprog;
      vf_check(g_started <= g_times, "the function is invoked more than timesToRun times");
      vf_check(!g_false_seen, "the function is invoked again after it returned false");
      vf_check(!g_dtor_ret, "an invocation starts after the destructor of the non-detached TimedTask returned");
#if VF_STRICT_CANCEL
      vf_check(!g_cancel_ret, "an invocation starts after cancel() returned");
#endif
    }
    vf_sched_point();  // the invocation is in progress
    bool r;
    {
      VfAtomic a;
      vf_check(tag == 77, "the function object is destroyed while an invocation is in progress");
      r = idx < kMaxInv ? g_ret[idx] : false;
      --g_inprog;
      ++g_finished;
      if (!r) {
        g_false_seen = 1;
      }
    }
    return r;
  }
};

// ------------------------------------------------------------------------------ backing schedulable
// VF_SCHED_KIND 0: the real dispenso::ImmediateInvoker (the closure runs on the thread that kicks the
//   task off, i.e. the scheduler thread -- a documented backing schedulable for timed tasks).
// VF_SCHED_KIND 1: model of a pool: schedule(f, ForceQueuingTag) keeps a copy of the closure in a typed
//   slot; a worker thread runs it at an arbitrary later time.  (TimedTaskImpl only uses this overload.)
#ifndef VF_SCHED_KIND
#define VF_SCHED_KIND 1
#endif
static int32_t g_nsched;    // closures stored
static int32_t g_next_run;  // next closure a worker takes
static void (*g_run)(int32_t);

template <class W>
struct Slots {
  union U {
    W w;
    U() {}
    ~U() {}
  };
  static U s0, s1;
  static void run(int32_t i) {
    if (i == 0) {
      s0.w();
      s0.w.~W();
    } else {
      s1.w();
      s1.w.~W();
    }
  }
};
template <class W>
typename Slots<W>::U Slots<W>::s0;
template <class W>
typename Slots<W>::U Slots<W>::s1;

struct ModelSched {
  template <class F>
  void schedule(F&& f, dispenso::ForceQueuingTag) {
    using W = typename std::decay<F>::type;
    int32_t i = g_nsched;
    vf_check(i < 2, "harness bound: number of scheduled closures");
    if (i == 0) {
      new (&Slots<W>::s0.w) W(std::forward<F>(f));
    } else if (i == 1) {
      new (&Slots<W>::s1.w) W(std::forward<F>(f));
    } else {
      return;
    }
    g_run = &Slots<W>::run;
    VfAtomic a;
    g_nsched = i + 1;
  }
};
#if VF_SCHED_KIND == 0
#define g_sched dispenso::kImmediateInvoker
#else
static ModelSched g_sched;
#endif

static inline void worker_body() {
  for (int k = 0; k < VF_POLLS; ++k) {
    vf_sched_point();
    int32_t i = -1;
    {
      VfAtomic a;
      if (g_next_run < g_nsched) {
        i = g_next_run++;
      }
    }
    if (i >= 0) {
      g_run(i);
    }
  }
}
#if VF_SCHED_KIND == 1
static void worker1(void*) { worker_body(); }
#if VF_WORKERS >= 2
static void worker2(void*) { worker_body(); }
#endif
#endif

// ------------------------------------------------------------------------------ scheduler object
// The TimedTaskScheduler object of this kernel: its queue mutex and task heap (and the epoch word
// that addTimedTask bumps).  Its constructor, which starts the thread running timeQueueRunLoop, is
// not run; thread 1 stands in for that thread.
union SchedStore {
  dispenso::TimedTaskScheduler s;
  SchedStore() {}
  ~SchedStore() {}
};
static SchedStore g_ss;
#define S (g_ss.s)

using Impl = dispenso::detail::TimedTaskImpl;

// as in timeQueueRunLoop: top / pop under the queue mutex (one step: the heap is only touched under the
// mutex), the kick-off happens outside
VF_NOINLINE static bool take_next(std::shared_ptr<Impl>* next) {
  std::lock_guard<std::mutex> lk(S.queueMutex_);
  if (S.tasks_.empty()) {
    return false;
  }
  *next = S.tasks_.top();
  S.tasks_.pop();
  return true;
}

static void sched_thread(void*) {
  for (int i = 0; i < VF_KICKS; ++i) {
    std::shared_ptr<Impl> next;
    if (!take_next(&next)) {
      return;
    }
    S.kickOffTask(std::move(next), g_now);
  }
}

union TaskStore {
  dispenso::TimedTask t;
  TaskStore() {}
  ~TaskStore() {}
};
static TaskStore g_ts;

enum Act { kDestroy = 0, kCancelDestroy = 1, kDetachDestroy = 2, kCancelKeep = 3 };

static uint32_t g_act;

// Everything up to the first spawn runs while no other thread exists (kept out of line: one step).
VF_NOINLINE static void setup() {
  new (&S.queueMutex_) std::mutex();
  new (&S.tasks_) decltype(S.tasks_)();
  new (&S.epoch_) dispenso::detail::EpochWaiter();

  g_times = (int32_t)vf_range_u32(0, VF_TIMES);
  g_ret[0] = vf_nondet_bool();
  g_ret[1] = vf_nondet_bool();
  bool past = VF_PAST == 2 ? vf_nondet_bool() : (VF_PAST == 1);
  bool steady = vf_nondet_bool();
  g_act = vf_range_u32(0, 3);
  vf_assume(((VF_ACTS) >> g_act) & 1);

  // the real schedule(): builds the TimedTask (TimedTaskImpl + closures) and hands it to
  // addTimedTask, which kicks it off at once on this thread when its time has come (past) or puts it
  // on the heap
  new (&g_ts.t) dispenso::TimedTask(S.schedule(
      g_sched, Fn(77), past ? 50.0 : 200.0, 10.0, (size_t)g_times,
      steady ? dispenso::TimedTaskType::kSteady : dispenso::TimedTaskType::kNormal));
}

// quiescent: all threads have finished
VF_NOINLINE static void finale() {
  dispenso::TimedTask& task = g_ts.t;
  if (g_act == kCancelKeep) {
    size_t calls = task.calls();
    vf_check(calls == (size_t)g_finished, "calls() equals the number of completed invocations (quiescent)");
    task.~TimedTask();
  }
  vf_check(g_started <= g_times, "the function was invoked more than timesToRun times");
  vf_check(g_inprog == 0, "quiescent: no invocation in progress");
}

extern "C" void vf_main() {
  setup();
#ifdef VF_ONLY_SETUP
  return;
#endif
  dispenso::TimedTask& task = g_ts.t;
  const uint32_t act = g_act;

  vf_spawn(sched_thread, nullptr);
#if VF_SCHED_KIND == 1
  vf_spawn(worker1, nullptr);
#if VF_WORKERS >= 2
  vf_spawn(worker2, nullptr);
#endif
#endif

  if (act == kCancelDestroy || act == kCancelKeep) {
    task.cancel();
    VfAtomic a;
    g_cancel_ret = 1;
  }
  if (act == kDetachDestroy) {
    task.detach();
  }
  if (act != kCancelKeep) {
    task.~TimedTask();
    VfAtomic a;
    if (act != kDetachDestroy) {
      g_dtor_ret = 1;
      vf_check(g_inprog == 0, "the destructor of a non-detached TimedTask returned while an invocation is in progress");
    }
  }
  vf_join_all();
  finale();
}
