// C35 (concurrent): SPSCRingBuffer with one producer thread and one consumer thread delivers every
// pushed element exactly once and in push order, never holds more than capacity() elements, accepts
// a push iff it is not full / a pop iff it is not empty *as observed by the calling thread*, and
// destroys every element exactly once (also ~SPSCRingBuffer with elements left).
// Real code: SPSCRingBuffer<T,CAP,POW2>::{ctor, dtor, try_push(T&&), try_push(const T&), try_emplace,
//            try_push_batch, try_pop(T&), try_pop(), try_pop_into, try_pop_batch, size, empty, full}.
// Symbolic: the interleaving of all atomic operations (and, for the Elem payload, of every payload
//           construction / move in or out of a slot), the start offset of head/tail, optional
//           pre-filled elements, batch sizes, number of elements left to the destructor.
//
// What "as observed by that thread" means under concurrency (header: size/empty/full are snapshots;
// the producer reads the consumer's head with acquire and vice versa): only the conservative
// direction is guaranteed.  The producer owns tail and can only be helped by the consumer, so
//   * full() == false just before, or (own pushes - pops that had RETURNED before the call) < capacity
//     ==> the push must succeed;  a failing push ==> the buffer was full when the call started.
// Symmetrically for the consumer (it owns head, the producer can only add):
//   * empty() == false just before, or (pushes that had RETURNED before the call - own pops) > 0
//     ==> the pop must succeed.
// A push may well succeed although the buffer looked full a moment earlier; that is not asserted.
//
// -D parameters: VF_CAP, VF_POW2; VF_ELEM 0 int32_t / 1 lifetime-tracked payload with scheduling
//   points; VF_NP / VF_NC number of producer / consumer operations (<= 4);
//   VF_PK / VF_CK: operation j of the producer uses kind (VF_PK + j) % 4 of
//     {0 try_push(T&&), 1 try_emplace, 2 try_push(const T&), 3 try_push_batch(n symbolic 0..2)},
//   of the consumer kind (VF_CK + j) % 4 of
//     {0 try_pop(T&), 1 try_pop_into, 2 try_pop(), 3 try_pop_batch(max symbolic 0..2)};
//   VF_OBS 1: every operation is preceded by an observation (producer: full()/size(), consumer:
//   empty()/size(), alternating); VF_PRE 1: symbolic start offset 0..kBufferSize-1 and pre-fill 0..1.
#include <new>
#include <algorithm>
#include <dispenso/spsc_ring_buffer.h>
#include "tracked.h"
VfCounters g_cnt;

#ifndef VF_ELEM
#define VF_ELEM 0
#endif
#ifndef VF_OBS
#define VF_OBS 1
#endif
#ifndef VF_PRE
#define VF_PRE 1
#endif

enum { kMaxTag = 12 };

// ---------------------------------------------------------------- ghost state
// Successfully pushed elements carry the tags 1,2,3,... in push order (the producer advances its
// tag only when a push succeeded), so the consumer side must see exactly 1,2,3,...
static int32_t g_nextPush = 1;      // producer-owned: tag of the next element to push
static int32_t g_pushRet = 0;       // pushes that have returned (lags the real tail: lower bound)
static int32_t g_nextPop = 1;       // consumer-owned: tag the next pop must deliver
static int32_t g_popStarted = 0;    // pops that may already have happened (upper bound)

#if VF_ELEM
static int8_t g_alive[kMaxTag + 1];
struct InPlace {};
struct Elem {
  Tracked t;  // global construct/destroy counters, double-destroy check
  bool proto = false;
  void makeProto() { proto = true; if (t.v >= 1 && t.v <= kMaxTag) g_alive[t.v]--; }
  void born() {
    if (t.v >= 1 && t.v <= kMaxTag) {
      g_alive[t.v]++;
      vf_check(g_alive[t.v] == 1, "two live objects carry the same element");
    }
  }
  // scheduling points: where a payload object is written into / read out of a slot (the real code
  // does this with plain accesses between its atomic index operations)
  explicit Elem(int32_t x) noexcept : t(x) { born(); }
  Elem(int32_t x, InPlace) noexcept : t((vf_sched_point(), x)) { born(); }
  Elem(const Elem& o) noexcept : t((vf_sched_point(), o.t)) { born(); }
  Elem(Elem&& o) noexcept : t((vf_sched_point(), o.t.v)) {
    if (o.t.v >= 1 && o.t.v <= kMaxTag) g_alive[o.t.v]--;
    o.t.v = -7;
    born();
  }
  Elem& operator=(Elem&& o) noexcept {
    vf_sched_point();
    if (t.v >= 1 && t.v <= kMaxTag) g_alive[t.v]--;
    t.v = o.t.v;
    o.t.v = -7;
    return *this;
  }
  ~Elem() {
    if (!proto && t.v >= 1 && t.v <= kMaxTag) {
      g_alive[t.v]--;
      vf_check(g_alive[t.v] == 0, "an element is destroyed twice");
    }
  }
};
static inline int32_t tagOf(const Elem& e) { return e.t.v; }
#else
using Elem = int32_t;
static inline int32_t tagOf(const Elem& e) { return e; }
#endif

using Ring = dispenso::SPSCRingBuffer<Elem, VF_CAP, VF_POW2>;
union Holder {  // typed storage with manual lifetime
  Ring r;
  Holder() {}
  ~Holder() {}
};
static Holder g_holder;
static inline Ring& ring() { return g_holder.r; }
constexpr int32_t kCap = (int32_t)Ring::capacity();
static_assert(kCap == VF_CAPX, "VF_CAPX must be the real capacity()");

// ---------------------------------------------------------------- producer side
// returns the number of elements pushed by one operation of the given kind
static inline int32_t push_op(uint32_t kind, uint32_t n) {
  int32_t tag = g_nextPush;
  if (kind == 0) return ring().try_push(Elem(tag)) ? 1 : 0;
#if VF_ELEM
  if (kind == 1) return ring().try_emplace(tag, InPlace{}) ? 1 : 0;
#else
  if (kind == 1) return ring().try_emplace(tag) ? 1 : 0;
#endif
  if (kind == 2) {
#if VF_ELEM
    Elem src(tag);
    src.makeProto();
    const Elem& e = src;
#else
    const Elem e = tag;
#endif
    return ring().try_push(e) ? 1 : 0;
  }
  Elem items[2] = {Elem(tag), Elem(tag + 1)};
  size_t k = ring().try_push_batch(items, items + n);
  vf_check(k <= n, "try_push_batch pushed more than the range holds");
  return (int32_t)k;
}

static inline void producer_step(uint32_t kind, int j) {
  // upper bound of the occupancy when the call starts: own pushes (exact) minus pops that returned
  int32_t pushed = g_nextPush - 1;
  int32_t occHi = pushed - (g_nextPop - 1);
  bool sawNotFull = false;
#if VF_OBS
  if (j % 2 == 0) {
    sawNotFull = !ring().full();
  } else {
    size_t s = ring().size();
    vf_check(s <= (size_t)kCap, "size() observed by the producer exceeds capacity()");
    vf_check((int32_t)s <= occHi && (int32_t)s >= pushed - g_popStarted,
             "size() observed by the producer is outside the window of the pops that raced with it");
    sawNotFull = s < (size_t)kCap;
    occHi = pushed - (g_nextPop - 1);
  }
#endif
  int32_t room = kCap - occHi;  // free slots the producer is entitled to rely on
  uint32_t n = (kind == 3) ? vf_range_u32(0, 2) : 1;
  int32_t k = push_op(kind, n);
  {
    VfAtomic a;
    if (kind != 3) {
      vf_check(!(room > 0) || k == 1, "push fails although the buffer was not full when the call started");
      vf_check(!sawNotFull || k == 1, "push fails although the producer had just observed the buffer not full");
    } else {
      int32_t must = room < (int32_t)n ? room : (int32_t)n;
      vf_check(k >= must, "try_push_batch pushes fewer elements than there was certainly room for");
      vf_check(!(sawNotFull && n > 0) || k > 0, "try_push_batch fails although the producer had just observed the buffer not full");
    }
    g_nextPush += k;
    g_pushRet += k;
    vf_check(g_pushRet - g_popStarted <= kCap, "more than capacity() elements inside the buffer");
  }
}

// ---------------------------------------------------------------- consumer side
static inline void got(int32_t tag) {
  vf_check(tag == g_nextPop, "pop does not deliver the elements exactly once in push order");
  g_nextPop++;
}

static inline void consumer_step(uint32_t kind, int j) {
  int32_t popped = g_nextPop - 1;
  int32_t occLo = g_pushRet - popped;  // lower bound of the occupancy when the call starts
  bool sawNonEmpty = false;
#if VF_OBS
  if (j % 2 == 0) {
    sawNonEmpty = !ring().empty();
  } else {
    size_t s = ring().size();
    vf_check(s <= (size_t)kCap, "size() observed by the consumer exceeds capacity()");
    vf_check((int32_t)s >= occLo, "size() observed by the consumer is smaller than the number of elements certainly inside");
    sawNonEmpty = s > 0;
    occLo = g_pushRet - popped;
  }
#endif
  if (kind == 3) {
    uint32_t m = vf_range_u32(0, 2);
    { VfAtomic a; g_popStarted += (int32_t)m; }
    Elem out[2] = {Elem(0), Elem(0)};
    size_t k = ring().try_pop_batch(out, m);
    VfAtomic a;
    vf_check(k <= m, "try_pop_batch popped more than maxCount");
    int32_t must = occLo < (int32_t)m ? occLo : (int32_t)m;
    vf_check((int32_t)k >= must, "try_pop_batch delivers fewer elements than were certainly inside");
    vf_check(!(sawNonEmpty && m > 0) || k > 0, "try_pop_batch fails although the consumer had just observed the buffer non-empty");
    if (k >= 1) got(tagOf(out[0]));
    if (k >= 2) got(tagOf(out[1]));
    g_popStarted -= (int32_t)m - (int32_t)k;
    return;
  }
  { VfAtomic a; g_popStarted += 1; }
  bool ok;
  int32_t tag = 0;
  if (kind == 0) {
    Elem e(0);
    ok = ring().try_pop(e);
    tag = tagOf(e);
  } else if (kind == 1) {
    alignas(Elem) char buf[sizeof(Elem)];
    Elem* p = reinterpret_cast<Elem*>(buf);
    ok = ring().try_pop_into(p);
    if (ok) { tag = tagOf(*p); p->~Elem(); }
  } else {
    auto r = ring().try_pop();
    ok = r.has_value();
    if (ok) tag = tagOf(r.value());
  }
  VfAtomic a;
  vf_check(!(occLo > 0) || ok, "pop fails although the buffer was not empty when the call started");
  vf_check(!sawNonEmpty || ok, "pop fails although the consumer had just observed the buffer non-empty");
  if (ok) got(tag); else g_popStarted -= 1;
}

static void producer(void*) {
  producer_step((VF_PK + 0) % 4, 0);
#if VF_NP >= 2
  producer_step((VF_PK + 1) % 4, 1);
#endif
#if VF_NP >= 3
  producer_step((VF_PK + 2) % 4, 2);
#endif
#if VF_NP >= 4
  producer_step((VF_PK + 3) % 4, 3);
#endif
}
static void consumer(void*) {
  consumer_step((VF_CK + 0) % 4, 0);
#if VF_NC >= 2
  consumer_step((VF_CK + 1) % 4, 1);
#endif
#if VF_NC >= 3
  consumer_step((VF_CK + 2) % 4, 2);
#endif
#if VF_NC >= 4
  consumer_step((VF_CK + 3) % 4, 3);
#endif
}

// Quiescent phases of the main thread run through function pointers: plain code without
// preemption points in the cbmc-seq engine (no other thread is alive there).
static void phase_pre(uint32_t) {
  Ring* r = new (&g_holder.r) Ring();
#if VF_PRE
  // symbolic start offset (head == tail == off) and 0..1 pre-filled elements, through the real API
  uint32_t off = vf_range_u32(0, (uint32_t)kCap);
#pragma unroll
  for (uint32_t i = 0; i < (uint32_t)VF_CAPX; ++i) {
    if (i >= off) break;
    bool ok = r->try_emplace(0);
    Elem e(0);
    bool ok2 = ok && r->try_pop(e);
    vf_check(ok2, "quiescent push then pop on an empty buffer both succeed");
  }
  if (vf_nondet_bool()) {
    bool ok = r->try_emplace(g_nextPush);
    vf_check(ok, "quiescent push into an empty buffer succeeds");
    g_nextPush++;
    g_pushRet++;
  }
#endif
}

static void phase_post(uint64_t) {
  Ring* r = &ring();
  int32_t inside = (g_nextPush - 1) - (g_nextPop - 1);
  vf_check(g_pushRet == g_nextPush - 1 && g_popStarted == g_nextPop - 1, "ghost counters settle at quiescence");
  vf_check(inside >= 0 && inside <= kCap, "buffer holds more than capacity() elements");
  vf_check(r->size() == (size_t)inside, "quiescent size() differs from pushed-minus-popped");
  vf_check(r->empty() == (inside == 0) && r->full() == (inside == kCap), "quiescent empty()/full() agree with the ledger");
#if VF_ELEM
  vf_check(g_cnt.live == inside, "live payload objects == elements in the buffer");
#endif
  {
    bool ok = r->try_emplace(g_nextPush);
    vf_check(ok == (inside < kCap), "quiescent push succeeds iff the buffer is not full");
    if (ok) { g_nextPush++; inside++; }
  }
  uint32_t drain = vf_range_u32(0, VF_CAPX + 1);
#pragma unroll
  for (uint32_t i = 0; i < (uint32_t)VF_CAPX + 1; ++i) {
    if (i >= drain) break;
    Elem e(0);
    bool ok = r->try_pop(e);
    vf_check(ok == (inside > 0), "quiescent pop succeeds iff the buffer is non-empty");
    if (ok) { got(tagOf(e)); inside--; }
  }
  vf_check(r->size() == (size_t)inside, "size() after the quiescent drain");
  r->~Ring();
#if VF_ELEM
  vf_check(g_cnt.live == 0 && g_cnt.ctor == g_cnt.dtor,
           "every payload object is destroyed exactly once (destructor destroys what is left)");
#pragma unroll
  for (int t = 1; t <= kMaxTag; ++t) vf_check(g_alive[t] == 0, "an element outlives the buffer");
#endif
}
void (*g_phase_pre)(uint32_t) = phase_pre;
void (*g_phase_post)(uint64_t) = phase_post;

extern "C" void vf_main() {
  g_phase_pre(0);
  vf_spawn(producer, nullptr);
  vf_spawn(consumer, nullptr);
  vf_join_all();
  if (vf_any_stuck()) return;
  g_phase_post(0);
}
