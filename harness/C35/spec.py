TECHNIQUE = ('bounded symbolic execution of LLVM IR lowered to C: CBMC/SAT (cadical); concurrent instances: sequentialised '
             'step machine with symbolic round-robin scheduler over all atomic operations and payload moves (engine cbmc-seq); '
             'sequential history instances against a reference FIFO (engine cbmc)')
ASSUMPTIONS = ['exactly one producer thread and one consumer thread (documented precondition)',
               'under concurrency only the conservative direction of "push iff not full / pop iff not empty" is asserted: an operation '
               'must succeed when the calling thread had observed (full()/empty()/size(), or the operations that had already returned) '
               'room / an element; failing is allowed only if the buffer was full / empty when the call started',
               'sequential consistency for the atomics (interleaving semantics); payload construction / move into and out of a slot is an '
               'additional interleaving point in the lifetime-tracked instances']
OUTSIDE = ('more operations / scheduler rounds than stated per instance; capacities other than 1, 2, 3; weak-memory reorderings; '
           'more than one producer or consumer (excluded by the contract); payload types other than int32 / lifetime-tracked int; '
           'throwing element constructors')


def conc(name, cap, pow2, capx, steps, tiers, bounds, timeout=1700, thorough=None, **d):
    defs = {'VF_CAP': cap, 'VF_POW2': pow2, 'VF_CAPX': capx, 'VF_ELEM': 0, 'VF_PK': 0, 'VF_CK': 0, 'VF_NP': 3, 'VF_NC': 3,
            'VF_OBS': 1, 'VF_PRE': 1}
    defs.update(d)
    # harness loops are unrolled at compile time; 'unwind' covers the real code's loops (batch push/pop of <= 2 elements,
    # destructor walk over <= capacity elements)
    i = {'name': name, 'src': 'spsc_conc.cpp', 'engine': 'cbmc-seq', 'steps': steps, 'spin_loops': True, 'defs': defs,
         'unwind': capx + 2, 'nthreads': 3, 'timeout': timeout, 'tiers': tiers, 'bounds': bounds}
    if thorough:
        i['thorough'] = thorough
    return i


KINDS = ('producer op kinds {0 try_push(T&&), 1 try_emplace, 2 try_push(const T&), 3 try_push_batch(0..2 items)}, consumer op kinds '
         '{0 try_pop(T&), 1 try_pop_into, 2 try_pop(), 3 try_pop_batch(max 0..2)}; every op preceded by full()/empty()/size() observed by that thread; ')
INSTANCES = [
    conc('conc_cap1', 1, 'true', 1, 4, ['quick', 'thorough'],
         'capacity 1 (2 slots); ' + KINDS + 'producer ops 0,1,2; consumer ops 3,0,1; symbolic start offset and pre-fill; 4 scheduler rounds (thorough 6)',
         VF_PK=0, VF_CK=3, thorough={'steps': 6}),
    conc('conc_cap2_exact', 2, 'false', 2, 3, ['quick', 'thorough'],
         'capacity 2 exact (3 slots, modulo wrap); ' + KINDS + 'producer ops 3,0,1; consumer ops 1,2,3; symbolic start offset and pre-fill; 3 scheduler rounds (thorough 6)',
         VF_PK=3, VF_CK=1, thorough={'steps': 6}),
    conc('conc_cap1_elem', 1, 'true', 1, 3, ['quick', 'thorough'],
         'capacity 1 (2 slots); lifetime-tracked payload with scheduling points at every payload move into / out of a slot; producer ops '
         'try_push(T&&), try_emplace; consumer ops try_pop(), try_pop_batch; no size observations; elements left to ~SPSCRingBuffer; '
         '3 scheduler rounds (thorough 5)',
         VF_ELEM=1, VF_PK=0, VF_CK=2, VF_NP=2, VF_NC=2, VF_PRE=0, VF_OBS=0, thorough={'steps': 5}),
    conc('conc_cap2_elem', 2, 'false', 2, 4, ['thorough'],
         'capacity 2 exact (3 slots); lifetime-tracked payload with scheduling points at every payload move; producer ops 2,3,0 (const T&, '
         'batch, T&&); consumer ops 1,2,3 (pop_into, pop(), pop_batch); no size observations; elements left to ~SPSCRingBuffer; 4 scheduler rounds',
         VF_ELEM=1, VF_PK=2, VF_CK=1, VF_PRE=0, VF_OBS=0),
    conc('conc_cap2_4ops', 2, 'true', 3, 5, ['thorough'],
         'requested capacity 2 (rounded: 4 slots, capacity 3); 4 producer ops (kinds 1,2,3,0) and 4 consumer ops (0,1,2,3); 5 scheduler rounds',
         VF_PK=1, VF_CK=0, VF_NP=4, VF_NC=4),
    {'name': 'seq_cap1', 'src': 'spsc_seq.cpp', 'engine': 'cbmc', 'defs': {'VF_CAP': 1, 'VF_POW2': 'true', 'VF_OPS': 4},
     'unwind': 6, 'timeout': 1500, 'bounds': 'capacity 1; 4 symbolic operations from 8 kinds against a reference FIFO; lifetime-tracked payload',
     'thorough': {'defs': {'VF_CAP': 1, 'VF_POW2': 'true', 'VF_OPS': 6}, 'unwind': 8}},
    {'name': 'seq_cap2_exact', 'src': 'spsc_seq.cpp', 'engine': 'cbmc', 'defs': {'VF_CAP': 2, 'VF_POW2': 'false', 'VF_OPS': 4},
     'unwind': 6, 'timeout': 1500, 'bounds': 'capacity 2 exact (modulo wrap); 4 symbolic operations from 8 kinds; lifetime-tracked payload',
     'thorough': {'defs': {'VF_CAP': 2, 'VF_POW2': 'false', 'VF_OPS': 6}, 'unwind': 8}},
    {'name': 'seq_cap3', 'src': 'spsc_seq.cpp', 'engine': 'cbmc', 'defs': {'VF_CAP': 3, 'VF_POW2': 'true', 'VF_OPS': 5},
     'unwind': 7, 'timeout': 1500, 'tiers': ['thorough'],
     'bounds': 'capacity 3 (4 slots); 5 symbolic operations from 8 kinds; lifetime-tracked payload'},
]
