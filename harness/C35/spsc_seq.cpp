// C35 (quiescent semantics + lifetimes): single-threaded symbolic history over the whole
// SPSCRingBuffer API against a reference FIFO.  Quiescent: a push succeeds iff the buffer is not
// full, a pop iff it is not empty; batch operations move min(requested, possible) elements;
// elements come out in push order; size/empty/full are exact; every element is destroyed exactly
// once (also by ~SPSCRingBuffer with elements left).
#include <new>
#include <algorithm>
#include <dispenso/spsc_ring_buffer.h>
#include "tracked.h"
VfCounters g_cnt;

using Ring = dispenso::SPSCRingBuffer<Tracked, VF_CAP, VF_POW2>;
union Holder {
  Ring r;
  Holder() {}
  ~Holder() {}
};
static Holder g_holder;

extern "C" void vf_main() {
  Ring* r = new (&g_holder.r) Ring();
  const size_t cap = Ring::capacity();
  vf_check(cap >= VF_CAP && (VF_POW2 || cap == VF_CAP), "capacity() is at least the requested capacity (exactly it without rounding)");
  int32_t ref[2 * VF_OPS + 2];
  size_t head = 0, tail = 0;  // reference FIFO (never wraps: <= 2 pushes per step)
  int32_t next = 1;
  for (int step = 0; step < VF_OPS; ++step) {
    uint32_t op = vf_range_u32(0, 7);
    size_t n = tail - head;
    if (op == 0) {
      Tracked src(next);
      bool ok = r->try_push(std::move(src));
      vf_check(ok == (n < cap), "quiescent try_push(T&&) succeeds iff the buffer is not full");
      vf_check(ok || src.v == next, "a failed try_push leaves the element unchanged");
      if (ok) ref[tail++] = next;
      ++next;
    } else if (op == 1) {
      const Tracked src(next);
      bool ok = r->try_push(src);
      vf_check(ok == (n < cap), "quiescent try_push(const T&) succeeds iff the buffer is not full");
      if (ok) ref[tail++] = next;
      ++next;
    } else if (op == 2) {
      bool ok = r->try_emplace(next);
      vf_check(ok == (n < cap), "quiescent try_emplace succeeds iff the buffer is not full");
      if (ok) ref[tail++] = next;
      ++next;
    } else if (op == 3) {
      Tracked items[2] = {Tracked(next), Tracked(next + 1)};
      uint32_t cnt = vf_range_u32(0, 2);
      size_t k = r->try_push_batch(items, items + cnt);
      size_t room = cap - n;
      vf_check(k == (room < cnt ? room : cnt), "quiescent try_push_batch pushes min(count, free slots)");
      for (size_t i = 0; i < 2; ++i) if (i < k) ref[tail++] = next + (int32_t)i;
      next += 2;
    } else if (op == 4) {
      Tracked out(0);
      bool ok = r->try_pop(out);
      vf_check(ok == (n > 0), "quiescent try_pop(T&) succeeds iff the buffer is non-empty");
      vf_check(ok || out.v == 0, "a failed try_pop leaves the output unchanged");
      if (ok) { vf_check(out.v == ref[head], "elements come out in push order"); ++head; }
    } else if (op == 5) {
      auto res = r->try_pop();
      vf_check(res.has_value() == (n > 0), "quiescent try_pop() succeeds iff the buffer is non-empty");
      if (res) { vf_check(res.value().v == ref[head], "elements come out in push order"); ++head; }
    } else if (op == 6) {
      alignas(Tracked) char buf[sizeof(Tracked)];
      bool ok = r->try_pop_into(reinterpret_cast<Tracked*>(buf));
      vf_check(ok == (n > 0), "quiescent try_pop_into succeeds iff the buffer is non-empty");
      if (ok) {
        Tracked* t = reinterpret_cast<Tracked*>(buf);
        vf_check(t->v == ref[head], "elements come out in push order");
        ++head;
        t->~Tracked();
      }
    } else {
      Tracked out[2] = {Tracked(0), Tracked(0)};
      uint32_t m = vf_range_u32(0, 2);
      size_t k = r->try_pop_batch(out, m);
      vf_check(k == (n < m ? n : m), "quiescent try_pop_batch pops min(maxCount, size)");
      for (size_t i = 0; i < 2; ++i) {
        if (i < k) { vf_check(out[i].v == ref[head], "elements come out in push order"); ++head; }
      }
    }
    vf_check(r->size() == tail - head && r->size() <= cap, "size() equals the reference and never exceeds capacity()");
    vf_check(r->empty() == (tail == head) && r->full() == (tail - head >= cap), "empty()/full() agree with the reference");
    vf_check(g_cnt.live == (int32_t)(tail - head), "live elements == elements in the buffer");
  }
  r->~Ring();
  vf_check(g_cnt.live == 0 && g_cnt.ctor == g_cnt.dtor, "every element is destroyed exactly once (destructor destroys what is left)");
}
