// C08 / C01: bounded histories on a real ThreadPool with *virtual workers* (std::thread start is modelled,
// pool threads never run by themselves; the harness plays worker / waiter by calling the same real
// consumer functions: tryExecuteNext, tryExecuteNextFromRings, threadLoopImpl).
//   VF_ACCT: C08 - at every quiescent point (all containers empty, no task set has outstanding tasks,
//            no call in flight) the pool's pending-work counter workRemaining_ is 0.
//   VF_ONCE: C01 - every functor handed to the pool ran exactly once by the time ~ThreadPool returned
//            (and never more than once before).
// Claims are at API-call granularity: every API call below runs atomically.
#define VF_THREAD_STATE_TRIVIAL 1
#include "../C47/pool_kit.h"

#ifndef VF_N
#define VF_N 1
#endif
#ifndef VF_SCN
#define VF_SCN 1
#endif

using namespace dispenso;

// environment contracts (identical definitions are used by the solver run and by the native replay):
// small-buffer allocator = malloc/free of the block size (the real allocator is property C39/C41),
// registerFineSchedulerQuanta = no-op (Windows timer resolution)
namespace dispenso {
namespace detail {
char* allocSmallBufferImpl(size_t ordinal) {
  return static_cast<char*>(::malloc(size_t{4} << ordinal));
}
void deallocSmallBufferImpl(size_t, void* buf) {
  ::free(buf);
}
void registerFineSchedulerQuanta() {}
}  // namespace detail
}  // namespace dispenso

static const int kMaxIds = 6;
static int g_runs[kMaxIds];
static int g_submitted;  // ids 0..g_submitted-1 were handed to the pool

struct Task {
  int id;
  void operator()() const { ++g_runs[id]; }
};
struct Gen {
  int base;
  auto operator()(size_t i) const { return Task{base + (int)i}; }
};
// a task that stops the virtual worker running it (what ~ThreadPool / resize do with stop())
static ThreadPool::PerThreadData* g_stop_target;
struct StopTask {
  int id;
  void operator()() const {
    ++g_runs[id];
    g_stop_target->stop();
  }
};

static bool containers_empty(ThreadPool& p) {
  if (p.work_.n_ != 0) return false;
  for (size_t i = 0; i < p.rings_.size(); ++i) {
    if (!p.rings_[i].empty()) return false;
  }
  for (size_t i = 0; i < p.stealRings_.size(); ++i) {
    if (!p.stealRings_[i].empty()) return false;
  }
  return true;
}
// quiescent: nothing queued anywhere, nothing in flight (sequential harness: no call is active here)
static void at_quiescence(ThreadPool& p) {
  if (!containers_empty(p)) return;
  vf_reach("a quiescent point was checked");
#ifdef VF_ACCT
  vf_check(p.workRemaining_.load(std::memory_order_relaxed) == 0,
           "workRemaining_ != 0 at a quiescent point (all containers empty, nothing in flight)");
#endif
}
static void never_twice() {
#ifdef VF_ONCE
  vf_check(g_runs[0] <= 1 && g_runs[1] <= 1 && g_runs[2] <= 1 && g_runs[3] <= 1 && g_runs[4] <= 1 &&
               g_runs[5] <= 1,
           "a submitted functor ran more than once");
#endif
}
static void finish(ThreadPool* pool) {
  never_twice();
#ifdef VF_ONCE
  delete pool;  // real ~ThreadPool: stop, wake, drain central queue, join (model), drain rings and steal rings
  for (int i = 0; i < kMaxIds; ++i) {
    vf_check(g_runs[i] == (i < g_submitted ? 1 : 0),
             "a functor handed to the pool did not run exactly once by the time ~ThreadPool returned");
  }
#else
  (void)pool;  // C08: the pool stays alive (the drain of the destructor belongs to C01)
#endif
}
// resize to a symbolically chosen size in 0..2 different from the current one.  The choice is dispatched to
// calls with a literal argument so that constant propagation keeps loop trip counts concrete inside
// resizeLocked (same set of behaviours).
#ifndef VF_RT
#define VF_RT 9  // resize target: 0..2 = fixed by the instance, 9 = symbolic
#endif
#ifndef VF_CHOICE
#define VF_CHOICE 9  // optional consumer steps: 0 = skipped, 1 = taken, 9 = symbolic
#endif
static bool choice() {
#if VF_CHOICE == 9
  return vf_nondet_bool();
#else
  return VF_CHOICE != 0;
#endif
}
static void resize_other(ThreadPool& p, ssize_t n) {
#if VF_RT == 9
  uint32_t t = vf_range_u32(0, 2);
#else
  uint32_t t = VF_RT;
#endif
  vf_assume((ssize_t)t != n);
  if (t == 0) {
    p.resize(0);
  } else if (t == 1) {
    p.resize(1);
  } else {
    p.resize(2);
  }
}
// waiter / helper drains the central queue: up to 4 tasks (written without a loop)
static void drain_queue(ThreadPool& p) {
  bool more = p.tryExecuteNext();
  if (more) more = p.tryExecuteNext();
  if (more) more = p.tryExecuteNext();
  if (more) more = p.tryExecuteNext();
  if (more) more = p.tryExecuteNext();
  vf_assume(!more);
}

extern "C" void vf_main() {
  ThreadPool* pool = new ThreadPool(VF_N);
  g_submitted = 0;

#if VF_SCN == 1
  // fork-join ring fast path (TaskSet::scheduleBulk with count == pool size pushes task i to ring i),
  // optionally one task stolen by a waiter, then resize() to a different size (drains what is left)
  {
    TaskSet* ts = new TaskSet(*pool);  // never destroyed: ~TaskSet would only wait()
    ts->scheduleBulk((size_t)VF_N, Gen{0});
    g_submitted = VF_N;
    vf_check(pool->workRemaining_.load() == VF_N, "harness: bulk must be pending (ring fast path taken)");
    if (choice()) {
      size_t start = 0;
      pool->tryExecuteNextFromRings(start);
      vf_reach("waiter stole a ring task before the resize");
    }
    resize_other(*pool, VF_N);
    never_twice();
    vf_check(ts->outstandingTaskCount_.load() == 0, "harness: resize must have run the ring tasks");
    at_quiescence(*pool);
  }
#elif VF_SCN == 2
  // a worker parks (real enterSleep), schedulePlaced claims it and pushes to its steal ring; then either
  // the worker wakes up and runs its loop (real threadLoopImpl, the task stops the worker afterwards) or
  // resize() drains the steal ring
  {
    auto* ws = pool->wakeState_.load();
    int32_t w = (int32_t)vf_range_u32(0, VF_N - 1);
    ws->enterSleep(w);
    g_stop_target = &pool->threads_[(size_t)w];
    pool->schedulePlaced(StopTask{g_submitted++}, ForceQueuingTag());
    vf_check(!pool->stealRings_[(size_t)w].empty(), "harness: placed task must sit in the claimed worker's steal ring");
#ifdef VF_WORKER
    ws->exitSleep(w);
    pool->threadLoopWake(pool->threads_[(size_t)w], w);
    vf_reach("virtual worker ran its loop and was stopped by the task");
#else
    resize_other(*pool, VF_N);
    vf_reach("resize drained the steal ring");
#endif
    never_twice();
    at_quiescence(*pool);
  }
#elif VF_SCN == 3
  // central-queue paths: schedule (inline or queued), schedule(FQ), scheduleBulk(2); waiter drains with
  // tryExecuteNext or not; resize to another size (its own drain); one more round
  pool->schedule(Task{g_submitted++});
  pool->schedule(Task{g_submitted++}, ForceQueuingTag());
  pool->scheduleBulk(2, Gen{g_submitted});
  g_submitted += 2;
  if (choice()) {
    drain_queue(*pool);
    never_twice();
    at_quiescence(*pool);
  }
  resize_other(*pool, VF_N);
  never_twice();
  at_quiescence(*pool);
  pool->schedule(Task{g_submitted++});
  pool->schedulePlaced(Task{g_submitted++});
  drain_queue(*pool);
  at_quiescence(*pool);
#elif VF_SCN == 4
  // a virtual worker runs the real worker loop (batched decrement path, thread_pool.cpp:213-227) over
  // three queued tasks, the last of which stops it
  g_stop_target = &pool->threads_[0];
  pool->schedule(Task{g_submitted++}, ForceQueuingTag());
  pool->schedule(Task{g_submitted++}, ForceQueuingTag());
  pool->schedule(StopTask{g_submitted++}, ForceQueuingTag());
  pool->threadLoopWake(pool->threads_[0], 0);
  never_twice();
  at_quiescence(*pool);
#elif VF_SCN == 5
  // ring overflow: ring 0 is full (16 older tasks pushed through the real try_push), so the fork-join fast
  // path falls back to the central queue for its task (scheduleBulkToRingsFastPath, thread_pool.h:845-851);
  // then optionally a waiter steals one ring task / a helper takes one queue task, then the end
  {
    using pk::Ballast;
    PK_PUSH_IF(pool->rings_[0], true) PK_PUSH_IF(pool->rings_[0], true) PK_PUSH_IF(pool->rings_[0], true)
    PK_PUSH_IF(pool->rings_[0], true) PK_PUSH_IF(pool->rings_[0], true) PK_PUSH_IF(pool->rings_[0], true)
    PK_PUSH_IF(pool->rings_[0], true) PK_PUSH_IF(pool->rings_[0], true) PK_PUSH_IF(pool->rings_[0], true)
    PK_PUSH_IF(pool->rings_[0], true) PK_PUSH_IF(pool->rings_[0], true) PK_PUSH_IF(pool->rings_[0], true)
    PK_PUSH_IF(pool->rings_[0], true) PK_PUSH_IF(pool->rings_[0], true) PK_PUSH_IF(pool->rings_[0], true)
    PK_PUSH_IF(pool->rings_[0], true)
    pool->workRemaining_.fetch_add(16);  // what the producers of the older tasks did
    TaskSet* ts = new TaskSet(*pool);
    ts->scheduleBulk((size_t)VF_N, Gen{0});
    g_submitted = VF_N;
    vf_check(pool->work_.n_ == 1, "harness: ring 0 full, its task must have fallen back to the central queue");
    if (choice()) {
      size_t start = 0;
      pool->tryExecuteNextFromRings(start);
    }
    if (choice()) {
      pool->tryExecuteNext();
    }
    never_twice();
  }
#endif

  finish(pool);
#if VF_SCN == 5 && defined(VF_ONCE)
  vf_check(pk::g_ballast_ran == 16, "an older ring task did not run exactly once by the time ~ThreadPool returned");
#endif
}
