TECHNIQUE = ('bounded symbolic execution of LLVM IR lowered to C: CBMC/SAT (cadical), sequential history harness on the '
             'real ThreadPool with virtual workers (the harness calls the real consumer functions)')
ASSUMPTIONS = [
    'moodycamel::ConcurrentQueue replaced by its contract model (shim/moodycamel, bounded FIFO)',
    'detail::alignedMalloc/alignedFree replaced by their contract (typed fresh block); small-buffer allocator = malloc/free',
    'std::thread start/join modelled: pool threads never run by themselves; the harness performs a worker\'s or '
    'waiter\'s consumption by calling the same real functions (tryExecuteNext, tryExecuteNextFromRings, threadLoopImpl)',
]
OUTSIDE = ('API-call granularity: each API call of the history is atomic (interleavings inside the functions are outside); '
           'histories other than the listed scenario shapes (the shapes are fixed, their parameters - resize target, '
           'which consumer acts, which worker sleeps - are symbolic); pool sizes > 2; steal-ring sharing 1, spin '
           'limits 1/2 and DISPENSO_DISABLE_CASCADE_WAKERANGE (cascade-host wrappers exist only for pools with more '
           'than one wake group) are configuration bounds')

_SRC = ['dispenso/thread_pool.cpp', 'dispenso/thread_pool_wake.cpp', 'dispenso/detail/per_thread_info.cpp',
        'dispenso/task_set.cpp']
_R16 = '_ZN8dispenso21ConcurrentObjectArenaINS_14MpmcRingBufferINS_12OnceFunctionELm16ELb1EEEmLm64EE7grow_byEm.4'
_R4 = '_ZN8dispenso21ConcurrentObjectArenaINS_14MpmcRingBufferINS_12OnceFunctionELm4ELb1EEEmLm64EE7grow_byEm.4'
_RESIZE = '_ZN8dispenso10ThreadPool12resizeLockedEl'
_DTOR = '_ZN8dispenso10ThreadPoolD2Ev'
_LOOP = '_ZN8dispenso10ThreadPool14threadLoopImplILb1EEEvRNS0_13PerThreadDataEi'
SCN = {
    'ring_resize': (1, {}, 'TaskSet::scheduleBulk(N) ring fast path (task i in ring i); optional waiter steal '
                           '(tryExecuteNextFromRings); resize(n\' != N, n\' in 0..2 symbolic)'),
    'steal_resize': (2, {}, 'worker w (symbolic) parks via enterSleep; schedulePlaced(FQ) claims it and pushes to its '
                            'steal ring; resize(n\' != N, symbolic)'),
    'steal_worker': (2, {'VF_WORKER': 1}, 'worker w (symbolic) parks via enterSleep; schedulePlaced(FQ) claims it and '
                                          'pushes to its steal ring; the worker runs the real threadLoopImpl<true> '
                                          '(the task stops it)'),
    'central': (3, {}, 'schedule, schedule(FQ), scheduleBulk(2); optional waiter drain; resize(n\' != N symbolic); '
                       'schedule, schedulePlaced; waiter drain'),
    'worker': (4, {}, 'three schedule(FQ), then a virtual worker runs the real threadLoopImpl<true> (batched '
                      'decrement), the last task stops it'),
    'overflow': (5, {}, 'ring 0 pre-filled to capacity (16 older tasks, real try_push); TaskSet::scheduleBulk(N) falls '
                        'back to the central queue for ring 0; optional waiter steal / helper dequeue'),
}


def inst(kind, n, tiers, prop='VF_ACCT', end='', rt=9, choice=9):
    scn, extra, text = SCN[kind]
    defs = {'VF_N': n, 'VF_SCN': scn, 'VF_MQ_CAP': {1: 2, 2: 2, 3: 6, 4: 4, 5: 2}[scn], prop: 1}
    defs.update(extra)
    defs.update({'VF_RT': rt, 'VF_CHOICE': choice})
    sfx = ('_to%d' % rt if rt != 9 else '') + ('_c%d' % choice if choice != 9 else '')
    return {
        'name': '%s_n%d' % (kind, n) + sfx, 'src': '../C08/hist.cpp', 'engine': 'cbmc', 'shims': ['moodycamel'],
        'repo_sources': _SRC, 'rt_defs': {'VF_HAVE_THREAD_MODEL': 1}, 'models': ['aligned_alloc'],
        'defs': defs,
        'cflags': ['-DDISPENSO_TUNE_STEAL_RING_SHARING=1', '-DDISPENSO_TUNE_FIXED_SPIN_ITERS=2',
                   '-DDISPENSO_TUNE_SPIN_CHECK_INTERVAL=1', '-DDISPENSO_TUNE_QUEUE_CHECK_INTERVAL=1',
                   '-DDISPENSO_DISABLE_CASCADE_WAKERANGE'],
        'unwind': 3, 'nthreads': 1, 'spin_loops': True, 'unwindset': {_R16: 17, _R4: 5},
        'unwind_fn': {_RESIZE: 6, _DTOR: 6} if scn == 3 else ({_DTOR: 18} if scn == 5 else ({_LOOP: 6} if scn == 4 else {})),
        'checks': ['--no-standard-checks', '--div-by-zero-check'],
        'timeout': 2700, 'tiers': tiers,
        'bounds': 'ThreadPool(%d), model queue capacity %d, steal-ring capacity 4; history: %s%s' % (n, defs['VF_MQ_CAP'], text, end),
    }


INSTANCES = [
    inst('ring_resize', 1, ['quick', 'thorough'], rt=0, choice=0),
    inst('steal_resize', 1, ['thorough'], rt=0),
    inst('worker', 1, ['thorough']),
    inst('ring_resize', 1, ['thorough']),
    inst('steal_resize', 1, ['thorough']),
    inst('steal_worker', 1, ['thorough']),
    inst('central', 1, ['thorough']),
    inst('central', 0, ['thorough']),
    inst('ring_resize', 2, ['thorough']),
    inst('steal_resize', 2, ['thorough']),
    inst('central', 2, ['thorough']),
]
