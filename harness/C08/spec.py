TECHNIQUE = ('bounded symbolic execution of LLVM IR lowered to C: CBMC/SAT (cadical), sequential history harness on the '
             'real ThreadPool with virtual workers (the harness calls the real consumer functions)')
ASSUMPTIONS = [
    'moodycamel::ConcurrentQueue replaced by its contract model (shim/moodycamel, bounded FIFO)',
    'detail::alignedMalloc/alignedFree replaced by their contract (typed fresh block)',
    'std::thread start/join modelled: pool threads never run by themselves; the harness performs a worker\'s or '
    'waiter\'s consumption by calling the same real functions (tryExecuteNext, tryExecuteNextFromRings, '
    'TaskSet::wait, threadLoopImpl)',
]
OUTSIDE = ('API-call granularity: each API call of the history is atomic (interleavings inside the functions are outside); '
           'histories other than the listed scenario shapes (the shapes are fixed, their parameters - resize target, '
           'which consumer acts, which worker sleeps - are symbolic); pool sizes > 2; steal-ring sharing 1 and spin '
           'limits 1/2 are configuration bounds')

_SRC = ['dispenso/thread_pool.cpp', 'dispenso/thread_pool_wake.cpp', 'dispenso/detail/per_thread_info.cpp',
        'dispenso/task_set.cpp']
_R16 = '_ZN8dispenso21ConcurrentObjectArenaINS_14MpmcRingBufferINS_12OnceFunctionELm16ELb1EEEmLm64EE7grow_byEm.4'
_R4 = '_ZN8dispenso21ConcurrentObjectArenaINS_14MpmcRingBufferINS_12OnceFunctionELm4ELb1EEEmLm64EE7grow_byEm.4'
_SCN = {
    1: 'TaskSet::scheduleBulk(N) ring fast path; optional waiter steal (tryExecuteNextFromRings); resize(n\' != N, '
       'n\' in 0..2 symbolic); ~TaskSet; schedule(FQ); waiter drain; ~ThreadPool',
    2: 'worker w (symbolic) parks via enterSleep; schedulePlaced(FQ) claims it and pushes to its steal ring; then '
       'symbolically either the worker runs the real threadLoopImpl (task stops it) or resize(n\' != N); ~ThreadPool',
    3: 'schedule, schedule(FQ), scheduleBulk(2) ; optional waiter drain; resize(n\' != N symbolic); schedule, '
       'schedulePlaced; waiter drain; ~ThreadPool',
    4: 'three schedule(FQ) then a virtual worker runs the real threadLoopImpl<true> (batched decrement), the last '
       'task stops it; ~ThreadPool',
}


def inst(scn, n, tiers, prop='VF_ACCT'):
    return {
        'name': 'scn%d_n%d' % (scn, n), 'src': '../C08/hist.cpp', 'engine': 'cbmc', 'shims': ['moodycamel'],
        'repo_sources': _SRC, 'rt_defs': {'VF_HAVE_THREAD_MODEL': 1}, 'models': ['aligned_alloc'],
        'defs': {'VF_N': n, 'VF_SCN': scn, 'VF_MQ_CAP': 6, prop: 1, 'VF_NODTOR': 1},
        'cflags': ['-DDISPENSO_TUNE_STEAL_RING_SHARING=1', '-DDISPENSO_TUNE_FIXED_SPIN_ITERS=2',
                   '-DDISPENSO_TUNE_SPIN_CHECK_INTERVAL=1', '-DDISPENSO_TUNE_QUEUE_CHECK_INTERVAL=1', '-DDISPENSO_DISABLE_CASCADE_WAKERANGE'],
        'unwind': 3, 'nthreads': 1, 'spin_loops': True, 'unwindset': {_R16: 17, _R4: 5}, 'timeout': 900, 'tiers': tiers,
        'bounds': 'ThreadPool(%d), model queue capacity 6, steal-ring capacity 4; history: %s' % (n, _SCN[scn]),
    }


INSTANCES = [
    inst(1, 1, ['quick', 'thorough']),
    inst(2, 1, ['quick', 'thorough']),
    inst(3, 1, ['quick', 'thorough']),
    inst(4, 1, ['quick', 'thorough']),
    inst(3, 0, ['quick', 'thorough']),
    inst(1, 2, ['thorough']),
    inst(2, 2, ['thorough']),
    inst(3, 2, ['thorough']),
]
