// C12: parallel_for calls the body on chunks that exactly partition [start, end).
// See pf_common.h for the real functions encoded, the mock task set and the configuration macros.
#define VF_C13 0
#include "pf_common.h"

extern "C" void vf_main() {
  vf_pf_driver();
}
