// Shared by harness/C12 (partition) and harness/C13 (granularity contract).
//
// The REAL dispenso::parallel_for (all overloads reachable from the TaskSetT& entry points),
// adjustChunkSizing, computeGranularity, ChunkedRange::calcChunkSize, parallel_for_staticImpl,
// StaticChunkMapper, staticChunkSize(Granular), parallel_for_adaptiveWaitDispatch, initStripeState,
// alignDownStripe, stripeClaim, pickStripeFromMasks, runStripeWorker, parallel_for_dynamicImpl,
// parallel_for_dynamicNoWaitDispatch are instantiated over the mock task set below (TaskSetT is a
// template parameter of parallel_for, so nothing of the code under test is re-implemented).
//
// Configuration (-D):
//   VF_T      index type (int8_t ... uint64_t)
//   VF_MODE   0 static chunking, 1 adaptive (kAuto) chunking, 2 explicit chunk size (ChunkedRange(s,e,c))
//   VF_API    0 chunked body f(begin,end) via parallel_for(ts, start, end, f, opts) / (ts, ChunkedRange, f, opts)
//             1 per-index body f(i) via parallel_for(ts, start, end, f, opts)
//   VF_ENTRY  (VF_API 0, VF_MODE 0/1) 0: parallel_for(ts, start, end, f, opts); 1: parallel_for(ts, makeChunkedRange(..), f, opts)
//   VF_EDGE   0: any start; k: start within k of the type's minimum, of zero or of the type's maximum
//   VF_CTX    1: symbolic caller context (pool thread or not, ring index, nesting level); 0: plain external caller
//   VF_L3     largest number of L3 cache groups reported by CpuSet::l3CacheGroups() (0..2)
//   VF_NLO    smallest pool size
//   VF_S      bound on the range size; 0 = unbounded (8-bit types: the whole (start,end) square)
//   VF_N      largest pool size (numPoolThreads in 0..VF_N)
//   VF_GLO/VF_GHI  granularity range
//   VF_HI     0: range ends at least 1024 below the type's maximum; 1: range ends within 1024 of the
//             type's maximum; 2: anywhere  (only meaningful for VF_S != 0)
//   VF_WAIT   0/1 fixed, 2 symbolic
//   VF_ALIGNED_START 1: start is a multiple of the granularity (C13 sub-case), 0: any start
//   VF_C13    0: C12 assertions (partition); 1: C13 assertions (granularity contract)
#pragma once
#include <new>
#include <utility>
#include <cstdint>
#include <cstdlib>
#include <limits>
#include <type_traits>

// Lower layer replaced by its contract in the solver build: detail::alignedMalloc/alignedFree
// (platform.h) compute the aligned address through pointer->integer->pointer arithmetic, which is
// decided bit-precisely by property C44; here only "a fresh block of >= bytes, suitably aligned"
// matters.  The native replay build (address sanitizer on) uses the real functions.
#if defined(__has_feature)
#if __has_feature(address_sanitizer)
#define VF_NATIVE_REPLAY 1
#endif
#endif
#ifndef VF_NATIVE_REPLAY
#define alignedMalloc alignedMalloc_real
#define alignedFree alignedFree_real
#include <dispenso/platform.h>
#undef alignedMalloc
#undef alignedFree
namespace dispenso {
namespace detail {
inline void* alignedMalloc(size_t bytes, size_t alignment) {
  (void)alignment;
  return ::malloc(bytes);
}
inline void* alignedMalloc(size_t bytes) {
  return ::malloc(bytes);
}
inline void alignedFree(void* ptr) {
  ::free(ptr);
}
} // namespace detail
} // namespace dispenso
#endif

#include <dispenso/parallel_for.h>
#include "vf.h"

#ifndef VF_T
#define VF_T int32_t
#endif
#ifndef VF_MODE
#define VF_MODE 0
#endif
#ifndef VF_API
#define VF_API 0
#endif
#ifndef VF_S
#define VF_S 8
#endif
#ifndef VF_N
#define VF_N 3
#endif
#ifndef VF_EDGE
#define VF_EDGE 0
#endif
#ifndef VF_CTX
#define VF_CTX 1
#endif
#ifndef VF_L3
#define VF_L3 2
#endif
#ifndef VF_NLO
#define VF_NLO 0
#endif
#ifndef VF_GLO
#define VF_GLO 1
#endif
#ifndef VF_GHI
#define VF_GHI 4
#endif
#ifndef VF_HI
#define VF_HI 2
#endif
#ifndef VF_WAIT
#define VF_WAIT 2
#endif
#ifndef VF_ALIGNED_START
#define VF_ALIGNED_START 0
#endif
#ifndef VF_ENTRY
#define VF_ENTRY 0
#endif
#ifndef VF_C13
#define VF_C13 0
#endif
#ifndef VF_MINITEMS_HI
#define VF_MINITEMS_HI 4
#endif
#ifndef VF_CHUNK_HI
#define VF_CHUNK_HI 4
#endif

typedef VF_T IntT;
typedef std::numeric_limits<IntT> Lim;
typedef dispenso::ChunkedRange<IntT>::size_type WideT;

// ------------------------------------------------------------------------------------------------
// Environment contract stubs: these three functions are defined in dispenso .cpp files that are not
// part of the check; parallel_for only relies on the contracts stated here.
// ------------------------------------------------------------------------------------------------
namespace dispenso {
namespace detail {
// per-thread record of the calling thread (task-granularity model: one thread of control)
static PerThreadInfo g_vf_pti;
PerThreadInfo& PerPoolPerThreadInfo::info() {
  return g_vf_pti;
}
// small-buffer pool: a fresh block of at least 4 << ordinal bytes / give it back
char* allocSmallBufferImpl(size_t ordinal) {
  return static_cast<char*>(::malloc(size_t{4} << ordinal));
}
void deallocSmallBufferImpl(size_t, void* buf) {
  ::free(buf);
}
} // namespace detail

// L3 topology: a process-wide constant vector with 0..2 groups (the code under test looks at
// empty() and size() only).  Kept in raw storage so that no destructor ever runs on it.
alignas(std::vector<CacheGroup>) static char g_vf_l3_store[sizeof(std::vector<CacheGroup>)];
alignas(CacheGroup) static char g_vf_l3_groups[2 * sizeof(CacheGroup)];
const std::vector<CacheGroup>& CpuSet::l3CacheGroups() {
  return *reinterpret_cast<std::vector<CacheGroup>*>(g_vf_l3_store);
}
} // namespace dispenso

static void vf_set_l3_groups(uint32_t k) {
  auto* v = reinterpret_cast<std::vector<dispenso::CacheGroup>*>(dispenso::g_vf_l3_store);
  auto* g = reinterpret_cast<dispenso::CacheGroup*>(dispenso::g_vf_l3_groups);
  v->_M_impl._M_start = k ? g : nullptr;
  v->_M_impl._M_finish = k ? g + k : nullptr;
  v->_M_impl._M_end_of_storage = k ? g + 2 : nullptr;
}

// ------------------------------------------------------------------------------------------------
// Mock task set (template argument TaskSetT of parallel_for).  It offers exactly the surface
// parallel_for uses: numPoolThreads(), pool(), scheduleBulk(count, gen), wait().
// Contract modelled: scheduleBulk calls gen(i) for i = 0..count-1 in order and hands every produced
// closure to the pool; a closure runs exactly once, to completion, at some later scheduling point:
// right after it was produced (= inline execution), after a later gen(j), or inside wait().  Which
// closure runs at which point is a symbolic choice ("task-granularity interleaving").
// ------------------------------------------------------------------------------------------------
struct MockPool {
  int dummy;
};

struct MockTaskSet {
  static constexpr uint32_t kMax = VF_N + 1;
  MockPool pool_;
  ssize_t nthreads;
  void* slots[kMax];  // queued closures of the current bulk (all of one type), null once run
  uint32_t nslots;
  uint32_t npending;
  // runs every still-queued closure in a symbolically chosen order (typed: set by scheduleBulk)
  void (*drain)(MockTaskSet*);

  ssize_t numPoolThreads() const {
    return nthreads;
  }
  MockPool& pool() {
    return pool_;
  }

  template <typename Fn>
  void runOnePending() {
    uint32_t k = vf_range_u32(0, kMax - 1);
    vf_assume(k < nslots && slots[k] != nullptr);
    Fn* f = static_cast<Fn*>(slots[k]);
    slots[k] = nullptr;
    --npending;
    (*f)();
    delete f;
  }

  template <typename Fn>
  static void drainImpl(MockTaskSet* self) {
    while (self->npending) {
      self->runOnePending<Fn>();
    }
  }

  template <typename Gen>
  void scheduleBulk(size_t count, Gen&& gen) {
    typedef decltype(gen(size_t{0})) Fn;
    // parallel_for issues one bulk per call
    vf_check(npending == 0 && nslots == 0, "harness bound: one scheduleBulk per parallel_for call");
    drain = &drainImpl<Fn>;
    for (size_t i = 0; i < count; ++i) {
      // more closures than pool threads + 1 are never produced by parallel_for inside the bounds
      vf_check(nslots < kMax, "harness bound: mock task set capacity suffices");
      if (nslots >= kMax) {
        return;
      }
      slots[nslots] = new Fn(gen(i));
      ++nslots;
      ++npending;
    }
    // scheduling point: pool threads may run any of the queued closures, in any order, before the
    // caller continues (covers inline execution inside scheduleBulk as well: gen(i) only builds
    // closures and does not interact with running ones)
    while (npending && vf_nondet_bool()) {
      runOnePending<Fn>();
    }
  }

  bool wait() {
    if (npending) {
      drain(this);
    }
    return false;
  }
};

// ------------------------------------------------------------------------------------------------
// Ghost state and the loop bodies
// ------------------------------------------------------------------------------------------------
static IntT g_start, g_end, g_x;
static bool g_done;          // set once the wait (parallel_for(wait=true) / taskSet.wait()) returned
static uint32_t g_cover;     // number of invocations whose chunk contains the probe index g_x
static uint32_t g_calls;
static uint32_t g_gran;      // effective granularity contract (1 = none)
static uint32_t g_odd;       // invocations whose size is not a multiple of g_gran
static uint32_t g_odd_inner; // ... and that do not end at the range end
#if VF_S
static uint8_t g_mod[VF_S + 1]; // i % g_gran (table: keeps 64-bit division out of every body call)
#else
static uint8_t g_mod[256];
#endif

VF_NOINLINE static void vf_fill_mod_table(uint32_t g) {
  uint8_t r = 0;
  for (uint32_t i = 0; i < sizeof(g_mod); ++i) {
    g_mod[i] = r;
    r = static_cast<uint8_t>(r + 1 == g ? 0 : r + 1);
  }
}

static inline uint32_t g_gran_of(uint32_t g) {
  return g < 1 ? 1 : g;
}

static inline uint64_t vf_wide(IntT v) {
  return static_cast<uint64_t>(static_cast<WideT>(v));
}

struct ChunkBody {
  void operator()(IntT b, IntT e) const {
    vf_check(!g_done, "no body invocation after the wait returned");
    ++g_calls;
#if !VF_C13
    vf_check(b < e, "every chunk is non-empty");
    vf_check(g_start <= b && e <= g_end, "every chunk lies inside [start, end)");
    if (b <= g_x && g_x < e) {
      ++g_cover;
    }
#else
    uint64_t sz = vf_wide(e) - vf_wide(b);
    bool valid = b < e && sz < sizeof(g_mod);
    vf_check(valid, "chunk bounds form a non-empty sub-range no larger than the whole range");
    if (valid && g_gran > 1 && g_mod[sz] != 0) {
      ++g_odd;
      if (e != g_end) {
        ++g_odd_inner;
      }
    }
#endif
  }
};

struct IndexBody {
  void operator()(IntT i) const {
    vf_check(!g_done, "no body invocation after the wait returned");
    ++g_calls;
    vf_check(g_start <= i && i < g_end, "every visited index lies inside [start, end)");
    if (i == g_x) {
      ++g_cover;
    }
  }
};

// ------------------------------------------------------------------------------------------------
// Driver
// ------------------------------------------------------------------------------------------------
static IntT vf_nondet_int() {
  switch (sizeof(IntT)) {
    case 1:
      return static_cast<IntT>(vf_nondet_u8());
    case 2:
      return static_cast<IntT>(vf_nondet_u16());
    case 4:
      return static_cast<IntT>(vf_nondet_u32());
    default:
      return static_cast<IntT>(vf_nondet_u64());
  }
}

static void vf_pf_driver() {
  // ---- range
  IntT start = vf_nondet_int();
#if VF_EDGE
  {
    // edge-biased start: within VF_EDGE of the type's minimum, of zero, or of the type's maximum
    uint64_t ws = vf_wide(start);
    uint64_t lo = vf_wide(Lim::min()), hi = vf_wide(Lim::max());
    bool nearMin = ws - lo <= VF_EDGE;
    bool nearMax = hi - ws <= VF_EDGE;
    bool nearZero = ws <= VF_EDGE || (Lim::is_signed && (uint64_t)0 - ws <= VF_EDGE);
    vf_assume(nearMin || nearMax || nearZero);
  }
#endif
  IntT end;
#if VF_S
  {
    uint32_t size = vf_range_u32(0, VF_S);
    // end = start + size must be representable
    vf_assume(vf_wide(Lim::max()) - vf_wide(start) >= size);
    end = static_cast<IntT>(start + static_cast<IntT>(size));
#if VF_HI == 0
    vf_assume(vf_wide(Lim::max()) - vf_wide(end) >= 1024);
#elif VF_HI == 1
    vf_assume(vf_wide(Lim::max()) - vf_wide(end) < 1024);
#endif
    if (vf_nondet_bool()) { // inverted range: must behave as empty
      IntT t = start;
      start = end;
      end = t;
    }
  }
#else
  end = vf_nondet_int();
#endif
  g_start = start;
  g_end = end;
  g_x = vf_nondet_int();

  // ---- pool, thread context, topology
  MockTaskSet ts;
  ts.nthreads = static_cast<ssize_t>(vf_range_u32(VF_NLO, VF_N));
  ts.nslots = 0;
  ts.npending = 0;
  ts.drain = nullptr;
  MockPool otherPool;
  {
    // the caller is: not a pool thread / a thread of this pool with ring index 0..N-1 or none /
    // a thread of another pool; it is inside an enclosing parallel_for (nesting) or not.
#if VF_CTX
    uint32_t who = vf_range_u32(0, 2);
#else
    uint32_t who = 0;
#endif
    auto& pti = dispenso::detail::g_vf_pti;
    pti.pool = who == 0 ? nullptr : who == 1 ? static_cast<void*>(&ts.pool_) : static_cast<void*>(&otherPool);
    pti.ringIndex = who == 0 ? -1 : static_cast<int32_t>(vf_range_u32(0, VF_N + 1)) - 1;
#if VF_CTX
    pti.parForRecursionLevel = vf_nondet_bool() ? 1 : 0;
#else
    pti.parForRecursionLevel = 0;
#endif
  }
#if VF_L3
  vf_set_l3_groups(vf_range_u32(0, VF_L3));
#else
  vf_set_l3_groups(0);
#endif

  // ---- options
  dispenso::ParForOptions opts;
  {
    // 0..N+2, or one of the extreme encodings (default INT32_MAX, values with the sign bit set)
    uint32_t mt = vf_nondet_u32();
    vf_assume(mt <= VF_N + 2 || mt == 0x7fffffffu || mt == 0x80000000u || mt == 0xffffffffu);
    opts.maxThreads = mt;
  }
  opts.minItemsPerChunk = vf_range_u32(0, VF_MINITEMS_HI);
  opts.granularity = vf_range_u32(VF_GLO, VF_GHI);
#if VF_WAIT == 2
  opts.wait = vf_nondet_bool();
#else
  opts.wait = VF_WAIT;
#endif
  opts.reuseExistingState = vf_nondet_bool();
#if VF_MODE == 1
  opts.defaultChunking = dispenso::ParForChunking::kAdaptive;
#else
  opts.defaultChunking = dispenso::ParForChunking::kStatic;
#endif
#if VF_ALIGNED_START
  // start is a multiple of the granularity (floor semantics for negative starts)
  vf_assume(static_cast<WideT>(start) % static_cast<WideT>(g_gran_of(opts.granularity)) == 0);
#endif
#if VF_MODE == 2
  g_gran = 1; // documented: granularity is ignored when an explicit chunk size is given
#else
  g_gran = opts.granularity < 1 ? 1 : opts.granularity;
#endif
#if VF_C13
  vf_fill_mod_table(g_gran);
#endif

  // ---- the call
#if VF_API == 1
  dispenso::parallel_for(ts, start, end, IndexBody(), opts);
#elif VF_MODE == 2
  {
    IntT chunk = static_cast<IntT>(vf_range_u32(1, VF_CHUNK_HI));
    dispenso::parallel_for(ts, dispenso::ChunkedRange<IntT>(start, end, chunk), ChunkBody(), opts);
  }
#else
#if VF_ENTRY == 0
  dispenso::parallel_for(ts, start, end, ChunkBody(), opts);
#else
  dispenso::parallel_for(
      ts, dispenso::makeChunkedRange(start, end, opts.defaultChunking), ChunkBody(), opts);
#endif
#endif

  if (opts.wait) {
    vf_check(ts.npending == 0, "parallel_for(wait=true) returns only after every scheduled task ran");
  } else {
    ts.wait();
  }
  g_done = true;

  // ---- the property
  uint32_t expected = (start <= g_x && g_x < end) ? 1u : 0u;
#if !VF_C13
  vf_check(g_cover == expected, "probe index visited exactly once iff inside [start, end)");
  vf_check(start < end || g_calls == 0, "empty range: body never invoked");
#else
  vf_check(g_odd <= 1, "at most one invocation has a size that is not a multiple of the granularity");
  vf_check(g_odd_inner == 0, "an invocation with a non-multiple size ends at the range end");
#endif
  (void)expected;
}
