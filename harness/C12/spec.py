TECHNIQUE = ('bounded symbolic execution of LLVM IR lowered to C: CBMC/SAT (cadical); real parallel_for '
             'instantiated over a mock TaskSetT, sequential task-granularity scheduler harness')
ASSUMPTIONS = []
OUTSIDE = ''

CODE = {'int8_t': 'a', 'uint8_t': 'h', 'int16_t': 's', 'uint16_t': 't', 'int32_t': 'i', 'uint32_t': 'j',
        'int64_t': 'l', 'uint64_t': 'm'}


def stripe_unwindset(T, S, N, body='9ChunkBody'):
    """per-loop bounds for detail::runStripeWorker (loop ids = order of the back edges in the lowered C):
    .0/.1 own-stripe drain, .2 warm retry of the last victim, .3/.4 mask scans (one mask word),
    .5 cpuRelax back-off (unreachable without true concurrency), .6 outer steal loop."""
    c = CODE[T]
    fn = ('_ZN8dispenso6detail15runStripeWorkerI%sZNS_12parallel_forI11MockTaskSet%s%sEEvRT_RKNS_12ChunkedRangeIT0_EE'
          'OT1_NS_13ParForOptionsEEUliS5_S8_E_iEEvRNS0_11StripeStateIS5_EEjRSC_RS8_') % (c, c, body)
    return {fn + '.0': S + 2, fn + '.1': S + 2, fn + '.2': S + 2, fn + '.3': 2, fn + '.4': 2, fn + '.5': 2,
            fn + '.6': N + 4}


def inst(name, T, mode, S, N, unwind=None, tiers=('quick', 'thorough'), timeout=600, **kw):
    defs = {'VF_T': T, 'VF_MODE': mode, 'VF_S': S, 'VF_N': N}
    defs.update(kw)
    d = {'name': name, 'src': 'pfor.cpp', 'engine': 'cbmc', 'defs': defs, 'unwind': unwind or S + 2,
         'timeout': timeout, 'tiers': list(tiers), 'bounds': 'x'}
    if mode == 1:
        d['unwindset'] = stripe_unwindset(T, S, N)
    return d


INSTANCES = [
    inst('i32_static', 'int32_t', 0, 6, 2),
    inst('i32_adaptive', 'int32_t', 1, 6, 2, VF_WAIT=1),
]
