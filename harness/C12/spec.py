TECHNIQUE = ('bounded symbolic execution of LLVM IR lowered to C: CBMC/SAT (cadical); the real parallel_for '
             'instantiated over a mock TaskSetT, sequential task-granularity scheduler harness')
ASSUMPTIONS = [
    'mock TaskSetT contract: scheduleBulk(count, gen) builds gen(0..count-1) in order; every closure runs exactly once, '
    'to completion, either before scheduleBulk returns or inside wait(), in a symbolically chosen order '
    '(task-granularity interleaving: chunk bodies and claim loops are not interleaved at instruction level)',
    'PerPoolPerThreadInfo::info() is one per-thread record with symbolic initial content (pool thread of this pool / of '
    'another pool / external thread, ring index -1..N, enclosing parallel_for or not)',
    'CpuSet::l3CacheGroups() is a constant vector with 0..2 groups; allocSmallBufferImpl/deallocSmallBufferImpl = malloc/free',
    'detail::alignedMalloc/alignedFree replaced by their contract (fresh block / free) in the solver build (decided '
    'bit-precisely by C44); the native replay uses the real ones',
    'explicit chunk sizes are positive; ranges with start > end count as empty',
]
OUTSIDE = ('adaptive (stripe) and dynamic (explicit chunk / no-wait auto) scheduling: encoded (instances of tier '
           '"experimental", harness stripe.cpp) but the solver runs do not finish within the limits because the stripe '
           'state lives in one raw byte buffer; instruction-level interleaving of claim loops; range sizes and pool sizes '
           'above the stated bounds; ParForOptions::granularity > 4, minItemsPerChunk > 4; mixed index types; stateful '
           'overloads with a real state container')

CODE = {'int8_t': 'a', 'uint8_t': 'h', 'int16_t': 's', 'uint16_t': 't', 'int32_t': 'i', 'uint32_t': 'j',
        'int64_t': 'l', 'uint64_t': 'm'}
MODE = {0: 'static chunking', 1: 'adaptive chunking', 2: 'explicit chunk size 1..4'}


def stripe_unwindset(T, S, N, body='9ChunkBody'):
    """per-loop bounds for detail::runStripeWorker (loop ids = order of the back edges in the lowered C):
    .0/.1 own-stripe drain, .2 warm retry of the last victim, .3/.4 mask scans (one mask word),
    .5 cpuRelax back-off (unreachable without true concurrency), .6 outer steal loop."""
    c = CODE[T]
    fn = ('_ZN8dispenso6detail15runStripeWorkerI%sZNS_12parallel_forI11MockTaskSet%s%sEEvRT_RKNS_12ChunkedRangeIT0_EE'
          'OT1_NS_13ParForOptionsEEUliS5_S8_E_iEEvRNS0_11StripeStateIS5_EEjRSC_RS8_') % (c, c, body)
    return {fn + '.0': S + 2, fn + '.1': S + 2, fn + '.2': S + 2, fn + '.3': 2, fn + '.4': 2, fn + '.5': 2,
            fn + '.6': N + 4}


def bounds(T, mode, S, N, kw):
    size = 'every (start, end) pair of the type' if S == 0 else \
        'any start of the type with end - start in 0..%d (both type limits included) or start/end swapped' % S
    if kw.get('VF_EDGE'):
        size += ', start within %d of the type minimum, of zero or of the type maximum' % kw['VF_EDGE']
    api = 'per-index body f(i)' if kw.get('VF_API') == 1 else 'chunk body f(begin, end)'
    return ('%s, %s, %s; %s; numPoolThreads %d..%d; maxThreads 0..%d, INT32_MAX, 2^31, UINT32_MAX; minItemsPerChunk '
            '0..4; granularity 1..4; wait true/false; symbolic probe index; symbolic caller context and task order' % (
                T, MODE[mode], api, size, kw.get('VF_NLO', 0), N, N + 2))


def inst(name, T, mode, S, N, unwind=None, tiers=('quick', 'thorough'), timeout=900, **kw):
    defs = {'VF_T': T, 'VF_MODE': mode, 'VF_S': S, 'VF_N': N}
    defs.update(kw)
    d = {'name': name, 'src': 'pfor.cpp', 'engine': 'cbmc', 'defs': defs, 'unwind': unwind or S + 2,
         'timeout': timeout, 'tiers': list(tiers), 'bounds': bounds(T, mode, S, N, kw)}
    if mode == 1:
        d['unwindset'] = stripe_unwindset(T, S, N)
    return d


def stripe(name, T, S, W, tiers=('experimental',), timeout=1800, **kw):
    defs = {'VF_T': T, 'VF_S': S, 'VF_W': W, 'VF_L3': 0}
    defs.update(kw)
    fn = '_ZN8dispenso6detail15runStripeWorkerI%s17StatefulChunkBodyiEEvRNS0_11StripeStateIT_EEjRT1_RT0_' % CODE[T]
    us = {fn + '.0': S + 2, fn + '.1': S + 2, fn + '.2': S + 2, fn + '.3': 2, fn + '.4': 2, fn + '.5': 2, fn + '.6': W + 3}
    return {'name': name, 'src': 'stripe.cpp', 'engine': 'cbmc', 'defs': defs, 'unwind': S + 2, 'unwindset': us,
            'timeout': timeout, 'tiers': list(tiers),
            'bounds': '%s, parallel_for_adaptiveWaitDispatch with %d stripe workers, range size 1..%d' % (T, W, S)}


Q = ('quick', 'thorough')
TH = ('thorough',)
EX = ('experimental',)
def kernel(name, T, S, W, tiers, timeout=900, **kw):
    defs = {'VF_T': T, 'VF_S': S, 'VF_W': W, 'VF_L3': 0, 'VF_GLO': 1, 'VF_GHI': 4, 'VF_C13': 0, 'VF_HI': 2}
    defs.update(kw)
    return {'name': name, 'src': '../C13/stripe_kernel.cpp', 'engine': 'cbmc', 'defs': defs, 'unwind': S + 3, 'timeout': timeout,
            'tiers': list(tiers),
            'bounds': '%s: stripes of one adaptive parallel_for set up by the real calcChunkSize + initStripeState for %d workers, '
                      'range size 1..%d, granularity 1..4, start anywhere (VF_HI=%s); every stripe claimed to exhaustion with the '
                      'real stripeClaim (single thread); symbolic probe index' % (T, W, S, defs['VF_HI'])}


INSTANCES = [
    kernel('i32_kernel', 'int32_t', 8, 2, ('quick', 'thorough')),
    kernel('u64_kernel_hi', 'uint64_t', 8, 2, ('quick', 'thorough'), VF_HI=1),
    kernel('i64_kernel_hi', 'int64_t', 8, 2, ('thorough',), VF_HI=1),
    # static chunking: real parallel_for -> adjustChunkSizing/computeGranularity -> parallel_for_staticImpl
    inst('i32_static', 'int32_t', 0, 4, 2, tiers=Q, timeout=700, thorough={'timeout': 1700}),
    # the instances below exceed the quick limits on the shared machine (measured: 4.5 min alone for int32 with size <= 8,
    # N <= 3; > 15 min with 8 solver processes in parallel); thorough runs them with a long timeout
    inst('i32_static_wide', 'int32_t', 0, 8, 3, tiers=TH, timeout=1700),
    inst('u64_static', 'uint64_t', 0, 5, 2, tiers=TH, VF_EDGE=24, timeout=1700),
    inst('i8_static', 'int8_t', 0, 5, 2, tiers=EX, timeout=1700),
    inst('i32_static_index', 'int32_t', 0, 4, 2, tiers=EX, VF_API=1, VF_CTX=0, timeout=1700),
    inst('u8_static', 'uint8_t', 0, 6, 3, tiers=EX),
    inst('i16_static', 'int16_t', 0, 6, 3, tiers=EX),
    inst('u16_static', 'uint16_t', 0, 6, 3, tiers=EX),
    inst('u32_static', 'uint32_t', 0, 6, 3, tiers=EX),
    inst('i64_static', 'int64_t', 0, 6, 3, tiers=EX, VF_EDGE=24),
    # encoded but not finishing (see NOTES.md): run with --tier experimental --only <name>
    inst('i32_adaptive', 'int32_t', 1, 4, 1, tiers=EX, VF_WAIT=1, VF_NLO=1, VF_L3=0, VF_CTX=0, timeout=1800),
    dict(inst('i32_adaptive_m', 'int32_t', 1, 4, 1, tiers=EX, VF_WAIT=1, VF_NLO=1, VF_L3=0, VF_CTX=0, timeout=1800), models=['aligned_alloc']),
    dict(stripe('i32_stripe_m', 'int32_t', 6, 2), models=['aligned_alloc']),
    inst('u64_adaptive_hi', 'uint64_t', 1, 4, 1, tiers=EX, VF_WAIT=1, VF_NLO=1, VF_L3=0, VF_CTX=0, VF_HI=1, timeout=1800),
    inst('i32_chunk', 'int32_t', 2, 6, 2, tiers=EX, VF_CTX=0, timeout=1800),
    stripe('i32_stripe', 'int32_t', 6, 2),
    stripe('u64_stripe_hi', 'uint64_t', 6, 2, VF_HI=1),
]
