// C12/C13, adaptive (stripe) scheduling entered one level below parallel_for:
// detail::parallel_for_adaptiveWaitDispatch -> ChunkedRange::calcChunkSize, initStripeState, alignDownStripe,
// runStripeWorker, stripeClaim, pickStripeFromMasks (all real code) with a CONCRETE number of stripe
// workers VF_W, which keeps the layout of the single stripe buffer constant (the same code reached
// through parallel_for has a symbolic buffer layout and does not finish within the time limits).
// The preconditions parallel_for establishes before this call (parallel_for.h:571-654) are assumed:
//   parRange = [start, trimmedEnd) is non-empty and its size is a multiple of the granularity,
//   numToLaunch = VF_W-1 >= 1 pool threads exist, size > number of workers (else static is chosen),
//   minItemsPerChunk > 1 => size / (workers + 1) >= minItemsPerChunk (adjustChunkSizing).
#ifndef VF_W
#define VF_W 2
#endif
#define VF_N (VF_W - 1)
#define VF_MODE 1
#include "pf_common.h"

struct StatefulChunkBody {
  void operator()(int, IntT b, IntT e) const {
    ChunkBody()(b, e);
  }
};

extern "C" void vf_main() {
  IntT start = vf_nondet_int();
  uint32_t size = vf_range_u32(1, VF_S);
  vf_assume(vf_wide(Lim::max()) - vf_wide(start) >= size);
  IntT end = static_cast<IntT>(start + static_cast<IntT>(size));
#if VF_HI == 0
  vf_assume(vf_wide(Lim::max()) - vf_wide(end) >= 1024);
#elif VF_HI == 1
  vf_assume(vf_wide(Lim::max()) - vf_wide(end) < 1024);
#endif
  uint32_t g = vf_range_u32(VF_GLO, VF_GHI);
  uint32_t minItems = vf_range_u32(1, VF_MINITEMS_HI);
  vf_assume(size > VF_W);
  vf_assume(minItems <= 1 || size / (VF_W + 1) >= minItems);
  vf_assume(size % g == 0);
#if VF_ALIGNED_START
  vf_assume(static_cast<WideT>(start) % static_cast<WideT>(g) == 0);
#endif
  g_start = start;
  g_end = end;
  g_x = vf_nondet_int();
  g_gran = g;
#if VF_C13
  vf_fill_mod_table(g_gran);
#endif
  MockTaskSet ts;
  ts.nthreads = VF_W - 1;
  ts.nslots = 0;
  ts.npending = 0;
  ts.drain = nullptr;
  dispenso::detail::g_vf_pti.pool = nullptr;
  dispenso::detail::g_vf_pti.parForRecursionLevel = 0;
#if VF_L3
  vf_set_l3_groups(vf_range_u32(0, VF_L3));
#else
  vf_set_l3_groups(0);
#endif
  dispenso::detail::NoOpContainer states;
  dispenso::ChunkedRange<IntT> parRange(start, end, dispenso::ChunkedRange<IntT>::Auto());
  StatefulChunkBody f;
  dispenso::detail::parallel_for_adaptiveWaitDispatch(ts, states, parRange, f, size_t{VF_W - 1}, minItems, g);
  vf_check(ts.npending == 0, "adaptive dispatch returns only after every scheduled task ran");
  g_done = true;
#if !VF_C13
  vf_check(g_cover == ((start <= g_x && g_x < end) ? 1u : 0u), "probe index visited exactly once iff inside [start, end)");
#else
  vf_check(g_odd == 0, "every stripe chunk size is a multiple of the granularity (the range size is)");
#endif
}
