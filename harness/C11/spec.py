"""C11 (memory safe and leak free, including error paths) is cross-cutting: it is decided by CBMC's
pointer / bounds / division / shift checks and the memory-leak check switched on in the harnesses of
the other properties.  This spec gathers a representative set of those instances (the real code and
bounds are theirs; see the named harness directories) so that one command decides C11 for exactly the
listed kernels; every failure of class `mem` / `ub` in any of them is a C11 violation."""
import os, importlib.util

TECHNIQUE = ('bounded symbolic execution of LLVM IR lowered to C: CBMC/SAT with pointer, bounds, division-by-zero, '
             'shift and memory-leak assertions on, over the instances listed (borrowed from the per-property harnesses)')
ASSUMPTIONS = ['see the ASSUMPTIONS of the harness each instance is borrowed from (named in its bounds text)',
               'allocation failure is out of scope (malloc / operator new never return null)']
OUTSIDE = ('dispenso code not reached by the listed instances; histories longer than their bounds; pointer-formation-only '
           'undefined behaviour; uninitialised reads that CBMC does not flag')

_HERE = os.path.dirname(os.path.abspath(__file__))
# (property, instance name, tiers)
_PICK = [
    ('C37', 'copy_construct_b1', ('quick', 'thorough')),   # arena copy with a buffer count != table capacity
    ('C37', 'copy_assign_b1', ('thorough',)),
    ('C40', 'history', ('quick', 'thorough')),             # OpResult lifetimes
    ('C39', 's300a16', ('quick', 'thorough')),             # OnceFunction spill + cleanupNotRun paths
    ('C39', 's57a8', ('thorough',)),
    ('C42', None, ('quick', 'thorough')),                  # first pool-allocator instance: slabs released once
    ('C32', 'hist_A_erase1_p3', ('quick', 'thorough')),    # ConcurrentVector erase: vacated elements destroyed
    ('C32', 'hist_A_ins1_p3', ('thorough',)),
    ('C04', None, ('quick', 'thorough')),                  # cancelled task sets: packaged closures released
    ('C15', 'zero_pool_nowait_ptr', ('quick', 'thorough')),  # division by zero on a zero-thread pool
]


def _load(pid):
    p = os.path.join(_HERE, '..', pid, 'spec.py')
    sp = importlib.util.spec_from_file_location('spec_c11_' + pid, p)
    m = importlib.util.module_from_spec(sp)
    sp.loader.exec_module(m)
    return m


INSTANCES = []
for _pid, _name, _tiers in _PICK:
    try:
        _m = _load(_pid)
    except Exception:
        continue
    _cands = [i for i in _m.INSTANCES if (_name is None or i['name'] == _name)]
    if not _cands:
        continue
    _i = dict(_cands[0])
    _i['name'] = '%s_%s' % (_pid, _i['name'])
    _i['src'] = os.path.join('..', _pid, _i['src'])
    _i['tiers'] = list(_tiers)
    _i['bounds'] = '[borrowed from harness/%s] %s' % (_pid, _i.get('bounds', ''))
    _i.pop('thorough', None)
    INSTANCES.append(_i)
