TECHNIQUE = ('bounded symbolic execution of LLVM IR lowered to C: CBMC/SAT (cadical); sequential history harness against a '
             'reference deque + sequentialised step machine (symbolic scheduler over all atomic operations) with a ghost delivery ledger')
ASSUMPTIONS = [
    'only the owner thread calls try_push/try_pop/try_pop_into (documented); any thread may steal',
    'try_pop/try_steal may fail under contention (documented); exact success conditions are asserted only in quiescent states',
]
OUTSIDE = ('more threads / operations than stated; capacities other than 1, 2 and 4; wrap-around of the 64-bit top_/bottom_ counters '
           '(sequential instances start the counters at an arbitrary value in [-2^62, 2^62], concurrent ones at 0); '
           'weak-memory reorderings: the step-machine engine assumes sequential consistency for all atomics, so the seq_cst fences '
           'in try_pop/try_steal (which exist to forbid store-buffering between the bottom_ store and the top_ load) and the '
           'acquire/release/relaxed annotations are NOT stress-tested; interleavings finer than one atomic operation '
           '(the non-atomic slot read/write is executed together with the preceding atomic step); payload types other than '
           'int64_t, a raw pointer and a 16-byte POD')

def _seq(name, cap, payload, ops, tops, base=1, tiers=('quick', 'thorough')):
    return {'name': name, 'src': 'cl_seq.cpp', 'engine': 'cbmc',
            'defs': {'VF_CAP': cap, 'VF_PAYLOAD': payload, 'VF_OPS': ops, 'VF_BASE': base},
            'unwind': max(ops, cap + 1) + 1, 'timeout': 1500, 'tiers': list(tiers),
            'bounds': 'capacity %d; payload %s; %d (thorough: %d) symbolic owner/stealer operations from 5 kinds '
                      '(try_push, try_pop, try_pop_into, try_steal, try_steal_into) on one thread, then drain by pop or by steal; '
                      'top_/bottom_ start at an arbitrary common value' % (cap, ['int64_t', 'pointer', '16-byte POD'][payload], ops, tops),
            'thorough': {'defs': {'VF_CAP': cap, 'VF_PAYLOAD': payload, 'VF_OPS': tops, 'VF_BASE': base},
                         'unwind': max(tops, cap + 1) + 1}}

def _conc(name, cap, nsteal, ops, into, steps, tiers, osteal=0, nsteals=2, extra=None):
    d = {'name': name, 'src': 'cl_conc.cpp', 'engine': 'cbmc-seq', 'steps': steps, 'spin_loops': True,
         'defs': {'VF_CAP': cap, 'VF_STEALERS': nsteal, 'VF_OPS': ops, 'VF_INTO': into, 'VF_OWNER_STEAL': osteal,
                  'VF_NSTEALS': nsteals},
         'unwind': max(ops, cap + 1, 4) + 1, 'nthreads': nsteal + 1, 'timeout': 1700, 'tiers': list(tiers),
         'bounds': 'capacity %d; owner (thread 0): %d symbolic operations (push unique tag | %s%s), %d stealer thread(s) with %d x %s each, '
                   'every interleaving of the atomic operations with <= %d execution segments per thread, then quiescent drain by the owner'
                   % (cap, ops, 'try_pop_into' if into else 'try_pop', ' | owner steal' if osteal else '', nsteal, nsteals,
                      'try_steal_into' if into else 'try_steal', steps)}
    if extra:
        d.update(extra)
    return d

INSTANCES = [
    _seq('seq_cap2_i64', 2, 0, 5, 7),
    _seq('seq_cap4_ptr', 4, 1, 6, 8),
    _seq('seq_cap1_i64', 1, 0, 4, 6),
    _seq('seq_cap4_pod', 4, 2, 6, 8, tiers=('thorough',)),
    _seq('seq_cap2_ptr', 2, 1, 6, 8, tiers=('thorough',)),
    _conc('conc_cap2_s1', 2, 1, 4, 0, 4, ('quick', 'thorough')),
    _conc('conc_cap2_s1_into', 2, 1, 4, 1, 4, ('quick', 'thorough')),
    _conc('conc_cap2_s2', 2, 2, 4, 0, 4, ('thorough',)),
    _conc('conc_cap4_s2_into', 4, 2, 4, 1, 4, ('thorough',)),
    _conc('conc_cap1_s2', 1, 2, 4, 0, 4, ('thorough',)),
    _conc('conc_cap2_s1_ownersteal', 2, 1, 4, 0, 4, ('thorough',), osteal=1),
]
