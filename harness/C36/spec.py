TECHNIQUE = ('bounded symbolic execution of LLVM IR lowered to C: CBMC/SAT (cadical); sequential history harness against a '
             'reference deque + sequentialised step machine (symbolic scheduler over all atomic operations) with a ghost delivery ledger')
ASSUMPTIONS = [
    'only the owner thread calls try_push/try_pop/try_pop_into (documented); any thread may steal',
    'try_pop/try_steal may fail under contention (documented); exact success conditions are asserted only in quiescent states',
]
OUTSIDE = ('more threads / operations than stated; capacities other than 1, 2 and 4; wrap-around of the 64-bit top_/bottom_ counters '
           '(sequential instances start the counters at an arbitrary value in [-2^62, 2^62], concurrent ones at 0); '
           'weak-memory reorderings: the step-machine engine assumes sequential consistency for all atomics, so the seq_cst fences '
           'in try_pop/try_steal (which exist to forbid store-buffering between the bottom_ store and the top_ load) and the '
           'acquire/release/relaxed annotations are NOT stress-tested; interleavings finer than one atomic operation '
           '(the non-atomic slot read/write is executed together with the preceding atomic step); payload types other than '
           'int64_t, a raw pointer and a 16-byte POD')

BASETXT = {0: 'top_/bottom_ start at 0', 1: 'top_/bottom_ start at an arbitrary common value in [-2^62, 2^62]',
           2: 'top_/bottom_ start at -3 (counters cross 0, ring index of negative counters)'}

def _seq(name, cap, payload, ops, tops, base=1, tiers=('quick', 'thorough')):
    return {'name': name, 'src': 'cl_seq.cpp', 'engine': 'cbmc',
            'defs': {'VF_CAP': cap, 'VF_PAYLOAD': payload, 'VF_OPS': ops, 'VF_BASE': base, 'VF_BASEVAL': -3},
            'unwind': max(ops, cap + 1) + 1, 'timeout': 1500, 'tiers': list(tiers),
            'bounds': ('capacity %d; payload %s; %d (thorough: %d) symbolic owner/stealer operations from 5 kinds '
                      '(try_push, try_pop, try_pop_into, try_steal, try_steal_into) on one thread, then drain by pop or by steal; '
                      + BASETXT[base]) % (cap, ['int64_t', 'pointer', '16-byte POD'][payload], ops, tops),
            'thorough': {'defs': {'VF_CAP': cap, 'VF_PAYLOAD': payload, 'VF_OPS': tops, 'VF_BASE': base, 'VF_BASEVAL': -3},
                         'unwind': max(tops, cap + 1) + 1}}

KIND = {0: 'push', 1: 'pop', 2: 'owner-steal', 9: 'symbolic'}

def _conc(name, cap, nsteal, hist, into, steps, tiers, osteal=0, nsteals=2, tsteps=None, T='int64_t'):
    """hist: 'sym<N>' = N symbolic owner operations (loop form) or a tuple of fixed kinds (0 push, 1 pop, 9 symbolic)"""
    defs = {'VF_CAP': cap, 'VF_STEALERS': nsteal, 'VF_INTO': into, 'VF_OWNER_STEAL': osteal, 'VF_NSTEALS': nsteals, 'VF_T': T}
    if isinstance(hist, str):
        ops = int(hist[3:])
        defs.update({'VF_OPS': ops, 'VF_HIST_LOOP': 1})
        htxt = '%d symbolic operations (push unique tag | %s%s)' % (ops, 'try_pop_into' if into else 'try_pop', ' | owner steal' if osteal else '')
        unwind = max(ops, cap + 1, nsteals) + 1
    else:
        ops = len(hist)
        defs.update({'VF_OPS': ops, 'VF_HIST_LOOP': 0})
        for i in range(4):
            defs['VF_H%d' % i] = hist[i] if i < ops else 1
        htxt = 'history ' + ', '.join(KIND[k] for k in hist) + ' (push = try_push of a unique tag, pop = %s)' % ('try_pop_into' if into else 'try_pop')
        unwind = max(ops, cap + 1, nsteals) + 1
    d = {'name': name, 'src': 'cl_conc.cpp', 'engine': 'cbmc-seq', 'steps': steps, 'spin_loops': False,
         'defs': defs, 'unwind': unwind, 'nthreads': nsteal + 1, 'timeout': 1700, 'tiers': list(tiers),
         'bounds': 'capacity %d; payload %s; owner (thread 0): %s; %d stealer thread(s) with %d x %s each; every interleaving of the atomic '
                   'operations that needs <= %d%s scheduling rounds (one execution segment per thread and round); then quiescent drain by the owner'
                   % (cap, T, htxt, nsteal, nsteals, 'try_steal_into' if into else 'try_steal', steps,
                      (' (thorough: %d)' % tsteps) if tsteps else '')}
    if tsteps:
        d['thorough'] = {'steps': tsteps}
    return d

PPpp = (0, 0, 1, 1)
INSTANCES = [
    _seq('seq_cap2_i64', 2, 0, 5, 7, base=2),
    _seq('seq_cap4_ptr', 4, 1, 5, 7, base=0),
    _seq('seq_cap1_i64', 1, 0, 4, 6, base=2),
    _seq('seq_cap4_pod', 4, 2, 6, 6, base=2, tiers=('thorough',)),
    _seq('seq_cap2_sym_base', 2, 0, 4, 5, base=1, tiers=('thorough',)),
    # the classic last-element race: owner push, push, pop, pop  vs.  stealer steal, steal
    _conc('conc_cap2_s1_race', 2, 1, PPpp, 0, 3, ('quick', 'thorough'), tsteps=4),
    _conc('conc_cap2_s1_race_into', 2, 1, PPpp, 1, 3, ('quick', 'thorough'), tsteps=4),
    _conc('conc_cap2_s1_sym', 2, 1, 'sym4', 0, 4, ('thorough',)),
    _conc('conc_cap2_s1_into_sym', 2, 1, 'sym4', 1, 3, ('thorough',)),
    _conc('conc_cap2_s2_race', 2, 2, PPpp, 0, 4, ('thorough',)),
    _conc('conc_cap2_s2_sym', 2, 2, 'sym3', 0, 3, ('thorough',)),
    _conc('conc_cap4_s2_into', 4, 2, (0, 0, 9, 1), 1, 3, ('thorough',)),
    _conc('conc_cap1_s2', 1, 2, 'sym3', 0, 3, ('thorough',)),
    _conc('conc_cap2_s1_ownersteal', 2, 1, (0, 0, 2, 1), 0, 3, ('thorough',), osteal=1),
]
