// C36 (concurrent): ChaseLevDeque delivers every successfully pushed element to exactly one
// successful pop or steal; owner pops return the newest remaining element, steals come out in
// push order; the deque never holds more than capacity(); in the final quiescent state pop
// succeeds iff elements are left.
// Real code: ChaseLevDeque<VF_T,CAP>::{try_push, try_pop | try_pop_into, try_steal |
//            try_steal_into, size, empty, slotPtr}.
// Threads: thread 0 (vf_main) is the owner, VF_STEALERS stealer threads.
// Symbolic: the owner's operation kinds (push a fresh tag | pop [| owner steal]), the
// interleaving of all atomic operations of all threads.
// The bounds contain the classic last-element race (owner: push, push, pop, pop while a stealer
// steals twice).
#include <dispenso/chase_lev_deque.h>
#include "vf.h"

#ifndef VF_NSTEALS
#define VF_NSTEALS 2
#endif
#define NTAG (VF_OPS + 1)  // tags 1..VF_OPS

#ifndef VF_T
#define VF_T int64_t
#endif
using Deque = dispenso::ChaseLevDeque<VF_T, VF_CAP>;
static Deque D;

// ---- ghost ledger (only touched under VfAtomic) -------------------------------------------
static uint8_t g_offered[NTAG + 1];  // owner has started try_push(tag)
static uint8_t g_pushed[NTAG + 1];   // try_push(tag) reported success
static uint8_t g_got[NTAG + 1];      // number of successful pops/steals that returned tag
static int g_maxStolen;           // largest tag returned by a *completed* steal
// owner-local reference stack, indexed by the absolute bottom index (mirrors bottom_)
static VF_T g_loc[VF_OPS + 1];
static int32_t g_bot;

#define VF_MUL ((VF_T)(sizeof(VF_T) == 8 ? 0x100000001LL : 1))  // int64: both halves of the word carry the tag
static VF_T payload(VF_T tag) { return (VF_T)(tag * VF_MUL); }  // tag is a small constant

// ghost observer: exact snapshot of size() (plain reads of the two counters: no scheduling points)
static size_t ghost_size() {
  const int64_t b = D.bottom_._M_i, t = D.top_._M_i;
  return b > t ? (size_t)(b - t) : 0;
}

static int deliver(VF_T v) {  // caller holds VfAtomic; returns the tag (0 = not a tag)
  int tag = (int)(v & 0xff);  // payload(tag) carries the tag in its low byte
  if (tag < 1 || tag > VF_OPS || v != payload((VF_T)tag)) tag = 0;
  vf_check(tag != 0 && g_offered[tag], "pop/steal returned a value that was never pushed");
  if (tag != 0) {
    g_got[tag]++;
    vf_check(g_got[tag] <= 1, "the same element was delivered twice (pop and steal, or two steals)");
  }
  return tag;
}

static void note_steal(VF_T v, int maxBefore) {
  VfAtomic a;
  int tag = deliver(v);
  // FIFO: a steal that started after another steal had completed returns a later-pushed element
  vf_check(tag > maxBefore, "steals do not come out in push order (FIFO)");
  if (tag > g_maxStolen) g_maxStolen = tag;
}

static bool k_steal(VF_T* out) {
#if VF_INTO
  return D.try_steal_into(out);
#else
  return D.try_steal(*out);
#endif
}
static bool k_pop(VF_T* out) {
#if VF_INTO
  return D.try_pop_into(out);
#else
  return D.try_pop(*out);
#endif
}

static void steal_once() {
  int before;
  { VfAtomic a; before = g_maxStolen; }
  VF_T v = -1;
  if (k_steal(&v)) note_steal(v, before);
}

static void stealer1(void*) {
  for (int i = 0; i < VF_NSTEALS; ++i) steal_once();
}
#if VF_STEALERS >= 2
static void stealer2(void*) {
  for (int i = 0; i < VF_NSTEALS; ++i) steal_once();
}
#endif

static void owner_pop(bool quiescent, size_t expect) {
  VF_T v = -1;
  bool ok = k_pop(&v);
  VfAtomic a;
  if (quiescent) vf_check(ok == (expect > 0), "quiescent pop succeeds iff the deque is non-empty");
  if (ok) {
    deliver(v);
    vf_check(g_bot > 0 && v == g_loc[g_bot - 1], "owner pop did not return the newest remaining element");
    if (g_bot > 0) --g_bot;
  }
}

static int g_next = 1;  // next fresh tag (owner only)

static void owner_push() {
  const int tag = g_next++;
  size_t before;
  { VfAtomic a; g_offered[tag] = 1; before = ghost_size(); }
  bool ok = D.try_push(payload((VF_T)tag));
  VfAtomic a;
  // stealers only remove elements, so a push that finds the deque full saw >= capacity at its start
  vf_check(ok || before >= Deque::capacity(), "try_push failed although the deque was not full");
  if (ok) { g_pushed[tag] = 1; g_loc[g_bot++] = payload((VF_T)tag); }
  vf_check(ghost_size() <= Deque::capacity(), "the deque holds more than capacity() elements");
}

// one owner operation; kind 0 = push a fresh tag, 1 = pop, 2 = owner steal, 9 = symbolic choice
#define OWNER_OP(kind)                                                   \
  do {                                                                   \
    uint32_t op_ = (kind) == 9 ? vf_range_u32(0, VF_OWNER_STEAL ? 2 : 1) : (uint32_t)(kind); \
    if (op_ == 0) owner_push();                                          \
    else if (op_ == 1 || !VF_OWNER_STEAL) owner_pop(false, 0);           \
    else steal_once();                                                   \
  } while (0)

// Owner history.  VF_HIST_LOOP=1: VF_OPS operations, each a symbolic choice (loop form: measured to be
// the cheaper encoding for symbolic kinds).  Otherwise a straight-line template VF_H0..VF_H3 with
// kinds in {0,1,2,9} (fixed kinds make the segment bodies much smaller).
#ifndef VF_HIST_LOOP
#define VF_HIST_LOOP 0
#endif
#ifndef VF_H0
#define VF_H0 9
#define VF_H1 9
#define VF_H2 9
#define VF_H3 9
#endif

extern "C" void vf_main() {
  vf_spawn(stealer1, nullptr);
#if VF_STEALERS >= 2
  vf_spawn(stealer2, nullptr);
#endif
#if VF_HIST_LOOP
  for (int step = 0; step < VF_OPS; ++step) OWNER_OP(9);
#else
  OWNER_OP(VF_H0);
#if VF_OPS >= 2
  OWNER_OP(VF_H1);
#endif
#if VF_OPS >= 3
  OWNER_OP(VF_H2);
#endif
#if VF_OPS >= 4
  OWNER_OP(VF_H3);
#endif
#endif
  vf_join_all();
  if (vf_any_stuck()) return;
  // quiescent: everything pushed and not yet delivered is still inside; drain as owner
  size_t expect = 0;
  for (int t = 1; t <= VF_OPS; ++t) expect += (g_pushed[t] && !g_got[t]) ? 1 : 0;
  vf_check(D.size() == expect, "quiescent size() differs from the number of pushed-but-undelivered elements");
  vf_check(D.empty() == (expect == 0), "quiescent empty() disagrees with the ledger");
  for (int i = 0; i < VF_CAP + 1; ++i) {
    owner_pop(true, expect);
    if (expect > 0) --expect;
  }
  for (int t = 1; t <= VF_OPS; ++t) {
    vf_check(g_got[t] == g_pushed[t], "an element was lost or duplicated: not every successfully pushed element was delivered exactly once");
  }
}
