// C36 (quiescent semantics): single-threaded history on the real ChaseLevDeque against a
// reference deque.  One thread plays owner and stealer (try_steal is documented to be callable
// from the owner).  In a quiescent state: try_push fails iff the deque holds Capacity elements,
// try_pop/try_pop_into return the newest element and succeed iff non-empty, try_steal/
// try_steal_into return the oldest element and succeed iff non-empty, size()/empty() agree with
// the reference and size() never exceeds capacity().
// Real code: ChaseLevDeque<T,CAP>::{try_push, try_pop, try_pop_into, try_steal, try_steal_into,
//            size, empty, capacity, slotPtr}.
// Symbolic: the operation kind of every step; VF_BASE=1: the initial common value of top_/bottom_
// (arbitrary in [-2^62, 2^62], so ring-index wrap and negative / huge counters are covered);
// VF_BASE=2: the counters start at the constant VF_BASEVAL (cheaper).
#include <new>
#include <dispenso/chase_lev_deque.h>
#include "vf.h"

#ifndef VF_PAYLOAD
#define VF_PAYLOAD 0
#endif

#if VF_PAYLOAD == 0
using T = int64_t;
static T mk(int32_t tag) { return (int64_t)tag * 0x100000001LL; }
static bool is(const T& v, int32_t tag) { return v == (int64_t)tag * 0x100000001LL; }
#elif VF_PAYLOAD == 1
struct Node { int32_t tag; };
static Node g_nodes[16];
using T = Node*;
static T mk(int32_t tag) { g_nodes[tag].tag = tag; return &g_nodes[tag]; }
static bool is(const T& v, int32_t tag) { return v == &g_nodes[tag] && v->tag == tag; }
#else
struct Pod { int32_t a; int16_t b; int8_t c; int64_t d; };  // 16 bytes, trivially copyable
using T = Pod;
static T mk(int32_t tag) { Pod p; p.a = tag; p.b = (int16_t)(tag + 100); p.c = (int8_t)(-tag); p.d = ~(int64_t)tag; return p; }
static bool is(const T& v, int32_t tag) {
  return v.a == tag && v.b == (int16_t)(tag + 100) && v.c == (int8_t)(-tag) && v.d == ~(int64_t)tag;
}
#endif

using Deque = dispenso::ChaseLevDeque<T, VF_CAP>;
alignas(Deque) static char storage[sizeof(Deque)];

extern "C" void vf_main() {
  Deque* d = new (storage) Deque();
  const size_t cap = Deque::capacity();
  vf_check(cap == VF_CAP, "capacity() equals the template argument");
#if VF_BASE
  {  // the algorithm only relies on bottom_-top_; start both counters at a common value != 0
#if VF_BASE == 1
    int64_t base = (int64_t)vf_nondet_u64();  // arbitrary
    vf_assume(base >= -(int64_t)(1LL << 62) && base <= (int64_t)(1LL << 62));
#else
    int64_t base = (int64_t)(VF_BASEVAL);     // fixed (e.g. negative, so that the counters cross 0)
#endif
    d->top_.store(base, std::memory_order_relaxed);
    d->bottom_.store(base, std::memory_order_relaxed);
  }
#endif
  vf_check(d->empty() && d->size() == 0, "a fresh deque is empty");

  int32_t ref[16];
  size_t lo = 0, hi = 0;  // reference deque = ref[lo..hi)
  int32_t next = 1;
  for (int step = 0; step < VF_OPS; ++step) {
    uint32_t op = vf_range_u32(0, 4);
    const size_t n = hi - lo;
    if (op == 0) {
      bool ok = d->try_push(mk(next));
      vf_check(ok == (n < cap), "quiescent try_push succeeds iff the deque holds fewer than Capacity elements");
      if (ok) ref[hi++] = next;
      ++next;
    } else if (op == 1) {
      T out = mk(0);
      bool ok = d->try_pop(out);
      vf_check(ok == (n > 0), "quiescent try_pop succeeds iff the deque is non-empty");
      if (ok) { vf_check(is(out, ref[hi - 1]), "owner pop returns the newest remaining element"); --hi; }
    } else if (op == 2) {
      alignas(T) char buf[sizeof(T)];
      bool ok = d->try_pop_into(reinterpret_cast<T*>(buf));
      vf_check(ok == (n > 0), "quiescent try_pop_into succeeds iff the deque is non-empty");
      if (ok) { vf_check(is(*reinterpret_cast<T*>(buf), ref[hi - 1]), "owner pop returns the newest remaining element"); --hi; }
    } else if (op == 3) {
      T out = mk(0);
      bool ok = d->try_steal(out);
      vf_check(ok == (n > 0), "quiescent try_steal succeeds iff the deque is non-empty");
      if (ok) { vf_check(is(out, ref[lo]), "steal returns the oldest remaining element"); ++lo; }
    } else {
      alignas(T) char buf[sizeof(T)];
      bool ok = d->try_steal_into(reinterpret_cast<T*>(buf));
      vf_check(ok == (n > 0), "quiescent try_steal_into succeeds iff the deque is non-empty");
      if (ok) { vf_check(is(*reinterpret_cast<T*>(buf), ref[lo]), "steal returns the oldest remaining element"); ++lo; }
    }
    vf_check(d->size() == hi - lo, "size() equals the number of elements of the reference deque");
    vf_check(d->size() <= cap, "the deque never holds more than capacity() elements");
    vf_check(d->empty() == (hi == lo), "empty() agrees with the reference deque");
  }
  // drain: everything that is left comes out exactly once, oldest first by steal / newest first by pop
  bool by_steal = vf_nondet_bool();
  for (int i = 0; i < VF_CAP + 1; ++i) {
    T out = mk(0);
    bool ok = by_steal ? d->try_steal(out) : d->try_pop(out);
    vf_check(ok == (hi > lo), "drain: pop/steal succeed iff elements are left");
    if (ok) {
      if (by_steal) { vf_check(is(out, ref[lo]), "steal returns the oldest remaining element"); ++lo; }
      else { vf_check(is(out, ref[hi - 1]), "owner pop returns the newest remaining element"); --hi; }
    }
  }
  vf_check(d->empty() && hi == lo, "after the drain the deque is empty");
}
