// Contract model of dispenso::detail::alignedMalloc / alignedFree for the ConcurrentVector harnesses.
// The real functions (platform.h) are verified on their own under C44 (address-aware allocator);
// their pointer -> integer -> pointer round trip makes every later element access a whole-object
// byte update in CBMC, so the container harnesses call this model instead: a fresh block of at
// least `bytes` bytes, suitably aligned (object bases are maximally aligned in CBMC's encoding),
// released exactly once by alignedFree.  Blocks have one of two constant sizes (a block of symbolic
// size is an unbounded array for CBMC, which is hopeless); a request above the larger one fails the
// check below instead of being silently excluded.
// Include this header BEFORE <dispenso/concurrent_vector.h>.
#pragma once
#include <cstdlib>
#include <dispenso/platform.h>
#include "vf.h"
#ifndef VF_CV_SMALL_BLOCK
#define VF_CV_SMALL_BLOCK 64
#endif
#ifndef VF_CV_BIG_BLOCK
#define VF_CV_BIG_BLOCK 512
#endif
// VF_CV_HEADER (opt-in, bytes): the block starts VF_CV_HEADER bytes before the returned address, as with the real
// alignedMalloc (platform.h: malloc(bytes + alignment), the returned address is preceded by at least sizeof(void*)
// bytes of the same malloc block that hold the recovery pointer).  The pointer-caching iterator's operator-- forms
// `bucketStart_ - 1` and compares it with `bucketStart_`; CBMC compares offsets of out-of-object pointers as
// unsigned (start - 1 < start is false) and flags the relation, so without the header every backward bucket hop is
// a false alarm.  With the header `start - 1` is inside the object, exactly as it is inside the real malloc block
// (element size 4 <= 8).
#ifndef VF_CV_HEADER
#define VF_CV_HEADER 0
#endif
static size_t vfCvLastRequest;  // size of the most recent request (for layout checks)
static size_t vfCvRequests;     // number of requests so far
namespace dispenso {
namespace detail {
inline void* vfModelAlignedMalloc(size_t bytes, size_t /*alignment*/) {
  vfCvLastRequest = bytes;
  ++vfCvRequests;
  if (bytes <= VF_CV_SMALL_BLOCK) {
    return static_cast<char*>(::malloc(VF_CV_HEADER + VF_CV_SMALL_BLOCK)) + VF_CV_HEADER;
  }
  vf_check(bytes <= VF_CV_BIG_BLOCK, "harness bound: allocation request fits the modelled block size");
  return static_cast<char*>(::malloc(VF_CV_HEADER + VF_CV_BIG_BLOCK)) + VF_CV_HEADER;
}
inline void vfModelAlignedFree(void* p) {
  ::free(p ? static_cast<char*>(p) - VF_CV_HEADER : p);
}
} // namespace detail
} // namespace dispenso
#define alignedMalloc vfModelAlignedMalloc
#define alignedFree vfModelAlignedFree
