// C32 (history): any single-threaded sequence of ConcurrentVector operations yields the same
// contents, size and returned positions as the same sequence on a reference vector (ghost array),
// and every element constructed is destroyed exactly once (lifetime counters of tracked.h).
//
// Real code driven: ConcurrentVector<Elem, Traits>::{ctor(), ctor(n, value), copy ctor, move ctor,
//   operator=(const&), operator=(&&), assign(n, v), assign(It, It), reserve, resize(n), resize(n, v),
//   clear, shrink_to_fit, ~ConcurrentVector, insert(pos, const T&), insert(pos, T&&),
//   insert(pos, n, v), insert(pos, It, It), erase(pos), erase(first, last), push_back(const T&),
//   push_back(T&&), emplace_back, grow_by_generator, grow_by(n, v), grow_by(n), grow_by(It, It),
//   grow_to_at_least(n), grow_to_at_least(n, v), pop_back, operator[], begin/end/cbegin/cend,
//   size, empty, front, back, swap, capacity, operator==, operator<}, both iterator kinds (++, --, +, -, +=,
//   difference, comparison, dereference, operator[]), ConVecBuffer (inline and heap buffer tables, all
//   three realloc strategies), cv::alloc/dealloc -> detail::alignedMalloc/alignedFree.
//
// Symbolic: the history (VF_OPS operations: kind, positions, counts, values), the initial contents
// of the second vector.
#include <new>
#include <utility>
#include "cv_alloc_model.h"
#include <dispenso/concurrent_vector.h>
#include "tracked.h"

VfCounters g_cnt;

struct Elem : Tracked {
  Elem() noexcept : Tracked(-1) {}
  explicit Elem(int32_t x) noexcept : Tracked(x) {}
};
static inline bool operator==(const Elem& a, const Elem& b) { return a.v == b.v; }
static inline bool operator<(const Elem& a, const Elem& b) { return a.v < b.v; }

// Smallest first bucket (1 element; buckets 1,1,2,4,8,...) and a small buffer table.  The size
// traits are supplied by specialising the documented default traits template for the element type
// (a third template argument other than the default does not compile, see NOTES.md).
namespace dispenso {
template <>
struct DefaultConcurrentVectorSizeTraits<Elem> {
  static constexpr size_t kDefaultCapacity = 2;
  static constexpr size_t kMaxVectorSize = 32;
};
} // namespace dispenso

using dispenso::ConcurrentVectorReallocStrategy;
struct TraitsA {  // tests/concurrent_vector_test_common_types.h TestTraitsA
  static constexpr bool kPreferBuffersInline = false;
  static constexpr ConcurrentVectorReallocStrategy kReallocStrategy =
      ConcurrentVectorReallocStrategy::kHalfBufferAhead;
  static constexpr bool kIteratorPreferSpeed = false;
};
struct TraitsB {  // TestTraitsB
  static constexpr bool kPreferBuffersInline = true;
  static constexpr ConcurrentVectorReallocStrategy kReallocStrategy =
      ConcurrentVectorReallocStrategy::kFullBufferAhead;
  static constexpr bool kIteratorPreferSpeed = true;
};
struct TraitsC {  // heap buffer table + as-needed + fast iterator
  static constexpr bool kPreferBuffersInline = false;
  static constexpr ConcurrentVectorReallocStrategy kReallocStrategy =
      ConcurrentVectorReallocStrategy::kAsNeeded;
  static constexpr bool kIteratorPreferSpeed = true;
};
struct TraitsD {  // inline table + half ahead + compact iterator
  static constexpr bool kPreferBuffersInline = true;
  static constexpr ConcurrentVectorReallocStrategy kReallocStrategy =
      ConcurrentVectorReallocStrategy::kHalfBufferAhead;
  static constexpr bool kIteratorPreferSpeed = false;
};

#ifndef VF_TRAITS
#define VF_TRAITS 0
#endif
#if VF_TRAITS == 0
using Traits = dispenso::DefaultConcurrentVectorTraits;
#elif VF_TRAITS == 1
using Traits = TraitsA;
#elif VF_TRAITS == 2
using Traits = TraitsB;
#elif VF_TRAITS == 3
using Traits = TraitsC;
#else
using Traits = TraitsD;
#endif
using Vec = dispenso::ConcurrentVector<Elem, Traits>;

#ifndef VF_OPS
#define VF_OPS 3
#endif
#ifndef VF_MAXN
#define VF_MAXN 6
#endif
// bit i of VF_MASKk set => operation kind i may occur as the k-th operation of the history
#ifndef VF_MASK0
#define VF_MASK0 0xffffffffu
#endif
#ifndef VF_MASK1
#define VF_MASK1 0xffffffffu
#endif
#ifndef VF_MASK2
#define VF_MASK2 0xffffffffu
#endif
#ifndef VF_MASK3
#define VF_MASK3 0xffffffffu
#endif
#define NKINDS 26

struct Ghost {
  int32_t a[VF_MAXN + 1];
  uint32_t n;
};

static Vec* vec[2];  // the two vectors are typed locals of vf_main
static Ghost gh[2];
static int32_t leaked;  // lifetime imbalance already reported (stays 0 on correct code)

static void g_insert(Ghost& g, uint32_t p, uint32_t cnt, int32_t x) {
  for (uint32_t i = g.n; i > p; --i) {
    if (i - 1 + cnt <= VF_MAXN) g.a[i - 1 + cnt] = g.a[i - 1];
  }
  for (uint32_t i = 0; i < cnt; ++i) g.a[p + i] = x + (int32_t)0;
  g.n += cnt;
}
static void g_erase(Ghost& g, uint32_t f, uint32_t l) {
  uint32_t cnt = l - f;
  for (uint32_t i = l; i < g.n; ++i) g.a[i - cnt] = g.a[i];
  g.n -= cnt;
}
static void g_resize(Ghost& g, uint32_t n, int32_t x) {
  for (uint32_t i = g.n; i < n; ++i) g.a[i] = x;
  g.n = n;
}

static void contents(int k) {
  Vec& v = *vec[k];
  Ghost& g = gh[k];
  vf_check(v.size() == g.n, "size() equals the reference size");
  vf_check(v.empty() == (g.n == 0), "empty() agrees with the reference");
#ifdef VF_PROBE
  // one symbolic probe index stands for "for all i < size"
  uint32_t i = vf_range_u32(0, VF_MAXN - 1);
  if (i < g.n) vf_check(v[i].v == g.a[i], "operator[] returns the reference contents");
#else
  for (uint32_t i = 0; i < VF_MAXN; ++i) {
    if (i < g.n) vf_check(v[i].v == g.a[i], "operator[] returns the reference contents");
  }
#endif
}

#define LIFE(label)                                                                       \
  do {                                                                                    \
    vf_check(g_cnt.live == (int32_t)(gh[0].n + gh[1].n) + leaked, label);                 \
    leaked = g_cnt.live - (int32_t)(gh[0].n + gh[1].n);                                   \
  } while (0)

struct Gen {
  int32_t* next;
  Elem operator()() { return Elem((*next)++); }
};

template <uint32_t MASK>
static void step() {
  Vec& v = *vec[0];
  Vec& w = *vec[1];
  Ghost& g = gh[0];
  Ghost& h = gh[1];
  uint32_t op = vf_range_u32(0, NKINDS - 1);
  int32_t x = (int32_t)vf_range_u32(0, 100);
  uint32_t n = g.n;
  switch (op) {
    case 0: {
      if (!((MASK >> 0) & 1u)) {
        vf_assume(false);
        break;
      }  // push_back(const T&)
      vf_assume(n < VF_MAXN);
      {
        Elem e(x);
        auto it = v.push_back(e);
        vf_check(it - v.begin() == (ssize_t)n, "push_back returns the position of the new element");
        vf_check((*it).v == x, "push_back: returned iterator refers to the new value");
      }
      g_insert(g, n, 1, x);
      LIFE("push_back(const T&): live objects == size");
      break;
    }
    case 1: {
      if (!((MASK >> 1) & 1u)) {
        vf_assume(false);
        break;
      }  // push_back(T&&)
      vf_assume(n < VF_MAXN);
      {
        Elem e(x);
        auto it = v.push_back(std::move(e));
        vf_check(it - v.begin() == (ssize_t)n, "push_back returns the position of the new element");
      }
      g_insert(g, n, 1, x);
      LIFE("push_back(T&&): live objects == size");
      break;
    }
    case 2: {
      if (!((MASK >> 2) & 1u)) {
        vf_assume(false);
        break;
      }  // emplace_back
      vf_assume(n < VF_MAXN);
      auto it = v.emplace_back(x);
      vf_check(it - v.begin() == (ssize_t)n, "emplace_back returns the position of the new element");
      vf_check(it->v == x, "emplace_back: returned iterator refers to the new value");
      g_insert(g, n, 1, x);
      LIFE("emplace_back: live objects == size");
      break;
    }
    case 3: {
      if (!((MASK >> 3) & 1u)) {
        vf_assume(false);
        break;
      }  // grow_by(delta, t)
      uint32_t d = vf_range_u32(0, VF_MAXN);
      vf_assume(n + d <= VF_MAXN);
      {
        Elem e(x);
        auto it = v.grow_by(d, e);
        vf_check(it - v.begin() == (ssize_t)n, "grow_by returns the start of the grown range");
      }
      g_insert(g, n, d, x);
      LIFE("grow_by(n, value): live objects == size");
      break;
    }
    case 4: {
      if (!((MASK >> 4) & 1u)) {
        vf_assume(false);
        break;
      }  // grow_by(delta): default-constructed elements
      uint32_t d = vf_range_u32(0, VF_MAXN);
      vf_assume(n + d <= VF_MAXN);
      auto it = v.grow_by(d);
      vf_check(it - v.begin() == (ssize_t)n, "grow_by returns the start of the grown range");
      g_insert(g, n, d, -1);
      LIFE("grow_by(n): live objects == size");
      break;
    }
    case 5: {
      if (!((MASK >> 5) & 1u)) {
        vf_assume(false);
        break;
      }  // grow_by_generator
      uint32_t d = vf_range_u32(0, VF_MAXN);
      vf_assume(n + d <= VF_MAXN);
      int32_t next = x;
      auto it = v.grow_by_generator(d, Gen{&next});
      vf_check(it - v.begin() == (ssize_t)n, "grow_by_generator returns the start of the grown range");
      for (uint32_t i = 0; i < VF_MAXN; ++i) {
        if (i < d) g.a[n + i] = x + (int32_t)i;
      }
      g.n = n + d;
      LIFE("grow_by_generator: live objects == size");
      break;
    }
    case 6: {
      if (!((MASK >> 6) & 1u)) {
        vf_assume(false);
        break;
      }  // grow_to_at_least(n) / (n, t)
      uint32_t m = vf_range_u32(1, VF_MAXN);
      bool withValue = vf_nondet_bool();
      if (withValue) {
        Elem e(x);
        auto it = v.grow_to_at_least(m, e);
        vf_check(it - v.begin() == (ssize_t)(m > n ? n : m - 1),
                 "grow_to_at_least returns the start of the grown range, or element n-1 if nothing grew");
      } else {
        auto it = v.grow_to_at_least(m);
        vf_check(it - v.begin() == (ssize_t)(m > n ? n : m - 1),
                 "grow_to_at_least returns the start of the grown range, or element n-1 if nothing grew");
      }
      if (m > n) g_resize(g, m, withValue ? x : -1);
      LIFE("grow_to_at_least: live objects == size");
      break;
    }
    case 7: {
      if (!((MASK >> 7) & 1u)) {
        vf_assume(false);
        break;
      }  // insert(pos, const T&)
      vf_assume(n < VF_MAXN);
      uint32_t p = vf_range_u32(0, n);
      {
        Elem e(x);
        auto it = v.insert(v.cbegin() + p, e);
        vf_check(it - v.begin() == (ssize_t)p, "insert returns the position of the inserted element");
      }
      g_insert(g, p, 1, x);
      LIFE("insert(pos, const T&): live objects == size (the slot is constructed exactly once)");
      break;
    }
    case 8: {
      if (!((MASK >> 8) & 1u)) {
        vf_assume(false);
        break;
      }  // insert(pos, T&&)
      vf_assume(n < VF_MAXN);
      uint32_t p = vf_range_u32(0, n);
      {
        Elem e(x);
        auto it = v.insert(v.cbegin() + p, std::move(e));
        vf_check(it - v.begin() == (ssize_t)p, "insert returns the position of the inserted element");
      }
      g_insert(g, p, 1, x);
      LIFE("insert(pos, T&&): live objects == size (the slot is constructed exactly once)");
      break;
    }
    case 9: {
      if (!((MASK >> 9) & 1u)) {
        vf_assume(false);
        break;
      }  // insert(pos, count, value)
      uint32_t d = vf_range_u32(0, VF_MAXN);
      vf_assume(n + d <= VF_MAXN);
      uint32_t p = vf_range_u32(0, n);
      {
        Elem e(x);
        auto it = v.insert(v.cbegin() + p, (size_t)d, e);
        vf_check(it - v.begin() == (ssize_t)p, "insert returns the position of the first inserted element");
      }
      g_insert(g, p, d, x);
      LIFE("insert(pos, count, value): live objects == size");
      break;
    }
    case 10: {
      if (!((MASK >> 10) & 1u)) {
        vf_assume(false);
        break;
      }  // insert(pos, first, last) from the second vector's first d elements
      uint32_t d = vf_range_u32(0, 2);
      vf_assume(n + d <= VF_MAXN && d <= h.n);
      uint32_t p = vf_range_u32(0, n);
      auto it = v.insert(v.cbegin() + p, w.cbegin(), w.cbegin() + d);
      vf_check(it - v.begin() == (ssize_t)p, "insert returns the position of the first inserted element");
      g_insert(g, p, d, 0);
      for (uint32_t i = 0; i < 2; ++i) {
        if (i < d) g.a[p + i] = h.a[i];
      }
      LIFE("insert(pos, first, last): live objects == size");
      break;
    }
    case 11: {
      if (!((MASK >> 11) & 1u)) {
        vf_assume(false);
        break;
      }  // erase(pos), pos may be end()
      uint32_t p = vf_range_u32(0, n);
      auto it = v.erase(v.cbegin() + p);
      if (p < n) g_erase(g, p, p + 1);
      vf_check(it - v.begin() == (ssize_t)p, "erase(pos) returns the position following the removed element");
      LIFE("erase(pos): live objects == size (the vacated last element is destroyed)");
      break;
    }
    case 12: {
      if (!((MASK >> 12) & 1u)) {
        vf_assume(false);
        break;
      }  // erase(first, last)
      uint32_t f = vf_range_u32(0, n);
      uint32_t l = vf_range_u32(0, n);
      vf_assume(f <= l);
      auto it = v.erase(v.cbegin() + f, v.cbegin() + l);
      g_erase(g, f, l);
      vf_check(it - v.begin() == (ssize_t)f, "erase(first, last) returns the position following the removed range");
      LIFE("erase(first, last): live objects == size (the whole vacated tail is destroyed)");
      break;
    }
    case 13: {
      if (!((MASK >> 13) & 1u)) {
        vf_assume(false);
        break;
      }  // resize(len) / resize(len, value)
      uint32_t m = vf_range_u32(0, VF_MAXN);
      bool withValue = vf_nondet_bool();
      if (withValue) {
        Elem e(x);
        v.resize(m, e);
      } else {
        v.resize(m);
      }
      g_resize(g, m, withValue ? x : -1);
      LIFE("resize: live objects == size");
      break;
    }
    case 14: {
      if (!((MASK >> 14) & 1u)) {
        vf_assume(false);
        break;
      }  // reserve
      uint32_t m = vf_range_u32(0, 8);
      v.reserve(m);
      vf_check(v.capacity() >= m, "capacity() >= reserved amount");
      LIFE("reserve: live objects == size");
      break;
    }
    case 15: {
      if (!((MASK >> 15) & 1u)) {
        vf_assume(false);
        break;
      }  // pop_back
      vf_assume(n > 0);
      v.pop_back();
      g.n = n - 1;
      LIFE("pop_back: live objects == size");
      break;
    }
    case 16: {
      if (!((MASK >> 16) & 1u)) {
        vf_assume(false);
        break;
      }  // clear
      v.clear();
      g.n = 0;
      LIFE("clear: live objects == size");
      break;
    }
    case 17: {
      if (!((MASK >> 17) & 1u)) {
        vf_assume(false);
        break;
      }  // shrink_to_fit
      v.shrink_to_fit();
      vf_check(v.capacity() >= g.n && v.capacity() >= v.default_capacity(), "shrink_to_fit keeps enough capacity");
      LIFE("shrink_to_fit: live objects == size");
      break;
    }
    case 18: {
      if (!((MASK >> 18) & 1u)) {
        vf_assume(false);
        break;
      }  // copy assignment v = w
      v = w;
      g = h;
      LIFE("copy assignment: live objects == size");
      break;
    }
    case 19: {
      if (!((MASK >> 19) & 1u)) {
        vf_assume(false);
        break;
      }  // move assignment v = std::move(w): w is left valid with unspecified contents
      v = std::move(w);
      g = h;
      h.n = (uint32_t)w.size();
      vf_check(h.n == 0, "moved-from vector is empty (the target was cleared first)");
      LIFE("move assignment: live objects == size");
      break;
    }
    case 20: {
      if (!((MASK >> 20) & 1u)) {
        vf_assume(false);
        break;
      }  // swap
      if (vf_nondet_bool()) {
        v.swap(w);
      } else {
        swap(v, w);
      }
      Ghost t = g;
      g = h;
      h = t;
      LIFE("swap: live objects == size");
      break;
    }
    case 21: {
      if (!((MASK >> 21) & 1u)) {
        vf_assume(false);
        break;
      }  // assign(count, value)
      uint32_t m = vf_range_u32(0, VF_MAXN);
      {
        Elem e(x);
        v.assign((size_t)m, e);
      }
      g.n = 0;
      g_resize(g, m, x);
      LIFE("assign(count, value): live objects == size");
      break;
    }
    case 22: {
      if (!((MASK >> 22) & 1u)) {
        vf_assume(false);
        break;
      }  // assign(first, last) from the second vector
      v.assign(w.cbegin(), w.cend());
      g = h;
      LIFE("assign(first, last): live objects == size");
      break;
    }
    case 23: {
      if (!((MASK >> 23) & 1u)) {
        vf_assume(false);
        break;
      }  // copy construction of a temporary from v, compare, destroy
      {
        Vec c(v);
        vf_check(c.size() == g.n, "copy constructor: size");
        vf_check(c == v, "copy constructor: copy compares equal to the original");
        vf_check(g_cnt.live == (int32_t)(2 * g.n + h.n) + leaked, "copy constructor: one live object per element of the copy");
      }
      LIFE("copy constructor + destructor: live objects == size");
      break;
    }
    case 24: {
      if (!((MASK >> 24) & 1u)) {
        vf_assume(false);
        break;
      }  // move construction from v; the moved-from v must be empty and reusable
      {
        Vec t(std::move(v));
        vf_check(v.size() == 0, "moved-from vector is empty");
        vf_check(t.size() == g.n, "move constructor: size");
        for (uint32_t i = 0; i < VF_MAXN; ++i) {
          if (i < g.n) vf_check(t[i].v == g.a[i], "move constructor: contents");
        }
        w.swap(t);  // w takes the moved contents; t (w's old contents) is destroyed here
      }
      h = g;
      g.n = 0;
      LIFE("move constructor: live objects == size");
      break;
    }
    case 25: {
      if (!((MASK >> 25) & 1u)) {
        vf_assume(false);
        break;
      }  // grow_by(first, last) from the second vector's first d elements
      uint32_t d = vf_range_u32(0, 2);
      vf_assume(n + d <= VF_MAXN && d <= h.n);
      auto it = v.grow_by(w.cbegin(), w.cbegin() + d);
      vf_check(it - v.begin() == (ssize_t)n, "grow_by returns the start of the grown range");
      for (uint32_t i = 0; i < 2; ++i) {
        if (i < d) g.a[n + i] = h.a[i];
      }
      g.n = n + d;
      LIFE("grow_by(first, last): live objects == size");
      break;
    }
    default:
      vf_assume(false);
      break;
  }
  contents(0);
  contents(1);
}

// walk both iterator kinds over the final contents
static void walk(int k) {
  Vec& v = *vec[k];
  const Vec& cv = v;
  Ghost& g = gh[k];
  uint32_t i = 0;
  auto e = v.end();
  for (auto it = v.begin(); it != e && i <= VF_MAXN; ++it, ++i) {
    if (i < g.n) vf_check(it->v == g.a[i], "forward iteration visits the reference contents in order");
  }
  vf_check(i == g.n, "forward iteration visits exactly size() elements");
  i = g.n;
  for (auto it = cv.cend(); it != cv.cbegin() && i > 0;) {
    --it;
    --i;
    vf_check((*it).v == g.a[i], "backward iteration visits the reference contents in reverse order");
  }
  vf_check(i == 0, "backward iteration visits exactly size() elements");
  if (g.n > 0) {
    uint32_t a = vf_range_u32(0, VF_MAXN);
    uint32_t b = vf_range_u32(0, VF_MAXN);
    vf_assume(a < g.n && b < g.n);
    auto ia = v.begin() + a;
    auto ib = v.begin();
    ib += b;
    vf_check(ia->v == g.a[a] && ib->v == g.a[b], "begin() + k refers to element k");
    vf_check(ib - ia == (ssize_t)b - (ssize_t)a, "iterator difference equals index difference");
    vf_check((ia < ib) == (a < b) && (ia == ib) == (a == b) && (ia <= ib) == (a <= b),
             "iterator comparison agrees with index comparison");
    vf_check(ia[(ssize_t)b - (ssize_t)a].v == g.a[b], "iterator operator[] refers to element a + n");
    vf_check((ib - (ssize_t)b) == v.begin(), "iterator minus its index is begin()");
    vf_check(&*ia == &v[a], "iterator and operator[] refer to the same object");
    vf_check(v.front().v == g.a[0] && v.back().v == g.a[g.n - 1], "front()/back() are the first/last element");
  }
}

static void run() {
  Vec v0;
  vec[0] = &v0;
  gh[0].n = 0;
#ifdef VF_WCONST
  uint32_t m = VF_WCONST;
#else
  uint32_t m = vf_range_u32(0, 2);
#endif
  int32_t y = (int32_t)vf_range_u32(0, 100);
  Vec w0((size_t)m, Elem(y));
  vec[1] = &w0;
  gh[1].n = 0;
  g_resize(gh[1], m, y);
  contents(1);
  LIFE("sizing constructor: live objects == size");
#ifdef VF_PREFIX
  // concrete prefix: VF_PREFIX emplace_back calls (keeps the state concrete for the first symbolic operation)
  for (int32_t i = 0; i < VF_PREFIX; ++i) {
    vec[0]->emplace_back(10 + i);
    gh[0].a[i] = 10 + i;
    gh[0].n = (uint32_t)i + 1;
  }
  LIFE("prefix: live objects == size");
#endif
#if VF_OPS >= 1
  step<VF_MASK0>();
#endif
#if VF_OPS >= 2
  step<VF_MASK1>();
#endif
#if VF_OPS >= 3
  step<VF_MASK2>();
#endif
#if VF_OPS >= 4
  step<VF_MASK3>();
#endif
#ifndef VF_NOWALK
  walk(0);
#endif
  // comparisons against the reference
  {
    Ghost& g = gh[0];
    Ghost& h = gh[1];
    bool eq = g.n == h.n;
    bool lt = false, decided = false;
    for (uint32_t i = 0; i < VF_MAXN; ++i) {
      if (i < g.n && i < h.n) {
        if (g.a[i] != h.a[i]) {
          eq = false;
          if (!decided) {
            decided = true;
            lt = g.a[i] < h.a[i];
          }
        }
      }
    }
    if (!decided) lt = g.n < h.n;
    vf_check((*vec[0] == *vec[1]) == eq && (*vec[0] != *vec[1]) == !eq, "operator==/!= agree with the reference");
    vf_check((*vec[0] < *vec[1]) == lt, "operator< agrees with lexicographic order of the reference");
  }
}

extern "C" void vf_main() {
  run();  // both vectors are destroyed when run() returns
  vf_check(g_cnt.live == leaked, "every element is destroyed by the time the vectors are gone");
  vf_check(g_cnt.ctor == g_cnt.dtor + leaked, "constructions and destructions balance");
}
