TECHNIQUE = 'bounded symbolic execution of LLVM IR lowered to C: CBMC/SAT (cadical); bit-precise kernel + sequential history harness against a ghost array with lifetime counters'
ASSUMPTIONS = ['probe']
OUTSIDE = 'probe'
INSTANCES = [
    {'name': 'hist_default', 'src': 'history.cpp', 'engine': 'cbmc', 'defs': {'VF_TRAITS': 0, 'VF_OPS': 1}, 'unwind': 8,
     'timeout': 900, 'bounds': 'probe'},
]
