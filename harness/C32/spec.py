TECHNIQUE = ('bounded symbolic execution of LLVM IR lowered to C: CBMC/SAT (cadical); bit-precise index kernel + '
             'sequential operation harness against a ghost array with lifetime counters')
ASSUMPTIONS = [
    'detail::alignedMalloc/alignedFree are replaced by their contract (fresh, suitably aligned block of >= the requested '
    'size, constant-size CBMC objects of 64 / 512 bytes; larger requests fail a check) -- the real functions are decided under C44; '
    'their pointer->integer->pointer round trip turns every element access into a whole-object byte update in CBMC',
    'size traits {kDefaultCapacity 2, kMaxVectorSize 32} supplied by specialising DefaultConcurrentVectorSizeTraits<Elem> '
    '(first bucket = 1 element, 6-entry buffer table); reserve() arguments <= 8 so that no bucket beyond the table is requested',
    'operations are called within their documented preconditions (positions inside [begin, end], pop_back on a non-empty vector)',
    'kernel: bucketAndSubIndex reads only firstBucketShift_/firstBucketLen_, which are set to a symbolic shift s and 1 << s',
    'spill_* instances: every modelled block is preceded by 64 bytes of the same allocation (VF_CV_HEADER), as the real alignedMalloc '
    'block is preceded by >= 8 bytes holding the recovery pointer: the pointer-caching iterator forms bucketStart_ - 1 in operator-- '
    'and compares it with bucketStart_, which CBMC only evaluates like the hardware does for pointers inside the object',
    'spill_* instances, model options: std::atomic<T*> loads/stores (i64 + inttoptr/ptrtoint in the IR) are emitted pointer-typed '
    '(VF_PTR_ATOMICS); the fast iterator\'s `vb_ & ~63` is resolved to the vector registered by the harness under an asserted equality '
    '(VF_UNTAG, class rt -> inconclusive if it ever fails, never assumed); pointer differences are C pointer differences (ptrdiff)',
]
OUTSIDE = ('histories of more than one symbolic operation after the concrete prefix for most operation kinds (see NOTES.md: CBMC symbolic '
           'execution of the template code does not finish for 2 symbolic operations of all kinds within 400 s); sizes above VF_MAXN; '
           'the fast (pointer-caching) iterator beyond the spill_* instances (one growing operation with literal sizes on a concrete prefix '
           'of <= 3 elements, final size <= 5, first bucket 1 or 2; erase/shrink/whole-vector operations and symbolic histories are only decided '
           'for the compact iterator); element types other than the '
           'lifetime-tracked int payload; memory reuse by the allocator')

# operation kinds (bit numbers) of history.cpp
PUSH = 0x7                     # push_back(const&), push_back(&&), emplace_back
GROW = 0x78 | (1 << 25)        # grow_by(n,v), grow_by(n), grow_by_generator, grow_to_at_least, grow_by(first,last)
INS1 = 0x180                   # insert(pos, const&), insert(pos, &&)
INS2 = 0x600                   # insert(pos, n, v), insert(pos, first, last)
ERASE1 = 0x800                 # erase(pos)
ERASE2 = 0x1000                # erase(first, last)
SHRINK = 0x3E000               # resize, reserve, pop_back, clear, shrink_to_fit
WHOLE = 0x1FC0000              # copy=, move=, swap, assign(n,v), assign(first,last), copy ctor, move ctor
GROUPS = [('push', PUSH), ('grow', GROW), ('ins1', INS1), ('ins2', INS2), ('erase1', ERASE1), ('erase2', ERASE2),
          ('shrink', SHRINK), ('whole', WHOLE)]
TRAITS = {'A': 1, 'D': 4, 'def': 0, 'B': 2, 'C': 3}
TRAIT_TEXT = {'A': 'TestTraitsA (heap buffer table, kHalfBufferAhead, compact iterator)',
              'D': 'inline buffer table, kHalfBufferAhead, compact iterator',
              'def': 'DefaultConcurrentVectorTraits (inline table, kAsNeeded, fast iterator)',
              'B': 'TestTraitsB (inline table, kFullBufferAhead, fast iterator)',
              'C': 'heap table, kAsNeeded, fast iterator'}


def hist(tr, gname, mask, prefix, maxn, tiers, ops=1, mask1=None, timeout=600):
    defs = {'VF_TRAITS': TRAITS[tr], 'VF_OPS': ops, 'VF_PREFIX': prefix, 'VF_MAXN': maxn, 'VF_WCONST': 2, 'VF_PROBE': 1,
            'VF_MASK0': hex(mask)}
    if mask1 is not None:
        defs['VF_MASK1'] = hex(mask1)
    return {'name': 'hist_%s_%s_p%d%s' % (tr, gname, prefix, '' if ops == 1 else '_x%d' % ops), 'src': 'history.cpp',
            'engine': 'cbmc', 'defs': defs, 'unwind': maxn + 2, 'timeout': timeout, 'tiers': tiers,
            'bounds': ('%s; first bucket 1 element; concrete prefix of %d emplace_back calls, then %d symbolic operation(s) of kind group '
                       '"%s" with symbolic positions/counts/values; second vector of 2 elements (first bucket 2); size <= %d; '
                       'final walk with both iterator directions, random access and comparisons') % (
                           TRAIT_TEXT[tr], prefix, ops, gname, maxn)}


INSTANCES = [
    {'name': 'kernel', 'src': 'kernel.cpp', 'engine': 'cbmc', 'unwind': 8, 'timeout': 600,
     'bounds': 'none for the mapping: every index < 2^63, every first-bucket shift 0..62 (bit-vector semantics); '
               'documented-maximum check for the default size traits of a 4-byte element'},
]
KINDS = ['push_back_copy', 'push_back_move', 'emplace_back', 'grow_by_value', 'grow_by_default', 'grow_by_generator', 'grow_to_at_least',
         'insert_copy', 'insert_move', 'insert_count', 'insert_range', 'erase_pos', 'erase_range', 'resize', 'reserve', 'pop_back', 'clear',
         'shrink_to_fit', 'copy_assign', 'move_assign', 'swap', 'assign_count', 'assign_range', 'copy_ctor', 'move_ctor', 'grow_by_range']
# quick: compact-iterator traits A from a 3-element prefix; the groups that finish in the quick budget on a loaded machine
for g, m in (('push', PUSH), ('ins1', INS1), ('erase1', ERASE1)):
    INSTANCES.append(hist('A', g, m, 3, 4, ['quick', 'thorough']))
# thorough: one instance per operation kind (measured: a single kind needs 10..200 s, a group of 5..7 kinds does not finish in 600 s
# when the machine is shared), traits A and D, prefixes 0 and 3
for k, name in enumerate(KINDS):
    if (1 << k) & (PUSH | INS1 | ERASE1):
        continue
    INSTANCES.append(hist('A', name, 1 << k, 3, 4, ['thorough'], timeout=1200))
for g, m in (('push', PUSH), ('ins1', INS1), ('erase1', ERASE1), ('erase2', ERASE2)):
    INSTANCES.append(hist('A', g, m, 0, 4, ['thorough'], timeout=1200))
    INSTANCES.append(hist('D', g, m, 3, 4, ['thorough'], timeout=1200))


# ---------------------------------------------------------------------------------------------------------------------
# spill.cpp: pointer-caching (kIteratorPreferSpeed) iterator, ONE growing operation on a concrete prefix that ends 1-2 elements
# before a bucket boundary and spills into a bucket that has never been allocated.  All sizes literal (first bucket, prefix,
# count); insertion position literal (_atN) or symbolic over one literal scenario per value; values symbolic.
SCEN = {'insert_count': 0, 'insert_range': 1, 'insert_ilist': 2, 'grow_default': 3, 'grow_value': 4, 'resize': 5, 'emplace_x': 6,
        'push_x': 7, 'grow_ilist': 8, 'grow_range': 9, 'grow_gen': 10, 'grow_to_at_least': 11, 'insert_one_x': 12,
        'insert_vrange': 13}
SCEN_TEXT = {'insert_count': 'insert(pos, %d, value)', 'insert_range': 'insert(pos, first, last) from a %d-element array',
             'insert_ilist': 'insert(pos, initializer_list of %d)', 'grow_default': 'grow_by(%d)', 'grow_value': 'grow_by(%d, value)',
             'resize': 'resize(size + %d) / resize(size + %d, value)', 'emplace_x': '%d x emplace_back',
             'push_x': '%d x push_back(const&) / push_back(&&)', 'grow_ilist': 'grow_by(initializer_list of %d)',
             'grow_range': 'grow_by(first, last) from a %d-element array', 'grow_gen': 'grow_by_generator(%d, gen)',
             'grow_to_at_least': 'grow_to_at_least(size + %d) / (size + %d, value)',
             'insert_one_x': '%d x insert(pos, const&) / insert(pos, &&) at the same position',
             'insert_vrange': "insert(pos, first, last) from another ConcurrentVector's const_iterators (%d elements)"}
STRAITS = {'def': 0, 'A': 1, 'B': 2, 'C': 3, 'E': 4}
STRAIT_TEXT = {'def': 'DefaultConcurrentVectorTraits (inline table, kAsNeeded, pointer-caching iterator)',
               'A': 'TestTraitsA (heap table, kHalfBufferAhead, compact iterator)',
               'B': 'TestTraitsB (inline table, kFullBufferAhead, pointer-caching iterator)',
               'C': 'heap table, kAsNeeded, pointer-caching iterator',
               'E': 'inline table, kHalfBufferAhead, pointer-caching iterator'}


def spill(tr, scen, first, prefix, cnt, tiers, pos=None, timeout=900):
    defs = {'VF_TRAITS': STRAITS[tr], 'VF_SCEN': SCEN[scen], 'VF_FIRST': first, 'VF_PREFIX': prefix, 'VF_CNT': cnt, 'VF_CV_HEADER': 64}
    if pos is not None:
        defs['VF_POS'] = pos
    fb = max(first, 1)
    fb = 1 << (fb - 1).bit_length()
    ins = scen.startswith('insert')
    return {'name': 'spill_%s_%s_f%d_p%d_c%d%s' % (tr, scen, first, prefix, cnt, '' if pos is None else '_at%d' % pos),
            'src': 'spill.cpp', 'engine': 'cbmc', 'defs': defs, 'unwind': prefix + cnt + 2, 'timeout': timeout, 'tiers': tiers,
            # model options (see rt/cbmc_rt.h, vf/ir2c.py): atomic<T*> accesses stay pointer-typed; `vb_ & ~63` of the fast
            # iterator is resolved to the registered vector under a checked equality; pointer differences as C pointer differences
            'rt_defs': {'VF_PTR_ATOMICS': 1, 'VF_UNTAG': 64}, 'ptrdiff': True,
            'bounds': ('%s; first bucket %d element(s) (%s), buckets %d,%d,%d,..; concrete prefix of %d emplace_back calls, then ONE operation: '
                       '%s%s; element values symbolic; final size %d; afterwards size/empty/operator[] for every index, live objects == size, '
                       'forward and backward iterator walks, end()-begin(), front/back, begin()+(size-1), destruction balance; '
                       'CBMC pointer checks on every access of the real code') % (
                           STRAIT_TEXT[tr], fb, 'default constructor' if first == 0 else 'reserving constructor Vec(%d, ReserveTag)' % first,
                           fb, fb, 2 * fb, prefix, SCEN_TEXT[scen] % ((cnt,) * SCEN_TEXT[scen].count('%d')),
                           '' if not ins else (', position %d (literal)' % pos if pos is not None else
                                               ', position symbolic in 0..%d (one literal scenario per value)' % prefix),
                           prefix + cnt)}


# quick: default traits (inline table, kAsNeeded, fast iterator), first bucket 1 (buckets 1,1,2,4,8): a 3-element prefix ends one
# element before the boundary 4, a 2-element prefix two elements before it; bucket 3 (indices 4..7) has never been allocated
Q = ['quick', 'thorough']
T = ['thorough']
INSTANCES.append(spill('def', 'insert_count', 0, 3, 2, Q, pos=1))
INSTANCES.append(spill('def', 'insert_ilist', 0, 2, 3, Q, pos=2))
INSTANCES.append(spill('def', 'grow_default', 0, 3, 2, Q))
INSTANCES.append(spill('def', 'resize', 0, 3, 2, Q))
INSTANCES.append(spill('def', 'emplace_x', 0, 3, 2, Q))
INSTANCES.append(spill('def', 'push_x', 0, 3, 2, Q))
# thorough: symbolic position (scenario tree), the other source kinds / grow kinds, a first bucket of 2 through the real
# reserving constructor, the other three trait sets with the pointer-caching iterator
INSTANCES.append(spill('def', 'insert_range', 0, 2, 3, T, pos=0))
INSTANCES.append(spill('def', 'insert_count', 0, 3, 2, T, timeout=1800))
INSTANCES.append(spill('def', 'insert_count', 0, 2, 3, T, timeout=1800))
INSTANCES.append(spill('def', 'insert_range', 0, 3, 2, T, timeout=1800))
INSTANCES.append(spill('def', 'insert_ilist', 0, 3, 2, T, timeout=1800))
INSTANCES.append(spill('def', 'insert_vrange', 0, 3, 2, T, pos=1, timeout=1800))
INSTANCES.append(spill('def', 'insert_one_x', 0, 3, 2, T, pos=1, timeout=1800))
INSTANCES.append(spill('def', 'insert_count', 0, 1, 2, T, pos=0))
for sc in ('grow_value', 'grow_ilist', 'grow_range', 'grow_gen', 'grow_to_at_least'):
    INSTANCES.append(spill('def', sc, 0, 3, 2, T))
INSTANCES.append(spill('def', 'grow_default', 0, 2, 3, T))
INSTANCES.append(spill('def', 'insert_count', 2, 3, 2, T, pos=1, timeout=1800))
INSTANCES.append(spill('def', 'insert_count', 2, 2, 3, T, pos=0, timeout=1800))
INSTANCES.append(spill('def', 'grow_default', 2, 3, 2, T))
INSTANCES.append(spill('def', 'resize', 2, 2, 3, T))
# (heap table + fast iterator: insert_count p3 c2 at 1 did not finish in 280 s -- the table itself is a modelled byte block; only the
# growth operation is in the tier for trait set C)
INSTANCES.append(spill('E', 'insert_count', 0, 3, 2, T, pos=1, timeout=1800))
for tr in ('C', 'E'):
    INSTANCES.append(spill(tr, 'grow_default', 0, 3, 2, T))
# kFullBufferAhead allocates bucket b+1 when slot 0 of bucket b is written: a 1-element prefix + 4 elements spills into bucket 3
INSTANCES.append(spill('B', 'insert_count', 0, 1, 4, T, pos=0, timeout=1800))
INSTANCES.append(spill('B', 'grow_default', 0, 1, 4, T))
